#!/bin/bash
# Compiles corpus/src with the sandbox's javac 17 into corpus/classes (committed; the checks never run javac).
#   main   : -g -parameters (LocalVariableTable/LocalVariableTypeTable, MethodParameters), class version 61
#   main8  : --release 8  of the sources that compile there (no records/sealed/switch expressions)
#   main11 : --release 11 of the same subset (nest mates, indy string concat, ConstantDynamic-free)
#   mod, openmod : module-info (plain and `open`)
set -eu
export LC_ALL=C.UTF-8 LANG=C.UTF-8
HERE="$(cd "$(dirname "${BASH_SOURCE[0]}")" && pwd)"
OUT="$HERE/classes"
rm -rf "$OUT"
mkdir -p "$OUT/main" "$OUT/main8" "$OUT/main11" "$OUT/mod" "$OUT/openmod"
cd "$HERE/src/main"
javac -encoding UTF-8 -nowarn -g -parameters -d "$OUT/main" $(find . -name '*.java' | sort)
OLD=$(find . -name '*.java' | sort | grep -v -E '/(rec|modern)/|SwitchExpr' || true)
javac -encoding UTF-8 -nowarn -g --release 8 -d "$OUT/main8" $OLD 2>/dev/null || {
	# fall back to the files that individually compile at --release 8
	for f in $OLD; do javac -encoding UTF-8 -nowarn -g --release 8 -d "$OUT/main8" -cp "$OUT/main8" "$f" 2>/dev/null || true; done
}
javac -encoding UTF-8 -nowarn --release 11 -d "$OUT/main11" $OLD 2>/dev/null || {
	for f in $OLD; do javac -encoding UTF-8 -nowarn --release 11 -d "$OUT/main11" -cp "$OUT/main11" "$f" 2>/dev/null || true; done
}
cd "$HERE/src/mod" && javac -encoding UTF-8 -nowarn -g -d "$OUT/mod" $(find . -name '*.java' | sort)
cd "$HERE/src/openmod" && javac -encoding UTF-8 -nowarn -g -d "$OUT/openmod" $(find . -name '*.java' | sort)
find "$OUT" -name '*.class' | wc -l
du -sh "$OUT"
