package corpus.anno;

import corpus.anno.Annos.All;
import corpus.anno.Annos.AllClass;
import corpus.anno.Annos.Color;
import corpus.anno.Annos.Deep;
import corpus.anno.Annos.Marker;
import corpus.anno.Annos.Meta;
import corpus.anno.Annos.Nest;
import corpus.anno.Annos.Quiet;
import corpus.anno.Annos.Src;
import corpus.anno.Annos.Tag;

/**
 * Declaration annotations on classes, fields, methods, constructors and parameters, with every
 * element kind given explicitly once for RUNTIME (visible) and once for CLASS (invisible).
 */
@All(
    z = false, b = -1, c = '\uffff', s = Short.MIN_VALUE, i = Integer.MAX_VALUE, j = Long.MIN_VALUE,
    f = -0.0f, d = Double.NaN, str = "héllo 😀 \0 end", cls = AnnoUse.class, en = Color.RED,
    nest = @Nest(value = "v", deep = @Deep(value = 1, why = {"because"})),
    zs = {false, true, true}, bs = {0, 127, -128}, cs = {'x', '中'}, ss = {1, 2, 3}, is = {},
    js = {1L, 2L}, fs = {1.5f}, ds = {2.5, 3.5}, strs = {"a", "b", "c"},
    clss = {AnnoUse[].class, byte.class, AnnoUse.In.class}, ens = {Color.BLUE, Color.BLUE},
    nests = {@Nest("one"), @Nest(value = "two", deep = @Deep(2))})
@AllClass(
    z = true, b = 7, c = 'q', s = 8, i = 9, j = 10L, f = 11.0f, d = 12.0, str = "invisible", cls = int[].class,
    en = Color.GREEN, nest = @Nest("inv"), zs = {true}, bs = {1}, cs = {'c'}, ss = {1}, is = {70000},
    js = {1L << 40}, fs = {1e30f}, ds = {1e300}, strs = {"s"}, clss = {String.class}, ens = {Color.RED},
    nests = {@Nest("n1")})
@Tag("first")
@Tag("second")
@Meta
@Src
@Deprecated
public class AnnoUse {
    @All
    @AllClass
    public int field;

    @Marker
    @Quiet
    @Deprecated
    public static final String CONST = "const";

    @Tag("only")
    protected Object single;

    @Marker
    public AnnoUse(@All(i = 1) int a, int b, @AllClass(i = 2) @Marker String c) {
        this.field = a + b;
    }

    @Quiet
    AnnoUse() {
        this(0, 0, null);
    }

    /** Visible and invisible parameter annotations with gaps (parameter 1 has none). */
    @All(i = 5, str = "m")
    @AllClass(strs = {})
    public long m(@Marker int a, long b, @Quiet @Marker long c, @Quiet Object d) {
        @Marker int local = a; // declaration annotations on locals are never emitted
        return local + b + c;
    }

    /** Only invisible parameter annotations. */
    public void inv(@Quiet int a, @AllClass(c = 'z') int b) {}

    /** Only visible parameter annotations, on a static method, with varargs. */
    public static void vis(@Marker int a, @Tag("p") @Tag("q") String... rest) {}

    /**
     * Inner (non-static) class: the constructor descriptor has a leading outer-instance parameter
     * that the parameter-annotation attributes do not count.
     */
    public class In {
        final int x;

        public In(@Marker int x, @Quiet int y) {
            this.x = x + y + field;
        }
    }

    /** Enum constructor: two leading synthetic parameters (name, ordinal). */
    public enum E {
        @Marker A(1),
        @Deprecated @Quiet B(2);

        final int v;

        E(@Marker int v) {
            this.v = v;
        }
    }

    /** Annotated interface and abstract methods. */
    @Marker
    public interface I {
        @All(en = Color.BLUE)
        void run(@Marker Object o);

        @Quiet
        default int dflt(@Quiet int x) {
            return x;
        }
    }

    @Marker
    public abstract static class Abs {
        @Marker
        protected abstract void go(@All(z = false) int p);

        @Quiet
        public native int nat(@Marker int p);
    }
}
