package corpus.anno;

import java.lang.annotation.Documented;
import java.lang.annotation.ElementType;
import java.lang.annotation.Inherited;
import java.lang.annotation.Repeatable;
import java.lang.annotation.Retention;
import java.lang.annotation.RetentionPolicy;
import java.lang.annotation.Target;

/**
 * Holder of every annotation type used by the corpus. Each nested @interface becomes its own
 * class file with ACC_ANNOTATION and AnnotationDefault attributes on the element methods.
 */
public final class Annos {
    private Annos() {}

    public enum Color { RED, GREEN, BLUE }

    /** RUNTIME retention, every element kind, every one with a default (AnnotationDefault). */
    @Retention(RetentionPolicy.RUNTIME)
    @Documented
    @Inherited
    public @interface All {
        boolean z() default true;
        byte b() default 1;
        char c() default 'c';
        short s() default 2;
        int i() default 3;
        long j() default 4L;
        float f() default 5.5f;
        double d() default 6.25;
        String str() default "dflt";
        Class<?> cls() default Object.class;
        Color en() default Color.GREEN;
        Nest nest() default @Nest("n");
        boolean[] zs() default {true, false};
        byte[] bs() default {1, -2};
        char[] cs() default {'a', 'é', '\0'};
        short[] ss() default {};
        int[] is() default {1, 2, 3};
        long[] js() default {Long.MAX_VALUE};
        float[] fs() default {Float.NaN, Float.MIN_VALUE};
        double[] ds() default {Double.NEGATIVE_INFINITY, -0.0};
        String[] strs() default {"x", ""};
        Class<?>[] clss() default {int.class, String[].class, void.class, java.util.Map.Entry.class, long[][].class};
        Color[] ens() default {Color.RED, Color.BLUE};
        Nest[] nests() default {@Nest("a"), @Nest(value = "b", deep = @Deep(7))};
    }

    /** CLASS retention twin of {@link All}: ends up in RuntimeInvisibleAnnotations. */
    @Retention(RetentionPolicy.CLASS)
    public @interface AllClass {
        boolean z() default false;
        byte b() default -1;
        char c() default '\uffff';
        short s() default -2;
        int i() default -3;
        long j() default -4L;
        float f() default -5.5f;
        double d() default -6.25;
        String str() default "ümläut";
        Class<?> cls() default void.class;
        Color en() default Color.BLUE;
        Nest nest() default @Nest(value = "c", deep = @Deep(value = 2, why = {"x", "y"}));
        boolean[] zs() default {};
        byte[] bs() default {Byte.MIN_VALUE, Byte.MAX_VALUE};
        char[] cs() default {'\ud83d', '\ude00'};
        short[] ss() default {Short.MIN_VALUE, Short.MAX_VALUE};
        int[] is() default {Integer.MIN_VALUE, Integer.MAX_VALUE};
        long[] js() default {Long.MIN_VALUE, 0L};
        float[] fs() default {0f, -0f, Float.POSITIVE_INFINITY};
        double[] ds() default {Double.NaN, Double.MIN_VALUE, Double.MAX_VALUE};
        String[] strs() default {"\0", "😀"};
        Class<?>[] clss() default {};
        Color[] ens() default {Color.GREEN};
        Nest[] nests() default {};
    }

    /** Nested annotation with required element (no default) and a further nested level. */
    @Retention(RetentionPolicy.RUNTIME)
    public @interface Nest {
        String value();
        Deep deep() default @Deep;
    }

    @Retention(RetentionPolicy.RUNTIME)
    public @interface Deep {
        int value() default 0;
        String[] why() default {};
    }

    /** Marker, RUNTIME. */
    @Retention(RetentionPolicy.RUNTIME)
    public @interface Marker {}

    /** Marker, CLASS (the default retention when @Retention is absent). */
    public @interface Quiet {}

    /** SOURCE retention: must not appear in any class file. */
    @Retention(RetentionPolicy.SOURCE)
    public @interface Src {}

    /** Repeatable annotation and its container. */
    @Retention(RetentionPolicy.RUNTIME)
    @Repeatable(Tags.class)
    public @interface Tag {
        String value();
    }

    @Retention(RetentionPolicy.RUNTIME)
    public @interface Tags {
        Tag[] value();
    }

    /** RUNTIME type annotation. */
    @Retention(RetentionPolicy.RUNTIME)
    @Target({ElementType.TYPE_USE, ElementType.TYPE_PARAMETER})
    public @interface TU {
        int value() default 0;
    }

    /** CLASS-retention type annotation: RuntimeInvisibleTypeAnnotations. */
    @Retention(RetentionPolicy.CLASS)
    @Target({ElementType.TYPE_USE, ElementType.TYPE_PARAMETER})
    public @interface TC {
        String value() default "";
    }

    /** Only applicable to type parameter declarations. */
    @Retention(RetentionPolicy.RUNTIME)
    @Target(ElementType.TYPE_PARAMETER)
    public @interface TP {}

    /** Meta-annotated annotation type (annotation on an annotation type). */
    @All(i = 99)
    @Marker
    @Target({ElementType.ANNOTATION_TYPE, ElementType.TYPE})
    @Retention(RetentionPolicy.RUNTIME)
    public @interface Meta {}
}
