package corpus.anno;

import corpus.anno.Annos.TC;
import corpus.anno.Annos.TP;
import corpus.anno.Annos.TU;
import java.io.IOException;
import java.io.Serializable;
import java.io.StringReader;
import java.util.ArrayList;
import java.util.Collections;
import java.util.List;
import java.util.Map;
import java.util.function.Function;
import java.util.function.Supplier;

/**
 * Type annotations (JSR 308) on every target javac can place them on. The int value of each @TU
 * identifies the site; @TC is the CLASS-retention (invisible) twin.
 */
public class TypeAnnoUse<@TU(1) @TP T extends @TU(2) Object & @TC("cb") Comparable<@TU(3) T>, @TC("cp") U>
        extends @TU(4) ArrayList<@TU(5) T>
        implements @TU(6) Serializable, @TC("ci") Comparable<@TU(7) TypeAnnoUse<T, U>> {

    private static final long serialVersionUID = 1L;

    // ---- field types (0x13) with type paths ----
    @TU(10) String f1;
    @TU(11) String @TU(12) [] @TU(13) [] f2;
    Map<@TU(14) String, @TC("fl") List<@TU(15) ? extends @TU(16) Number>> f3;
    List<@TU(17) ? super @TC("fs") Integer> f4;
    @TU(18) Nesting.@TU(19) Mid<@TU(20) String>.@TU(21) In<@TU(22) Integer @TU(23) []> f5;
    Nesting.@TU(24) SN f6;
    List<@TU(25) int @TU(26) []> f7;
    Map.@TU(27) Entry<@TU(28) String, @TU(29) ?> f8;
    static @TC("sf") List<@TC("sfa") String> sf = new @TC("sfn") ArrayList<@TC("sfna") String>();
    Object init = new @TU(30) ArrayList<@TU(31) String @TU(32) []>(); // ends up in <init> code

    static {
        @TU(33) Object o = (@TU(34) Object) "clinit"; // ends up in <clinit> code
        sf.add(o.toString());
    }

    /** Constructor "return" type (0x14), formal parameter (0x16), throws (0x17). */
    public @TU(40) TypeAnnoUse(@TU(41) T first) throws @TU(42) IllegalArgumentException {
        add(first);
    }

    /** Method type parameter (0x01), bound (0x12), return (0x14), receiver (0x15), params (0x16), throws (0x17). */
    @SafeVarargs
    public final <@TU(50) V extends @TU(51) Number & @TC("mb") Comparable<@TU(52) V>, @TP W> @TU(53) V m(
            @TU(54) TypeAnnoUse<@TU(55) T, @TC("ru") U> this,
            @TU(56) V p1,
            List<@TU(57) ? extends @TU(58) W> p2,
            @TU(59) int @TC("va") ... rest)
            throws @TU(60) IOException, @TC("th") IllegalStateException {
        return p1;
    }

    public @TU(61) String @TU(62) [] arrayReturn() {
        return null;
    }

    public static <X> X generic(X x) {
        return x;
    }

    @Override
    public int compareTo(@TU(63) TypeAnnoUse<T, U> o) {
        return 0;
    }

    /** Code-level targets: 0x40..0x4B. */
    @SuppressWarnings({"unchecked", "rawtypes"})
    public Object body(Object o, List<String> in) throws Exception {
        @TU(70) String local = "x";
        @TU(71) List<@TU(72) String> @TU(73) [] la = null;
        @TC("ll") long wideLocal = 1L;
        try (@TU(74) StringReader r = new @TU(75) StringReader(local);
             @TC("r2") StringReader r2 = new StringReader("y")) {
            wideLocal += r.read() + r2.read();
        } catch (@TU(76) IOException | @TC("mc") RuntimeException e) {
            local = e.getMessage();
        } catch (@TU(77) Exception e) {
            throw e;
        }
        if (o instanceof @TU(78) String) {
            local += "s";
        }
        if (o instanceof @TU(79) List<@TU(80) ?> @TU(81) []) {
            local += "l";
        }
        Object n = new @TU(82) ArrayList<@TU(83) String>();
        Object arr = new @TU(84) String @TU(85) [3] @TU(86) [];
        Object arr1 = new @TC("a1") int @TC("a2") [] {1, 2};
        String s = (@TU(87) String) o;
        Object ic = (@TU(88) Serializable & @TU(89) Comparable<@TU(90) String>) s;
        Object ca = (@TU(91) List<@TU(92) String> @TU(93) []) la;
        Supplier<List<String>> sup = @TU(94) ArrayList<@TU(95) String>::new;
        Function<String, Integer> fn = @TU(96) String::length;
        Function<String, String> fn2 = TypeAnnoUse::<@TU(97) String>generic;
        Function<String, GenCtor> gc = GenCtor::<@TU(98) String>new;
        // javac 17.0.x crashes (TypeMetadata.Annotations.combine) when both the element type and the
        // array dimension of an array constructor reference are annotated; annotate them separately.
        Function<Integer, int[]> ac = @TU(99) int[]::new;
        Function<Integer, long[]> ac2 = long @TU(100) []::new;
        List<String> e = Collections.<@TU(101) String>emptyList();
        GenCtor g = new <@TU(102) String>GenCtor("x");
        Number num = this.<@TU(103) Integer, @TC("mi") Object>m(1, null);
        Runnable lam = () -> {
            @TU(104) String inner = (@TU(105) String) o;
            System.out.println(inner);
        };
        Function<String, String> lp = (@TU(106) String x) -> x;
        for (@TU(107) String it : in) {
            local += it;
        }
        for (@TU(108) int i = 0; i < 2; i++) {
            @TU(109) int shortLived = i + 1;
            wideLocal += shortLived;
        }
        Object anon = new @TU(110) Object() {
            @TU(111) int af;
        };
        Nesting.@TU(112) Mid<@TU(113) String>.@TU(114) In<String> deep =
            new Nesting().new @TU(115) Mid<@TU(116) String>().new @TU(117) In<String>();
        return new Object[] {n, arr, arr1, ic, ca, sup, fn, fn2, gc, ac, ac2, e, g, num, lam, lp, anon, deep, local, wideLocal};
    }

    /** Generic constructor for constructor-invocation / constructor-reference type arguments. */
    public static class GenCtor {
        public <Q> GenCtor(Q q) {}
    }

    /** Nested types for type paths of kind 1 (nested) combined with kind 3 (type argument). */
    public static class Nesting {
        class Mid<A> {
            class In<B> {
                In() {}

                void recv(@TU(123) Nesting.@TU(124) Mid<A>.@TU(125) In<@TU(126) B> this) {}
            }
        }

        static class SN {}
    }

    /**
     * Receiver parameter of an inner class constructor (the outer instance). Kept apart from
     * Nesting because javac 17 rejects the same declaration there ("not an enclosing class")
     * once Mid.In has been referenced from a field type earlier in the file.
     */
    public static class RecvOuter<A> {
        public class RecvIn<B> {
            RecvIn(@TU(120) RecvOuter<@TU(122) A> RecvOuter.this, int x) {}
        }
    }
}
