/** Annotated package: produces a synthetic interface class file named package-info. */
@Marker
@Quiet
package corpus.anno;

import corpus.anno.Annos.Marker;
import corpus.anno.Annos.Quiet;
