package corpus.consts;

import java.util.List;

/**
 * Constant pool and ConstantValue coverage: static final fields of every constant type (and
 * non-static final fields, which javac also gives a ConstantValue), boundary values for the
 * iconst/bipush/sipush/ldc ladder, long/double ldc2_w, floats incl. NaN/-0.0, class literals,
 * non-ASCII, supplementary-plane and U+0000 characters in strings and in identifiers.
 */
public class Constants {
    public static final boolean Z = true;
    public static final byte B = -128;
    public static final char C = 'é';
    public static final char C_MAX = '\uffff';
    public static final short S = -32768;
    public static final int I = 100000;
    public static final int I_MIN = Integer.MIN_VALUE;
    public static final long J = 0x123456789abcdefL;
    public static final long J_SMALL = 1L;
    public static final float F = 3.14159f;
    public static final float F_NAN = Float.NaN;
    public static final float F_NEG_ZERO = -0.0f;
    public static final double D = 2.718281828459045;
    public static final double D_INF = Double.POSITIVE_INFINITY;
    public static final double D_MIN = Double.MIN_VALUE;
    public static final String STR = "plain";
    public static final String STR_EMPTY = "";
    public static final String STR_UNICODE = "é ß 中 ☃ 😀 𝒳";
    public static final String STR_NUL = "a\0b";
    public static final String STR_SURROGATE_LONE = "lone \ud83d high";
    public static final String STR_FOLDED = "fold" + I + '_' + D + Z;
    /** Not a compile-time constant: no ConstantValue, assigned in <clinit>. */
    public static final Integer BOXED = 5;
    public static final String NOT_CONST = String.valueOf(1);
    public static final Class<?> CLASS_LITERAL = Constants.class;

    /** Instance finals with constant initialisers also get ConstantValue attributes. */
    public final int instanceConst = 77;
    public final String instanceStr = "inst";
    public final long instanceLong = 1L << 40;

    // identifiers outside ASCII: BMP letters and a supplementary-plane letter (U+1D4B3)
    public static final int ünï = 1;
    public int 变量 = 2;
    public static long 𝒳 = 3L;

    public static int méthode(int paramètre) {
        int lokál = paramètre + ünï;
        return lokál;
    }

    public static long 𝒳𝒳(long 𝒴) {
        return 𝒳 + 𝒴;
    }

    /** Class with a non-ASCII binary name: the file name itself is non-ASCII. */
    public static class Ünï {
        public String größe = "ß";
    }

    public static int intLadder() {
        int r = 0;
        r += -1;
        r += 0;
        r += 1;
        r += 2;
        r += 3;
        r += 4;
        r += 5;
        r ^= 6;          // bipush
        r ^= -128;       // bipush
        r ^= 127;
        r ^= 128;        // sipush
        r ^= -129;
        r ^= 32767;
        r ^= -32768;
        r ^= 32768;      // ldc
        r ^= -32769;
        r ^= 0x7fffffff;
        r ^= 0x80000000;
        r ^= 0xCAFEBABE;
        return r;
    }

    public static double wideConstants(long l, double d, float f) {
        long a = 0L;
        long b = 1L;
        long c = 2L;                    // ldc2_w
        long e = 0x7fffffffffffffffL;
        long g = Long.MIN_VALUE;
        float f0 = 0f;
        float f1 = 1f;
        float f2 = 2f;
        float f3 = 3f;                  // ldc
        float fn = Float.NaN;
        float fm = Float.MIN_VALUE;
        float fz = -0f;
        double d0 = 0.0;
        double d1 = 1.0;
        double d2 = 2.0;                // ldc2_w
        double dn = Double.NaN;
        double dz = -0.0;
        double dx = Double.MAX_VALUE;
        double de = 1e-320;             // subnormal
        return a + b + c + e + g + f0 + f1 + f2 + f3 + fn + fm + fz + d0 + d1 + d2 + dn + dz + dx + de + l * d / f;
    }

    public static Object literals() {
        Class<?>[] classes = {
            int.class, void.class, String.class, int[].class, String[][].class, Constants.class,
            Constants.Ünï.class, List.class, Override.class, Thread.State.class
        };
        String[] strings = {
            "", " ", "\t\n\r\b\f\"'\\", "\0", "\u0001\u007f\u0080߿ࠀ\uffff",
            "𐀀", "\udbff\udfff", "\udc00 lone low", "ñandú", "Ελληνικά", "日本語", "😀😀",
            "<init>", "()V", "Ljava/lang/Object;", "[[I", "a/b.c;d[e"
        };
        char[] chars = {'\0', 'a', 'ÿ', 'Ā', '\ud800', '\uffff'};
        return new Object[] {classes, strings, chars, Z, B, C, S, I, J, F, D, STR, STR_NUL, STR_UNICODE};
    }
}
