package corpus.flow;

import java.util.Iterator;
import java.util.List;

/**
 * Branch shapes: while / do-while / for with labelled break and continue, short-circuit
 * conditions, ternaries producing stack items at merge points (same_locals_1_stack_item frames),
 * locals going out of scope (chop frames) and coming into scope (append frames), and every
 * comparison opcode family (if<cond>, if_icmp<cond>, if_acmp<cond>, ifnull/ifnonnull,
 * lcmp, fcmpl/fcmpg, dcmpl/dcmpg).
 */
public class Loops {
    public static int labelled(int[][] grid, int stop) {
        int r = 0;
        outer:
        for (int i = 0; i < grid.length; i++) {
            int[] row = grid[i];
            middle:
            for (int j = 0; j < row.length; j++) {
                int k = 0;
                while (true) {
                    if (row[j] == stop) {
                        break outer;
                    }
                    if (row[j] < 0) {
                        continue outer;
                    }
                    if (k > row[j]) {
                        continue middle;
                    }
                    if (k == 5) {
                        break middle;
                    }
                    if ((k & 1) == 0) {
                        k++;
                        continue;
                    }
                    r += k++;
                    if (r > 1000) {
                        break;
                    }
                }
                r--;
            }
            r += 2;
        }
        return r;
    }

    public static int doWhile(int n) {
        int i = 0;
        int r = 1;
        do {
            int sq = i * i;
            do {
                r += sq;
                sq -= 3;
            } while (sq > 0);
            i++;
        } while (i < n && r < 100000);
        return r;
    }

    public static long manyLocalsScopes(int n) {
        long total = 0;
        for (int i = 0; i < n; i++) {
            int a = i;
            long b = a * 2L;
            double c = b / 3.0;
            if (c > 1) {
                float d = (float) c;
                String e = "e" + d;
                total += e.length();
            } else {
                Object f = c;
                total += f.hashCode();
            }
            total += a + b;
        }
        {
            int scoped1 = (int) total;
            total += scoped1;
        }
        {
            double scoped2 = total;
            total += (long) scoped2;
        }
        while (total > 10) {
            total /= 2;
        }
        return total;
    }

    public static int conditions(int a, int b, long l, float f, double d, Object o, Object p) {
        int r = 0;
        if (a == 0) r++;
        if (a != 0) r++;
        if (a < 0) r++;
        if (a >= 0) r++;
        if (a > 0) r++;
        if (a <= 0) r++;
        if (a == b) r++;
        if (a != b) r++;
        if (a < b) r++;
        if (a >= b) r++;
        if (a > b) r++;
        if (a <= b) r++;
        if (o == p) r++;
        if (o != p) r++;
        if (o == null) r++;
        if (p != null) r++;
        if (l < 5L) r++;
        if (l == 0L) r++;
        if (f < 1f) r++;
        if (f > 1f) r++;
        if (f == 0f) r++;
        if (d < 1.0) r++;
        if (d > 1.0) r++;
        if (d != 0.0) r++;
        if (a > 0 && b > 0 || l > 0 && !(f > 0 || d > 0)) r++;
        boolean x = a > b;
        boolean y = !x ^ (o != null);
        r += x ? 1 : y ? 2 : 3;
        r += (a > 0 ? o : p) == null ? 1 : 0;
        long m = a > b ? l : -l;
        double e = x ? d : f;
        return r + call(a > 0 ? 1 : 2, m > 0 ? "p" : "n", e > 0 ? 1.0 : 2.0);
    }

    private static int call(int a, String s, double d) {
        return a + s.length() + (int) d;
    }

    public static int iterators(List<List<String>> ll) {
        int r = 0;
        for (Iterator<List<String>> it = ll.iterator(); it.hasNext();) {
            List<String> l = it.next();
            if (l == null) {
                continue;
            }
            for (String s : l) {
                if (s.isEmpty()) {
                    break;
                }
                r += s.length();
            }
        }
        for (;;) {
            if (++r > 10) {
                break;
            }
        }
        return r;
    }

    /** Conditional/unconditional jumps out of nested loops into a common tail; infinite loop. */
    public static void spin(int[] a) {
        int i = 0;
        while (true) {
            if (i >= a.length) {
                return;
            }
            a[i] = i;
            i += 3;
        }
    }

    /** Constructor call with a ternary argument: full_frame with uninitialized item on the stack. */
    public static Object uninit(boolean b, String s) {
        return new StringBuilder(b ? s : "other").append(b ? 1 : 2L > 1 ? new Object() : null);
    }
}
