package corpus.flow;

import corpus.flow.Switches.Dir;

/**
 * Java 14+ switch forms: arrow statements, switch expressions with arrows and with yield,
 * multiple labels per case, exhaustive enum switch expressions (synthetic default throwing
 * IncompatibleClassChangeError / MatchException-free in 17), nesting inside expressions.
 */
public class SwitchExpr {
    public static int arrowDense(int x) {
        return switch (x) {
            case 0 -> 10;
            case 1 -> 11;
            case 2, 3 -> 12;
            case 4 -> {
                int t = x * x;
                yield t + 1;
            }
            default -> -1;
        };
    }

    public static String arrowSparse(int x) {
        return switch (x) {
            case -100000 -> "a";
            case 7 -> "b";
            case 100000 -> "c";
            default -> {
                if (x > 0) {
                    yield "pos";
                }
                yield "neg";
            }
        };
    }

    public static int oldStyleYield(String s) {
        int r = switch (s) {
            case "one":
                yield 1;
            case "two":
            case "three":
                int len = s.length();
                yield len;
            default:
                yield s.isEmpty() ? 0 : -1;
        };
        return r;
    }

    /** Exhaustive without default: javac adds a default that throws. */
    public static int exhaustive(Dir d) {
        return switch (d) {
            case NORTH, SOUTH -> 1;
            case EAST -> 2;
            case WEST -> 3;
        };
    }

    public static void arrowStatement(Dir d, StringBuilder sb) {
        switch (d) {
            case NORTH -> sb.append('n');
            case EAST, WEST -> {
                sb.append('e');
                sb.append('w');
            }
            default -> throw new IllegalArgumentException(d.name());
        }
    }

    public static long nested(int a, String b, Dir d) {
        return switch (a) {
            case 0 -> switch (b) {
                case "x" -> switch (d) {
                    case NORTH -> 1L;
                    default -> 2L;
                };
                case "y" -> 3L;
                default -> {
                    long t = 0;
                    for (int i = 0; i < a; i++) {
                        t += switch (i % 3) {
                            case 0 -> 1;
                            case 1 -> 2;
                            default -> 3;
                        };
                    }
                    yield t;
                }
            };
            case 1 -> 4L + switch (b.length()) {
                case 0 -> 0;
                default -> 1;
            };
            default -> -1L;
        };
    }

    /** Switch expression with operands already on the stack: javac spills them to locals. */
    public static String inExpression(int x, String prefix) {
        return prefix + x + switch (x) {
            case 1 -> "st";
            case 2 -> "nd";
            case 3 -> "rd";
            default -> "th";
        } + call(x, switch (prefix) {
            case "" -> 0;
            default -> {
                try {
                    yield Integer.parseInt(prefix);
                } catch (NumberFormatException e) {
                    yield -1;
                }
            }
        });
    }

    private static int call(int a, int b) {
        return a + b;
    }

    public static boolean one(int x) {
        return switch (x) {
            default -> true;
        };
    }

    public static boolean two(char c) {
        return switch (c) {
            case 'y' -> true;
            default -> false;
        };
    }
}
