package corpus.flow;

import java.util.concurrent.TimeUnit;

/**
 * Classic (statement) switches in every shape that changes the emitted instruction:
 * tableswitch, lookupswitch, string switch (hashCode lookupswitch + equals chain + second
 * switch), enum switch (synthetic $SwitchMap$ class), 0/1/2 arms, nesting, fall-through.
 */
public class Switches {
    public enum Dir { NORTH, EAST, SOUTH, WEST }

    public static int dense(int x) {
        switch (x) {
            case 0: return 10;
            case 1: return 11;
            case 2: return 12;
            case 3: return 13;
            case 4: return 14;
            case 5: return 15;
            default: return -1;
        }
    }

    /** Dense but starting at a negative value and with holes that are filled with default. */
    public static int denseHoles(int x) {
        int r = 0;
        switch (x) {
            case -2: r += 1; // fall through
            case -1: r += 2; break;
            case 1: r += 3; break;
            case 3:
            case 4: r += 4; break;
            default: r = 100;
        }
        return r;
    }

    public static int sparse(int x) {
        switch (x) {
            case Integer.MIN_VALUE: return 0;
            case -1000: return 1;
            case 0: return 2;
            case 1000: return 3;
            case 1000000: return 4;
            case Integer.MAX_VALUE: return 5;
            default: return 6;
        }
    }

    public static int noArms(int x) {
        switch (x) {
        }
        return x;
    }

    public static int onlyDefault(int x) {
        switch (x) {
            default: x++;
        }
        return x;
    }

    public static int oneArm(int x) {
        switch (x) {
            case 7: x = 0;
        }
        return x;
    }

    public static int oneArmAndDefault(int x) {
        switch (x) {
            case 7: return 1;
            default: return 2;
        }
    }

    public static int twoArms(int x) {
        switch (x) {
            case 1: return 10;
            case 2: return 20;
        }
        return 0;
    }

    public static int twoArmsFarApart(int x) {
        switch (x) {
            case 1: return 10;
            case 100: return 20;
        }
        return 0;
    }

    /** default in the middle, without break. */
    public static int defaultInMiddle(int x) {
        int r = 0;
        switch (x) {
            case 1: r = 1; break;
            default: r = 9;
            case 2: r += 2; break;
            case 3: r = 3;
        }
        return r;
    }

    public static int onChar(char c) {
        switch (c) {
            case 'a': return 1;
            case 'b': return 2;
            case 'c': return 3;
            case 'é': return 4;
            case '\uffff': return 5;
            default: return 0;
        }
    }

    public static int onByteShortBoxed(byte b, short s, Integer boxed, Character ch) {
        int r = 0;
        switch (b) {
            case -128: r++; break;
            case 127: r--; break;
        }
        switch (s) {
            case 1: case 2: case 3: r += s; break;
            case 30000: r = 0; break;
        }
        switch (boxed) {
            case 1: r += 1; break;
            case 2: r += 2; break;
            case 3: r += 3; break;
        }
        switch (ch) {
            case 'x': r *= 2; break;
            default: break;
        }
        return r;
    }

    public static int onString(String s) {
        switch (s) {
            case "alpha": return 1;
            case "beta": return 2;
            case "Aa": return 3;  // "Aa" and "BB" collide in hashCode
            case "BB": return 4;
            case "": return 5;
            case "héllo😀": return 6;
            default: return 0;
        }
    }

    public static int onStringOne(String s) {
        switch (s) {
            case "only": return 1;
        }
        return 0;
    }

    public static int onStringDefaultOnly(String s) {
        switch (s) {
            default: return s.length();
        }
    }

    public static int onEnum(Dir d) {
        switch (d) {
            case NORTH: return 1;
            case SOUTH: return -1;
            case EAST:
            case WEST: return 0;
        }
        return 99;
    }

    /** Enum from another compilation unit: a second $SwitchMap$ array in Switches$1. */
    public static long onForeignEnum(TimeUnit u) {
        switch (u) {
            case NANOSECONDS: return 1L;
            case DAYS: return 86400L * 1000000000L;
            default: return 0L;
        }
    }

    public static int nested(int a, String b, Dir d) {
        int r = 0;
        switch (a) {
            case 0:
                switch (b) {
                    case "x":
                        switch (d) {
                            case NORTH: r = 1; break;
                            default: r = 2;
                        }
                        break;
                    case "y": r = 3; break;
                }
                break;
            case 1:
                switch (a + r) {
                    case 1: r = 4; break;
                    case 1 << 20: r = 5; break;
                }
                // fall through
            case 2:
                r += 6;
                break;
            default:
                for (int i = 0; i < a; i++) {
                    switch (i & 3) {
                        case 0: continue;
                        case 1: r++; break;
                        case 2: r += 2; // fall through
                        case 3: r += 3;
                    }
                    if (r > 1000) {
                        break;
                    }
                }
        }
        return r;
    }

    /** Switch inside a loop with labelled break out of both. */
    public static int labelled(int[] xs) {
        int r = 0;
        outer:
        for (int x : xs) {
            switch (x) {
                case 0: break outer;
                case 1: continue outer;
                case 2: r += 2; break;
                default: r += x;
            }
            r++;
        }
        return r;
    }
}
