package corpus.flow;

import java.io.ByteArrayInputStream;
import java.io.Closeable;
import java.io.FileNotFoundException;
import java.io.IOException;
import java.io.InputStream;
import java.util.ArrayList;
import java.util.List;

/**
 * Exception tables: try/catch/finally in all nestings, multi-catch, try-with-resources (one, two,
 * null-able resources), synchronized blocks and methods, returns and breaks through finally.
 */
public class TryCatch {
    private final Object lock = new Object();
    private int counter;

    public int simple(String s) {
        try {
            return Integer.parseInt(s);
        } catch (NumberFormatException e) {
            return -1;
        }
    }

    public int catchOrder(Object o) {
        try {
            return o.hashCode() / ((String) o).length();
        } catch (ArithmeticException e) {
            return 1;
        } catch (ClassCastException | NullPointerException e) {
            return e instanceof NullPointerException ? 2 : 3;
        } catch (RuntimeException e) {
            return 4;
        } catch (Throwable t) {
            return 5;
        }
    }

    public int finallyOnly(int x) {
        try {
            x = 10 / x;
        } finally {
            counter++;
        }
        return x;
    }

    @SuppressWarnings("finally")
    public int returnsThroughFinally(int x) {
        try {
            if (x > 0) {
                return x;
            }
            throw new IllegalStateException("neg");
        } catch (IllegalStateException e) {
            return -x;
        } finally {
            counter += x;
            if (counter > 100) {
                return 100;
            }
        }
    }

    public long nested(int a, int b) throws IOException {
        long r = 0;
        try {
            try {
                r = a / b;
                try {
                    r += new int[a][b].length;
                } catch (NegativeArraySizeException e) {
                    r = -1;
                } finally {
                    r <<= 1;
                }
            } catch (ArithmeticException e) {
                try {
                    r = b / a;
                } finally {
                    r++;
                }
                throw new IOException("wrapped", e);
            } finally {
                try {
                    r += 1000;
                } catch (RuntimeException e) {
                    r = 0;
                }
            }
        } catch (FileNotFoundException e) {
            r = -2;
        } finally {
            for (int i = 0; i < 3; i++) {
                try {
                    if (i == a) {
                        continue;
                    }
                    if (i == b) {
                        break;
                    }
                    r += i;
                } finally {
                    r ^= i;
                }
            }
        }
        return r;
    }

    static class Res implements AutoCloseable {
        final String name;

        Res(String name) {
            this.name = name;
        }

        @Override
        public void close() throws IOException {
            if (name.isEmpty()) {
                throw new IOException("close");
            }
        }
    }

    public int twr(byte[] data) throws IOException {
        try (InputStream in = new ByteArrayInputStream(data)) {
            return in.read();
        }
    }

    public String twrTwo(String a, String b) {
        try (Res r1 = new Res(a); Res r2 = b == null ? null : new Res(b)) {
            return r1.name + (r2 == null ? "" : r2.name);
        } catch (IOException e) {
            return e.getMessage();
        } finally {
            counter--;
        }
    }

    public void twrNested(List<Closeable> out) throws Exception {
        try (Res outer = new Res("o")) {
            try (Res inner = new Res(outer.name)) {
                out.add(null);
            }
            try (Res empty = new Res("")) {
                // empty body
            }
        }
    }

    public int sync(int x) {
        synchronized (lock) {
            counter += x;
            synchronized (this) {
                if (x < 0) {
                    return -1;
                }
                x++;
            }
        }
        synchronized (TryCatch.class) {
            return counter + x;
        }
    }

    public synchronized void syncMethod() {
        counter = 0;
    }

    public static synchronized void staticSyncMethod() {}

    public int syncWithTry(List<String> l) {
        int r = 0;
        synchronized (l) {
            try {
                for (String s : l) {
                    synchronized (s) {
                        r += s.length();
                    }
                }
            } catch (RuntimeException e) {
                r = -1;
            } finally {
                l.clear();
            }
        }
        return r;
    }

    public void rethrow(boolean a) throws IOException, InterruptedException {
        try {
            if (a) {
                throw new IOException();
            }
            throw new InterruptedException();
        } catch (Exception e) {
            throw e; // precise rethrow
        }
    }

    public List<Throwable> emptyCatch() {
        List<Throwable> l = new ArrayList<>();
        try {
            l.add(null);
        } catch (UnsupportedOperationException ignored) {
        }
        try {
        } finally {
            l.clear();
        }
        return l;
    }

    public int ternaryInTry(int a, Object o) {
        try {
            return (a > 0 ? o : this).hashCode() + (o == null ? 1 : a < 0 ? 2 : 3);
        } catch (Exception e) {
            return a > 5 && o != null || a < -5 ? 1 : 0;
        }
    }
}
