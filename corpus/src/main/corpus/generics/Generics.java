package corpus.generics;

import java.io.Serializable;
import java.util.ArrayList;
import java.util.Collection;
import java.util.HashMap;
import java.util.Iterator;
import java.util.List;
import java.util.Map;
import java.util.function.Function;
import java.util.function.Supplier;

/**
 * Generic classes, fields and methods (Signature attributes) and every way of getting a bridge
 * method: generic interface implementation, covariant return, bounded type parameter erasure.
 */
public class Generics<T extends Comparable<? super T> & Serializable, U>
        implements Comparable<Generics<T, U>>, Supplier<T>, Iterable<U> {

    protected T value;
    public List<? extends Number>[] arr;
    public Map<String, List<? super Integer>> map = new HashMap<>();
    public U[] us;
    public static final List<String> NAMES = new ArrayList<>();
    Generics<T, U>.Inner<String> innerField;
    public Map.Entry<? extends T, ?> entry;
    public int notGeneric;

    public Generics(T value) {
        this.value = value;
    }

    /** Generic constructor. */
    public <C extends Collection<? extends T>> Generics(C values, U u) {
        for (T t : values) {
            this.value = t;
        }
    }

    /** Bridge: compareTo(Object). */
    @Override
    public int compareTo(Generics<T, U> o) {
        return value.compareTo(o.value);
    }

    /** Bridge: get()Object; erasure of T is Comparable, so a checkcast follows callers. */
    @Override
    public T get() {
        return value;
    }

    @Override
    public Iterator<U> iterator() {
        return new Iterator<U>() {
            int i;

            @Override
            public boolean hasNext() {
                return us != null && i < us.length;
            }

            @Override
            public U next() {
                return us[i++];
            }
        };
    }

    public <V extends Number & Comparable<V>, E extends Exception> V max(V a, V b) throws E {
        return a.compareTo(b) >= 0 ? a : b;
    }

    public static <K, V extends Collection<K>> Map<K, V> group(V values, Function<? super K, ? extends K> f) {
        Map<K, V> m = new HashMap<>();
        for (K k : values) {
            m.put(f.apply(k), values);
        }
        return m;
    }

    @SafeVarargs
    public static <A> List<A> listOf(A... as) {
        List<A> l = new ArrayList<>(as.length);
        for (A a : as) {
            l.add(a);
        }
        return l;
    }

    public class Inner<X> {
        X x;
        T outerT;

        public X getX() {
            return x;
        }

        public <Y extends X> void setX(Y y) {
            x = y;
            outerT = value;
        }
    }

    public abstract static class Base<R> implements Cloneable {
        abstract R make();

        R same(R r) {
            return r;
        }

        /** Covariant return over Object.clone(): bridge clone()Object. */
        @Override
        @SuppressWarnings("unchecked")
        protected Base<R> clone() throws CloneNotSupportedException {
            return (Base<R>) super.clone();
        }
    }

    public static class Derived extends Base<String> {
        /** Bridge make()Object. */
        @Override
        String make() {
            return "s";
        }

        /** Bridge same(Object)Object with a checkcast of the argument. */
        @Override
        String same(String s) {
            return s + s;
        }

        /** Two bridges: clone()Base and clone()Object. */
        @Override
        protected Derived clone() throws CloneNotSupportedException {
            return (Derived) super.clone();
        }
    }

    public interface Transformer<A, B> {
        B apply(A a);

        default <C> Transformer<A, C> then(Transformer<? super B, ? extends C> next) {
            return a -> next.apply(apply(a));
        }
    }

    public static class Len implements Transformer<String, Integer> {
        @Override
        public Integer apply(String s) {
            return s.length();
        }
    }

    public static class BoundedBox<N extends Number> {
        N n;

        N get() {
            return n;
        }

        void set(N n) {
            this.n = n;
        }
    }

    /** Bridges get()Number and set(Number). */
    public static class IntBox extends BoundedBox<Integer> {
        @Override
        Integer get() {
            return n == null ? 0 : n;
        }

        @Override
        void set(Integer n) {
            this.n = n + 1;
        }
    }

    /** Recursive bound and a raw-type use. */
    public static <E extends Enum<E>> E first(Class<E> c) {
        @SuppressWarnings("rawtypes")
        List raw = new ArrayList();
        E[] all = c.getEnumConstants();
        return all.length == 0 ? null : all[raw.size()];
    }
}
