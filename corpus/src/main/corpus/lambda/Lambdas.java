package corpus.lambda;

import java.io.Serializable;
import java.util.ArrayList;
import java.util.Arrays;
import java.util.Comparator;
import java.util.List;
import java.util.Map;
import java.util.TreeMap;
import java.util.concurrent.Callable;
import java.util.function.BiFunction;
import java.util.function.Function;
import java.util.function.IntBinaryOperator;
import java.util.function.IntFunction;
import java.util.function.Supplier;
import java.util.function.ToIntFunction;

/**
 * invokedynamic producers: lambdas (capturing, non-capturing, serializable, intersection-typed),
 * all four kinds of method reference, string concatenation (indy from --release 9 on,
 * StringBuilder chains under --release 8), enhanced for over arrays and Iterables, varargs.
 */
public class Lambdas {
    private int state = 7;
    private static int counter;

    interface TriFunction<A, B, C, R> {
        R apply(A a, B b, C c);
    }

    static int twice(int x) {
        return 2 * x;
    }

    int addState(int x) {
        return x + state;
    }

    public Object lambdas(int captured, String s) {
        Runnable nonCapturing = () -> counter++;
        Runnable capturingThis = () -> state++;
        IntBinaryOperator capturingLocal = (a, b) -> a * b + captured;
        Supplier<Supplier<String>> nested = () -> () -> s + captured;
        Callable<Long> boxed = () -> 42L;
        Comparator<String> cmp = (x, y) -> {
            int d = x.length() - y.length();
            return d != 0 ? d : x.compareTo(y);
        };
        Runnable serializable = (Runnable & Serializable) () -> System.out.println(s);
        Function<Integer, Integer> generic = x -> x + 1;
        TriFunction<Long, Double, String, String> wide = (l, d, t) -> t + l + d;
        return new Object[] {nonCapturing, capturingThis, capturingLocal, nested, boxed, cmp, serializable, generic, wide};
    }

    public Object methodRefs(String bound) {
        Function<Integer, Integer> staticRef = Lambdas::twice;
        Supplier<Integer> boundRef = bound::length;
        Function<Integer, Integer> boundThis = this::addState;
        Function<String, String> unbound = String::trim;
        ToIntFunction<Lambdas> unboundOwn = Lambdas::hashCode;
        Supplier<ArrayList<String>> ctor = ArrayList::new;
        Function<String, StringBuilder> ctorArg = StringBuilder::new;
        IntFunction<int[]> arrayCtor = int[]::new;
        IntFunction<String[][]> arrayCtor2 = String[][]::new;
        BiFunction<String, String, Boolean> unbound2 = String::equalsIgnoreCase;
        Function<Object[], List<Object>> varargsRef = Arrays::asList;
        Supplier<Inner> innerCtor = Inner::new;
        Function<Integer, String> superRef = new Sub()::callSuper;
        Runnable printer = System.out::println;
        Serializable ser = (Supplier<String> & Serializable) bound::toUpperCase;
        return new Object[] {staticRef, boundRef, boundThis, unbound, unboundOwn, ctor, ctorArg, arrayCtor,
            arrayCtor2, unbound2, varargsRef, innerCtor, superRef, printer, ser};
    }

    class Inner {
        int v = state;
    }

    static class Sup {
        String name(Integer i) {
            return "sup" + i;
        }
    }

    static class Sub extends Sup {
        @Override
        String name(Integer i) {
            return "sub" + i;
        }

        String callSuper(Integer i) {
            Function<Integer, String> f = super::name; // needs a synthetic lambda$ method
            return f.apply(i);
        }
    }

    /** String concatenation with every operand type and constants that need bootstrap arguments. */
    public String concat(boolean z, byte b, char c, short s, int i, long j, float f, double d, Object o, String str) {
        String a = "z=" + z + " b=" + b + " c=" + c + " s=" + s;
        String e = i + "" + j + f + d;
        String n = "obj:" + o + ", str:" + str + null + 1 + 2L + 'x' + 1.5f + 2.5 + true;
        // \u0001 and \u0002 are the recipe tag characters: javac must pass such constants as
        // extra static bootstrap arguments instead of inlining them in the recipe.
        String tagged = "\u0001" + i + "\u0002" + str + "mixed\u0001" + j;
        String acc = a;
        acc += e;
        acc += n + tagged;
        acc += i;
        String[] arr = {acc};
        arr[0] += c; // compound assignment on an array element
        this.text += arr[0]; // ... and on a field
        return arr[0] + "snow☃ astral😀 nul\0";
    }

    private String text = "";

    public static int sum(int... xs) {
        int t = 0;
        for (int x : xs) {
            t += x;
        }
        return t;
    }

    public static String join(String sep, Object... parts) {
        StringBuilder sb = new StringBuilder();
        for (Object p : parts) {
            if (sb.length() > 0) {
                sb.append(sep);
            }
            sb.append(p);
        }
        return sb.toString();
    }

    public int enhancedFor(List<String> list, long[] longs, int[][] grid, Map<String, Integer> map) {
        int n = sum() + sum(1) + sum(1, 2, 3);
        n += join(",").length() + join(",", 1, "two", 3.0).length();
        for (String s : list) {
            n += s.length();
        }
        for (long l : longs) {
            n += (int) l;
        }
        for (int[] row : grid) {
            for (int cell : row) {
                n += cell;
            }
        }
        for (Map.Entry<String, Integer> e : new TreeMap<>(map).entrySet()) {
            n += e.getKey().length() + e.getValue();
        }
        return n;
    }
}
