package corpus.misc;

import java.io.IOException;
import java.io.Serializable;
import java.util.concurrent.TimeoutException;

/**
 * Access flags and small attributes: Deprecated (annotation and javadoc tag), strictfp (ACC_STRICT
 * only below class file version 61), native, abstract, synchronized, varargs, transient,
 * volatile, final; Exceptions attribute; assert (synthetic $assertionsDisabled field);
 * uninitializedThis in stack map frames; static nested interface.
 */
@Deprecated
public abstract strictfp class Misc implements Serializable {
    private static final long serialVersionUID = 42L;

    @Deprecated
    public int oldField;

    /** @deprecated javadoc-only deprecation also sets the Deprecated attribute. */
    public int javadocDeprecated;

    public transient int trans;
    public volatile long vol;
    protected final Object fin;
    private static volatile transient Object both;

    protected Misc(int x) {
        fin = x;
    }

    /** `this(...)` with a branch in the argument: a frame containing uninitializedThis. */
    protected Misc(boolean b) {
        this(b ? 1 : 2);
    }

    /** Same for super(...) and an allocation inside the arguments. */
    public static class Child extends Misc {
        private static final long serialVersionUID = 43L;

        public Child(String s) {
            super(s == null ? 0 : new StringBuilder(s.isEmpty() ? "e" : s).length());
        }

        @Override
        public void abs() {}

        @Override
        protected Object varargsAbs(String... s) {
            return s;
        }
    }

    @Deprecated
    public void oldMethod() {}

    /**
     * @deprecated use something else
     */
    public void javadocDeprecatedMethod() {}

    public abstract void abs();

    protected abstract Object varargsAbs(String... s) throws IOException;

    public native int nat(long a, double b, Object c);

    public static native void staticNat() throws UnsatisfiedLinkError;

    public final synchronized strictfp double strict(double a, float b) {
        return a * b / 3.0;
    }

    public void thrower(int x) throws IOException, TimeoutException, IllegalArgumentException {
        if (x == 0) {
            throw new IOException("io");
        } else if (x == 1) {
            throw new TimeoutException();
        }
        assert x > 1 : "x=" + x;
        assert x < 100;
    }

    public <E extends Throwable> void genericThrows() throws E {}

    /** Static nested interface: ACC_STATIC only appears in the InnerClasses entry. */
    public static interface StaticIface {
        void f();

        strictfp interface StrictInner {
            default double d(double x) {
                return x * 2;
            }
        }
    }

    protected interface ProtIface {}

    private interface PrivIface {}

    static PrivIface priv() {
        both = null;
        return new PrivIface() {};
    }

    /** Empty class, default constructor only. */
    static class Empty {}

    /** Final class with private constructor and a static factory. */
    public static final class Singleton {
        private static final Singleton INSTANCE = new Singleton();

        private Singleton() {}

        public static Singleton get() {
            return INSTANCE;
        }
    }
}
