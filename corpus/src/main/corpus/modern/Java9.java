package corpus.modern;

import java.io.IOException;
import java.io.StringReader;
import java.util.ArrayList;
import java.util.Comparator;
import java.util.List;
import java.util.function.BiFunction;

/**
 * Language features of Java 9, 10 and 11 (compiles with --release 11 but not 8): private
 * interface methods (instance and static), try-with-resources on an existing variable, diamond
 * with anonymous classes, `var` locals and `var` lambda parameters.
 */
public class Java9 {
    public interface WithPrivate {
        int base();

        private int helper(int x) {
            return base() + x;
        }

        private static int staticHelper(int x) {
            return x * 2;
        }

        default int plusOne() {
            return helper(1);
        }

        static int twice(int x) {
            return staticHelper(x);
        }
    }

    public int twrOnVariable(String s) throws IOException {
        StringReader r = new StringReader(s);
        final StringReader r2 = new StringReader(s + s);
        try (r; r2) {
            return r.read() + r2.read();
        }
    }

    public Comparator<String> diamondAnon() {
        return new Comparator<>() {
            @Override
            public int compare(String a, String b) {
                return a.compareTo(b);
            }
        };
    }

    public int vars(List<? extends Number> in) {
        var list = new ArrayList<Integer>();
        var total = 0L;
        for (var n : in) {
            list.add(n.intValue());
            total += n.longValue();
        }
        var anon = new Object() {
            int extra = 5; // accessible only through `var`
        };
        BiFunction<Integer, Integer, Integer> add = (var a, var b) -> a + b + anon.extra;
        return add.apply(list.size(), (int) total);
    }
}
