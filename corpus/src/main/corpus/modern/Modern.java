package corpus.modern;

import java.util.List;
import java.util.Map;

/**
 * Java 12..17 features other than records/sealed/switch (those have their own files):
 * pattern matching for instanceof (with scoping that creates unusual local variable ranges),
 * text blocks, enhanced NullPointerException-irrelevant but -g relevant `var`, nested generic
 * patterns.
 */
public class Modern {
    public static final String TEXT = """
        Hello,
          "quoted" \
        continued\tline
        trailing   \s
        unicode: é ☃ 😀
        """;

    public static int patterns(Object o, Object p) {
        if (o instanceof String s && !s.isEmpty()) {
            return s.length();
        }
        if (!(o instanceof Integer i)) {
            return -1;
        }
        int r = i; // binding in scope after the negated test
        if (p instanceof List<?> l && l.size() > r || p instanceof Map<?, ?> m && m.isEmpty()) {
            r++;
        }
        while (!(p instanceof CharSequence cs)) {
            p = String.valueOf(p);
        }
        return r + cs.length() + (o instanceof Number n ? n.intValue() : 0);
    }

    @Override
    public boolean equals(Object other) {
        return other instanceof Modern m && m.hashCode() == hashCode();
    }

    @Override
    public int hashCode() {
        return TEXT.hashCode();
    }
}
