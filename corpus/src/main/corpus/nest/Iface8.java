package corpus.nest;

import java.util.Comparator;

/**
 * Java 8 interface features: constants (with a static initialiser because one is not a
 * compile-time constant), abstract, default and static methods, a lambda inside an interface
 * (private static synthetic lambda$ method in an interface), a nested static interface, and
 * InterfaceMethodref call sites (invokeinterface, invokestatic and invokespecial on interfaces).
 */
public interface Iface8 extends Comparable<Iface8>, Cloneable {
    int CONST = 42;
    String NAME = "Iface8";
    Object NOT_CONSTANT = new Object();

    int size();

    default boolean isEmpty() {
        return size() == 0;
    }

    default Comparator<Iface8> bySize() {
        return (a, b) -> Integer.compare(a.size(), b.size());
    }

    @Override
    default int compareTo(Iface8 o) {
        return bySize().compare(this, o);
    }

    static Iface8 of(int n) {
        return () -> n;
    }

    interface Sub extends Iface8 {
        @Override
        default boolean isEmpty() {
            return Iface8.super.isEmpty() || size() < 0; // invokespecial InterfaceMethodref
        }

        void extra(long a, double b) throws Exception;
    }

    class Impl implements Sub {
        @Override
        public int size() {
            return CONST;
        }

        @Override
        public void extra(long a, double b) {}

        @Override
        public boolean isEmpty() {
            return Sub.super.isEmpty() && Iface8.of(3).size() > 0;
        }
    }
}
