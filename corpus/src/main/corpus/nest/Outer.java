package corpus.nest;

import java.util.function.IntSupplier;
import java.util.function.Supplier;

/**
 * InnerClasses / EnclosingMethod / NestHost / NestMembers producers: static and inner member
 * classes nested three deep, anonymous classes, local classes in methods, constructors, static
 * and instance initialisers and lambdas, private member access between nest mates (direct with
 * nests under --release 11+, synthetic access$NNN methods under --release 8).
 */
public class Outer {
    private int secret = 1;
    private static String staticSecret = "s";
    static final Object FROM_CLINIT;
    final Object fromInit;
    final Object fromCtor;

    static {
        class InClinit {
            @Override
            public String toString() {
                return "clinit" + staticSecret;
            }
        }
        FROM_CLINIT = new InClinit();
    }

    {
        class InInit {
            int v = secret;
        }
        fromInit = new InInit();
    }

    public Outer() {
        class InCtor {
            int v = secret + 1;
        }
        fromCtor = new InCtor();
    }

    private Outer(int x, Object marker) {
        this();
        secret = x;
    }

    private int hidden() {
        return secret;
    }

    private static int hiddenStatic(long l) {
        return (int) l;
    }

    public static class StaticNested {
        private int sn = 2;

        public int peek(Outer o) {
            return o.secret + o.hidden() + hiddenStatic(sn) + staticSecret.length();
        }

        public Outer make() {
            return new Outer(5, null); // private constructor: access constructor with Outer$1 under release 8
        }

        public static class Level2 {
            private long l2;

            public class Level3 {
                private double l3;

                public double sum(StaticNested sn) {
                    return l3 + l2 + sn.sn + staticSecret.length();
                }
            }
        }
    }

    public class Inner {
        private int in = secret;

        public class Deeper {
            private int d = in + secret;

            public class Deepest {
                public int all() {
                    secret++;
                    in += 2;
                    d *= 2;
                    staticSecret += "x";
                    return secret + in + d + Outer.this.hidden() + Inner.this.in;
                }
            }
        }

        public int touchOuter() {
            return ++secret + (secret += 3) + secret--;
        }
    }

    protected static class Prot {}

    static class Pkg {}

    private static final class Priv {
        private Priv() {}
    }

    public interface NestedIface {
        int f();

        class InIface implements NestedIface {
            @Override
            public int f() {
                return 0;
            }
        }
    }

    public abstract static class AbstractNested {
        abstract int g();
    }

    public Object anonymous(final int cap) {
        Runnable r = new Runnable() {
            int count = cap;

            @Override
            public void run() {
                count += secret;
                new Object() {
                    @Override
                    public int hashCode() {
                        return count + cap + secret;
                    }
                }.hashCode();
            }
        };
        AbstractNested a = new AbstractNested() {
            @Override
            int g() {
                return cap;
            }
        };
        r.run();
        return new Object[] {r, a, new Priv(), new Prot(), new Pkg()};
    }

    public static Object anonymousStatic() {
        return new NestedIface() {
            @Override
            public int f() {
                return staticSecret.length();
            }
        };
    }

    public int local(int p) {
        final int q = p * 2;
        class Local {
            int lv = q;

            class LocalInner {
                int get() {
                    return lv + q + secret;
                }
            }

            int get() {
                return new LocalInner().get();
            }
        }
        class Local2 extends Local {
            @Override
            int get() {
                return super.get() + 1;
            }
        }
        return new Local().get() + new Local2().get();
    }

    public static int localStatic() {
        class LocalInStatic {
            int v = hiddenStatic(3L);
        }
        return new LocalInStatic().v;
    }

    public Supplier<Object> localInLambda(int x) {
        return () -> {
            class InLambda {
                int v = x + secret;
            }
            IntSupplier anon = new IntSupplier() {
                @Override
                public int getAsInt() {
                    return new InLambda().v;
                }
            };
            return anon.getAsInt();
        };
    }

    /** Field initialiser anonymous class: EnclosingMethod without a method. */
    public final Object fieldAnon = new Object() {
        @Override
        public String toString() {
            return "fieldAnon" + secret;
        }
    };

    public static final Object STATIC_FIELD_ANON = new Object() {};
}
