package corpus.nest;

import java.util.function.DoubleUnaryOperator;

/**
 * Enum with constructor arguments, constant-specific class bodies, an abstract method, an
 * implemented interface, a nested enum, static init order, values()/valueOf()/$VALUES.
 */
public enum Planet implements DoubleUnaryOperator {
    MERCURY(3.303e+23, 2.4397e6) {
        @Override
        public String describe() {
            return "small " + name();
        }
    },
    EARTH(5.976e+24, 6.37814e6) {
        private final int moons = 1;

        @Override
        public String describe() {
            return "home with " + moons;
        }

        @Override
        public double applyAsDouble(double x) {
            return x;
        }
    },
    JUPITER(1.9e+27, 7.1492e7) {
        @Override
        public String describe() {
            return "big";
        }
    };

    public static final double G = 6.67300E-11;
    private static final Planet[] CACHE = values();

    private final double mass;
    private final double radius;

    Planet(double mass, double radius) {
        this.mass = mass;
        this.radius = radius;
    }

    public abstract String describe();

    public double surfaceGravity() {
        return G * mass / (radius * radius);
    }

    @Override
    public double applyAsDouble(double otherMass) {
        return otherMass * surfaceGravity();
    }

    public static Planet byOrdinal(int i) {
        return CACHE[i % CACHE.length];
    }

    /** Plain enum without bodies (final class, no ACC_ABSTRACT). */
    public enum Kind {
        ROCK, GAS;

        public Kind other() {
            return this == ROCK ? GAS : ROCK;
        }
    }

    /** Enum without constants. */
    public enum Nothing {}

    public Kind kind() {
        switch (this) {
            case JUPITER:
                return Kind.GAS;
            default:
                return Kind.ROCK;
        }
    }
}
