package corpus.ops;

import java.io.Serializable;
import java.util.List;

/**
 * Opcode coverage: arrays of every primitive type (newarray with every atype, all <t>aload /
 * <t>astore), anewarray, multianewarray, instanceof/checkcast on arrays, array clone(),
 * arithmetic/shift/logic on all four computational types, all conversions, the dup family via
 * compound assignments and increments, pop/pop2, iinc with small and wide constants,
 * get/put field and static, all invoke kinds and all return kinds.
 */
public class Ops {
    int fi;
    long fl;
    float ff;
    double fd;
    static int si;
    static long sl;
    static double sd;
    Object fo;

    public static Object arrays(int n) {
        boolean[] z = new boolean[n];
        byte[] b = new byte[n];
        char[] c = new char[n];
        short[] s = new short[n];
        int[] i = new int[n];
        long[] j = new long[n];
        float[] f = new float[n];
        double[] d = new double[n];
        String[] a = new String[n];
        int[][] ii = new int[n][];
        z[0] = !z[1];
        b[0] = (byte) (b[1] + 1);
        c[0] = (char) (c[1] + 1);
        s[0] = (short) (s[1] + 1);
        i[0] = i[1] + 1;
        j[0] = j[1] + 1;
        f[0] = f[1] + 1;
        d[0] = d[1] + 1;
        a[0] = a[1];
        ii[0] = i;
        int[] init = {1, 2, 3, 1000, 100000};
        long[] linit = {1L, 2L};
        char[] cinit = {'a', 'b'};
        boolean[] zinit = {true, false};
        String[][] sinit = {{"a"}, {"b", "c"}, {}};
        return new Object[] {z, b, c, s, i, j, f, d, a, ii, init, linit, cinit, zinit, sinit, i.length};
    }

    public static Object multi(int a, int b, int c) {
        int[][] m2 = new int[a][b];
        long[][][] m3 = new long[a][b][c];
        String[][][] partial = new String[a][b][];
        Object[][][][] m4 = new Object[1][2][3][4];
        List<?>[][] generic = new List<?>[a][b];
        m3[0][1][2] = m2[0][1]++;
        m3[0][1][2] += 5;
        partial[0][0] = new String[] {"x"};
        return new Object[] {m2, m3, partial, m4, generic};
    }

    public static int arrayTypes(Object o) {
        int r = 0;
        if (o instanceof int[]) {
            r += ((int[]) o).length;
        }
        if (o instanceof String[][]) {
            r += ((String[][]) o)[0].length;
        }
        if (o instanceof Object[]) {
            Object[] oa = (Object[]) o;
            r += oa.clone().length;
        }
        if (o instanceof long[][]) {
            long[][] c = ((long[][]) o).clone(); // Methodref on an array class
            r += c.length + c[0].clone().length;
        }
        Serializable ser = (Serializable) o;
        Cloneable cl = (Cloneable) o;
        return r + (ser == cl ? 1 : 0) + o.getClass().getName().length() + byte[].class.getName().length();
    }

    public static double arithmetic(int a, int b, long l, long m, float f, float g, double d, double e) {
        int i = a + b - a * b / (b | 1) % (a | 1);
        i = -i & a | b ^ a;
        i = i << a >> b >>> 3;
        i = ~i;
        long j = l + m - l * m / (m | 1) % (l | 1);
        j = -j & l | m ^ l;
        j = j << a >> b >>> 3;
        j = ~j;
        float h = f + g - f * g / g % f;
        h = -h;
        double k = d + e - d * e / e % d;
        k = -k;
        // conversions
        long i2l = i;
        float i2f = i;
        double i2d = i;
        int l2i = (int) j;
        float l2f = j;
        double l2d = j;
        int f2i = (int) h;
        long f2l = (long) h;
        double f2d = h;
        int d2i = (int) k;
        long d2l = (long) k;
        float d2f = (float) k;
        byte i2b = (byte) i;
        char i2c = (char) i;
        short i2s = (short) i;
        boolean cmp = j > i2l | h < i2f | k >= i2d | h != l2f | k <= l2d;
        return i2l + i2f + i2d + l2i + l2f + l2d + f2i + f2l + f2d + d2i + d2l + d2f + i2b + i2c + i2s + (cmp ? 1 : 0);
    }

    /** dup, dup_x1, dup_x2, dup2, dup2_x1, dup2_x2, pop, pop2. */
    public long stackOps(int[] ia, long[] la, double[] da, Ops other) {
        int a = fi++;            // dup_x1
        long b = fl++;           // dup2_x1
        int c = ia[0]++;         // dup2 + dup_x2
        long d = la[0]++;        // dup2 + dup2_x2
        int e = ++ia[1];
        long f = la[1] += 5;
        double g = da[0] *= 2;
        int h = si++;            // dup
        long i = sl += 3;        // dup2
        int j = other.fi = fi = a;   // dup_x1 chains
        long k = other.fl = fl = b;  // dup2_x1 chains
        ia[2] = ia[3] = c;       // dup_x2
        la[2] = la[3] = d;       // dup2_x2
        ff += 1;
        fd -= 1;
        sd /= 2;
        fo = fo == null ? this : other;
        other.hashCode();        // pop
        System.nanoTime();       // pop2
        Math.sqrt(g);            // pop2
        new Object();            // new, dup, invokespecial, pop
        ia.clone();
        return a + b + c + d + e + f + (long) g + h + i + j + k;
    }

    public static int increments(int x) {
        int i = x;
        i++;
        i--;
        i += 127;
        i -= 128;
        i += 128;        // wide iinc
        i -= 129;        // wide iinc
        i += 32767;      // wide iinc
        i -= 32768;      // wide iinc
        i += 32768;      // ldc + iadd
        i += 100000;
        short s = (short) i;
        s++;
        byte b = (byte) i;
        b += 3;
        char c = (char) i;
        c--;
        return i + s + b + c;
    }

    interface Shape {
        double area();
    }

    static double invokes(Shape s, Ops o, String str) throws Exception {
        double r = s.area();                 // invokeinterface
        r += o.hashCode();                   // invokevirtual
        r += Math.max(1, 2);                 // invokestatic
        r += new Ops().priv();               // invokespecial (release 8) / invokevirtual (nest mates)
        r += str.chars().count();            // default interface method through invokeinterface? (invokevirtual on String)
        Runnable run = o::toString;          // invokedynamic
        run.run();
        return r;
    }

    private int priv() {
        return 1;
    }

    @Override
    public String toString() {
        return super.toString() + "!"; // invokespecial on superclass method
    }

    static boolean retZ() { return true; }
    static byte retB() { return 1; }
    static char retC() { return 'c'; }
    static short retS() { return 2; }
    static int retI() { return 3; }
    static long retJ() { return 4L; }
    static float retF() { return 5f; }
    static double retD() { return 6.0; }
    static Object retA() { return null; }
    static void retV() {}

    static void thrower(Object o) throws Throwable {
        if (o instanceof Throwable) {
            throw (Throwable) o;
        }
        synchronized (o) {
            o.notifyAll();
        }
    }
}
