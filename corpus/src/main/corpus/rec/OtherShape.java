package corpus.rec;

/** Top-level permitted subtype of {@link Shape}, itself a sealed interface. */
public sealed interface OtherShape extends Shape permits OtherShape.Blob {
    record Blob(double area) implements OtherShape {}
}
