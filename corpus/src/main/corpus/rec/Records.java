package corpus.rec;

import corpus.anno.Annos.All;
import corpus.anno.Annos.AllClass;
import corpus.anno.Annos.Marker;
import corpus.anno.Annos.Quiet;
import corpus.anno.Annos.TC;
import corpus.anno.Annos.TU;
import java.io.Serializable;
import java.util.List;
import java.util.Map;

/**
 * Record attribute producers: zero components, primitives of every width, generic record
 * (Signature on components), annotated components (the annotations propagate to the component,
 * the private field, the accessor and the canonical constructor parameter), compact and explicit
 * canonical constructors, explicit accessor, varargs component, local and nested records,
 * ObjectMethods bootstrap (invokedynamic with MethodHandle bootstrap arguments).
 */
public class Records {
    public record Empty() {}

    public record Point(int x, int y) {
        public static final Point ORIGIN = new Point(0, 0);

        /** Compact canonical constructor. */
        public Point {
            if (x < 0 || y < 0) {
                throw new IllegalArgumentException("negative: " + x + "," + y);
            }
        }

        /** Non-canonical constructor. */
        public Point(int both) {
            this(both, both);
        }

        public double dist() {
            return Math.sqrt((double) x * x + (double) y * y);
        }

        public static Point of(int x, int y) {
            return new Point(x, y);
        }
    }

    public record AllPrims(boolean z, byte b, char c, short s, int i, long j, float f, double d, String str, int[] arr) {}

    public record Pair<A extends Comparable<A>, B>(A first, B second) implements Comparable<Pair<A, B>>, Serializable {
        @Override
        public int compareTo(Pair<A, B> o) {
            return first.compareTo(o.first);
        }

        /** Explicit accessor. */
        @Override
        public B second() {
            return second;
        }

        public <C> Pair<A, C> withSecond(C c) {
            return new Pair<>(first, c);
        }
    }

    public record Annotated(
            @All(i = 1) @AllClass @TU(1) String name,
            @Marker @TC("c") List<@TU(2) String> @TU(3) [] tags,
            @Quiet Map<@TC("k") String, @TU(4) ? extends @TU(5) Number> map,
            @Deprecated @TU(6) long @TC("v") ... rest) {

        /** Explicit canonical constructor (parameter names must match). */
        public Annotated(String name, List<String>[] tags, Map<String, ? extends Number> map, long... rest) {
            this.name = name == null ? "" : name;
            this.tags = tags;
            this.map = map;
            this.rest = rest.clone();
        }
    }

    public interface HasRecord {
        record InIface(double v) implements HasRecord {}
    }

    public static Object local(int a, String b) {
        record Local(int a, String b) {
            Local {
                b = b + a;
            }
        }
        record LocalEmpty() {}
        return List.of(new Local(a, b), new LocalEmpty(), new Empty(), new HasRecord.InIface(a));
    }

    /** Nested record inside a record; records are implicitly static. */
    public record Tree(Tree left, Tree right, Leaf leaf) {
        public record Leaf(Object value) {
            private static int count;

            public Leaf {
                count++;
            }
        }

        public int size() {
            return (left == null ? 0 : left.size()) + (right == null ? 0 : right.size()) + (leaf == null ? 0 : 1);
        }
    }
}
