package corpus.rec;

/**
 * PermittedSubclasses producers: sealed interface with an explicit permits list mixing nested
 * and top-level types (records, final class, sealed abstract class, non-sealed class, enum),
 * and a sealed class whose permits list is inferred from the compilation unit.
 */
public sealed interface Shape permits Shape.Circle, Shape.Square, Shape.Poly, Shape.Unit, OtherShape {
    double area();

    record Circle(double r) implements Shape {
        @Override
        public double area() {
            return Math.PI * r * r;
        }
    }

    final class Square implements Shape {
        final double side;

        Square(double side) {
            this.side = side;
        }

        @Override
        public double area() {
            return side * side;
        }
    }

    abstract sealed class Poly implements Shape permits Tri, Quad {
        abstract int corners();
    }

    final class Tri extends Poly {
        @Override
        int corners() {
            return 3;
        }

        @Override
        public double area() {
            return 0.5;
        }
    }

    non-sealed class Quad extends Poly {
        @Override
        int corners() {
            return 4;
        }

        @Override
        public double area() {
            return 1;
        }
    }

    /** Free subclass of a non-sealed class. */
    class Trapezoid extends Quad {}

    /** Enum with a constant body: the enum itself is implicitly sealed (permits Shape$Unit$1). */
    enum Unit implements Shape {
        ONE,
        ODD {
            @Override
            public double area() {
                return 1.5;
            }
        };

        @Override
        public double area() {
            return 1;
        }
    }

    /** Sealed class with inferred permits. */
    sealed class Inferred {
        static final class A extends Inferred {}

        static final class B extends Inferred {}

        static non-sealed class C extends Inferred {}
    }

    static double total(Shape... shapes) {
        double t = 0;
        for (Shape s : shapes) {
            if (s instanceof Circle c) {
                t += c.r();
            } else if (s instanceof Poly p) {
                t += p.corners();
            } else {
                t += s.area();
            }
        }
        return t;
    }
}
