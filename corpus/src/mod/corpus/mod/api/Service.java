package corpus.mod.api;

/** Service interface exported by module corpus.mod. */
public interface Service {
    String name();

    static Iterable<Service> load() {
        return java.util.ServiceLoader.load(Service.class);
    }
}
