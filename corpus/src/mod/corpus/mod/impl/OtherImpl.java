package corpus.mod.impl;

import corpus.mod.api.Service;

/** Provider class using the static provider() method convention. */
public class OtherImpl implements Service {
    private OtherImpl() {}

    public static OtherImpl provider() {
        return new OtherImpl();
    }

    @Override
    public String name() {
        return "other";
    }
}
