package corpus.mod.impl;

import corpus.mod.api.Service;
import corpus.mod.internal.Hidden;
import java.util.logging.Logger;

/** Provider class with a public no-arg constructor. */
public class ServiceImpl implements Service {
    private static final Logger LOG = Logger.getLogger("corpus.mod");

    @Override
    public String name() {
        LOG.fine(() -> "name " + Hidden.VALUE);
        return "impl";
    }
}
