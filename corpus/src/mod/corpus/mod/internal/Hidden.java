package corpus.mod.internal;

/** Package exported and opened only to named modules (qualified). */
public final class Hidden {
    public static final String VALUE = "hidden";

    private Hidden() {}
}
