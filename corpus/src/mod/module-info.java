import corpus.mod.api.Service;

/**
 * Plain (not open) module with every directive kind: requires (plain, transitive, static,
 * static transitive), exports (unqualified and qualified), opens (unqualified and qualified),
 * uses, provides ... with (two implementations). Annotated so that the module-info class has a
 * RuntimeVisibleAnnotations attribute. java.base is required implicitly (ACC_MANDATED).
 */
@Deprecated(since = "1", forRemoval = false)
module corpus.mod {
    requires java.xml;
    requires transitive java.logging;
    requires static java.compiler;
    requires static transitive java.desktop;

    exports corpus.mod.api;
    exports corpus.mod.internal to java.logging, corpus.openmod;

    opens corpus.mod.impl;
    opens corpus.mod.internal to java.xml;

    uses Service;
    uses java.util.spi.ToolProvider;

    provides Service with corpus.mod.impl.ServiceImpl, corpus.mod.impl.OtherImpl;
    provides java.util.spi.ToolProvider with corpus.mod.impl.Tool;
}
