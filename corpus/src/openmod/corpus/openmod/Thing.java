package corpus.openmod;

import java.util.logging.Level;

/** A class inside the open module. */
public class Thing {
    private final Level level = Level.INFO;

    public Level level() {
        return level;
    }
}
