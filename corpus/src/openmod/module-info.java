/**
 * Open module (ACC_OPEN = 0x0020 in module_flags). Requires java.base explicitly, so that
 * requires entry is not ACC_MANDATED. An open module may not contain opens directives.
 */
open module corpus.openmod {
    requires java.base;
    requires transitive java.logging;

    exports corpus.openmod;
}
