//! Assembler `SClass × Encoding → bytes`, written from JVMS chapter 4.
//!
//! `Encoding` exposes every representation choice the properties quantify over: constant-pool
//! order (plus unused padding entries), per-site instruction form (short / normal / wide, `ldc` vs
//! `ldc_w`, `goto` vs `goto_w`), attribute order per container, splitting of line-number and local
//! variable tables over several attributes, extended stack-map frame forms.

use std::collections::HashMap;
use crate::model::*;

#[derive(Clone, Debug, PartialEq, Eq, Hash)]
pub enum PoolOrder {
	/// order of first use while writing
	FirstUse,
	Reversed,
	/// rotate left by k
	Rotated(usize),
	/// all Utf8 first, then the rest (like javac never does)
	Utf8First,
	/// all Utf8 last
	Utf8Last,
	/// explicit permutation of the first-use order (indices into it); must be a permutation
	Perm(Vec<usize>),
}

#[derive(Clone, Debug, PartialEq, Eq, Hash)]
pub enum Pad {
	Utf8(String),
	Int(i32),
	Long(i64),
	Double(u64),
	/// an unused Class entry (with its Utf8)
	Class(String),
	/// a Utf8 entry with exactly this text: a duplicate if the class also uses the string
	RawUtf8(String),
}

#[derive(Clone, Debug, PartialEq, Eq, Hash)]
pub enum AttrOrder {
	Default,
	Reversed,
	Rotated(usize),
}

#[derive(Clone, Debug, PartialEq, Eq, Hash)]
pub struct Encoding {
	pub pool: PoolOrder,
	/// unused entries inserted before final position `at` (0 = before everything; ≥ len = at the end)
	pub pads: Vec<(usize, Pad)>,
	/// form digit per variable-form site in order of occurrence over the whole class
	/// (0 = shortest legal, 1 = normal i.e. no `_n` form, 2 = widest); `default_form` beyond its end
	pub forms: Vec<u8>,
	pub default_form: u8,
	pub attr_order: AttrOrder,
	/// one LineNumberTable / LocalVariableTable / LocalVariableTypeTable attribute per entry
	pub split_tables: bool,
	/// always use the extended stack-map frame forms
	pub frames_extended: bool,
	/// write the frames as a CLDC `StackMap` attribute (explicit offsets, full frames only) instead of a StackMapTable;
	/// every frame of the method must be `SFrame::Full`
	pub frames_cldc: bool,
	/// how a method whose model says `empty_local_table` states it: 0 = an empty LocalVariableTable, 1 = an empty
	/// LocalVariableTypeTable, 2 = both
	pub empty_local_kind: u8,
}

impl Default for Encoding {
	fn default() -> Encoding {
		Encoding { pool: PoolOrder::FirstUse, pads: Vec::new(), forms: Vec::new(), default_form: 0, attr_order: AttrOrder::Default, split_tables: false, frames_extended: false, frames_cldc: false, empty_local_kind: 0 }
	}
}

#[derive(Clone, Debug, PartialEq, Eq)]
pub enum AsmError {
	/// the class cannot be represented (pool or code too large, jump too far for its opcode …)
	Unencodable(String),
	/// bug in the assembler or an ill-formed model
	Internal(String),
}

type A<T> = Result<T, AsmError>;

#[derive(Clone, Debug, PartialEq, Eq, Hash)]
enum PE {
	Utf8(JS),
	Int(i32),
	Float(u32),
	Long(i64),
	Double(u64),
	Class(JS),
	Str(JS),
	Field(SMemberRef),
	Method(SMemberRef),
	IMethod(SMemberRef),
	NameAndType(JS, JS),
	Handle(SHandle),
	MethodType(JS),
	Dynamic(u16, JS, JS),
	InvokeDynamic(u16, JS, JS),
	Module(JS),
	Package(JS),
	Pad(usize),
}

struct Pool {
	/// discovery mode: entries in first-use order
	order: Vec<PE>,
	index: HashMap<PE, u16>,
	fixed: bool,
	bootstrap: Vec<SBootstrap>,
}

impl Pool {
	fn get(&mut self, e: PE) -> A<u16> {
		if let Some(i) = self.index.get(&e) {
			return Ok(*i);
		}
		if self.fixed {
			return Err(AsmError::Internal(format!("pool entry {e:?} appears only in the second pass")));
		}
		// children first, so that first-use order resembles what compilers produce
		match &e {
			PE::Class(n) | PE::Str(n) | PE::MethodType(n) | PE::Module(n) | PE::Package(n) => {
				self.get(PE::Utf8(n.clone()))?;
			},
			PE::Field(m) | PE::Method(m) | PE::IMethod(m) => {
				self.get(PE::Class(m.owner.clone()))?;
				self.get(PE::NameAndType(m.name.clone(), m.desc.clone()))?;
			},
			PE::NameAndType(n, d) => {
				self.get(PE::Utf8(n.clone()))?;
				self.get(PE::Utf8(d.clone()))?;
			},
			PE::Handle(h) => {
				self.member(h)?;
			},
			PE::Dynamic(_, n, d) | PE::InvokeDynamic(_, n, d) => {
				self.get(PE::NameAndType(n.clone(), d.clone()))?;
			},
			_ => {},
		}
		let i = self.order.len() as u16; // provisional
		self.order.push(e.clone());
		self.index.insert(e, i);
		Ok(i)
	}
	fn member(&mut self, h: &SHandle) -> A<u16> {
		let m = h.member.clone();
		match h.kind {
			1..=4 => self.get(PE::Field(m)),
			_ if h.interface => self.get(PE::IMethod(m)),
			_ => self.get(PE::Method(m)),
		}
	}
	fn utf8(&mut self, s: &JS) -> A<u16> {
		self.get(PE::Utf8(s.clone()))
	}
	fn class(&mut self, s: &JS) -> A<u16> {
		self.get(PE::Class(s.clone()))
	}
	fn bootstrap_index(&mut self, b: &SBootstrap) -> A<u16> {
		// register the constants the bootstrap method needs
		self.get(PE::Handle(b.handle.clone()))?;
		for a in &b.args {
			self.constant(a)?;
		}
		if let Some(i) = self.bootstrap.iter().position(|x| x == b) {
			return Ok(i as u16);
		}
		self.bootstrap.push(b.clone());
		Ok((self.bootstrap.len() - 1) as u16)
	}
	fn constant(&mut self, c: &SConst) -> A<u16> {
		match c {
			SConst::Int(v) => self.get(PE::Int(*v)),
			SConst::Float(v) => self.get(PE::Float(*v)),
			SConst::Long(v) => self.get(PE::Long(*v)),
			SConst::Double(v) => self.get(PE::Double(*v)),
			SConst::Class(n) => self.get(PE::Class(n.clone())),
			SConst::Str(n) => self.get(PE::Str(n.clone())),
			SConst::Handle(h) => self.get(PE::Handle(h.clone())),
			SConst::MethodType(d) => self.get(PE::MethodType(d.clone())),
			SConst::Dynamic(d) => {
				let b = self.bootstrap_index(&d.bootstrap)?;
				self.get(PE::Dynamic(b, d.name.clone(), d.desc.clone()))
			},
		}
	}
}

pub fn encode_mutf8(s: &JS) -> Vec<u8> {
	let mut out = Vec::with_capacity(s.0.len());
	for &c in &s.0 {
		if c != 0 && c < 0x80 {
			out.push(c as u8);
		} else if c < 0x800 {
			out.push(0xc0 | (c >> 6) as u8);
			out.push(0x80 | (c & 0x3f) as u8);
		} else {
			out.push(0xe0 | (c >> 12) as u8);
			out.push(0x80 | ((c >> 6) & 0x3f) as u8);
			out.push(0x80 | (c & 0x3f) as u8);
		}
	}
	out
}

#[derive(Default)]
struct W {
	b: Vec<u8>,
}

impl W {
	fn u8(&mut self, v: u8) {
		self.b.push(v);
	}
	fn u16(&mut self, v: u16) {
		self.b.extend_from_slice(&v.to_be_bytes());
	}
	fn u32(&mut self, v: u32) {
		self.b.extend_from_slice(&v.to_be_bytes());
	}
	fn count16(&mut self, n: usize, what: &str) -> A<()> {
		let v = u16::try_from(n).map_err(|_| AsmError::Unencodable(format!("{what}: {n} does not fit in u16")))?;
		self.u16(v);
		Ok(())
	}
	fn count8(&mut self, n: usize, what: &str) -> A<()> {
		let v = u8::try_from(n).map_err(|_| AsmError::Unencodable(format!("{what}: {n} does not fit in u8")))?;
		self.u8(v);
		Ok(())
	}
}

struct Asm<'a> {
	pool: Pool,
	enc: &'a Encoding,
	site: usize,
}

impl Asm<'_> {
	fn form(&mut self) -> u8 {
		let f = self.enc.forms.get(self.site).copied().unwrap_or(self.enc.default_form);
		self.site += 1;
		f
	}

	fn attrs(&self, w: &mut W, mut list: Vec<(JS, Vec<u8>)>, idx: &[u16]) -> A<()> {
		// idx[i] is the pool index of list[i].0
		let mut both: Vec<(u16, Vec<u8>)> = idx.iter().copied().zip(list.drain(..).map(|(_, b)| b)).collect();
		match &self.enc.attr_order {
			AttrOrder::Default => {},
			AttrOrder::Reversed => both.reverse(),
			AttrOrder::Rotated(k) => {
				if !both.is_empty() {
					let k = k % both.len();
					both.rotate_left(k);
				}
			},
		}
		w.count16(both.len(), "attributes_count")?;
		for (i, b) in both {
			w.u16(i);
			w.u32(u32::try_from(b.len()).map_err(|_| AsmError::Unencodable("attribute too long".into()))?);
			w.b.extend_from_slice(&b);
		}
		Ok(())
	}

	fn attr_list(&mut self, w: &mut W, list: Vec<(&str, Vec<u8>)>, unknown: &[SUnknown]) -> A<()> {
		let mut all: Vec<(JS, Vec<u8>)> = list.into_iter().map(|(n, b)| (JS::new(n), b)).collect();
		for u in unknown {
			all.push((u.name.clone(), u.bytes.clone()));
		}
		let mut idx = Vec::new();
		for (n, _) in &all {
			idx.push(self.pool.utf8(n)?);
		}
		self.attrs(w, all, &idx)
	}

	fn annotation(&mut self, w: &mut W, a: &SAnnotation) -> A<()> {
		w.u16(self.pool.utf8(&a.type_name)?);
		w.count16(a.pairs.len(), "element_value_pairs")?;
		for (n, v) in &a.pairs {
			w.u16(self.pool.utf8(n)?);
			self.element_value(w, v)?;
		}
		Ok(())
	}

	fn element_value(&mut self, w: &mut W, v: &SElementValue) -> A<()> {
		match v {
			SElementValue::Const(tag, c) => {
				w.u8(*tag);
				w.u16(self.pool.constant(c)?);
			},
			SElementValue::Str(s) => {
				w.u8(b's');
				w.u16(self.pool.utf8(s)?);
			},
			SElementValue::Enum { type_name, const_name } => {
				w.u8(b'e');
				w.u16(self.pool.utf8(type_name)?);
				w.u16(self.pool.utf8(const_name)?);
			},
			SElementValue::Class(c) => {
				w.u8(b'c');
				w.u16(self.pool.utf8(c)?);
			},
			SElementValue::Annotation(a) => {
				w.u8(b'@');
				self.annotation(w, a)?;
			},
			SElementValue::Array(v) => {
				w.u8(b'[');
				w.count16(v.len(), "array element values")?;
				for e in v {
					self.element_value(w, e)?;
				}
			},
		}
		Ok(())
	}

	fn annotations_body(&mut self, v: &[SAnnotation]) -> A<Vec<u8>> {
		let mut w = W::default();
		w.count16(v.len(), "annotations")?;
		for a in v {
			self.annotation(&mut w, a)?;
		}
		Ok(w.b)
	}

	fn type_annotations_body(&mut self, v: &[STypeAnnotation], off: Option<&[u32]>) -> A<Vec<u8>> {
		let mut w = W::default();
		w.count16(v.len(), "type annotations")?;
		let pc = |i: Idx| -> A<u16> {
			let o = off.ok_or_else(|| AsmError::Internal("code target outside code".into()))?;
			let x = *o.get(i as usize).ok_or_else(|| AsmError::Internal(format!("instruction index {i} out of range")))?;
			u16::try_from(x).map_err(|_| AsmError::Unencodable("code offset does not fit u16".into()))
		};
		for t in v {
			match &t.target {
				STarget::TypeParameter { target_type, index } => {
					w.u8(*target_type);
					w.u8(*index);
				},
				STarget::Supertype(i) => {
					w.u8(0x10);
					w.u16(*i);
				},
				STarget::TypeParameterBound { target_type, param, bound } => {
					w.u8(*target_type);
					w.u8(*param);
					w.u8(*bound);
				},
				STarget::Empty(tt) => w.u8(*tt),
				STarget::FormalParameter(i) => {
					w.u8(0x16);
					w.u8(*i);
				},
				STarget::Throws(i) => {
					w.u8(0x17);
					w.u16(*i);
				},
				STarget::LocalVar { target_type, table } => {
					w.u8(*target_type);
					w.count16(table.len(), "localvar target table")?;
					for (s, e, i) in table {
						let (s, e) = (pc(*s)?, pc(*e)?);
						w.u16(s);
						w.u16(e.checked_sub(s).ok_or_else(|| AsmError::Internal("range end before start".into()))?);
						w.u16(*i);
					}
				},
				STarget::Catch(i) => {
					w.u8(0x42);
					w.u16(*i);
				},
				STarget::Offset { target_type, at } => {
					w.u8(*target_type);
					w.u16(pc(*at)?);
				},
				STarget::TypeArgument { target_type, at, index } => {
					w.u8(*target_type);
					w.u16(pc(*at)?);
					w.u8(*index);
				},
			}
			w.count8(t.path.len(), "type path")?;
			for (k, i) in &t.path {
				w.u8(*k);
				w.u8(*i);
			}
			self.annotation(&mut w, &t.annotation)?;
		}
		Ok(w.b)
	}

	fn common_annotations<'b>(&mut self, list: &mut Vec<(&'b str, Vec<u8>)>, a: &SAnnotations) -> A<()> {
		if !a.visible.is_empty() {
			list.push(("RuntimeVisibleAnnotations", self.annotations_body(&a.visible)?));
		}
		if !a.invisible.is_empty() {
			list.push(("RuntimeInvisibleAnnotations", self.annotations_body(&a.invisible)?));
		}
		if !a.visible_type.is_empty() {
			list.push(("RuntimeVisibleTypeAnnotations", self.type_annotations_body(&a.visible_type, None)?));
		}
		if !a.invisible_type.is_empty() {
			list.push(("RuntimeInvisibleTypeAnnotations", self.type_annotations_body(&a.invisible_type, None)?));
		}
		Ok(())
	}

	fn field(&mut self, w: &mut W, f: &SField) -> A<()> {
		w.u16(f.access);
		w.u16(self.pool.utf8(&f.name)?);
		w.u16(self.pool.utf8(&f.desc)?);
		let mut list: Vec<(&str, Vec<u8>)> = Vec::new();
		if let Some(c) = &f.constant_value {
			list.push(("ConstantValue", self.pool.constant(c)?.to_be_bytes().to_vec()));
		}
		if f.synthetic {
			list.push(("Synthetic", vec![]));
		}
		if f.deprecated {
			list.push(("Deprecated", vec![]));
		}
		if let Some(s) = &f.signature {
			list.push(("Signature", self.pool.utf8(s)?.to_be_bytes().to_vec()));
		}
		self.common_annotations(&mut list, &f.annotations)?;
		self.attr_list(w, list, &f.unknown)
	}

	fn vtype(&mut self, w: &mut W, v: &SVType, off: &[u32]) -> A<()> {
		match v {
			SVType::Top => w.u8(0),
			SVType::Integer => w.u8(1),
			SVType::Float => w.u8(2),
			SVType::Double => w.u8(3),
			SVType::Long => w.u8(4),
			SVType::Null => w.u8(5),
			SVType::UninitializedThis => w.u8(6),
			SVType::Object(c) => {
				w.u8(7);
				w.u16(self.pool.class(c)?);
			},
			SVType::Uninitialized(i) => {
				w.u8(8);
				let o = *off.get(*i as usize).ok_or_else(|| AsmError::Internal("uninitialized index out of range".into()))?;
				w.u16(u16::try_from(o).map_err(|_| AsmError::Unencodable("offset".into()))?);
			},
		}
		Ok(())
	}

	fn code(&mut self, c: &SCode) -> A<Vec<u8>> {
		let n = c.insns.len();
		// 1. choose forms and sizes
		#[derive(Clone)]
		struct Site {
			bytes: Vec<u8>, // everything except branch offsets / switch bodies
			kind: u8,       // 0 plain, 1 narrow branch, 2 wide branch, 3 tableswitch, 4 lookupswitch
		}
		let mut sites: Vec<Site> = Vec::with_capacity(n);
		for i in &c.insns {
			let plain = |b: Vec<u8>| Site { bytes: b, kind: 0 };
			let s = match i {
				SInsn::Simple(o) => plain(vec![*o]),
				SInsn::BiPush(v) => plain(vec![op::BIPUSH, *v as u8]),
				SInsn::SiPush(v) => {
					let b = v.to_be_bytes();
					plain(vec![op::SIPUSH, b[0], b[1]])
				},
				SInsn::Ldc(k) => {
					let idx = self.pool.constant(k)?;
					let two = match k {
						SConst::Long(_) | SConst::Double(_) => true,
						SConst::Dynamic(d) => d.desc == JS::new("J") || d.desc == JS::new("D"),
						_ => false,
					};
					let f = self.form();
					let b = idx.to_be_bytes();
					if two {
						plain(vec![op::LDC2_W, b[0], b[1]])
					} else if idx <= 255 && f == 0 {
						// (in the discovery pass the index is provisional and the size irrelevant)
						plain(vec![op::LDC, idx as u8])
					} else {
						plain(vec![op::LDC_W, b[0], b[1]])
					}
				},
				SInsn::Load(k, x) | SInsn::Store(k, x) => {
					let load = matches!(i, SInsn::Load(..));
					let kk = match k {
						LvKind::I => 0u8,
						LvKind::L => 1,
						LvKind::F => 2,
						LvKind::D => 3,
						LvKind::A => 4,
					};
					let f = self.form();
					let (base, base_n) = if load { (op::ILOAD, op::ILOAD_0) } else { (op::ISTORE, op::ISTORE_0) };
					if *x <= 3 && f == 0 {
						plain(vec![base_n + kk * 4 + *x as u8])
					} else if *x <= 255 && f <= 1 {
						plain(vec![base + kk, *x as u8])
					} else {
						let b = x.to_be_bytes();
						plain(vec![op::WIDE, base + kk, b[0], b[1]])
					}
				},
				SInsn::IInc(x, v) => {
					let f = self.form();
					if *x <= 255 && (-128..=127).contains(v) && f <= 1 {
						plain(vec![op::IINC, *x as u8, *v as i8 as u8])
					} else {
						let (a, b) = (x.to_be_bytes(), v.to_be_bytes());
						plain(vec![op::WIDE, op::IINC, a[0], a[1], b[0], b[1]])
					}
				},
				SInsn::Ret(x) => {
					let f = self.form();
					if *x <= 255 && f <= 1 {
						plain(vec![op::RET, *x as u8])
					} else {
						let b = x.to_be_bytes();
						plain(vec![op::WIDE, op::RET, b[0], b[1]])
					}
				},
				SInsn::Branch(o, _) => {
					if *o == op::GOTO || *o == op::JSR {
						let f = self.form();
						if f >= 2 {
							Site { bytes: vec![if *o == op::GOTO { op::GOTO_W } else { op::JSR_W }], kind: 2 }
						} else {
							Site { bytes: vec![*o], kind: 1 }
						}
					} else {
						Site { bytes: vec![*o], kind: 1 }
					}
				},
				SInsn::TableSwitch { .. } => Site { bytes: vec![op::TABLESWITCH], kind: 3 },
				SInsn::LookupSwitch { .. } => Site { bytes: vec![op::LOOKUPSWITCH], kind: 4 },
				SInsn::Field(o, m) => {
					let b = self.pool.get(PE::Field(m.clone()))?.to_be_bytes();
					plain(vec![*o, b[0], b[1]])
				},
				SInsn::Invoke(o, m, iface) => {
					let idx = if *iface { self.pool.get(PE::IMethod(m.clone()))? } else { self.pool.get(PE::Method(m.clone()))? };
					let b = idx.to_be_bytes();
					if *o == op::INVOKEINTERFACE {
						let slots = crate::parse::arg_slots(&m.desc).ok_or_else(|| AsmError::Internal("bad descriptor".into()))? + 1;
						let cnt = u8::try_from(slots).map_err(|_| AsmError::Unencodable("invokeinterface count".into()))?;
						plain(vec![*o, b[0], b[1], cnt, 0])
					} else {
						plain(vec![*o, b[0], b[1]])
					}
				},
				SInsn::InvokeDynamic(d) => {
					let bi = self.pool.bootstrap_index(&d.bootstrap)?;
					let b = self.pool.get(PE::InvokeDynamic(bi, d.name.clone(), d.desc.clone()))?.to_be_bytes();
					plain(vec![op::INVOKEDYNAMIC, b[0], b[1], 0, 0])
				},
				SInsn::New(c) | SInsn::ANewArray(c) | SInsn::CheckCast(c) | SInsn::InstanceOf(c) => {
					let o = match i {
						SInsn::New(_) => op::NEW,
						SInsn::ANewArray(_) => op::ANEWARRAY,
						SInsn::CheckCast(_) => op::CHECKCAST,
						_ => op::INSTANCEOF,
					};
					let b = self.pool.class(c)?.to_be_bytes();
					plain(vec![o, b[0], b[1]])
				},
				SInsn::NewArray(t) => plain(vec![op::NEWARRAY, *t]),
				SInsn::MultiANewArray(c, d) => {
					let b = self.pool.class(c)?.to_be_bytes();
					plain(vec![op::MULTIANEWARRAY, b[0], b[1], *d])
				},
			};
			sites.push(s);
		}
		// 2. layout, widening goto/jsr as needed
		let mut off = vec![0u32; n + 1];
		loop {
			let mut pos = 0u32;
			for (k, s) in sites.iter().enumerate() {
				off[k] = pos;
				pos += match s.kind {
					0 => s.bytes.len() as u32,
					1 => 3,
					2 => 5,
					3 | 4 => {
						let pad = (4 - (pos + 1) % 4) % 4;
						let body = match &c.insns[k] {
							SInsn::TableSwitch { targets, .. } => 12 + 4 * targets.len() as u32,
							SInsn::LookupSwitch { pairs, .. } => 8 + 8 * pairs.len() as u32,
							_ => return Err(AsmError::Internal("site kind".into())),
						};
						1 + pad + body
					},
					_ => return Err(AsmError::Internal("site kind".into())),
				};
			}
			off[n] = pos;
			let mut changed = false;
			for (k, s) in sites.iter_mut().enumerate() {
				if s.kind == 1 {
					if let SInsn::Branch(o, t) = &c.insns[k] {
						let d = off[*t as usize] as i64 - off[k] as i64;
						if d < i16::MIN as i64 || d > i16::MAX as i64 {
							if *o == op::GOTO || *o == op::JSR {
								s.kind = 2;
								s.bytes = vec![if *o == op::GOTO { op::GOTO_W } else { op::JSR_W }];
								changed = true;
							} else {
								return Err(AsmError::Unencodable(format!("conditional jump over {d} bytes")));
							}
						}
					}
				}
			}
			if !changed {
				break;
			}
		}
		if off[n] == 0 || off[n] > 65535 {
			return Err(AsmError::Unencodable(format!("code_length {}", off[n])));
		}
		// 3. emit
		let mut w = W::default();
		w.u16(c.max_stack);
		w.u16(c.max_locals);
		w.u32(off[n]);
		let code_start = w.b.len();
		for (k, s) in sites.iter().enumerate() {
			let here = off[k] as i64;
			let rel = |t: Idx| -> i64 { off[t as usize] as i64 - here };
			w.b.extend_from_slice(&s.bytes);
			match (&c.insns[k], s.kind) {
				(SInsn::Branch(_, t), 1) => w.b.extend_from_slice(&(rel(*t) as i16).to_be_bytes()),
				(SInsn::Branch(_, t), 2) => w.b.extend_from_slice(&(rel(*t) as i32).to_be_bytes()),
				(SInsn::TableSwitch { default, low, targets }, 3) => {
					while (w.b.len() - code_start) % 4 != 0 {
						w.u8(0);
					}
					w.b.extend_from_slice(&(rel(*default) as i32).to_be_bytes());
					w.b.extend_from_slice(&low.to_be_bytes());
					let high = *low as i64 + targets.len() as i64 - 1;
					let high = i32::try_from(high).map_err(|_| AsmError::Unencodable("tableswitch high".into()))?;
					w.b.extend_from_slice(&high.to_be_bytes());
					for t in targets {
						w.b.extend_from_slice(&(rel(*t) as i32).to_be_bytes());
					}
				},
				(SInsn::LookupSwitch { default, pairs }, 4) => {
					while (w.b.len() - code_start) % 4 != 0 {
						w.u8(0);
					}
					w.b.extend_from_slice(&(rel(*default) as i32).to_be_bytes());
					w.u32(pairs.len() as u32);
					for (key, t) in pairs {
						w.b.extend_from_slice(&key.to_be_bytes());
						w.b.extend_from_slice(&(rel(*t) as i32).to_be_bytes());
					}
				},
				_ => {},
			}
			if (w.b.len() - code_start) as u32 != off[k + 1] {
				return Err(AsmError::Internal(format!("layout mismatch at instruction {k}")));
			}
		}
		let pc = |i: Idx| -> A<u16> {
			let x = *off.get(i as usize).ok_or_else(|| AsmError::Internal(format!("instruction index {i} out of range")))?;
			u16::try_from(x).map_err(|_| AsmError::Unencodable("code offset does not fit u16".into()))
		};
		w.count16(c.exceptions.len(), "exception table")?;
		for e in &c.exceptions {
			w.u16(pc(e.start)?);
			w.u16(pc(e.end)?);
			w.u16(pc(e.handler)?);
			w.u16(match &e.catch {
				Some(c) => self.pool.class(c)?,
				None => 0,
			});
		}
		// code attributes
		let mut list: Vec<(&str, Vec<u8>)> = Vec::new();
		if !c.frames.is_empty() && self.enc.frames_cldc {
			let mut fw = W::default();
			fw.count16(c.frames.len(), "stack map frames")?;
			for (i, f) in &c.frames {
				let SFrame::Full { locals, stack } = f else {
					return Err(AsmError::Unencodable("a CLDC StackMap holds full frames only".into()));
				};
				let o = off[*i as usize];
				if o > 65535 {
					return Err(AsmError::Unencodable("frame offset".into()));
				}
				fw.u16(o as u16);
				fw.count16(locals.len(), "frame locals")?;
				for x in locals {
					self.vtype(&mut fw, x, &off)?;
				}
				fw.count16(stack.len(), "frame stack")?;
				for x in stack {
					self.vtype(&mut fw, x, &off)?;
				}
			}
			list.push(("StackMap", fw.b));
		} else if !c.frames.is_empty() {
			let mut fw = W::default();
			fw.count16(c.frames.len(), "stack map frames")?;
			let mut prev: i64 = -1;
			for (i, f) in &c.frames {
				let o = off[*i as usize] as i64;
				let delta = o - prev - 1;
				if delta < 0 {
					return Err(AsmError::Internal("frames not in ascending order".into()));
				}
				let delta = delta as u16;
				prev = o;
				let ext = self.enc.frames_extended;
				match f {
					SFrame::Same => {
						if delta <= 63 && !ext {
							fw.u8(delta as u8);
						} else {
							fw.u8(251);
							fw.u16(delta);
						}
					},
					SFrame::SameLocals1(v) => {
						if delta <= 63 && !ext {
							fw.u8(64 + delta as u8);
						} else {
							fw.u8(247);
							fw.u16(delta);
						}
						self.vtype(&mut fw, v, &off)?;
					},
					SFrame::Chop(k) => {
						fw.u8(251 - *k);
						fw.u16(delta);
					},
					SFrame::Append(v) => {
						fw.u8(251 + v.len() as u8);
						fw.u16(delta);
						for x in v {
							self.vtype(&mut fw, x, &off)?;
						}
					},
					SFrame::Full { locals, stack } => {
						fw.u8(255);
						fw.u16(delta);
						fw.count16(locals.len(), "frame locals")?;
						for x in locals {
							self.vtype(&mut fw, x, &off)?;
						}
						fw.count16(stack.len(), "frame stack")?;
						for x in stack {
							self.vtype(&mut fw, x, &off)?;
						}
					},
				}
			}
			list.push(("StackMapTable", fw.b));
		}
		let chunks = |len: usize, split: bool| -> Vec<std::ops::Range<usize>> {
			if len == 0 {
				vec![]
			} else if split {
				(0..len).map(|i| i..i + 1).collect()
			} else {
				vec![0..len]
			}
		};
		for r in chunks(c.line_numbers.len(), self.enc.split_tables) {
			let mut lw = W::default();
			lw.count16(r.len(), "line numbers")?;
			for (i, line) in &c.line_numbers[r] {
				lw.u16(pc(*i)?);
				lw.u16(*line);
			}
			list.push(("LineNumberTable", lw.b));
		}
		if c.empty_line_table && c.line_numbers.is_empty() {
			list.push(("LineNumberTable", vec![0, 0]));
		}
		if c.empty_local_table && c.local_vars.is_empty() && c.local_var_types.is_empty() {
			if self.enc.empty_local_kind != 1 {
				list.push(("LocalVariableTable", vec![0, 0]));
			}
			if self.enc.empty_local_kind != 0 {
				list.push(("LocalVariableTypeTable", vec![0, 0]));
			}
		}
		for (name, table) in [("LocalVariableTable", &c.local_vars), ("LocalVariableTypeTable", &c.local_var_types)] {
			for r in chunks(table.len(), self.enc.split_tables) {
				let mut lw = W::default();
				lw.count16(r.len(), "local variables")?;
				for lv in &table[r] {
					let (s, e) = (pc(lv.start)?, pc(lv.end)?);
					lw.u16(s);
					lw.u16(e.checked_sub(s).ok_or_else(|| AsmError::Internal("local variable range end before start".into()))?);
					lw.u16(self.pool.utf8(&lv.name)?);
					lw.u16(self.pool.utf8(&lv.ty)?);
					lw.u16(lv.index);
				}
				list.push((name, lw.b));
			}
		}
		if !c.visible_type.is_empty() {
			list.push(("RuntimeVisibleTypeAnnotations", self.type_annotations_body(&c.visible_type, Some(&off))?));
		}
		if !c.invisible_type.is_empty() {
			list.push(("RuntimeInvisibleTypeAnnotations", self.type_annotations_body(&c.invisible_type, Some(&off))?));
		}
		self.attr_list(&mut w, list, &c.unknown)?;
		Ok(w.b)
	}

	fn method(&mut self, w: &mut W, m: &SMethod) -> A<()> {
		w.u16(m.access);
		w.u16(self.pool.utf8(&m.name)?);
		w.u16(self.pool.utf8(&m.desc)?);
		let mut list: Vec<(&str, Vec<u8>)> = Vec::new();
		if let Some(c) = &m.code {
			list.push(("Code", self.code(c)?));
		}
		if let Some(v) = &m.exceptions {
			let mut ew = W::default();
			ew.count16(v.len(), "exceptions")?;
			for c in v {
				ew.u16(self.pool.class(c)?);
			}
			list.push(("Exceptions", ew.b));
		}
		if m.synthetic {
			list.push(("Synthetic", vec![]));
		}
		if m.deprecated {
			list.push(("Deprecated", vec![]));
		}
		if let Some(s) = &m.signature {
			list.push(("Signature", self.pool.utf8(s)?.to_be_bytes().to_vec()));
		}
		self.common_annotations(&mut list, &m.annotations)?;
		for (name, pa) in [("RuntimeVisibleParameterAnnotations", &m.visible_param_annotations), ("RuntimeInvisibleParameterAnnotations", &m.invisible_param_annotations)] {
			if let Some(pa) = pa {
				let mut pw = W::default();
				pw.count8(pa.len(), "parameter annotations")?;
				for a in pa {
					pw.count16(a.len(), "annotations")?;
					for x in a {
						self.annotation(&mut pw, x)?;
					}
				}
				list.push((name, pw.b));
			}
		}
		if let Some(v) = &m.annotation_default {
			let mut dw = W::default();
			self.element_value(&mut dw, v)?;
			list.push(("AnnotationDefault", dw.b));
		}
		if let Some(v) = &m.parameters {
			let mut pw = W::default();
			pw.count8(v.len(), "method parameters")?;
			for (n, f) in v {
				pw.u16(match n {
					Some(n) => self.pool.utf8(n)?,
					None => 0,
				});
				pw.u16(*f);
			}
			list.push(("MethodParameters", pw.b));
		}
		self.attr_list(w, list, &m.unknown)
	}

	fn class_body(&mut self, c: &SClass) -> A<Vec<u8>> {
		let mut w = W::default();
		w.u16(c.access);
		w.u16(self.pool.class(&c.this_class)?);
		w.u16(match &c.super_class {
			Some(s) => self.pool.class(s)?,
			None => 0,
		});
		w.count16(c.interfaces.len(), "interfaces")?;
		for i in &c.interfaces {
			w.u16(self.pool.class(i)?);
		}
		w.count16(c.fields.len(), "fields")?;
		for f in &c.fields {
			self.field(&mut w, f)?;
		}
		w.count16(c.methods.len(), "methods")?;
		for m in &c.methods {
			self.method(&mut w, m)?;
		}
		let mut list: Vec<(&str, Vec<u8>)> = Vec::new();
		if let Some(s) = &c.source_file {
			list.push(("SourceFile", self.pool.utf8(s)?.to_be_bytes().to_vec()));
		}
		if let Some(v) = &c.inner_classes {
			let mut iw = W::default();
			iw.count16(v.len(), "inner classes")?;
			for i in v {
				iw.u16(self.pool.class(&i.inner)?);
				iw.u16(match &i.outer {
					Some(o) => self.pool.class(o)?,
					None => 0,
				});
				iw.u16(match &i.name {
					Some(n) => self.pool.utf8(n)?,
					None => 0,
				});
				iw.u16(i.flags);
			}
			list.push(("InnerClasses", iw.b));
		}
		if let Some((cls, m)) = &c.enclosing_method {
			let mut ew = W::default();
			ew.u16(self.pool.class(cls)?);
			ew.u16(match m {
				Some((n, d)) => self.pool.get(PE::NameAndType(n.clone(), d.clone()))?,
				None => 0,
			});
			list.push(("EnclosingMethod", ew.b));
		}
		if let Some(s) = &c.source_debug_extension {
			list.push(("SourceDebugExtension", encode_mutf8(s)));
		}
		if c.synthetic {
			list.push(("Synthetic", vec![]));
		}
		if c.deprecated {
			list.push(("Deprecated", vec![]));
		}
		if let Some(s) = &c.signature {
			list.push(("Signature", self.pool.utf8(s)?.to_be_bytes().to_vec()));
		}
		self.common_annotations(&mut list, &c.annotations)?;
		if let Some(m) = &c.module {
			let mut mw = W::default();
			mw.u16(self.pool.get(PE::Module(m.name.clone()))?);
			mw.u16(m.flags);
			mw.u16(match &m.version {
				Some(v) => self.pool.utf8(v)?,
				None => 0,
			});
			mw.count16(m.requires.len(), "requires")?;
			for (n, f, v) in &m.requires {
				mw.u16(self.pool.get(PE::Module(n.clone()))?);
				mw.u16(*f);
				mw.u16(match v {
					Some(v) => self.pool.utf8(v)?,
					None => 0,
				});
			}
			for table in [&m.exports, &m.opens] {
				mw.count16(table.len(), "exports/opens")?;
				for (p, f, to) in table {
					mw.u16(self.pool.get(PE::Package(p.clone()))?);
					mw.u16(*f);
					mw.count16(to.len(), "to")?;
					for t in to {
						mw.u16(self.pool.get(PE::Module(t.clone()))?);
					}
				}
			}
			mw.count16(m.uses.len(), "uses")?;
			for u in &m.uses {
				mw.u16(self.pool.class(u)?);
			}
			mw.count16(m.provides.len(), "provides")?;
			for (s, with) in &m.provides {
				mw.u16(self.pool.class(s)?);
				mw.count16(with.len(), "with")?;
				for x in with {
					mw.u16(self.pool.class(x)?);
				}
			}
			list.push(("Module", mw.b));
		}
		if let Some(v) = &c.module_packages {
			let mut pw = W::default();
			pw.count16(v.len(), "module packages")?;
			for p in v {
				pw.u16(self.pool.get(PE::Package(p.clone()))?);
			}
			list.push(("ModulePackages", pw.b));
		}
		if let Some(s) = &c.module_main_class {
			list.push(("ModuleMainClass", self.pool.class(s)?.to_be_bytes().to_vec()));
		}
		if let Some(s) = &c.nest_host {
			list.push(("NestHost", self.pool.class(s)?.to_be_bytes().to_vec()));
		}
		for (name, v) in [("NestMembers", &c.nest_members), ("PermittedSubclasses", &c.permitted_subclasses)] {
			if let Some(v) = v {
				let mut nw = W::default();
				nw.count16(v.len(), name)?;
				for x in v {
					nw.u16(self.pool.class(x)?);
				}
				list.push((name, nw.b));
			}
		}
		if let Some(v) = &c.record {
			let mut rw = W::default();
			rw.count16(v.len(), "record components")?;
			for rc in v {
				rw.u16(self.pool.utf8(&rc.name)?);
				rw.u16(self.pool.utf8(&rc.desc)?);
				let mut rl: Vec<(&str, Vec<u8>)> = Vec::new();
				if let Some(s) = &rc.signature {
					rl.push(("Signature", self.pool.utf8(s)?.to_be_bytes().to_vec()));
				}
				self.common_annotations(&mut rl, &rc.annotations)?;
				self.attr_list(&mut rw, rl, &rc.unknown)?;
			}
			list.push(("Record", rw.b));
		}
		if !self.pool.bootstrap.is_empty() {
			// content is filled in by `assemble` once all bootstrap methods are known (second pass knows them all)
			let mut bw = W::default();
			let table = self.pool.bootstrap.clone();
			bw.count16(table.len(), "bootstrap methods")?;
			for b in &table {
				bw.u16(self.pool.get(PE::Handle(b.handle.clone()))?);
				bw.count16(b.args.len(), "bootstrap arguments")?;
				for a in &b.args {
					bw.u16(self.pool.constant(a)?);
				}
			}
			list.push(("BootstrapMethods", bw.b));
		}
		self.attr_list(&mut w, list, &c.unknown)?;
		Ok(w.b)
	}
}

fn slots(e: &PE) -> usize {
	if matches!(e, PE::Long(_) | PE::Double(_)) { 2 } else { 1 }
}

/// Assembles `c` under `enc`.
pub fn assemble(c: &SClass, enc: &Encoding) -> A<Vec<u8>> {
	// pass 1: discover the pool and the bootstrap table
	let mut a = Asm { pool: Pool { order: Vec::new(), index: HashMap::new(), fixed: false, bootstrap: Vec::new() }, enc, site: 0 };
	a.class_body(c)?;
	// a bootstrap method discovered late (class attributes) may itself need entries: run discovery again until stable
	loop {
		let before = (a.pool.order.len(), a.pool.bootstrap.len());
		a.site = 0;
		a.class_body(c)?;
		if (a.pool.order.len(), a.pool.bootstrap.len()) == before {
			break;
		}
	}
	let discovered = a.pool.order.clone();
	let bootstrap = a.pool.bootstrap.clone();
	// final order
	let mut order: Vec<PE> = match &enc.pool {
		PoolOrder::FirstUse => discovered.clone(),
		PoolOrder::Reversed => discovered.iter().rev().cloned().collect(),
		PoolOrder::Rotated(k) => {
			let mut v = discovered.clone();
			if !v.is_empty() {
				let k = k % v.len();
				v.rotate_left(k);
			}
			v
		},
		PoolOrder::Utf8First => {
			let (mut u, r): (Vec<PE>, Vec<PE>) = discovered.iter().cloned().partition(|e| matches!(e, PE::Utf8(_)));
			u.extend(r);
			u
		},
		PoolOrder::Utf8Last => {
			let (u, mut r): (Vec<PE>, Vec<PE>) = discovered.iter().cloned().partition(|e| matches!(e, PE::Utf8(_)));
			r.extend(u);
			r
		},
		PoolOrder::Perm(p) => {
			if p.len() != discovered.len() {
				return Err(AsmError::Internal(format!("permutation of {} for a pool of {}", p.len(), discovered.len())));
			}
			let mut seen = vec![false; p.len()];
			for &i in p {
				if i >= p.len() || std::mem::replace(&mut seen[i], true) {
					return Err(AsmError::Internal("not a permutation".into()));
				}
			}
			p.iter().map(|&i| discovered[i].clone()).collect()
		},
	};
	// padding entries (each needs its own sub-entries right after it)
	let mut pads: Vec<(usize, Vec<PE>)> = Vec::new();
	for (k, (at, p)) in enc.pads.iter().enumerate() {
		let es = match p {
			Pad::Utf8(s) => vec![PE::Utf8(JS::new(&format!("{s}#pad{k}")))],
			Pad::RawUtf8(s) => vec![PE::Utf8(JS::new(s))],
			Pad::Int(v) => vec![PE::Pad(k), PE::Int(*v)],
			Pad::Long(v) => vec![PE::Pad(k), PE::Long(*v)],
			Pad::Double(v) => vec![PE::Pad(k), PE::Double(*v)],
			Pad::Class(s) => vec![PE::Class(JS::new(&format!("{s}#pad{k}"))), PE::Utf8(JS::new(&format!("{s}#pad{k}")))],
		};
		pads.push((*at, es));
	}
	pads.sort_by_key(|(at, _)| std::cmp::Reverse(*at));
	let mut final_list: Vec<(PE, bool)> = order.drain(..).map(|e| (e, false)).collect();
	for (at, es) in pads {
		let at = at.min(final_list.len());
		for (j, e) in es.into_iter().enumerate() {
			final_list.insert(at + j, (e, true));
		}
	}
	// assign indices
	let mut index: HashMap<PE, u16> = HashMap::new();
	let mut next = 1usize;
	let mut placed: Vec<(PE, bool, u16)> = Vec::new();
	for (e, is_pad) in final_list {
		if matches!(e, PE::Pad(_)) {
			continue;
		}
		if next + slots(&e) > 65535 {
			return Err(AsmError::Unencodable("constant pool too large".into()));
		}
		if !is_pad {
			index.insert(e.clone(), next as u16);
		} else if !index.contains_key(&e) && matches!(e, PE::Utf8(_)) {
			// pad Utf8s are referenced by pad Class entries through this map
			index.insert(e.clone(), next as u16);
		}
		placed.push((e.clone(), is_pad, next as u16));
		next += slots(&e);
	}
	let pool_count = next;
	// pass 2
	let mut a = Asm { pool: Pool { order: Vec::new(), index, fixed: true, bootstrap }, enc, site: 0 };
	let body = a.class_body(c)?;
	// emit
	let mut w = W::default();
	w.u32(0xCAFEBABE);
	w.u16(c.version.1);
	w.u16(c.version.0);
	w.u16(pool_count as u16);
	for (e, _, _) in &placed {
		let idx = |a: &Asm, e: PE| -> A<u16> { a.pool.index.get(&e).copied().ok_or_else(|| AsmError::Internal(format!("pool entry {e:?} has no index"))) };
		match e {
			PE::Utf8(s) => {
				let b = encode_mutf8(s);
				w.u8(1);
				w.count16(b.len(), "Utf8 length").map_err(|_| AsmError::Unencodable("Utf8 longer than 65535 bytes".into()))?;
				w.b.extend_from_slice(&b);
			},
			PE::Int(v) => {
				w.u8(3);
				w.u32(*v as u32);
			},
			PE::Float(v) => {
				w.u8(4);
				w.u32(*v);
			},
			PE::Long(v) => {
				w.u8(5);
				w.b.extend_from_slice(&v.to_be_bytes());
			},
			PE::Double(v) => {
				w.u8(6);
				w.b.extend_from_slice(&v.to_be_bytes());
			},
			PE::Class(n) => {
				w.u8(7);
				w.u16(idx(&a, PE::Utf8(n.clone()))?);
			},
			PE::Str(n) => {
				w.u8(8);
				w.u16(idx(&a, PE::Utf8(n.clone()))?);
			},
			PE::Field(m) | PE::Method(m) | PE::IMethod(m) => {
				w.u8(match e {
					PE::Field(_) => 9,
					PE::Method(_) => 10,
					_ => 11,
				});
				w.u16(idx(&a, PE::Class(m.owner.clone()))?);
				w.u16(idx(&a, PE::NameAndType(m.name.clone(), m.desc.clone()))?);
			},
			PE::NameAndType(n, d) => {
				w.u8(12);
				w.u16(idx(&a, PE::Utf8(n.clone()))?);
				w.u16(idx(&a, PE::Utf8(d.clone()))?);
			},
			PE::Handle(h) => {
				w.u8(15);
				w.u8(h.kind);
				let m = h.member.clone();
				let r = match h.kind {
					1..=4 => PE::Field(m),
					_ if h.interface => PE::IMethod(m),
					_ => PE::Method(m),
				};
				w.u16(idx(&a, r)?);
			},
			PE::MethodType(d) => {
				w.u8(16);
				w.u16(idx(&a, PE::Utf8(d.clone()))?);
			},
			PE::Dynamic(b, n, d) | PE::InvokeDynamic(b, n, d) => {
				w.u8(if matches!(e, PE::Dynamic(..)) { 17 } else { 18 });
				w.u16(*b);
				w.u16(idx(&a, PE::NameAndType(n.clone(), d.clone()))?);
			},
			PE::Module(n) => {
				w.u8(19);
				w.u16(idx(&a, PE::Utf8(n.clone()))?);
			},
			PE::Package(n) => {
				w.u8(20);
				w.u16(idx(&a, PE::Utf8(n.clone()))?);
			},
			PE::Pad(_) => {},
		}
	}
	w.b.extend_from_slice(&body);
	Ok(w.b)
}
