//! cfasm <dir>: for every class, parse → assemble under several encodings → parse again → must be equal.
use std::collections::BTreeMap;
use std::path::Path;
use cfmodel::asm::*;
fn walk(p: &Path, out: &mut Vec<std::path::PathBuf>) {
	if let Ok(rd) = std::fs::read_dir(p) {
		for e in rd.flatten() {
			let p = e.path();
			if p.is_dir() { walk(&p, out) } else if p.extension().is_some_and(|e| e == "class") { out.push(p) }
		}
	}
}
fn main() {
	let dir = std::env::args().nth(1).expect("dir");
	let mut files = Vec::new();
	walk(Path::new(&dir), &mut files);
	files.sort();
	let encs = vec![
		Encoding::default(),
		Encoding { pool: PoolOrder::Reversed, default_form: 1, attr_order: AttrOrder::Reversed, ..Default::default() },
		Encoding { pool: PoolOrder::Utf8Last, default_form: 2, attr_order: AttrOrder::Rotated(1), split_tables: true, frames_extended: true, pads: vec![(0, Pad::Long(7)), (5, Pad::Utf8("x".into())), (9999, Pad::Class("Q".into())), (3, Pad::RawUtf8("Code".into()))], ..Default::default() },
		Encoding { pool: PoolOrder::Rotated(7), forms: vec![2, 0, 1, 2, 2, 0, 1], ..Default::default() },
	];
	let mut keys: BTreeMap<String, (usize, String)> = BTreeMap::new();
	let mut n = 0;
	for f in &files {
		let b = std::fs::read(f).unwrap();
		let m = cfmodel::parse(&b).unwrap().class;
		for (k, enc) in encs.iter().enumerate() {
			n += 1;
			match assemble(&m, enc) {
				Err(e) => { keys.entry(format!("asm-error enc{k}")).or_insert((0, format!("{}: {e:?}", f.display()))).0 += 1; },
				Ok(b2) => match cfmodel::parse(&b2) {
					Err(e) => { keys.entry(format!("reparse-error enc{k}")).or_insert((0, format!("{}: {e}", f.display()))).0 += 1; },
					Ok(p2) => {
						for (key, d) in cfmodel::sdiff::diff(&m, &p2.class).0 {
							keys.entry(format!("{key} enc{k}")).or_insert((0, format!("{}: {d}", f.display()))).0 += 1;
						}
						if k == 0 && b2.len() > b.len() + 64 { keys.entry("bigger".into()).or_insert((0, format!("{}: {} vs {}", f.display(), b2.len(), b.len()))).0 += 1; }
					},
				},
			}
		}
	}
	println!("assembled {n}");
	for (k, (n, ex)) in keys {
		println!("{k}  x{n}\n    e.g. {}", &ex[..ex.len().min(500)]);
	}
}
