//! cfparse <dir>: parse every .class below <dir> with the strict parser, read it with duke, compare.
use std::collections::BTreeMap;
use std::path::Path;
fn walk(p: &Path, out: &mut Vec<std::path::PathBuf>) {
	if let Ok(rd) = std::fs::read_dir(p) {
		for e in rd.flatten() {
			let p = e.path();
			if p.is_dir() { walk(&p, out) } else if p.extension().is_some_and(|e| e == "class") { out.push(p) }
		}
	}
}
fn main() {
	let dir = std::env::args().nth(1).expect("dir");
	let mut files = Vec::new();
	walk(Path::new(&dir), &mut files);
	files.sort();
	let (mut ok, mut bad) = (0, 0);
	let mut keys: BTreeMap<String, (usize, String)> = BTreeMap::new();
	for f in &files {
		let b = std::fs::read(f).unwrap();
		match cfmodel::parse(&b) {
			Ok(p) => {
				ok += 1;
				let r = std::panic::catch_unwind(|| duke::read_class(&mut std::io::Cursor::new(&b)));
				match r {
					Err(_) => { keys.entry("duke-panic".into()).or_insert((0, f.display().to_string())).0 += 1; },
					Ok(Err(e)) => { keys.entry("duke-refused".into()).or_insert((0, format!("{}: {e:#}", f.display()))).0 += 1; },
					Ok(Ok(cf)) => match cfmodel::duke_proj::project(&cf) {
						Err(e) => { keys.entry("projection".into()).or_insert((0, format!("{}: {e}", f.display()))).0 += 1; },
						Ok(s) => for (k, d) in cfmodel::sdiff::diff(&p.class, &s).0 {
							keys.entry(k).or_insert((0, format!("{}: {d}", f.display()))).0 += 1;
						},
					},
				}
			},
			Err(e) => {
				bad += 1;
				if bad <= 20 { println!("{}: {e}", f.display()); }
			},
		}
	}
	println!("ok={ok} bad={bad}");
	for (k, (n, ex)) in keys {
		println!("{k}  x{n}\n    e.g. {}", &ex[..ex.len().min(400)]);
	}
}
