//! Projection `duke::tree::ClassFile → SClass`.
//!
//! Flags are rebuilt from duke's public booleans with this file's own bit table (JVMS tables
//! 4.1-B, 4.5-A, 4.6-A, 4.7.6-A, 4.7.24, 4.7.25), labels are resolved to instruction indices
//! through `InstructionListEntry.label` / `Code.last_label`. A label that no instruction carries is a
//! projection error: the tree refers to a position that does not exist.

use std::collections::HashMap;
use java_string::JavaStr;
use duke::tree::annotation::{Annotation, ElementValue, Object};
use duke::tree::attribute::Attribute;
use duke::tree::class::{ClassFile, ClassName};
use duke::tree::field::{ConstantValue, Field, FieldRef};
use duke::tree::method::code::{ArrayType, Code, ConstantDynamic, Handle, Instruction, InvokeDynamic, Label, Loadable, LvIndex};
use duke::tree::method::{Method, MethodRef};
use duke::tree::type_annotation::{TargetInfoClass, TargetInfoCode, TargetInfoField, TargetInfoMethod, TypeAnnotation, TypePath};
use duke::visitor::method::code::{StackMapData, VerificationTypeInfo};
use crate::model::*;

pub type PR<T> = Result<T, String>;

pub fn js(s: &JavaStr) -> JS {
	let mut out = Vec::with_capacity(s.len());
	for c in s.chars() {
		let v = c.as_u32();
		if v >= 0x10000 {
			let v = v - 0x10000;
			out.push(0xD800 + (v >> 10) as u16);
			out.push(0xDC00 + (v & 0x3ff) as u16);
		} else {
			out.push(v as u16);
		}
	}
	JS(out)
}

fn bits(pairs: &[(bool, u16)]) -> u16 {
	pairs.iter().fold(0, |a, (b, m)| if *b { a | m } else { a })
}

fn cn(c: &ClassName) -> JS {
	js(c.as_inner())
}

fn unknown(attrs: &[Attribute]) -> Vec<SUnknown> {
	let mut v: Vec<SUnknown> = attrs.iter().map(|a| SUnknown { name: js(&a.name), bytes: a.bytes.clone() }).collect();
	v.sort();
	v
}

fn object(o: &Object) -> SElementValue {
	match o {
		Object::Byte(v) => SElementValue::Const(b'B', SConst::Int(*v as i32)),
		Object::Char(v) => SElementValue::Const(b'C', SConst::Int(*v as i32)),
		Object::Double(v) => SElementValue::Const(b'D', SConst::Double(v.to_bits())),
		Object::Float(v) => SElementValue::Const(b'F', SConst::Float(v.to_bits())),
		Object::Integer(v) => SElementValue::Const(b'I', SConst::Int(*v)),
		Object::Long(v) => SElementValue::Const(b'J', SConst::Long(*v)),
		Object::Short(v) => SElementValue::Const(b'S', SConst::Int(*v as i32)),
		Object::Boolean(v) => SElementValue::Const(b'Z', SConst::Int(*v as i32)),
		Object::String(s) => SElementValue::Str(js(s)),
	}
}

fn element_value(v: &ElementValue) -> SElementValue {
	match v {
		ElementValue::Object(o) => object(o),
		ElementValue::Enum { type_name, const_name } => SElementValue::Enum { type_name: js(type_name.as_inner()), const_name: js(const_name) },
		ElementValue::Class(c) => SElementValue::Class(js(c.as_inner())),
		ElementValue::AnnotationInterface(a) => SElementValue::Annotation(annotation(a)),
		ElementValue::ArrayType(v) => SElementValue::Array(v.iter().map(element_value).collect()),
	}
}

pub fn annotation(a: &Annotation) -> SAnnotation {
	SAnnotation { type_name: js(a.annotation_type.as_inner()), pairs: a.element_value_pairs.iter().map(|p| (js(&p.name), element_value(&p.value))).collect() }
}

fn type_path(p: &TypePath) -> Vec<(u8, u8)> {
	duke::verif::type_path_steps(p)
}

fn ta_class(t: &TypeAnnotation<TargetInfoClass>) -> STypeAnnotation {
	let target = match t.type_reference {
		TargetInfoClass::ClassTypeParameter { index } => STarget::TypeParameter { target_type: 0x00, index },
		TargetInfoClass::Extends => STarget::Supertype(65535),
		TargetInfoClass::Implements { index } => STarget::Supertype(index),
		TargetInfoClass::ClassTypeParameterBound { type_parameter_index, bound_index } => STarget::TypeParameterBound { target_type: 0x11, param: type_parameter_index, bound: bound_index },
	};
	STypeAnnotation { target, path: type_path(&t.type_path), annotation: annotation(&t.annotation) }
}

fn ta_field(t: &TypeAnnotation<TargetInfoField>) -> STypeAnnotation {
	let target = match t.type_reference {
		TargetInfoField::Field => STarget::Empty(0x13),
	};
	STypeAnnotation { target, path: type_path(&t.type_path), annotation: annotation(&t.annotation) }
}

fn ta_method(t: &TypeAnnotation<TargetInfoMethod>) -> STypeAnnotation {
	let target = match t.type_reference {
		TargetInfoMethod::MethodTypeParameter { index } => STarget::TypeParameter { target_type: 0x01, index },
		TargetInfoMethod::MethodTypeParameterBound { type_parameter_index, bound_index } => STarget::TypeParameterBound { target_type: 0x12, param: type_parameter_index, bound: bound_index },
		TargetInfoMethod::Return => STarget::Empty(0x14),
		TargetInfoMethod::Receiver => STarget::Empty(0x15),
		TargetInfoMethod::FormalParameter { index } => STarget::FormalParameter(index),
		TargetInfoMethod::Throws { index } => STarget::Throws(index),
	};
	STypeAnnotation { target, path: type_path(&t.type_path), annotation: annotation(&t.annotation) }
}

struct Labels {
	map: HashMap<Label, Idx>,
}

impl Labels {
	fn get(&self, l: &Label, what: &str) -> PR<Idx> {
		self.map.get(l).copied().ok_or_else(|| format!("{what}: label {l:?} is not attached to any instruction nor the end of the code"))
	}
}

fn ta_code(t: &TypeAnnotation<TargetInfoCode>, l: &Labels) -> PR<STypeAnnotation> {
	let table = |tt: u8, table: &Vec<(duke::tree::method::code::LabelRange, LvIndex)>| -> PR<STarget> {
		let mut v = Vec::new();
		for (r, i) in table {
			let (s, e) = duke::verif::label_range_parts(r);
			v.push((l.get(&s, "type annotation local variable start")?, l.get(&e, "type annotation local variable end")?, i.index));
		}
		Ok(STarget::LocalVar { target_type: tt, table: v })
	};
	let target = match &t.type_reference {
		TargetInfoCode::LocalVariable { table: t } => table(0x40, t)?,
		TargetInfoCode::ResourceVariable { table: t } => table(0x41, t)?,
		TargetInfoCode::ExceptionParameter { index } => STarget::Catch(*index),
		TargetInfoCode::InstanceOf(lb) => STarget::Offset { target_type: 0x43, at: l.get(lb, "type annotation target")? },
		TargetInfoCode::New(lb) => STarget::Offset { target_type: 0x44, at: l.get(lb, "type annotation target")? },
		TargetInfoCode::ConstructorReference(lb) => STarget::Offset { target_type: 0x45, at: l.get(lb, "type annotation target")? },
		TargetInfoCode::MethodReference(lb) => STarget::Offset { target_type: 0x46, at: l.get(lb, "type annotation target")? },
		TargetInfoCode::Cast { label, index } => STarget::TypeArgument { target_type: 0x47, at: l.get(label, "type annotation target")?, index: *index },
		TargetInfoCode::ConstructorInvocationTypeArgument { label, index } => STarget::TypeArgument { target_type: 0x48, at: l.get(label, "type annotation target")?, index: *index },
		TargetInfoCode::MethodInvocationTypeArgument { label, index } => STarget::TypeArgument { target_type: 0x49, at: l.get(label, "type annotation target")?, index: *index },
		TargetInfoCode::ConstructorReferenceTypeArgument { label, index } => STarget::TypeArgument { target_type: 0x4A, at: l.get(label, "type annotation target")?, index: *index },
		TargetInfoCode::MethodReferenceTypeArgument { label, index } => STarget::TypeArgument { target_type: 0x4B, at: l.get(label, "type annotation target")?, index: *index },
	};
	Ok(STypeAnnotation { target, path: type_path(&t.type_path), annotation: annotation(&t.annotation) })
}

fn field_ref(r: &FieldRef) -> SMemberRef {
	SMemberRef { owner: js(r.class.as_inner()), name: js(r.name.as_inner()), desc: js(r.desc.as_inner()) }
}

fn method_ref(r: &MethodRef) -> SMemberRef {
	SMemberRef { owner: cn(&r.class), name: js(r.name.as_inner()), desc: js(r.desc.as_inner()) }
}

fn handle(h: &Handle) -> SHandle {
	match h {
		Handle::GetField(f) => SHandle { kind: 1, member: field_ref(f), interface: false },
		Handle::GetStatic(f) => SHandle { kind: 2, member: field_ref(f), interface: false },
		Handle::PutField(f) => SHandle { kind: 3, member: field_ref(f), interface: false },
		Handle::PutStatic(f) => SHandle { kind: 4, member: field_ref(f), interface: false },
		Handle::InvokeVirtual(m) => SHandle { kind: 5, member: method_ref(m), interface: false },
		Handle::InvokeStatic(m, i) => SHandle { kind: 6, member: method_ref(m), interface: *i },
		Handle::InvokeSpecial(m, i) => SHandle { kind: 7, member: method_ref(m), interface: *i },
		Handle::NewInvokeSpecial(m) => SHandle { kind: 8, member: method_ref(m), interface: false },
		Handle::InvokeInterface(m) => SHandle { kind: 9, member: method_ref(m), interface: true },
	}
}

fn loadable(l: &Loadable) -> SConst {
	match l {
		Loadable::Integer(v) => SConst::Int(*v),
		Loadable::Float(v) => SConst::Float(v.to_bits()),
		Loadable::Long(v) => SConst::Long(*v),
		Loadable::Double(v) => SConst::Double(v.to_bits()),
		Loadable::Class(c) => SConst::Class(cn(c)),
		Loadable::String(s) => SConst::Str(js(s)),
		Loadable::MethodHandle(h) => SConst::Handle(handle(h)),
		Loadable::MethodType(d) => SConst::MethodType(js(d.as_inner())),
		Loadable::Dynamic(d) => SConst::Dynamic(Box::new(constant_dynamic(d))),
	}
}

fn constant_dynamic(d: &ConstantDynamic) -> SDynamic {
	SDynamic { bootstrap: SBootstrap { handle: handle(&d.handle), args: d.arguments.iter().map(loadable).collect() }, name: js(d.name.as_inner()), desc: js(d.descriptor.as_inner()) }
}

fn invoke_dynamic(d: &InvokeDynamic) -> SDynamic {
	SDynamic { bootstrap: SBootstrap { handle: handle(&d.handle), args: d.arguments.iter().map(loadable).collect() }, name: js(d.name.as_inner()), desc: js(d.descriptor.as_inner()) }
}

fn vtype(v: &VerificationTypeInfo, l: &Labels) -> PR<SVType> {
	Ok(match v {
		VerificationTypeInfo::Top => SVType::Top,
		VerificationTypeInfo::Integer => SVType::Integer,
		VerificationTypeInfo::Float => SVType::Float,
		VerificationTypeInfo::Long => SVType::Long,
		VerificationTypeInfo::Double => SVType::Double,
		VerificationTypeInfo::Null => SVType::Null,
		VerificationTypeInfo::UninitializedThis => SVType::UninitializedThis,
		VerificationTypeInfo::Object(c) => SVType::Object(cn(c)),
		VerificationTypeInfo::Uninitialized(lb) => SVType::Uninitialized(l.get(lb, "uninitialized verification type")?),
	})
}

fn frame(f: &StackMapData, l: &Labels) -> PR<SFrame> {
	Ok(match f {
		StackMapData::Same => SFrame::Same,
		StackMapData::SameLocals1StackItem { stack } => SFrame::SameLocals1(vtype(stack, l)?),
		StackMapData::Chop { k } => SFrame::Chop(*k),
		StackMapData::Append { locals } => SFrame::Append(locals.iter().map(|v| vtype(v, l)).collect::<PR<_>>()?),
		StackMapData::Full { locals, stack } => SFrame::Full { locals: locals.iter().map(|v| vtype(v, l)).collect::<PR<_>>()?, stack: stack.iter().map(|v| vtype(v, l)).collect::<PR<_>>()? },
	})
}

fn atype(a: ArrayType) -> u8 {
	match a {
		ArrayType::Boolean => 4,
		ArrayType::Char => 5,
		ArrayType::Float => 6,
		ArrayType::Double => 7,
		ArrayType::Byte => 8,
		ArrayType::Short => 9,
		ArrayType::Int => 10,
		ArrayType::Long => 11,
	}
}

fn insn(i: &Instruction, l: &Labels) -> PR<SInsn> {
	use Instruction as I;
	let s = |o: u8| Ok(SInsn::Simple(o));
	let b = |o: u8, lb: &Label| -> PR<SInsn> { Ok(SInsn::Branch(o, l.get(lb, "branch target")?)) };
	match i {
		I::Nop => s(0x00), I::AConstNull => s(0x01),
		I::IConstM1 => s(0x02), I::IConst0 => s(0x03), I::IConst1 => s(0x04), I::IConst2 => s(0x05), I::IConst3 => s(0x06), I::IConst4 => s(0x07), I::IConst5 => s(0x08),
		I::LConst0 => s(0x09), I::LConst1 => s(0x0a),
		I::FConst0 => s(0x0b), I::FConst1 => s(0x0c), I::FConst2 => s(0x0d),
		I::DConst0 => s(0x0e), I::DConst1 => s(0x0f),
		I::BiPush(v) => Ok(SInsn::BiPush(*v)),
		I::SiPush(v) => Ok(SInsn::SiPush(*v)),
		I::Ldc(c) => Ok(SInsn::Ldc(loadable(c))),
		I::ILoad(x) => Ok(SInsn::Load(LvKind::I, x.index)), I::LLoad(x) => Ok(SInsn::Load(LvKind::L, x.index)), I::FLoad(x) => Ok(SInsn::Load(LvKind::F, x.index)),
		I::DLoad(x) => Ok(SInsn::Load(LvKind::D, x.index)), I::ALoad(x) => Ok(SInsn::Load(LvKind::A, x.index)),
		I::IALoad => s(0x2e), I::LALoad => s(0x2f), I::FALoad => s(0x30), I::DALoad => s(0x31), I::AALoad => s(0x32), I::BALoad => s(0x33), I::CALoad => s(0x34), I::SALoad => s(0x35),
		I::IStore(x) => Ok(SInsn::Store(LvKind::I, x.index)), I::LStore(x) => Ok(SInsn::Store(LvKind::L, x.index)), I::FStore(x) => Ok(SInsn::Store(LvKind::F, x.index)),
		I::DStore(x) => Ok(SInsn::Store(LvKind::D, x.index)), I::AStore(x) => Ok(SInsn::Store(LvKind::A, x.index)),
		I::IAStore => s(0x4f), I::LAStore => s(0x50), I::FAStore => s(0x51), I::DAStore => s(0x52), I::AAStore => s(0x53), I::BAStore => s(0x54), I::CAStore => s(0x55), I::SAStore => s(0x56),
		I::Pop => s(0x57), I::Pop2 => s(0x58), I::Dup => s(0x59), I::DupX1 => s(0x5a), I::DupX2 => s(0x5b), I::Dup2 => s(0x5c), I::Dup2X1 => s(0x5d), I::Dup2X2 => s(0x5e), I::Swap => s(0x5f),
		I::IAdd => s(0x60), I::LAdd => s(0x61), I::FAdd => s(0x62), I::DAdd => s(0x63),
		I::ISub => s(0x64), I::LSub => s(0x65), I::FSub => s(0x66), I::DSub => s(0x67),
		I::IMul => s(0x68), I::LMul => s(0x69), I::FMul => s(0x6a), I::DMul => s(0x6b),
		I::IDiv => s(0x6c), I::LDiv => s(0x6d), I::FDiv => s(0x6e), I::DDiv => s(0x6f),
		I::IRem => s(0x70), I::LRem => s(0x71), I::FRem => s(0x72), I::DRem => s(0x73),
		I::INeg => s(0x74), I::LNeg => s(0x75), I::FNeg => s(0x76), I::DNeg => s(0x77),
		I::IShl => s(0x78), I::LShl => s(0x79), I::IShr => s(0x7a), I::LShr => s(0x7b), I::IUShr => s(0x7c), I::LUShr => s(0x7d),
		I::IAnd => s(0x7e), I::LAnd => s(0x7f), I::IOr => s(0x80), I::LOr => s(0x81), I::IXor => s(0x82), I::LXor => s(0x83),
		I::IInc(x, v) => Ok(SInsn::IInc(x.index, *v)),
		I::I2L => s(0x85), I::I2F => s(0x86), I::I2D => s(0x87), I::L2I => s(0x88), I::L2F => s(0x89), I::L2D => s(0x8a),
		I::F2I => s(0x8b), I::F2L => s(0x8c), I::F2D => s(0x8d), I::D2I => s(0x8e), I::D2L => s(0x8f), I::D2F => s(0x90),
		I::I2B => s(0x91), I::I2C => s(0x92), I::I2S => s(0x93),
		I::LCmp => s(0x94), I::FCmpL => s(0x95), I::FCmpG => s(0x96), I::DCmpL => s(0x97), I::DCmpG => s(0x98),
		I::IfEq(x) => b(0x99, x), I::IfNe(x) => b(0x9a, x), I::IfLt(x) => b(0x9b, x), I::IfGe(x) => b(0x9c, x), I::IfGt(x) => b(0x9d, x), I::IfLe(x) => b(0x9e, x),
		I::IfICmpEq(x) => b(0x9f, x), I::IfICmpNe(x) => b(0xa0, x), I::IfICmpLt(x) => b(0xa1, x), I::IfICmpGe(x) => b(0xa2, x), I::IfICmpGt(x) => b(0xa3, x), I::IfICmpLe(x) => b(0xa4, x),
		I::IfACmpEq(x) => b(0xa5, x), I::IfACmpNe(x) => b(0xa6, x),
		I::Goto(x) => b(0xa7, x), I::Jsr(x) => b(0xa8, x),
		I::Ret(x) => Ok(SInsn::Ret(x.index)),
		I::TableSwitch { default, low, high, table } => {
			if (*high as i64 - *low as i64 + 1) != table.len() as i64 {
				return Err(format!("tableswitch low {low} high {high} but {} targets", table.len()));
			}
			Ok(SInsn::TableSwitch { default: l.get(default, "switch default")?, low: *low, targets: table.iter().map(|t| l.get(t, "switch target")).collect::<PR<_>>()? })
		},
		I::LookupSwitch { default, pairs } => Ok(SInsn::LookupSwitch { default: l.get(default, "switch default")?, pairs: pairs.iter().map(|(k, t)| Ok((*k, l.get(t, "switch target")?))).collect::<PR<_>>()? }),
		I::IReturn => s(0xac), I::LReturn => s(0xad), I::FReturn => s(0xae), I::DReturn => s(0xaf), I::AReturn => s(0xb0), I::Return => s(0xb1),
		I::GetStatic(f) => Ok(SInsn::Field(0xb2, field_ref(f))), I::PutStatic(f) => Ok(SInsn::Field(0xb3, field_ref(f))),
		I::GetField(f) => Ok(SInsn::Field(0xb4, field_ref(f))), I::PutField(f) => Ok(SInsn::Field(0xb5, field_ref(f))),
		I::InvokeVirtual(m) => Ok(SInsn::Invoke(0xb6, method_ref(m), false)),
		I::InvokeSpecial(m, i) => Ok(SInsn::Invoke(0xb7, method_ref(m), *i)),
		I::InvokeStatic(m, i) => Ok(SInsn::Invoke(0xb8, method_ref(m), *i)),
		I::InvokeInterface(m) => Ok(SInsn::Invoke(0xb9, method_ref(m), true)),
		I::InvokeDynamic(d) => Ok(SInsn::InvokeDynamic(invoke_dynamic(d))),
		I::New(c) => Ok(SInsn::New(cn(c))),
		I::NewArray(a) => Ok(SInsn::NewArray(atype(*a))),
		I::ANewArray(c) => Ok(SInsn::ANewArray(cn(c))),
		I::ArrayLength => s(0xbe), I::AThrow => s(0xbf),
		I::CheckCast(c) => Ok(SInsn::CheckCast(cn(c))),
		I::InstanceOf(c) => Ok(SInsn::InstanceOf(cn(c))),
		I::MonitorEnter => s(0xc2), I::MonitorExit => s(0xc3),
		I::MultiANewArray(c, d) => Ok(SInsn::MultiANewArray(cn(c), *d)),
		I::IfNull(x) => b(0xc6, x), I::IfNonNull(x) => b(0xc7, x),
	}
}

pub fn code(c: &Code) -> PR<SCode> {
	let mut map = HashMap::new();
	for (i, e) in c.instructions.iter().enumerate() {
		if let Some(l) = &e.label {
			if map.insert(*l, i as Idx).is_some() {
				return Err(format!("label {l:?} attached to two instructions"));
			}
		}
	}
	if let Some(l) = &c.last_label {
		if map.insert(*l, c.instructions.len() as Idx).is_some() {
			return Err(format!("last label {l:?} also attached to an instruction"));
		}
	}
	let l = Labels { map };
	let mut out = SCode {
		max_stack: c.max_stack.ok_or("no max_stack")?,
		max_locals: c.max_locals.ok_or("no max_locals")?,
		..Default::default()
	};
	for (i, e) in c.instructions.iter().enumerate() {
		out.insns.push(insn(&e.instruction, &l)?);
		if let Some(f) = &e.frame {
			out.frames.push((i as Idx, frame(f, &l)?));
		}
	}
	for e in &c.exception_table {
		out.exceptions.push(SExceptionEntry {
			start: l.get(&e.start, "exception start")?,
			end: l.get(&e.end, "exception end")?,
			handler: l.get(&e.handler, "exception handler")?,
			catch: e.catch.as_ref().map(cn),
		});
	}
	for (lb, line) in c.line_numbers.iter().flatten() {
		out.line_numbers.push((l.get(lb, "line number")?, *line));
	}
	out.line_numbers.sort();
	out.empty_line_table = c.line_numbers.as_ref().is_some_and(|t| t.is_empty());
	out.empty_local_table = c.local_variables.as_ref().is_some_and(|t| t.is_empty());
	for lv in c.local_variables.iter().flatten() {
		let (s, e) = duke::verif::label_range_parts(&lv.range);
		let (start, end) = (l.get(&s, "local variable start")?, l.get(&e, "local variable end")?);
		if let Some(d) = &lv.descriptor {
			out.local_vars.push(SLocalVar { start, end, name: js(lv.name.as_inner()), ty: js(d.as_inner()), index: lv.index.index });
		}
		if let Some(sg) = &lv.signature {
			out.local_var_types.push(SLocalVar { start, end, name: js(lv.name.as_inner()), ty: js(sg.as_inner()), index: lv.index.index });
		}
	}
	out.local_vars.sort();
	out.local_var_types.sort();
	out.visible_type = c.runtime_visible_type_annotations.iter().map(|t| ta_code(t, &l)).collect::<PR<_>>()?;
	out.invisible_type = c.runtime_invisible_type_annotations.iter().map(|t| ta_code(t, &l)).collect::<PR<_>>()?;
	out.unknown = unknown(&c.attributes);
	Ok(out)
}

fn field(f: &Field) -> SField {
	let a = &f.access;
	SField {
		access: bits(&[(a.is_public, 0x0001), (a.is_private, 0x0002), (a.is_protected, 0x0004), (a.is_static, 0x0008), (a.is_final, 0x0010), (a.is_volatile, 0x0040), (a.is_transient, 0x0080), (a.is_synthetic, 0x1000), (a.is_enum, 0x4000)]),
		name: js(f.name.as_inner()),
		desc: js(f.descriptor.as_inner()),
		constant_value: f.constant_value.as_ref().map(|c| match c {
			ConstantValue::Integer(v) => SConst::Int(*v),
			ConstantValue::Float(v) => SConst::Float(v.to_bits()),
			ConstantValue::Long(v) => SConst::Long(*v),
			ConstantValue::Double(v) => SConst::Double(v.to_bits()),
			ConstantValue::String(s) => SConst::Str(js(s)),
		}),
		synthetic: f.has_synthetic_attribute,
		deprecated: f.has_deprecated_attribute,
		signature: f.signature.as_ref().map(|s| js(s.as_inner())),
		annotations: SAnnotations {
			visible: f.runtime_visible_annotations.iter().map(annotation).collect(),
			invisible: f.runtime_invisible_annotations.iter().map(annotation).collect(),
			visible_type: f.runtime_visible_type_annotations.iter().map(ta_field).collect(),
			invisible_type: f.runtime_invisible_type_annotations.iter().map(ta_field).collect(),
		},
		unknown: unknown(&f.attributes),
	}
}

fn method(m: &Method) -> PR<SMethod> {
	let a = &m.access;
	Ok(SMethod {
		access: bits(&[
			(a.is_public, 0x0001), (a.is_private, 0x0002), (a.is_protected, 0x0004), (a.is_static, 0x0008), (a.is_final, 0x0010), (a.is_synchronized, 0x0020),
			(a.is_bridge, 0x0040), (a.is_varargs, 0x0080), (a.is_native, 0x0100), (a.is_abstract, 0x0400), (a.is_strict, 0x0800), (a.is_synthetic, 0x1000),
		]),
		name: js(m.name.as_inner()),
		desc: js(m.descriptor.as_inner()),
		code: m.code.as_ref().map(code).transpose().map_err(|e| format!("method {:?}{:?}: {e}", m.name, m.descriptor))?,
		exceptions: m.exceptions.as_ref().map(|v| v.iter().map(cn).collect()),
		synthetic: m.has_synthetic_attribute,
		deprecated: m.has_deprecated_attribute,
		signature: m.signature.as_ref().map(|s| js(s.as_inner())),
		annotations: SAnnotations {
			visible: m.runtime_visible_annotations.iter().map(annotation).collect(),
			invisible: m.runtime_invisible_annotations.iter().map(annotation).collect(),
			visible_type: m.runtime_visible_type_annotations.iter().map(ta_method).collect(),
			invisible_type: m.runtime_invisible_type_annotations.iter().map(ta_method).collect(),
		},
		// the tree has no place for parameter annotations
		visible_param_annotations: None,
		invisible_param_annotations: None,
		annotation_default: m.annotation_default.as_ref().map(element_value),
		parameters: m.method_parameters.as_ref().map(|v| v.iter().map(|p| (p.name.as_ref().map(|n| js(n.as_inner())), bits(&[(p.flags.is_final, 0x0010), (p.flags.is_synthetic, 0x1000), (p.flags.is_mandated, 0x8000)]))).collect()),
		unknown: unknown(&m.attributes),
	})
}

pub fn project(c: &ClassFile) -> PR<SClass> {
	let a = &c.access;
	let module = c.module.as_ref().map(|m| {
		let v = duke::verif::module_view(m);
		let ef = |f: (bool, bool)| bits(&[(f.0, 0x1000), (f.1, 0x8000)]);
		SModule {
			name: js(v.name.as_inner()),
			flags: bits(&[(v.flags.0, 0x0020), (v.flags.1, 0x1000), (v.flags.2, 0x8000)]),
			version: v.version.map(|s| js(s)),
			requires: v.requires.iter().map(|(n, f, ver)| (js(n.as_inner()), bits(&[(f.0, 0x0020), (f.1, 0x0040), (f.2, 0x1000), (f.3, 0x8000)]), ver.map(|s| js(s)))).collect(),
			exports: v.exports.iter().map(|(p, f, to)| (js(p.as_inner()), ef(*f), to.iter().map(|m| js(m.as_inner())).collect())).collect(),
			opens: v.opens.iter().map(|(p, f, to)| (js(p.as_inner()), ef(*f), to.iter().map(|m| js(m.as_inner())).collect())).collect(),
			uses: v.uses.iter().map(cn).collect(),
			provides: v.provides.iter().map(|(s, w)| (cn(s), w.iter().map(cn).collect())).collect(),
		}
	});
	Ok(SClass {
		version: duke::verif::version_parts(c.version),
		access: bits(&[(a.is_public, 0x0001), (a.is_final, 0x0010), (a.is_super, 0x0020), (a.is_interface, 0x0200), (a.is_abstract, 0x0400), (a.is_synthetic, 0x1000), (a.is_annotation, 0x2000), (a.is_enum, 0x4000), (a.is_module, 0x8000)]),
		this_class: js(c.name.as_inner()),
		super_class: c.super_class.as_ref().map(|s| js(s.as_inner())),
		interfaces: c.interfaces.iter().map(|s| js(s.as_inner())).collect(),
		fields: c.fields.iter().map(field).collect(),
		methods: c.methods.iter().map(method).collect::<PR<_>>()?,
		synthetic: c.has_synthetic_attribute,
		deprecated: c.has_deprecated_attribute,
		inner_classes: c.inner_classes.as_ref().map(|v| v.iter().map(|i| {
			let f = &i.flags;
			SInnerClass {
				inner: cn(&i.inner_class),
				outer: i.outer_class.as_ref().map(cn),
				name: i.inner_name.as_ref().map(|s| js(s)),
				flags: bits(&[(f.is_public, 0x0001), (f.is_private, 0x0002), (f.is_protected, 0x0004), (f.is_static, 0x0008), (f.is_final, 0x0010), (f.is_interface, 0x0200), (f.is_abstract, 0x0400), (f.is_synthetic, 0x1000), (f.is_annotation, 0x2000), (f.is_enum, 0x4000)]),
			}
		}).collect()),
		enclosing_method: c.enclosing_method.as_ref().map(|e| (cn(&e.class), e.method.as_ref().map(|m| (js(m.name.as_inner()), js(m.desc.as_inner()))))),
		signature: c.signature.as_ref().map(|s| js(s.as_inner())),
		source_file: c.source_file.as_ref().map(|s| js(s)),
		source_debug_extension: c.source_debug_extension.as_ref().map(|s| js(s)),
		annotations: SAnnotations {
			visible: c.runtime_visible_annotations.iter().map(annotation).collect(),
			invisible: c.runtime_invisible_annotations.iter().map(annotation).collect(),
			visible_type: c.runtime_visible_type_annotations.iter().map(ta_class).collect(),
			invisible_type: c.runtime_invisible_type_annotations.iter().map(ta_class).collect(),
		},
		module,
		module_packages: c.module_packages.as_ref().map(|v| v.iter().map(|p| js(p.as_inner())).collect()),
		module_main_class: c.module_main_class.as_ref().map(cn),
		nest_host: c.nest_host_class.as_ref().map(cn),
		nest_members: c.nest_members.as_ref().map(|v| v.iter().map(cn).collect()),
		permitted_subclasses: c.permitted_subclasses.as_ref().map(|v| v.iter().map(cn).collect()),
		// the tree cannot tell "no Record attribute" from "Record attribute without components"
		record: if c.record_components.is_empty() {
			None
		} else {
			Some(c.record_components.iter().map(|rc| {
				let v = duke::verif::record_component_view(rc);
				SRecordComponent {
					name: js(rc.name.as_inner()),
					desc: js(rc.descriptor.as_inner()),
					signature: v.signature.map(|s| js(s.as_inner())),
					annotations: SAnnotations {
						visible: v.runtime_visible_annotations.iter().map(annotation).collect(),
						invisible: v.runtime_invisible_annotations.iter().map(annotation).collect(),
						visible_type: v.runtime_visible_type_annotations.iter().map(ta_field).collect(),
						invisible_type: v.runtime_invisible_type_annotations.iter().map(ta_field).collect(),
					},
					unknown: unknown(v.attributes),
				}
			}).collect())
		},
		unknown: unknown(&c.attributes),
	})
}
