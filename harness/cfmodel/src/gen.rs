pub fn placeholder() {}
