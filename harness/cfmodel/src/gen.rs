//! Deterministic generators of well-formed classes (as `SClass` models) for the class-file properties.
//!
//! Nothing here is random: every function enumerates a small explicit space, simplest first.

use crate::asm::{AttrOrder, Encoding, Pad, PoolOrder};
use crate::model::*;

pub fn js(s: &str) -> JS {
	JS::new(s)
}

pub fn skeleton(name: &str) -> SClass {
	SClass { version: (61, 0), access: 0x0021, this_class: js(name), super_class: Some(js("java/lang/Object")), ..Default::default() }
}

pub fn mref(owner: &str, name: &str, desc: &str) -> SMemberRef {
	SMemberRef { owner: js(owner), name: js(name), desc: js(desc) }
}

pub fn method_with(name: &str, desc: &str, insns: Vec<SInsn>) -> SMethod {
	SMethod { access: 0x0009, name: js(name), desc: js(desc), code: Some(SCode { max_stack: 10, max_locals: 300, insns, ..Default::default() }), ..Default::default() }
}

pub fn class_with_method(name: &str, insns: Vec<SInsn>) -> SClass {
	let mut c = skeleton(name);
	c.methods.push(method_with("m", "()V", insns));
	c
}

pub const RETURN: SInsn = SInsn::Simple(op::RETURN);

pub fn handles() -> Vec<SHandle> {
	vec![
		SHandle { kind: 1, member: mref("p/Own", "f", "I"), interface: false },
		SHandle { kind: 2, member: mref("p/Own", "sf", "Lp/T;"), interface: false },
		SHandle { kind: 3, member: mref("p/Own", "f", "I"), interface: false },
		SHandle { kind: 4, member: mref("p/Own", "sf", "[J"), interface: false },
		SHandle { kind: 5, member: mref("p/Own", "v", "()V"), interface: false },
		SHandle { kind: 6, member: mref("p/Own", "s", "(I)I"), interface: false },
		SHandle { kind: 6, member: mref("p/Itf", "s", "(I)I"), interface: true },
		SHandle { kind: 7, member: mref("p/Own", "sp", "()V"), interface: false },
		SHandle { kind: 7, member: mref("p/Itf", "sp", "()V"), interface: true },
		SHandle { kind: 8, member: mref("p/Own", "<init>", "()V"), interface: false },
		SHandle { kind: 9, member: mref("p/Itf", "i", "(Lp/T;)Lp/T;"), interface: true },
	]
}

pub fn bootstrap(depth: usize) -> SBootstrap {
	let mut args = vec![SConst::Int(7), SConst::Str(js("arg")), SConst::Class(js("p/T")), SConst::MethodType(js("(I)V")), SConst::Handle(handles()[5].clone()), SConst::Long(1 << 40), SConst::Double(1.5f64.to_bits()), SConst::Float(2.5f32.to_bits())];
	if depth > 0 {
		args.push(SConst::Dynamic(Box::new(SDynamic { bootstrap: bootstrap(depth - 1), name: js("nested"), desc: js("Lp/T;") })));
	}
	SBootstrap { handle: SHandle { kind: 6, member: mref("p/Boot", "bsm", "(Ljava/lang/invoke/MethodHandles$Lookup;Ljava/lang/String;Ljava/lang/Class;)Ljava/lang/Object;"), interface: false }, args }
}

pub fn constants() -> Vec<SConst> {
	let mut v = vec![
		SConst::Int(0), SConst::Int(i32::MIN), SConst::Int(i32::MAX), SConst::Int(-1),
		SConst::Float(0f32.to_bits()), SConst::Float(f32::NAN.to_bits()), SConst::Float(0x7fc00001), SConst::Float((-0f32).to_bits()), SConst::Float(f32::INFINITY.to_bits()),
		SConst::Long(0), SConst::Long(i64::MIN), SConst::Long(i64::MAX),
		SConst::Double(0f64.to_bits()), SConst::Double(f64::NAN.to_bits()), SConst::Double(0x7ff8000000000001), SConst::Double((-0f64).to_bits()),
		SConst::Class(js("p/T")), SConst::Class(js("[Lp/T;")), SConst::Class(js("[[I")),
		SConst::Str(js("")), SConst::Str(js("hello")), SConst::Str(JS(vec![0])), SConst::Str(JS(vec![0x7f, 0x80, 0x7ff, 0x800, 0xffff])), SConst::Str(JS(vec![0xd83d, 0xde00])), SConst::Str(JS(vec![0xd800])), SConst::Str(JS(vec![0xdc00, 0x41])),
		SConst::MethodType(js("()V")), SConst::MethodType(js("(Lp/T;[I)Lp/T;")),
		SConst::Dynamic(Box::new(SDynamic { bootstrap: bootstrap(0), name: js("k"), desc: js("I") })),
		SConst::Dynamic(Box::new(SDynamic { bootstrap: bootstrap(1), name: js("k"), desc: js("Lp/T;") })),
		SConst::Dynamic(Box::new(SDynamic { bootstrap: bootstrap(0), name: js("k2"), desc: js("J") })),
		SConst::Dynamic(Box::new(SDynamic { bootstrap: bootstrap(2), name: js("k3"), desc: js("D") })),
	];
	for h in handles() {
		v.push(SConst::Handle(h));
	}
	v
}

const LV_KINDS: [LvKind; 5] = [LvKind::I, LvKind::L, LvKind::F, LvKind::D, LvKind::A];

/// Every instruction shape with boundary operands. Branch targets refer to `[sample, return]`
/// (index 0 = the sample itself, 1 = the return).
pub fn insn_samples() -> Vec<SInsn> {
	let mut v = Vec::new();
	for o in 0..=255u8 {
		if op::is_simple(o) {
			v.push(SInsn::Simple(o));
		}
	}
	for x in [i8::MIN, -1, 0, 1, i8::MAX] {
		v.push(SInsn::BiPush(x));
	}
	for x in [i16::MIN, -129, -128, -1, 0, 127, 128, 255, 256, i16::MAX] {
		v.push(SInsn::SiPush(x));
	}
	for c in constants() {
		v.push(SInsn::Ldc(c));
	}
	for k in LV_KINDS {
		for x in [0u16, 1, 2, 3, 4, 255, 256, 65535] {
			v.push(SInsn::Load(k, x));
			v.push(SInsn::Store(k, x));
		}
	}
	for x in [0u16, 255, 256, 65535] {
		for d in [i16::MIN, -129, -128, -1, 0, 1, 127, 128, i16::MAX] {
			v.push(SInsn::IInc(x, d));
		}
		v.push(SInsn::Ret(x));
	}
	for o in (0x99..=0xa8u8).chain([op::IFNULL, op::IFNONNULL]) {
		v.push(SInsn::Branch(o, 0));
		v.push(SInsn::Branch(o, 1));
	}
	for n in 0..=3usize {
		for low in [i32::MIN, -1, 0, 5, i32::MAX - 3] {
			if n == 0 {
				continue; // a tableswitch has at least one target (low <= high)
			}
			v.push(SInsn::TableSwitch { default: 1, low, targets: (0..n).map(|i| (i % 2) as Idx).collect() });
		}
		let keys = [i32::MIN, -7, 0, i32::MAX];
		v.push(SInsn::LookupSwitch { default: 0, pairs: (0..n).map(|i| (keys[i], ((i + 1) % 2) as Idx)).collect() });
	}
	for o in [op::GETSTATIC, op::PUTSTATIC, op::GETFIELD, op::PUTFIELD] {
		v.push(SInsn::Field(o, mref("p/Own", "f", "I")));
		v.push(SInsn::Field(o, mref("p/Own$In", "g$1", "[[Lp/T;")));
	}
	v.push(SInsn::Invoke(op::INVOKEVIRTUAL, mref("p/Own", "v", "(IJ)V"), false));
	v.push(SInsn::Invoke(op::INVOKEVIRTUAL, mref("[Lp/T;", "clone", "()Ljava/lang/Object;"), false));
	v.push(SInsn::Invoke(op::INVOKESPECIAL, mref("p/Own", "<init>", "()V"), false));
	v.push(SInsn::Invoke(op::INVOKESPECIAL, mref("p/Itf", "d", "()V"), true));
	v.push(SInsn::Invoke(op::INVOKESTATIC, mref("p/Own", "s", "(D[D)D"), false));
	v.push(SInsn::Invoke(op::INVOKESTATIC, mref("p/Itf", "s", "()V"), true));
	v.push(SInsn::Invoke(op::INVOKEINTERFACE, mref("p/Itf", "i", "()V"), true));
	v.push(SInsn::Invoke(op::INVOKEINTERFACE, mref("p/Itf", "i", "(JD[JLp/T;I)I"), true));
	v.push(SInsn::Invoke(op::INVOKEINTERFACE, mref("p/Itf", "big", &format!("({})V", "J".repeat(127))), true));
	v.push(SInsn::InvokeDynamic(SDynamic { bootstrap: bootstrap(0), name: js("run"), desc: js("()Ljava/lang/Runnable;") }));
	v.push(SInsn::InvokeDynamic(SDynamic { bootstrap: bootstrap(2), name: js("apply"), desc: js("(Lp/T;I)Lp/F;") }));
	for c in ["p/T", "[Lp/T;", "[[I", "x"] {
		if !c.starts_with('[') {
			v.push(SInsn::New(js(c)));
		}
		v.push(SInsn::ANewArray(js(c)));
		v.push(SInsn::CheckCast(js(c)));
		v.push(SInsn::InstanceOf(js(c)));
	}
	for t in 4..=11u8 {
		v.push(SInsn::NewArray(t));
	}
	v.push(SInsn::MultiANewArray(js("[[I"), 1));
	v.push(SInsn::MultiANewArray(js("[[I"), 2));
	v.push(SInsn::MultiANewArray(js(&format!("{}I", "[".repeat(255))), 255));
	v
}

/// One symbol per decoding arm of a class reader, for the shape sweep. Branching symbols take a target.
#[derive(Clone, Debug)]
pub enum Sym {
	Fixed(SInsn),
	Branch(u8),
	Table,
	Lookup,
}

pub fn shape_alphabet() -> Vec<Sym> {
	let f = Sym::Fixed;
	vec![
		f(SInsn::Simple(op::NOP)),
		f(SInsn::BiPush(-3)),
		f(SInsn::SiPush(300)),
		f(SInsn::Ldc(SConst::Int(77))),
		f(SInsn::Ldc(SConst::Long(77))),
		f(SInsn::Ldc(SConst::Str(js("s")))),
		f(SInsn::Load(LvKind::I, 1)),
		f(SInsn::Load(LvKind::A, 9)),
		f(SInsn::Load(LvKind::D, 300)),
		f(SInsn::Store(LvKind::L, 2)),
		f(SInsn::Store(LvKind::F, 9)),
		f(SInsn::IInc(1, 1)),
		f(SInsn::IInc(300, 300)),
		f(SInsn::Ret(2)),
		f(SInsn::Field(op::GETFIELD, mref("p/Own", "f", "I"))),
		f(SInsn::Invoke(op::INVOKEVIRTUAL, mref("p/Own", "v", "()V"), false)),
		f(SInsn::Invoke(op::INVOKESTATIC, mref("p/Itf", "s", "()V"), true)),
		f(SInsn::Invoke(op::INVOKEINTERFACE, mref("p/Itf", "i", "(J)V"), true)),
		f(SInsn::InvokeDynamic(SDynamic { bootstrap: bootstrap(0), name: js("run"), desc: js("()V") })),
		f(SInsn::New(js("p/T"))),
		f(SInsn::NewArray(10)),
		f(SInsn::MultiANewArray(js("[[I"), 2)),
		Sym::Branch(op::IFEQ),
		Sym::Branch(op::IF_ACMPNE),
		Sym::Branch(op::IFNULL),
		Sym::Branch(op::GOTO),
		Sym::Branch(op::JSR),
		Sym::Table,
		Sym::Lookup,
	]
}

/// All instruction sequences of exactly `len` symbols (plus a trailing `return`), every branching
/// symbol with every target in `0..=len`. Addressed by index for parallel enumeration.
pub struct ShapeSpace {
	/// expanded symbols: each is a closure-free description (symbol index, target)
	pub items: Vec<(usize, Option<Idx>)>,
	pub alphabet: Vec<Sym>,
	pub len: usize,
}

impl ShapeSpace {
	pub fn new(len: usize) -> ShapeSpace {
		let alphabet = shape_alphabet();
		let mut items = Vec::new();
		for (i, s) in alphabet.iter().enumerate() {
			match s {
				Sym::Fixed(_) => items.push((i, None)),
				_ => {
					for t in 0..=len as Idx {
						items.push((i, Some(t)));
					}
				},
			}
		}
		ShapeSpace { items, alphabet, len }
	}
	pub fn count(&self) -> u64 {
		(self.items.len() as u64).pow(self.len as u32)
	}
	pub fn nth(&self, mut idx: u64) -> Vec<SInsn> {
		let k = self.items.len() as u64;
		let mut digits = vec![0usize; self.len];
		for i in (0..self.len).rev() {
			digits[i] = (idx % k) as usize;
			idx /= k;
		}
		let mut out = Vec::with_capacity(self.len + 1);
		for d in digits {
			let (si, t) = self.items[d];
			out.push(match (&self.alphabet[si], t) {
				(Sym::Fixed(i), _) => i.clone(),
				(Sym::Branch(o), Some(t)) => SInsn::Branch(*o, t),
				(Sym::Table, Some(t)) => SInsn::TableSwitch { default: t, low: -1, targets: vec![0, t] },
				(Sym::Lookup, Some(t)) => SInsn::LookupSwitch { default: 0, pairs: vec![(-5, t), (9, self.len as Idx)] },
				_ => SInsn::Simple(op::NOP),
			});
		}
		out.push(RETURN);
		out
	}
}

/// A method with one instance of every variable-encoding instruction (8 sites), for the encoding product.
pub fn variable_form_method() -> Vec<SInsn> {
	vec![
		SInsn::Ldc(SConst::Int(123456)),        // site 0: ldc / ldc_w
		SInsn::Load(LvKind::I, 2),              // site 1: iload_2 / iload 2 / wide iload 2
		SInsn::Store(LvKind::A, 7),             // site 2: astore 7 / wide astore 7
		SInsn::IInc(2, -5),                     // site 3: iinc / wide iinc
		SInsn::Branch(op::GOTO, 6),             // site 4: goto / goto_w (forward)
		SInsn::Ret(3),                          // site 5: ret / wide ret
		SInsn::Branch(op::JSR, 0),              // site 6: jsr / jsr_w (backward)
		SInsn::Branch(op::GOTO, 1),             // site 7: goto / goto_w (backward)
		SInsn::Branch(op::IFEQ, 0),
		RETURN,
	]
}

fn ann(name: &str, pairs: Vec<(&str, SElementValue)>) -> SAnnotation {
	SAnnotation { type_name: js(name), pairs: pairs.into_iter().map(|(n, v)| (js(n), v)).collect() }
}

/// element values of every tag, nested to `depth`
pub fn element_values(depth: usize) -> Vec<SElementValue> {
	let mut v = vec![
		SElementValue::Const(b'B', SConst::Int(-128)),
		SElementValue::Const(b'C', SConst::Int(0xffff)),
		SElementValue::Const(b'D', SConst::Double(2.5f64.to_bits())),
		SElementValue::Const(b'F', SConst::Float(f32::NAN.to_bits())),
		SElementValue::Const(b'I', SConst::Int(i32::MIN)),
		SElementValue::Const(b'J', SConst::Long(i64::MAX)),
		SElementValue::Const(b'S', SConst::Int(-32768)),
		SElementValue::Const(b'Z', SConst::Int(1)),
		SElementValue::Str(js("sé")),
		SElementValue::Enum { type_name: js("Lp/E;"), const_name: js("K") },
		SElementValue::Class(js("Lp/T;")),
		SElementValue::Class(js("V")),
		SElementValue::Class(js("[I")),
		SElementValue::Array(vec![]),
	];
	if depth > 0 {
		let inner = element_values(depth - 1);
		v.push(SElementValue::Annotation(ann("Lp/Inner;", inner.iter().enumerate().map(|(i, e)| (["a", "b", "c"][i % 3], e.clone())).take(4).collect())));
		v.push(SElementValue::Annotation(ann("Lp/Empty;", vec![])));
		v.push(SElementValue::Array(inner.iter().take(5).cloned().collect()));
		v.push(SElementValue::Array(vec![SElementValue::Array(vec![SElementValue::Str(js("x"))])]));
	}
	v
}

pub fn annotations(n: usize) -> Vec<SAnnotation> {
	let ev = element_values(2);
	(0..n).map(|i| ann(&format!("Lp/A{i};"), ev.iter().enumerate().filter(|(k, _)| k % (i + 1) == 0).map(|(k, e)| (["v", "w", "x", "y"][k % 4], e.clone())).collect())).collect()
}

fn tann(target: STarget, path: Vec<(u8, u8)>) -> STypeAnnotation {
	STypeAnnotation { target, path, annotation: ann("Lp/TA;", vec![("v", SElementValue::Const(b'I', SConst::Int(1)))]) }
}

const PATHS: &[&[(u8, u8)]] = &[&[], &[(0, 0)], &[(1, 0)], &[(2, 0)], &[(3, 0)], &[(3, 255)], &[(0, 0), (0, 0), (3, 1), (2, 0), (1, 0)]];

pub fn class_type_annotations() -> Vec<STypeAnnotation> {
	let mut v = Vec::new();
	for (i, t) in [
		STarget::TypeParameter { target_type: 0x00, index: 0 }, STarget::TypeParameter { target_type: 0x00, index: 255 },
		STarget::Supertype(65535), STarget::Supertype(0), STarget::Supertype(1),
		STarget::TypeParameterBound { target_type: 0x11, param: 0, bound: 1 }, STarget::TypeParameterBound { target_type: 0x11, param: 255, bound: 255 },
	].into_iter().enumerate() {
		v.push(tann(t, PATHS[i % PATHS.len()].to_vec()));
	}
	v
}

pub fn field_type_annotations() -> Vec<STypeAnnotation> {
	PATHS.iter().map(|p| tann(STarget::Empty(0x13), p.to_vec())).collect()
}

pub fn method_type_annotations() -> Vec<STypeAnnotation> {
	let mut v = Vec::new();
	for (i, t) in [
		STarget::TypeParameter { target_type: 0x01, index: 0 }, STarget::TypeParameterBound { target_type: 0x12, param: 1, bound: 0 },
		STarget::Empty(0x14), STarget::Empty(0x15), STarget::FormalParameter(0), STarget::FormalParameter(255), STarget::Throws(0), STarget::Throws(65535),
	].into_iter().enumerate() {
		v.push(tann(t, PATHS[i % PATHS.len()].to_vec()));
	}
	v
}

/// `n` = number of instructions of the method the annotations sit in
pub fn code_type_annotations(n: Idx) -> Vec<STypeAnnotation> {
	let mut v = Vec::new();
	let last = n - 1;
	let targets = vec![
		STarget::LocalVar { target_type: 0x40, table: vec![] },
		STarget::LocalVar { target_type: 0x40, table: vec![(0, n, 0), (1, last, 300)] },
		STarget::LocalVar { target_type: 0x41, table: vec![(last, n, 65535)] },
		STarget::Catch(0), STarget::Catch(65535),
		STarget::Offset { target_type: 0x43, at: 0 }, STarget::Offset { target_type: 0x44, at: last }, STarget::Offset { target_type: 0x45, at: 1 }, STarget::Offset { target_type: 0x46, at: last },
		STarget::TypeArgument { target_type: 0x47, at: 0, index: 0 }, STarget::TypeArgument { target_type: 0x48, at: 1, index: 255 },
		STarget::TypeArgument { target_type: 0x49, at: last, index: 1 }, STarget::TypeArgument { target_type: 0x4A, at: 0, index: 2 }, STarget::TypeArgument { target_type: 0x4B, at: last, index: 3 },
	];
	for (i, t) in targets.into_iter().enumerate() {
		v.push(tann(t, PATHS[i % PATHS.len()].to_vec()));
	}
	v
}

pub fn vtypes(n: Idx) -> Vec<SVType> {
	vec![SVType::Top, SVType::Integer, SVType::Float, SVType::Long, SVType::Double, SVType::Null, SVType::UninitializedThis, SVType::Object(js("p/T")), SVType::Object(js("[Lp/T;")), SVType::Uninitialized(0), SVType::Uninitialized(n - 1)]
}

fn unknowns(tag: &str) -> Vec<SUnknown> {
	vec![SUnknown { name: js(&format!("x.Custom{tag}")), bytes: vec![] }, SUnknown { name: js(&format!("x.Custom{tag}2")), bytes: vec![0, 1, 2, 0xff, 0xca, 0xfe] }]
}

/// A method of `pad + body` instructions with every code-level table and all frame kinds; `gap` nops
/// between the framed instructions lets offset deltas cross the 63/64 boundary.
pub fn rich_code(gap: usize) -> SCode {
	let mut insns = vec![
		SInsn::New(js("p/T")),
		SInsn::Load(LvKind::I, 1),
		SInsn::Branch(op::IFEQ, 4),
		SInsn::Simple(op::NOP),
		SInsn::Load(LvKind::A, 0),
	];
	for _ in 0..gap {
		insns.push(SInsn::Simple(op::NOP));
	}
	insns.extend([
		SInsn::TableSwitch { default: 0, low: 0, targets: vec![1, 4] },
		SInsn::Branch(op::GOTO, 1),
		SInsn::Simple(op::ATHROW),
		RETURN,
	]);
	let n = insns.len() as Idx;
	let vt = vtypes(n);
	let mut frames = vec![
		(0, SFrame::Same),
		(1, SFrame::SameLocals1(vt[7].clone())),
		(2, SFrame::Chop(1)),
		(3, SFrame::Chop(3)),
		(4, SFrame::Append(vt[0..1].to_vec())),
		(5 + gap as Idx, SFrame::Append(vt[1..4].to_vec())),
		(6 + gap as Idx, SFrame::Full { locals: vt.clone(), stack: vt.iter().rev().cloned().collect() }),
		(7 + gap as Idx, SFrame::SameLocals1(SVType::Uninitialized(0))),
		(8 + gap as Idx, SFrame::Full { locals: vec![], stack: vec![] }),
	];
	frames.retain(|(i, _)| *i < n);
	SCode {
		max_stack: 65535,
		max_locals: 0,
		insns,
		exceptions: vec![
			SExceptionEntry { start: 0, end: n, handler: n - 2, catch: None },
			SExceptionEntry { start: 1, end: 2, handler: 0, catch: Some(js("java/lang/Exception")) },
			SExceptionEntry { start: 0, end: 1, handler: n - 1, catch: Some(js("[Lp/T;")) },
		],
		line_numbers: vec![(0, 1), (0, 65535), (2, 7), (n - 1, 0)],
		local_vars: vec![
			SLocalVar { start: 0, end: n, name: js("this"), ty: js("Lp/T;"), index: 0 },
			SLocalVar { start: 1, end: 1, name: js("empty"), ty: js("I"), index: 65535 },
			SLocalVar { start: 2, end: n - 1, name: js("é"), ty: js("[J"), index: 256 },
		],
		local_var_types: vec![
			SLocalVar { start: 0, end: n, name: js("this"), ty: js("Lp/T<TX;>;"), index: 0 },
			SLocalVar { start: n - 1, end: n, name: js("only_generic"), ty: js("TX;"), index: 5 },
		],
		frames,
		visible_type: code_type_annotations(n),
		invisible_type: code_type_annotations(n).into_iter().rev().take(3).collect(),
		unknown: unknowns("Code"),
		..Default::default()
	}
}

/// The kitchen-sink class: every attribute at every level. `variant` varies table sizes (0, 1, 2 entries …).
pub fn kitchen_sink(variant: usize) -> SClass {
	let k = variant % 3; // entries per table
	let mut c = skeleton("p/Sink");
	c.version = (61, 0);
	c.access = 0x0001 | 0x0020 | 0x0400 | 0x1000;
	c.interfaces = (0..k).map(|i| js(&format!("p/I{i}"))).collect();
	c.synthetic = variant % 2 == 0;
	c.deprecated = variant % 2 == 1;
	c.signature = Some(js("<X:Ljava/lang/Object;>Ljava/lang/Object;"));
	c.source_file = Some(js("Sink.java"));
	c.source_debug_extension = Some(JS("SMAP\nSink.java\nü".encode_utf16().chain([0u16, 0xd83d, 0xde00]).collect()));
	c.inner_classes = Some((0..k).map(|i| SInnerClass { inner: js(&format!("p/Sink$In{i}")), outer: if i == 0 { Some(js("p/Sink")) } else { None }, name: if i == 0 { Some(js(&format!("In{i}"))) } else { None }, flags: [0x0009, 0x761F][i % 2] }).collect());
	c.enclosing_method = Some((js("p/Outer"), if k > 0 { Some((js("run"), js("()V"))) } else { None }));
	c.annotations = SAnnotations { visible: annotations(k), invisible: annotations(k + 1), visible_type: class_type_annotations().into_iter().take(k * 4).collect(), invisible_type: class_type_annotations().into_iter().rev().take(k + 1).collect() };
	c.nest_host = Some(js("p/Host"));
	c.nest_members = Some((0..k).map(|i| js(&format!("p/Sink$N{i}"))).collect());
	c.permitted_subclasses = Some((0..k).map(|i| js(&format!("p/Sub{i}"))).collect());
	c.record = Some((0..k).map(|i| SRecordComponent {
		name: js(&format!("rc{i}")),
		desc: js(["I", "Lp/T;"][i % 2]),
		signature: if i == 0 { Some(js("TX;")) } else { None },
		annotations: SAnnotations { visible: annotations(i), invisible: annotations(1), visible_type: field_type_annotations().into_iter().take(i + 1).collect(), invisible_type: vec![] },
		unknown: if i == 0 { unknowns("Rec") } else { vec![] },
	}).collect());
	c.unknown = unknowns("Class");
	// fields
	let cvs = [SConst::Int(-7), SConst::Float(1.5f32.to_bits()), SConst::Long(i64::MIN), SConst::Double(f64::NAN.to_bits()), SConst::Str(js("cv"))];
	let descs = ["I", "F", "J", "D", "Ljava/lang/String;"];
	for (i, cv) in cvs.iter().enumerate() {
		c.fields.push(SField {
			access: [0x0019, 0x50DF & !0x0006, 0x0002, 0x0004 | 0x0040, 0x0080 | 0x1000][i],
			name: js(&format!("f{i}")),
			desc: js(descs[i]),
			constant_value: Some(cv.clone()),
			synthetic: i == 1,
			deprecated: i == 2,
			signature: if i == 4 { Some(js("TX;")) } else { None },
			annotations: if i == 0 { SAnnotations { visible: annotations(2), invisible: annotations(1), visible_type: field_type_annotations(), invisible_type: field_type_annotations().into_iter().take(1).collect() } } else { Default::default() },
			unknown: if i == 3 { unknowns("Field") } else { vec![] },
		});
	}
	c.fields.push(SField { access: 0, name: js("same"), desc: js("I"), ..Default::default() });
	c.fields.push(SField { access: 0, name: js("same"), desc: js("J"), ..Default::default() });
	// methods
	let mut m = method_with("rich", "(ILp/T;)V", vec![]);
	m.code = Some(rich_code([0, 60, 70][k]));
	m.access = 0x1DFF & !(0x0400 | 0x0100 | 0x0006);
	m.exceptions = Some((0..k).map(|i| js(&format!("p/Ex{i}"))).collect());
	m.synthetic = true;
	m.deprecated = true;
	m.signature = Some(js("<Y:Ljava/lang/Object;>(ITY;)V"));
	m.annotations = SAnnotations { visible: annotations(1), invisible: annotations(2), visible_type: method_type_annotations(), invisible_type: method_type_annotations().into_iter().take(k).collect() };
	m.visible_param_annotations = Some(vec![annotations(1), vec![]]);
	m.invisible_param_annotations = Some(vec![vec![], annotations(2)]);
	m.parameters = Some(vec![(Some(js("a")), 0x0010), (None, 0x9010)]);
	m.unknown = unknowns("Method");
	c.methods.push(m);
	let mut d = SMethod { access: 0x0401, name: js("value"), desc: js("()I"), ..Default::default() };
	d.annotation_default = Some(element_values(2)[(14 + variant) % 18].clone());
	c.methods.push(d);
	for (i, ev) in element_values(1).into_iter().enumerate().take(6 * k) {
		c.methods.push(SMethod { access: 0x0401, name: js(&format!("dflt{i}")), desc: js("()Ljava/lang/Object;"), annotation_default: Some(ev), ..Default::default() });
	}
	c.methods.push(SMethod { access: 0x0101, name: js("nat"), desc: js("()V"), parameters: Some(vec![]), exceptions: Some(vec![]), ..Default::default() });
	c.methods.push(method_with("<clinit>", "()V", insn_samples().into_iter().filter(|i| !matches!(i, SInsn::Branch(..) | SInsn::TableSwitch { .. } | SInsn::LookupSwitch { .. })).chain([RETURN]).collect()));
	c.methods.push(method_with("overload", "(I)V", vec![RETURN]));
	c.methods.push(method_with("overload", "(J)V", variable_form_method()));
	c
}

pub fn module_class(open: bool, k: usize) -> SClass {
	let mut c = SClass { version: (61, 0), access: 0x8000, this_class: js("module-info"), super_class: None, ..Default::default() };
	c.module = Some(SModule {
		name: js("m.main"),
		flags: if open { 0x0020 } else { 0 } | if k == 2 { 0x1000 | 0x8000 } else { 0 },
		version: if k > 0 { Some(js("1.2-beta")) } else { None },
		requires: (0..=k).map(|i| (js(["java.base", "m.a", "m.b"][i]), [0x8000, 0x0020 | 0x0040, 0x1000][i], if i == 1 { Some(js("9")) } else { None })).collect(),
		exports: (0..k).map(|i| (js(&format!("p/e{i}")), [0, 0x9000][i % 2], (0..i).map(|j| js(&format!("m.t{j}"))).collect())).collect(),
		opens: (0..k).map(|i| (js(&format!("p/o{i}")), [0x1000, 0x8000][i % 2], (0..=i).map(|j| js(&format!("m.t{j}"))).collect())).collect(),
		uses: (0..k).map(|i| js(&format!("p/Svc{i}"))).collect(),
		provides: (0..k).map(|i| (js(&format!("p/Svc{i}")), (0..=i).map(|j| js(&format!("p/Impl{j}"))).collect())).collect(),
	});
	c.module_packages = Some((0..k).map(|i| js(&format!("p/e{i}"))).collect());
	c.module_main_class = if k > 0 { Some(js("p/Main")) } else { None };
	c.source_file = Some(js("module-info.java"));
	c
}

/// (major, minor) pairs the property names: 45.3 and every n.0 for 46..=67, plus preview minors
pub fn versions() -> Vec<(u16, u16)> {
	let mut v = vec![(45, 3), (45, 0)];
	for n in 46..=67 {
		v.push((n, 0));
	}
	for n in 56..=66 {
		v.push((n, 65535));
	}
	v
}

/// strings at the modified-UTF-8 boundaries
pub fn utf8_samples() -> Vec<JS> {
	vec![
		JS(vec![]),
		js("plain"),
		JS(vec![0]),
		JS(vec![0x41, 0, 0x42]),
		JS(vec![0x7f]), JS(vec![0x80]), JS(vec![0x7ff]), JS(vec![0x800]), JS(vec![0xffff]),
		JS(vec![0xd83d, 0xde00]),
		JS(vec![0xd800]), JS(vec![0xdfff]), JS(vec![0xdc00, 0xd800]),
		JS(vec![0x41; 65535]),
		JS(vec![0x800; 21845]),
	]
}

/// encodings explored for every generated class in the cheap sweeps
pub fn basic_encodings() -> Vec<Encoding> {
	vec![
		Encoding::default(),
		Encoding { default_form: 1, pool: PoolOrder::Reversed, attr_order: AttrOrder::Reversed, ..Default::default() },
		Encoding { default_form: 2, pool: PoolOrder::Utf8First, attr_order: AttrOrder::Rotated(1), split_tables: true, frames_extended: true, ..Default::default() },
		Encoding { pool: PoolOrder::Utf8Last, pads: vec![(0, Pad::Long(1)), (3, Pad::Double(2)), (7, Pad::Utf8("pad".into())), (100000, Pad::Class("p/Unused".into()))], attr_order: AttrOrder::Rotated(2), ..Default::default() },
	]
}

/// brings the order-free tables of a hand-built model into the canonical (sorted) form the parser produces
pub fn normalize(c: &mut SClass) {
	c.unknown.sort();
	for f in &mut c.fields {
		f.unknown.sort();
	}
	for m in &mut c.methods {
		m.unknown.sort();
		if let Some(code) = &mut m.code {
			code.line_numbers.sort();
			code.local_vars.sort();
			code.local_var_types.sort();
			code.unknown.sort();
		}
	}
	if let Some(r) = &mut c.record {
		for rc in r {
			rc.unknown.sort();
		}
	}
}
