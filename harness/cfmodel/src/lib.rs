//! Independent reading of JVMS chapter 4: semantic model, strict parser, assembler, duke projection.

pub mod model;
pub mod parse;
pub mod duke_proj;
pub mod sdiff;
pub mod asm;
pub mod gen;
pub mod suite;

pub use model::*;
pub use parse::{parse, ParseError, Parsed, Role, FieldMapEntry};

pub mod corpus {
	//! Loading the vendored javac corpus and (optionally) the JDK's own classes.
	use std::path::{Path, PathBuf};

	fn walk(p: &Path, out: &mut Vec<PathBuf>) {
		if let Ok(rd) = std::fs::read_dir(p) {
			let mut entries: Vec<PathBuf> = rd.flatten().map(|e| e.path()).collect();
			entries.sort();
			for p in entries {
				if p.is_dir() {
					walk(&p, out)
				} else if p.extension().is_some_and(|e| e == "class") {
					out.push(p)
				}
			}
		}
	}

	/// every `.class` below `dir`, sorted by path: (path relative to dir, bytes)
	pub fn load_dir(dir: &Path) -> Vec<(String, Vec<u8>)> {
		let mut files = Vec::new();
		walk(dir, &mut files);
		files.into_iter().filter_map(|p| {
			let b = std::fs::read(&p).ok()?;
			Some((p.strip_prefix(dir).unwrap_or(&p).display().to_string(), b))
		}).collect()
	}

	/// the vendored corpus under `<verif root>/corpus/classes`
	pub fn vendored(verif_root: &Path) -> Vec<(String, Vec<u8>)> {
		load_dir(&verif_root.join("corpus").join("classes"))
	}

	/// Extracts `java.base` from the sandbox JDK with `jimage` into `scratch` (optional breadth for
	/// thorough tiers; an empty result means no JDK image is available, which is not an error).
	pub fn jdk_java_base(scratch: &Path) -> Vec<(String, Vec<u8>)> {
		let javac = match std::process::Command::new("sh").arg("-c").arg("readlink -f \"$(command -v javac)\"").output() {
			Ok(o) if o.status.success() => String::from_utf8_lossy(&o.stdout).trim().to_owned(),
			_ => return Vec::new(),
		};
		let home = match Path::new(&javac).parent().and_then(|p| p.parent()) {
			Some(h) => h.to_path_buf(),
			None => return Vec::new(),
		};
		let modules = home.join("lib").join("modules");
		if !modules.exists() {
			return Vec::new();
		}
		let _ = std::fs::remove_dir_all(scratch);
		let ok = std::process::Command::new(home.join("bin").join("jimage"))
			.arg("extract").arg("--dir").arg(scratch).arg("--include").arg("regex:/java.base/.*").arg(&modules)
			.output().map(|o| o.status.success()).unwrap_or(false);
		let v = if ok { load_dir(scratch) } else { Vec::new() };
		let _ = std::fs::remove_dir_all(scratch);
		v
	}
}
