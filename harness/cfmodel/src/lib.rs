//! Independent reading of JVMS chapter 4: semantic model, strict parser, assembler, duke projection.

pub mod model;
pub mod parse;
pub mod duke_proj;
pub mod sdiff;
pub mod asm;
pub mod gen;

pub use model::*;
pub use parse::{parse, ParseError, Parsed, Role, FieldMapEntry};
