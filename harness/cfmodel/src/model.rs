//! `SClass`: what a class file *states*, with every encoding choice erased.
//!
//! Erased: constant-pool layout, attribute order, short/wide instruction forms (`xload_n`/`xload`/
//! `wide xload`, `ldc`/`ldc_w`, `goto`/`goto_w`, `jsr`/`jsr_w`, `iinc`/`wide iinc`), switch padding,
//! byte offsets (every code position is an *instruction index*; `n` = one past the last instruction),
//! frame encoding variants (`same`/`same_frame_extended`, …), the split of line-number and local
//! variable tables over several attributes (their entries are kept as sorted lists).

use std::fmt;

/// A string as the JVM sees it: a sequence of UTF-16 code units (may contain NUL and lone surrogates).
#[derive(Clone, PartialEq, Eq, Hash, PartialOrd, Ord, Default)]
pub struct JS(pub Vec<u16>);

impl JS {
	pub fn new(s: &str) -> JS {
		JS(s.encode_utf16().collect())
	}
	pub fn to_string_lossy(&self) -> String {
		String::from_utf16_lossy(&self.0)
	}
	pub fn is_empty(&self) -> bool {
		self.0.is_empty()
	}
}

impl fmt::Debug for JS {
	fn fmt(&self, f: &mut fmt::Formatter<'_>) -> fmt::Result {
		match String::from_utf16(&self.0) {
			Ok(s) => write!(f, "{s:?}"),
			Err(_) => write!(f, "utf16{:04x?}", self.0),
		}
	}
}

impl From<&str> for JS {
	fn from(s: &str) -> JS {
		JS::new(s)
	}
}

pub type Idx = u32;

#[derive(Clone, Debug, PartialEq, Eq, Hash, PartialOrd, Ord)]
pub struct SMemberRef {
	pub owner: JS,
	pub name: JS,
	pub desc: JS,
}

#[derive(Clone, Debug, PartialEq, Eq, Hash, PartialOrd, Ord)]
pub struct SHandle {
	/// reference_kind 1..=9 (JVMS table 5.4.3.5-A)
	pub kind: u8,
	pub member: SMemberRef,
	/// the referenced pool entry is an InterfaceMethodref
	pub interface: bool,
}

#[derive(Clone, Debug, PartialEq, Eq, Hash, PartialOrd, Ord)]
pub struct SBootstrap {
	pub handle: SHandle,
	pub args: Vec<SConst>,
}

#[derive(Clone, Debug, PartialEq, Eq, Hash, PartialOrd, Ord)]
pub struct SDynamic {
	pub bootstrap: SBootstrap,
	pub name: JS,
	pub desc: JS,
}

/// A loadable constant, resolved recursively.
#[derive(Clone, Debug, PartialEq, Eq, Hash, PartialOrd, Ord)]
pub enum SConst {
	Int(i32),
	/// IEEE bits
	Float(u32),
	Long(i64),
	/// IEEE bits
	Double(u64),
	Class(JS),
	Str(JS),
	Handle(SHandle),
	MethodType(JS),
	Dynamic(Box<SDynamic>),
}

/// local variable instruction kind
#[derive(Clone, Copy, Debug, PartialEq, Eq, Hash, PartialOrd, Ord)]
pub enum LvKind {
	I,
	L,
	F,
	D,
	A,
}

#[derive(Clone, Debug, PartialEq, Eq, Hash, PartialOrd, Ord)]
pub enum SInsn {
	/// an instruction without operands, by opcode
	Simple(u8),
	BiPush(i8),
	SiPush(i16),
	/// `ldc`, `ldc_w`, `ldc2_w`
	Ldc(SConst),
	Load(LvKind, u16),
	Store(LvKind, u16),
	IInc(u16, i16),
	Ret(u16),
	/// conditional and unconditional jumps by *narrow* opcode (`goto_w` is `goto`, `jsr_w` is `jsr`)
	Branch(u8, Idx),
	TableSwitch { default: Idx, low: i32, targets: Vec<Idx> },
	LookupSwitch { default: Idx, pairs: Vec<(i32, Idx)> },
	/// getstatic/putstatic/getfield/putfield
	Field(u8, SMemberRef),
	/// invokevirtual/special/static/interface; bool = the pool entry is an InterfaceMethodref
	Invoke(u8, SMemberRef, bool),
	InvokeDynamic(SDynamic),
	New(JS),
	ANewArray(JS),
	CheckCast(JS),
	InstanceOf(JS),
	NewArray(u8),
	MultiANewArray(JS, u8),
}

#[derive(Clone, Debug, PartialEq, Eq, Hash, PartialOrd, Ord)]
pub enum SVType {
	Top,
	Integer,
	Float,
	Long,
	Double,
	Null,
	UninitializedThis,
	Object(JS),
	/// instruction index of the `new`
	Uninitialized(Idx),
}

#[derive(Clone, Debug, PartialEq, Eq, Hash, PartialOrd, Ord)]
pub enum SFrame {
	Same,
	SameLocals1(SVType),
	Chop(u8),
	Append(Vec<SVType>),
	Full { locals: Vec<SVType>, stack: Vec<SVType> },
}

#[derive(Clone, Debug, PartialEq, Eq, Hash, PartialOrd, Ord)]
pub enum SElementValue {
	/// tag (B C D F I J S Z) and the constant
	Const(u8, SConst),
	Str(JS),
	Enum { type_name: JS, const_name: JS },
	Class(JS),
	Annotation(SAnnotation),
	Array(Vec<SElementValue>),
}

#[derive(Clone, Debug, PartialEq, Eq, Hash, PartialOrd, Ord)]
pub struct SAnnotation {
	pub type_name: JS,
	pub pairs: Vec<(JS, SElementValue)>,
}

#[derive(Clone, Debug, PartialEq, Eq, Hash, PartialOrd, Ord)]
pub enum STarget {
	/// 0x00, 0x01
	TypeParameter { target_type: u8, index: u8 },
	/// 0x10
	Supertype(u16),
	/// 0x11, 0x12
	TypeParameterBound { target_type: u8, param: u8, bound: u8 },
	/// 0x13 field, 0x14 return, 0x15 receiver
	Empty(u8),
	/// 0x16
	FormalParameter(u8),
	/// 0x17
	Throws(u16),
	/// 0x40, 0x41: (start idx, end idx (exclusive), local index)
	LocalVar { target_type: u8, table: Vec<(Idx, Idx, u16)> },
	/// 0x42
	Catch(u16),
	/// 0x43..0x46
	Offset { target_type: u8, at: Idx },
	/// 0x47..0x4B
	TypeArgument { target_type: u8, at: Idx, index: u8 },
}

#[derive(Clone, Debug, PartialEq, Eq, Hash, PartialOrd, Ord)]
pub struct STypeAnnotation {
	pub target: STarget,
	/// (type_path_kind, type_argument_index)
	pub path: Vec<(u8, u8)>,
	pub annotation: SAnnotation,
}

#[derive(Clone, Debug, PartialEq, Eq, Hash, PartialOrd, Ord)]
pub struct SUnknown {
	pub name: JS,
	pub bytes: Vec<u8>,
}

#[derive(Clone, Debug, Default, PartialEq, Eq, Hash, PartialOrd, Ord)]
pub struct SAnnotations {
	pub visible: Vec<SAnnotation>,
	pub invisible: Vec<SAnnotation>,
	pub visible_type: Vec<STypeAnnotation>,
	pub invisible_type: Vec<STypeAnnotation>,
}

#[derive(Clone, Debug, PartialEq, Eq, Hash, PartialOrd, Ord)]
pub struct SExceptionEntry {
	pub start: Idx,
	pub end: Idx,
	pub handler: Idx,
	pub catch: Option<JS>,
}

#[derive(Clone, Debug, PartialEq, Eq, Hash, PartialOrd, Ord)]
pub struct SLocalVar {
	pub start: Idx,
	pub end: Idx,
	pub name: JS,
	/// descriptor (LocalVariableTable) or signature (LocalVariableTypeTable)
	pub ty: JS,
	pub index: u16,
}

#[derive(Clone, Debug, Default, PartialEq, Eq, Hash, PartialOrd, Ord)]
pub struct SCode {
	pub max_stack: u16,
	pub max_locals: u16,
	pub insns: Vec<SInsn>,
	/// in table order (order is semantically relevant)
	pub exceptions: Vec<SExceptionEntry>,
	/// sorted
	pub line_numbers: Vec<(Idx, u16)>,
	/// sorted
	pub local_vars: Vec<SLocalVar>,
	/// sorted
	pub local_var_types: Vec<SLocalVar>,
	/// a LocalVariableTable or LocalVariableTypeTable attribute is present although neither table has an entry
	/// (a reader reports "has a local variable table, with nothing in it"; absent tables are a different fact)
	pub empty_local_table: bool,
	/// a LineNumberTable attribute is present although it has no entry
	pub empty_line_table: bool,
	/// in code order
	pub frames: Vec<(Idx, SFrame)>,
	pub visible_type: Vec<STypeAnnotation>,
	pub invisible_type: Vec<STypeAnnotation>,
	/// sorted
	pub unknown: Vec<SUnknown>,
}

#[derive(Clone, Debug, Default, PartialEq, Eq, Hash, PartialOrd, Ord)]
pub struct SField {
	pub access: u16,
	pub name: JS,
	pub desc: JS,
	pub constant_value: Option<SConst>,
	pub synthetic: bool,
	pub deprecated: bool,
	pub signature: Option<JS>,
	pub annotations: SAnnotations,
	pub unknown: Vec<SUnknown>,
}

#[derive(Clone, Debug, Default, PartialEq, Eq, Hash, PartialOrd, Ord)]
pub struct SMethod {
	pub access: u16,
	pub name: JS,
	pub desc: JS,
	pub code: Option<SCode>,
	pub exceptions: Option<Vec<JS>>,
	pub synthetic: bool,
	pub deprecated: bool,
	pub signature: Option<JS>,
	pub annotations: SAnnotations,
	/// RuntimeVisibleParameterAnnotations: one list per parameter
	pub visible_param_annotations: Option<Vec<Vec<SAnnotation>>>,
	pub invisible_param_annotations: Option<Vec<Vec<SAnnotation>>>,
	pub annotation_default: Option<SElementValue>,
	/// MethodParameters: (name, flags)
	pub parameters: Option<Vec<(Option<JS>, u16)>>,
	pub unknown: Vec<SUnknown>,
}

#[derive(Clone, Debug, PartialEq, Eq, Hash, PartialOrd, Ord)]
pub struct SInnerClass {
	pub inner: JS,
	pub outer: Option<JS>,
	pub name: Option<JS>,
	pub flags: u16,
}

#[derive(Clone, Debug, Default, PartialEq, Eq, Hash, PartialOrd, Ord)]
pub struct SModule {
	pub name: JS,
	pub flags: u16,
	pub version: Option<JS>,
	/// (module, flags, version)
	pub requires: Vec<(JS, u16, Option<JS>)>,
	/// (package, flags, to-modules)
	pub exports: Vec<(JS, u16, Vec<JS>)>,
	pub opens: Vec<(JS, u16, Vec<JS>)>,
	pub uses: Vec<JS>,
	/// (service, implementations)
	pub provides: Vec<(JS, Vec<JS>)>,
}

#[derive(Clone, Debug, Default, PartialEq, Eq, Hash, PartialOrd, Ord)]
pub struct SRecordComponent {
	pub name: JS,
	pub desc: JS,
	pub signature: Option<JS>,
	pub annotations: SAnnotations,
	pub unknown: Vec<SUnknown>,
}

#[derive(Clone, Debug, Default, PartialEq, Eq, Hash, PartialOrd, Ord)]
pub struct SClass {
	pub version: (u16, u16),
	pub access: u16,
	pub this_class: JS,
	pub super_class: Option<JS>,
	pub interfaces: Vec<JS>,
	pub fields: Vec<SField>,
	pub methods: Vec<SMethod>,

	pub synthetic: bool,
	pub deprecated: bool,
	pub inner_classes: Option<Vec<SInnerClass>>,
	/// (class, Some((method name, method descriptor)))
	pub enclosing_method: Option<(JS, Option<(JS, JS)>)>,
	pub signature: Option<JS>,
	pub source_file: Option<JS>,
	pub source_debug_extension: Option<JS>,
	pub annotations: SAnnotations,
	pub module: Option<SModule>,
	pub module_packages: Option<Vec<JS>>,
	pub module_main_class: Option<JS>,
	pub nest_host: Option<JS>,
	pub nest_members: Option<Vec<JS>>,
	pub permitted_subclasses: Option<Vec<JS>>,
	pub record: Option<Vec<SRecordComponent>>,
	/// sorted
	pub unknown: Vec<SUnknown>,
}

/// names of the attributes the model understands (anything else is "unknown" and kept byte-for-byte)
pub const KNOWN_ATTRIBUTES: &[&str] = &[
	"ConstantValue", "Code", "StackMapTable", "Exceptions", "InnerClasses", "EnclosingMethod", "Synthetic", "Signature",
	"SourceFile", "SourceDebugExtension", "LineNumberTable", "LocalVariableTable", "LocalVariableTypeTable", "Deprecated",
	"RuntimeVisibleAnnotations", "RuntimeInvisibleAnnotations", "RuntimeVisibleParameterAnnotations",
	"RuntimeInvisibleParameterAnnotations", "RuntimeVisibleTypeAnnotations", "RuntimeInvisibleTypeAnnotations",
	"AnnotationDefault", "BootstrapMethods", "MethodParameters", "Module", "ModulePackages", "ModuleMainClass", "NestHost",
	"NestMembers", "Record", "PermittedSubclasses",
];

pub mod op {
	//! opcodes
	pub const NOP: u8 = 0x00;
	pub const BIPUSH: u8 = 0x10;
	pub const SIPUSH: u8 = 0x11;
	pub const LDC: u8 = 0x12;
	pub const LDC_W: u8 = 0x13;
	pub const LDC2_W: u8 = 0x14;
	pub const ILOAD: u8 = 0x15;
	pub const ALOAD: u8 = 0x19;
	pub const ILOAD_0: u8 = 0x1a;
	pub const ALOAD_3: u8 = 0x2d;
	pub const ISTORE: u8 = 0x36;
	pub const ASTORE: u8 = 0x3a;
	pub const ISTORE_0: u8 = 0x3b;
	pub const ASTORE_3: u8 = 0x4e;
	pub const IINC: u8 = 0x84;
	pub const IFEQ: u8 = 0x99;
	pub const IF_ACMPNE: u8 = 0xa6;
	pub const GOTO: u8 = 0xa7;
	pub const JSR: u8 = 0xa8;
	pub const RET: u8 = 0xa9;
	pub const TABLESWITCH: u8 = 0xaa;
	pub const LOOKUPSWITCH: u8 = 0xab;
	pub const IRETURN: u8 = 0xac;
	pub const RETURN: u8 = 0xb1;
	pub const GETSTATIC: u8 = 0xb2;
	pub const PUTSTATIC: u8 = 0xb3;
	pub const GETFIELD: u8 = 0xb4;
	pub const PUTFIELD: u8 = 0xb5;
	pub const INVOKEVIRTUAL: u8 = 0xb6;
	pub const INVOKESPECIAL: u8 = 0xb7;
	pub const INVOKESTATIC: u8 = 0xb8;
	pub const INVOKEINTERFACE: u8 = 0xb9;
	pub const INVOKEDYNAMIC: u8 = 0xba;
	pub const NEW: u8 = 0xbb;
	pub const NEWARRAY: u8 = 0xbc;
	pub const ANEWARRAY: u8 = 0xbd;
	pub const ARRAYLENGTH: u8 = 0xbe;
	pub const ATHROW: u8 = 0xbf;
	pub const CHECKCAST: u8 = 0xc0;
	pub const INSTANCEOF: u8 = 0xc1;
	pub const MONITORENTER: u8 = 0xc2;
	pub const MONITOREXIT: u8 = 0xc3;
	pub const WIDE: u8 = 0xc4;
	pub const MULTIANEWARRAY: u8 = 0xc5;
	pub const IFNULL: u8 = 0xc6;
	pub const IFNONNULL: u8 = 0xc7;
	pub const GOTO_W: u8 = 0xc8;
	pub const JSR_W: u8 = 0xc9;

	/// is `opcode` an instruction without operands (JVMS chapter 6)?
	pub fn is_simple(opcode: u8) -> bool {
		matches!(opcode,
			0x00..=0x0f            // nop, aconst_null, iconst_*, lconst_*, fconst_*, dconst_*
			| 0x2e..=0x35          // xaload
			| 0x4f..=0x83          // xastore, pop.., arithmetic
			| 0x85..=0x98          // conversions, comparisons
			| 0xac..=0xb1          // returns
			| 0xbe | 0xbf | 0xc2 | 0xc3)
	}

	/// is `opcode` a narrow branch (16-bit offset)?
	pub fn is_branch16(opcode: u8) -> bool {
		matches!(opcode, 0x99..=0xa8 | IFNULL | IFNONNULL)
	}

	/// for a conditional branch the opcode testing the opposite condition
	pub fn inverted(opcode: u8) -> Option<u8> {
		Some(match opcode {
			0x99 => 0x9a, 0x9a => 0x99, // ifeq/ifne
			0x9b => 0x9c, 0x9c => 0x9b, // iflt/ifge
			0x9d => 0x9e, 0x9e => 0x9d, // ifgt/ifle
			0x9f => 0xa0, 0xa0 => 0x9f, // if_icmpeq/ne
			0xa1 => 0xa2, 0xa2 => 0xa1, // if_icmplt/ge
			0xa3 => 0xa4, 0xa4 => 0xa3, // if_icmpgt/le
			0xa5 => 0xa6, 0xa6 => 0xa5, // if_acmpeq/ne
			IFNULL => IFNONNULL, IFNONNULL => IFNULL,
			_ => return None,
		})
	}
}
