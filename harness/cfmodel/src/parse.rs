//! Strict class-file parser written from JVMS chapter 4 (shares no code with duke or raw_class_file).
//!
//! Besides producing the semantic model it *validates structure*: every constant-pool index is in
//! range and of the right kind, every `attribute_length` equals the bytes consumed, no trailing
//! bytes, `code_length` in 1..=65535, every code offset is an instruction boundary, and it records a
//! **field map**: offset, width and role of every tag, count, length, index and offset in the file.

use std::collections::BTreeMap;
use crate::model::*;

#[derive(Clone, Debug, PartialEq, Eq)]
pub struct ParseError {
	pub at: usize,
	pub msg: String,
}

impl std::fmt::Display for ParseError {
	fn fmt(&self, f: &mut std::fmt::Formatter<'_>) -> std::fmt::Result {
		write!(f, "at byte {}: {}", self.at, self.msg)
	}
}

#[derive(Clone, Copy, Debug, PartialEq, Eq, Hash, PartialOrd, Ord)]
pub enum Role {
	Magic,
	Version,
	PoolCount,
	PoolTag,
	/// an index into the constant pool
	PoolIndex,
	Utf8Length,
	AccessFlags,
	/// a count of following elements
	Count,
	AttrLength,
	CodeLength,
	MaxStackLocals,
	Opcode,
	BranchOffset,
	SwitchBound,
	LocalIndex,
	Immediate,
	/// a code offset or length (start_pc, length, line start, …)
	Pc,
	FrameType,
	VTypeTag,
	ElementTag,
	TargetType,
	RefKind,
	Other,
}

#[derive(Clone, Copy, Debug, PartialEq, Eq)]
pub struct FieldMapEntry {
	pub offset: usize,
	pub width: u8,
	pub role: Role,
}

#[derive(Clone, Debug)]
pub struct Parsed {
	pub class: SClass,
	pub map: Vec<FieldMapEntry>,
	/// number of constant pool slots (constant_pool_count)
	pub pool_count: u16,
	/// (offset, length) of the bytes of every attribute_info (header included), with its name and nesting depth
	pub attribute_spans: Vec<AttrSpan>,
}

#[derive(Clone, Debug, PartialEq, Eq)]
pub struct AttrSpan {
	pub name: String,
	pub start: usize,
	pub len: usize,
	pub depth: u8,
}

/// the flag bits the JVMS defines per context; all other bits are reserved and state nothing
pub mod mask {
	pub const CLASS: u16 = 0xF631;
	pub const FIELD: u16 = 0x50DF;
	pub const METHOD: u16 = 0x1DFF;
	pub const INNER_CLASS: u16 = 0x761F;
	pub const PARAMETER: u16 = 0x9010;
	pub const MODULE: u16 = 0x9020;
	pub const REQUIRES: u16 = 0x9060;
	pub const EXPORTS: u16 = 0x9000;
}

type R<T> = Result<T, ParseError>;

struct Rd<'a> {
	b: &'a [u8],
	pos: usize,
	map: Vec<FieldMapEntry>,
	spans: Vec<AttrSpan>,
}

impl<'a> Rd<'a> {
	fn err<T>(&self, msg: impl Into<String>) -> R<T> {
		Err(ParseError { at: self.pos, msg: msg.into() })
	}
	fn need(&self, n: usize) -> R<()> {
		if self.pos + n > self.b.len() {
			return Err(ParseError { at: self.pos, msg: format!("unexpected end of data (need {n} bytes, {} left)", self.b.len() - self.pos) });
		}
		Ok(())
	}
	fn u8(&mut self, role: Role) -> R<u8> {
		self.need(1)?;
		self.map.push(FieldMapEntry { offset: self.pos, width: 1, role });
		let v = self.b[self.pos];
		self.pos += 1;
		Ok(v)
	}
	fn u16(&mut self, role: Role) -> R<u16> {
		self.need(2)?;
		self.map.push(FieldMapEntry { offset: self.pos, width: 2, role });
		let v = u16::from_be_bytes([self.b[self.pos], self.b[self.pos + 1]]);
		self.pos += 2;
		Ok(v)
	}
	fn u32(&mut self, role: Role) -> R<u32> {
		self.need(4)?;
		self.map.push(FieldMapEntry { offset: self.pos, width: 4, role });
		let v = u32::from_be_bytes([self.b[self.pos], self.b[self.pos + 1], self.b[self.pos + 2], self.b[self.pos + 3]]);
		self.pos += 4;
		Ok(v)
	}
	fn bytes(&mut self, n: usize) -> R<&'a [u8]> {
		self.need(n)?;
		let s = &self.b[self.pos..self.pos + n];
		self.pos += n;
		Ok(s)
	}
}

#[derive(Clone, Debug)]
enum Cp {
	Unusable,
	Utf8(JS),
	Integer(i32),
	Float(u32),
	Long(i64),
	Double(u64),
	Class(u16),
	Str(u16),
	Fieldref(u16, u16),
	Methodref(u16, u16),
	InterfaceMethodref(u16, u16),
	NameAndType(u16, u16),
	MethodHandle(u8, u16),
	MethodType(u16),
	Dynamic(u16, u16),
	InvokeDynamic(u16, u16),
	Module(u16),
	Package(u16),
}

/// strict modified UTF-8 (JVMS 4.4.7) → UTF-16 code units
pub fn decode_mutf8(b: &[u8]) -> Result<JS, String> {
	let mut out = Vec::with_capacity(b.len());
	let mut i = 0;
	while i < b.len() {
		let x = b[i];
		if x == 0 {
			return Err("byte 0 in modified UTF-8".into());
		} else if x < 0x80 {
			out.push(x as u16);
			i += 1;
		} else if x & 0xe0 == 0xc0 {
			let y = *b.get(i + 1).ok_or("truncated 2-byte sequence")?;
			if y & 0xc0 != 0x80 {
				return Err("bad continuation byte".into());
			}
			let v = (((x & 0x1f) as u16) << 6) | (y & 0x3f) as u16;
			if v < 0x80 && v != 0 {
				return Err("overlong 2-byte sequence".into());
			}
			out.push(v);
			i += 2;
		} else if x & 0xf0 == 0xe0 {
			let y = *b.get(i + 1).ok_or("truncated 3-byte sequence")?;
			let z = *b.get(i + 2).ok_or("truncated 3-byte sequence")?;
			if y & 0xc0 != 0x80 || z & 0xc0 != 0x80 {
				return Err("bad continuation byte".into());
			}
			let v = (((x & 0x0f) as u16) << 12) | (((y & 0x3f) as u16) << 6) | (z & 0x3f) as u16;
			if v < 0x800 {
				return Err("overlong 3-byte sequence".into());
			}
			out.push(v);
			i += 3;
		} else {
			return Err(format!("byte {x:#x} cannot start a modified UTF-8 sequence"));
		}
	}
	Ok(JS(out))
}

struct Pool {
	e: Vec<Cp>,
}

impl Pool {
	fn get(&self, i: u16, at: usize) -> R<&Cp> {
		match self.e.get(i as usize) {
			Some(Cp::Unusable) | None => Err(ParseError { at, msg: format!("constant pool index {i} out of range or unusable") }),
			Some(c) => Ok(c),
		}
	}
	fn utf8(&self, i: u16, at: usize) -> R<JS> {
		match self.get(i, at)? {
			Cp::Utf8(s) => Ok(s.clone()),
			o => Err(ParseError { at, msg: format!("pool entry {i} is {o:?}, expected Utf8") }),
		}
	}
	fn class(&self, i: u16, at: usize) -> R<JS> {
		match self.get(i, at)? {
			Cp::Class(n) => self.utf8(*n, at),
			o => Err(ParseError { at, msg: format!("pool entry {i} is {o:?}, expected Class") }),
		}
	}
	fn module(&self, i: u16, at: usize) -> R<JS> {
		match self.get(i, at)? {
			Cp::Module(n) => self.utf8(*n, at),
			o => Err(ParseError { at, msg: format!("pool entry {i} is {o:?}, expected Module") }),
		}
	}
	fn package(&self, i: u16, at: usize) -> R<JS> {
		match self.get(i, at)? {
			Cp::Package(n) => self.utf8(*n, at),
			o => Err(ParseError { at, msg: format!("pool entry {i} is {o:?}, expected Package") }),
		}
	}
	fn name_and_type(&self, i: u16, at: usize) -> R<(JS, JS)> {
		match self.get(i, at)? {
			Cp::NameAndType(n, d) => Ok((self.utf8(*n, at)?, self.utf8(*d, at)?)),
			o => Err(ParseError { at, msg: format!("pool entry {i} is {o:?}, expected NameAndType") }),
		}
	}
	/// (member, is InterfaceMethodref, is Fieldref)
	fn member(&self, i: u16, at: usize) -> R<(SMemberRef, bool, bool)> {
		let (c, nt, iface, field) = match self.get(i, at)? {
			Cp::Fieldref(c, nt) => (*c, *nt, false, true),
			Cp::Methodref(c, nt) => (*c, *nt, false, false),
			Cp::InterfaceMethodref(c, nt) => (*c, *nt, true, false),
			o => return Err(ParseError { at, msg: format!("pool entry {i} is {o:?}, expected a member reference") }),
		};
		let owner = self.class(c, at)?;
		let (name, desc) = self.name_and_type(nt, at)?;
		Ok((SMemberRef { owner, name, desc }, iface, field))
	}
}

struct Ctx<'a> {
	pool: Pool,
	/// BootstrapMethods table, raw: (handle index, argument indices)
	bootstrap: Vec<(u16, Vec<u16>)>,
	bootstrap_seen: bool,
	_p: std::marker::PhantomData<&'a ()>,
}

impl Ctx<'_> {
	fn handle(&self, i: u16, at: usize) -> R<SHandle> {
		match self.pool.get(i, at)? {
			Cp::MethodHandle(kind, r) => {
				let (member, interface, field) = self.pool.member(*r, at)?;
				let ok = match kind {
					1..=4 => field,
					5 | 8 => !field && !interface,
					6 | 7 => !field,
					9 => !field && interface,
					_ => false,
				};
				if !ok {
					return Err(ParseError { at, msg: format!("method handle kind {kind} with wrong reference type") });
				}
				Ok(SHandle { kind: *kind, member, interface })
			},
			o => Err(ParseError { at, msg: format!("pool entry {i} is {o:?}, expected MethodHandle") }),
		}
	}
	fn bootstrap(&self, i: u16, at: usize, depth: usize) -> R<SBootstrap> {
		let (h, args) = self.bootstrap.get(i as usize).ok_or_else(|| ParseError { at, msg: format!("bootstrap method index {i} out of range") })?;
		let handle = self.handle(*h, at)?;
		let args = args.iter().map(|a| self.loadable(*a, at, depth + 1)).collect::<R<Vec<_>>>()?;
		Ok(SBootstrap { handle, args })
	}
	fn loadable(&self, i: u16, at: usize, depth: usize) -> R<SConst> {
		if depth > 32 {
			return Err(ParseError { at, msg: "bootstrap arguments nest deeper than 32 (cyclic?)".into() });
		}
		Ok(match self.pool.get(i, at)? {
			Cp::Integer(v) => SConst::Int(*v),
			Cp::Float(v) => SConst::Float(*v),
			Cp::Long(v) => SConst::Long(*v),
			Cp::Double(v) => SConst::Double(*v),
			Cp::Class(n) => SConst::Class(self.pool.utf8(*n, at)?),
			Cp::Str(n) => SConst::Str(self.pool.utf8(*n, at)?),
			Cp::MethodHandle(..) => SConst::Handle(self.handle(i, at)?),
			Cp::MethodType(d) => SConst::MethodType(self.pool.utf8(*d, at)?),
			Cp::Dynamic(b, nt) => {
				let (name, desc) = self.pool.name_and_type(*nt, at)?;
				SConst::Dynamic(Box::new(SDynamic { bootstrap: self.bootstrap(*b, at, depth)?, name, desc }))
			},
			o => return Err(ParseError { at, msg: format!("pool entry {i} is {o:?}, not loadable") }),
		})
	}
	fn invoke_dynamic(&self, i: u16, at: usize) -> R<SDynamic> {
		match self.pool.get(i, at)? {
			Cp::InvokeDynamic(b, nt) => {
				let (name, desc) = self.pool.name_and_type(*nt, at)?;
				Ok(SDynamic { bootstrap: self.bootstrap(*b, at, 0)?, name, desc })
			},
			o => Err(ParseError { at, msg: format!("pool entry {i} is {o:?}, expected InvokeDynamic") }),
		}
	}
}

/// number of argument slots of a method descriptor (long/double count 2); None if malformed
pub fn arg_slots(desc: &JS) -> Option<usize> {
	let d = &desc.0;
	if d.first() != Some(&('(' as u16)) {
		return None;
	}
	let mut i = 1;
	let mut n = 0;
	loop {
		let c = *d.get(i)?;
		if c == ')' as u16 {
			return Some(n);
		}
		let mut arr = false;
		let mut c = c;
		while c == '[' as u16 {
			arr = true;
			i += 1;
			c = *d.get(i)?;
		}
		if c == 'L' as u16 {
			while *d.get(i)? != ';' as u16 {
				i += 1;
			}
			n += 1;
		} else if (c == 'J' as u16 || c == 'D' as u16) && !arr {
			n += 2;
		} else if "BCDFIJSZ".encode_utf16().any(|x| x == c) {
			n += 1;
		} else {
			return None;
		}
		i += 1;
	}
}

#[derive(Clone, Copy, PartialEq, Eq)]
enum Level {
	Class,
	Field,
	Method,
	Code,
	Record,
}

pub fn parse(bytes: &[u8]) -> R<Parsed> {
	let mut r = Rd { b: bytes, pos: 0, map: Vec::new(), spans: Vec::new() };
	if r.u32(Role::Magic)? != 0xCAFEBABE {
		r.pos = 0;
		return r.err("bad magic");
	}
	let minor = r.u16(Role::Version)?;
	let major = r.u16(Role::Version)?;
	let count = r.u16(Role::PoolCount)?;
	if count == 0 {
		return r.err("constant_pool_count is 0");
	}
	let mut e = vec![Cp::Unusable; count as usize];
	let mut i = 1usize;
	while i < count as usize {
		let at = r.pos;
		let tag = r.u8(Role::PoolTag)?;
		e[i] = match tag {
			1 => {
				let len = r.u16(Role::Utf8Length)? as usize;
				let b = r.bytes(len)?;
				Cp::Utf8(decode_mutf8(b).map_err(|m| ParseError { at, msg: format!("Utf8 entry {i}: {m}") })?)
			},
			3 => Cp::Integer(r.u32(Role::Other)? as i32),
			4 => Cp::Float(r.u32(Role::Other)?),
			5 | 6 => {
				let hi = r.u32(Role::Other)? as u64;
				let lo = r.u32(Role::Other)? as u64;
				let v = (hi << 32) | lo;
				if i + 1 >= count as usize {
					return Err(ParseError { at, msg: "two-slot constant in the last pool slot".into() });
				}
				let c = if tag == 5 { Cp::Long(v as i64) } else { Cp::Double(v) };
				e[i] = c;
				i += 2;
				continue;
			},
			7 => Cp::Class(r.u16(Role::PoolIndex)?),
			8 => Cp::Str(r.u16(Role::PoolIndex)?),
			9 => Cp::Fieldref(r.u16(Role::PoolIndex)?, r.u16(Role::PoolIndex)?),
			10 => Cp::Methodref(r.u16(Role::PoolIndex)?, r.u16(Role::PoolIndex)?),
			11 => Cp::InterfaceMethodref(r.u16(Role::PoolIndex)?, r.u16(Role::PoolIndex)?),
			12 => Cp::NameAndType(r.u16(Role::PoolIndex)?, r.u16(Role::PoolIndex)?),
			15 => Cp::MethodHandle(r.u8(Role::RefKind)?, r.u16(Role::PoolIndex)?),
			16 => Cp::MethodType(r.u16(Role::PoolIndex)?),
			17 => Cp::Dynamic(r.u16(Role::Other)?, r.u16(Role::PoolIndex)?),
			18 => Cp::InvokeDynamic(r.u16(Role::Other)?, r.u16(Role::PoolIndex)?),
			19 => Cp::Module(r.u16(Role::PoolIndex)?),
			20 => Cp::Package(r.u16(Role::PoolIndex)?),
			t => return Err(ParseError { at, msg: format!("unknown constant pool tag {t}") }),
		};
		i += 1;
	}
	let pool = Pool { e };
	// structural validation of every pool entry, used or not
	for (i, c) in pool.e.iter().enumerate() {
		let at = 10;
		let i = i as u16;
		match c {
			Cp::Class(n) | Cp::Str(n) | Cp::MethodType(n) | Cp::Module(n) | Cp::Package(n) => {
				pool.utf8(*n, at)?;
			},
			Cp::Fieldref(..) | Cp::Methodref(..) | Cp::InterfaceMethodref(..) => {
				let (_, _, field) = pool.member(i, at)?;
				let _ = field;
			},
			Cp::NameAndType(..) => {
				pool.name_and_type(i, at)?;
			},
			Cp::MethodHandle(k, r) => {
				if !(1..=9).contains(k) {
					return Err(ParseError { at, msg: format!("method handle kind {k}") });
				}
				pool.member(*r, at)?;
			},
			Cp::Dynamic(_, nt) | Cp::InvokeDynamic(_, nt) => {
				pool.name_and_type(*nt, at)?;
			},
			_ => {},
		}
	}
	let mut cx = Ctx { pool, bootstrap: Vec::new(), bootstrap_seen: false, _p: std::marker::PhantomData };

	let mut class = SClass { version: (major, minor), ..Default::default() };
	class.access = r.u16(Role::AccessFlags)? & mask::CLASS;
	let at = r.pos;
	let this = r.u16(Role::PoolIndex)?;
	class.this_class = cx.pool.class(this, at)?;
	let at = r.pos;
	let sup = r.u16(Role::PoolIndex)?;
	class.super_class = if sup == 0 { None } else { Some(cx.pool.class(sup, at)?) };
	let n = r.u16(Role::Count)?;
	for _ in 0..n {
		let at = r.pos;
		let i = r.u16(Role::PoolIndex)?;
		class.interfaces.push(cx.pool.class(i, at)?);
	}

	// BootstrapMethods may come after its uses: find it first with a structural pre-scan
	prescan_bootstrap(bytes, r.pos, &mut cx)?;

	let n = r.u16(Role::Count)?;
	for _ in 0..n {
		let mut f = SField { access: r.u16(Role::AccessFlags)? & mask::FIELD, ..Default::default() };
		let at = r.pos;
		f.name = cx.pool.utf8(r.u16(Role::PoolIndex)?, at)?;
		let at = r.pos;
		f.desc = cx.pool.utf8(r.u16(Role::PoolIndex)?, at)?;
		let mut sink = AttrSink::Field(&mut f);
		attributes(&mut r, &cx, Level::Field, &mut sink, 0, None)?;
		f.unknown.sort();
		class.fields.push(f);
	}
	let n = r.u16(Role::Count)?;
	for _ in 0..n {
		let mut m = SMethod { access: r.u16(Role::AccessFlags)? & mask::METHOD, ..Default::default() };
		let at = r.pos;
		m.name = cx.pool.utf8(r.u16(Role::PoolIndex)?, at)?;
		let at = r.pos;
		m.desc = cx.pool.utf8(r.u16(Role::PoolIndex)?, at)?;
		let mut sink = AttrSink::Method(&mut m);
		attributes(&mut r, &cx, Level::Method, &mut sink, 0, None)?;
		m.unknown.sort();
		class.methods.push(m);
	}
	{
		let mut sink = AttrSink::Class(&mut class);
		attributes(&mut r, &cx, Level::Class, &mut sink, 0, None)?;
	}
	class.unknown.sort();
	if r.pos != bytes.len() {
		return r.err(format!("{} trailing bytes after the class", bytes.len() - r.pos));
	}
	Ok(Parsed { class, map: r.map, pool_count: count, attribute_spans: r.spans })
}

/// Walks fields, methods and class attributes structurally to find the BootstrapMethods attribute.
fn prescan_bootstrap(b: &[u8], mut pos: usize, cx: &mut Ctx) -> R<()> {
	let rd16 = |p: usize| -> R<u16> {
		if p + 2 > b.len() {
			return Err(ParseError { at: p, msg: "unexpected end of data".into() });
		}
		Ok(u16::from_be_bytes([b[p], b[p + 1]]))
	};
	let rd32 = |p: usize| -> R<u32> {
		if p + 4 > b.len() {
			return Err(ParseError { at: p, msg: "unexpected end of data".into() });
		}
		Ok(u32::from_be_bytes([b[p], b[p + 1], b[p + 2], b[p + 3]]))
	};
	let skip_attrs = |mut p: usize| -> R<usize> {
		let n = rd16(p)?;
		p += 2;
		for _ in 0..n {
			let len = rd32(p + 2)? as usize;
			p = p.checked_add(6 + len).ok_or(ParseError { at: p, msg: "overflow".into() })?;
			if p > b.len() {
				return Err(ParseError { at: p, msg: "attribute extends past the end of data".into() });
			}
		}
		Ok(p)
	};
	for _ in 0..2 {
		let n = rd16(pos)?;
		pos += 2;
		for _ in 0..n {
			pos = skip_attrs(pos + 6)?;
		}
	}
	let n = rd16(pos)?;
	pos += 2;
	for _ in 0..n {
		let name_idx = rd16(pos)?;
		let len = rd32(pos + 2)? as usize;
		let body = pos + 6;
		if body + len > b.len() {
			return Err(ParseError { at: pos, msg: "attribute extends past the end of data".into() });
		}
		if cx.pool.utf8(name_idx, pos)? == JS::new("BootstrapMethods") {
			if cx.bootstrap_seen {
				return Err(ParseError { at: pos, msg: "two BootstrapMethods attributes".into() });
			}
			cx.bootstrap_seen = true;
			let mut p = body;
			let cnt = rd16(p)?;
			p += 2;
			for _ in 0..cnt {
				let h = rd16(p)?;
				let na = rd16(p + 2)?;
				p += 4;
				let mut args = Vec::new();
				for _ in 0..na {
					args.push(rd16(p)?);
					p += 2;
				}
				cx.bootstrap.push((h, args));
			}
			if p != body + len {
				return Err(ParseError { at: pos, msg: "BootstrapMethods attribute_length does not match its content".into() });
			}
		}
		pos = body + len;
	}
	Ok(())
}

enum AttrSink<'a> {
	Class(&'a mut SClass),
	Field(&'a mut SField),
	Method(&'a mut SMethod),
	Code(&'a mut SCode, &'a CodeLayout),
	Record(&'a mut SRecordComponent),
}

/// offsets of a decoded code array
struct CodeLayout {
	/// instruction index by byte offset (u32::MAX where not an instruction boundary); len = code_length + 1
	idx_of: Vec<u32>,
}

impl CodeLayout {
	fn idx(&self, offset: i64, at: usize, what: &str) -> R<Idx> {
		if offset < 0 || offset as usize >= self.idx_of.len() || self.idx_of[offset as usize] == u32::MAX {
			return Err(ParseError { at, msg: format!("{what} {offset} is not an instruction boundary") });
		}
		Ok(self.idx_of[offset as usize])
	}
}

fn annotations_mut<'a>(sink: &'a mut AttrSink) -> Option<&'a mut SAnnotations> {
	match sink {
		AttrSink::Class(c) => Some(&mut c.annotations),
		AttrSink::Field(f) => Some(&mut f.annotations),
		AttrSink::Method(m) => Some(&mut m.annotations),
		AttrSink::Record(rc) => Some(&mut rc.annotations),
		AttrSink::Code(..) => None,
	}
}

fn attributes(r: &mut Rd, cx: &Ctx, level: Level, sink: &mut AttrSink, depth: u8, _layout: Option<&CodeLayout>) -> R<()> {
	let n = r.u16(Role::Count)?;
	let mut seen: BTreeMap<String, usize> = BTreeMap::new();
	for _ in 0..n {
		let start = r.pos;
		let name = cx.pool.utf8(r.u16(Role::PoolIndex)?, start)?;
		let len = r.u32(Role::AttrLength)? as usize;
		r.need(len)?;
		let body = r.pos;
		let end = body + len;
		let name_s = name.to_string_lossy();
		r.spans.push(AttrSpan { name: name_s.clone(), start, len: 6 + len, depth });
		let dup = {
			let c = seen.entry(name_s.clone()).or_insert(0);
			*c += 1;
			*c > 1
		};
		let at_most_once = |r: &Rd| -> R<()> {
			if dup {
				return r.err(format!("attribute {name_s} appears more than once"));
			}
			Ok(())
		};
		let mut handled = true;
		match (level, name_s.as_str()) {
			(_, "Synthetic") if level != Level::Code && level != Level::Record => {
				at_most_once(r)?;
				match sink {
					AttrSink::Class(c) => c.synthetic = true,
					AttrSink::Field(f) => f.synthetic = true,
					AttrSink::Method(m) => m.synthetic = true,
					_ => {},
				}
			},
			(_, "Deprecated") if level != Level::Code && level != Level::Record => {
				at_most_once(r)?;
				match sink {
					AttrSink::Class(c) => c.deprecated = true,
					AttrSink::Field(f) => f.deprecated = true,
					AttrSink::Method(m) => m.deprecated = true,
					_ => {},
				}
			},
			(_, "Signature") if level != Level::Code => {
				at_most_once(r)?;
				let at = r.pos;
				let s = cx.pool.utf8(r.u16(Role::PoolIndex)?, at)?;
				match sink {
					AttrSink::Class(c) => c.signature = Some(s),
					AttrSink::Field(f) => f.signature = Some(s),
					AttrSink::Method(m) => m.signature = Some(s),
					AttrSink::Record(rc) => rc.signature = Some(s),
					_ => {},
				}
			},
			(_, "RuntimeVisibleAnnotations") | (_, "RuntimeInvisibleAnnotations") if level != Level::Code => {
				at_most_once(r)?;
				let n = r.u16(Role::Count)?;
				let mut v = Vec::new();
				for _ in 0..n {
					v.push(annotation(r, cx, 0)?);
				}
				let visible = name_s == "RuntimeVisibleAnnotations";
				if let Some(a) = annotations_mut(sink) {
					if visible { a.visible = v } else { a.invisible = v }
				}
			},
			(_, "RuntimeVisibleTypeAnnotations") | (_, "RuntimeInvisibleTypeAnnotations") => {
				at_most_once(r)?;
				let n = r.u16(Role::Count)?;
				let mut v = Vec::new();
				let layout = match sink {
					AttrSink::Code(_, l) => Some(*l),
					_ => None,
				};
				for _ in 0..n {
					v.push(type_annotation(r, cx, level, layout)?);
				}
				let visible = name_s == "RuntimeVisibleTypeAnnotations";
				match sink {
					AttrSink::Code(c, _) => {
						if visible { c.visible_type = v } else { c.invisible_type = v }
					},
					_ => {
						if let Some(a) = annotations_mut(sink) {
							if visible { a.visible_type = v } else { a.invisible_type = v }
						}
					},
				}
			},
			(Level::Class, "SourceFile") => {
				at_most_once(r)?;
				let at = r.pos;
				let s = cx.pool.utf8(r.u16(Role::PoolIndex)?, at)?;
				if let AttrSink::Class(c) = sink { c.source_file = Some(s) }
			},
			(Level::Class, "SourceDebugExtension") => {
				at_most_once(r)?;
				let b = r.bytes(len)?;
				let s = decode_mutf8(b).map_err(|m| ParseError { at: body, msg: format!("SourceDebugExtension: {m}") })?;
				if let AttrSink::Class(c) = sink { c.source_debug_extension = Some(s) }
			},
			(Level::Class, "InnerClasses") => {
				at_most_once(r)?;
				let n = r.u16(Role::Count)?;
				let mut v = Vec::new();
				for _ in 0..n {
					let at = r.pos;
					let inner = cx.pool.class(r.u16(Role::PoolIndex)?, at)?;
					let o = r.u16(Role::PoolIndex)?;
					let outer = if o == 0 { None } else { Some(cx.pool.class(o, at)?) };
					let nm = r.u16(Role::PoolIndex)?;
					let name = if nm == 0 { None } else { Some(cx.pool.utf8(nm, at)?) };
					let flags = r.u16(Role::AccessFlags)? & mask::INNER_CLASS;
					v.push(SInnerClass { inner, outer, name, flags });
				}
				if let AttrSink::Class(c) = sink { c.inner_classes = Some(v) }
			},
			(Level::Class, "EnclosingMethod") => {
				at_most_once(r)?;
				let at = r.pos;
				let cls = cx.pool.class(r.u16(Role::PoolIndex)?, at)?;
				let m = r.u16(Role::PoolIndex)?;
				let method = if m == 0 { None } else { Some(cx.pool.name_and_type(m, at)?) };
				if let AttrSink::Class(c) = sink { c.enclosing_method = Some((cls, method)) }
			},
			(Level::Class, "BootstrapMethods") => {
				// content was read by the pre-scan (and is reflected in every use); validate the handles and arguments
				for (i, _) in cx.bootstrap.iter().enumerate() {
					cx.bootstrap(i as u16, body, 0)?;
				}
				r.map.push(FieldMapEntry { offset: r.pos, width: 2, role: Role::Count });
				let mut p = r.pos + 2;
				for (_, args) in &cx.bootstrap {
					r.map.push(FieldMapEntry { offset: p, width: 2, role: Role::PoolIndex });
					r.map.push(FieldMapEntry { offset: p + 2, width: 2, role: Role::Count });
					p += 4;
					for _ in args {
						r.map.push(FieldMapEntry { offset: p, width: 2, role: Role::PoolIndex });
						p += 2;
					}
				}
				r.pos = end;
			},
			(Level::Class, "NestHost") => {
				at_most_once(r)?;
				let at = r.pos;
				let s = cx.pool.class(r.u16(Role::PoolIndex)?, at)?;
				if let AttrSink::Class(c) = sink { c.nest_host = Some(s) }
			},
			(Level::Class, "NestMembers") | (Level::Class, "PermittedSubclasses") => {
				at_most_once(r)?;
				let n = r.u16(Role::Count)?;
				let mut v = Vec::new();
				for _ in 0..n {
					let at = r.pos;
					v.push(cx.pool.class(r.u16(Role::PoolIndex)?, at)?);
				}
				if let AttrSink::Class(c) = sink {
					if name_s == "NestMembers" { c.nest_members = Some(v) } else { c.permitted_subclasses = Some(v) }
				}
			},
			(Level::Class, "ModulePackages") => {
				at_most_once(r)?;
				let n = r.u16(Role::Count)?;
				let mut v = Vec::new();
				for _ in 0..n {
					let at = r.pos;
					v.push(cx.pool.package(r.u16(Role::PoolIndex)?, at)?);
				}
				if let AttrSink::Class(c) = sink { c.module_packages = Some(v) }
			},
			(Level::Class, "ModuleMainClass") => {
				at_most_once(r)?;
				let at = r.pos;
				let s = cx.pool.class(r.u16(Role::PoolIndex)?, at)?;
				if let AttrSink::Class(c) = sink { c.module_main_class = Some(s) }
			},
			(Level::Class, "Module") => {
				at_most_once(r)?;
				let at = r.pos;
				let mut m = SModule { name: cx.pool.module(r.u16(Role::PoolIndex)?, at)?, flags: r.u16(Role::AccessFlags)? & mask::MODULE, ..Default::default() };
				let opt_utf8 = |r: &mut Rd| -> R<Option<JS>> {
					let at = r.pos;
					let i = r.u16(Role::PoolIndex)?;
					if i == 0 { Ok(None) } else { cx.pool.utf8(i, at).map(Some) }
				};
				m.version = opt_utf8(r)?;
				let n = r.u16(Role::Count)?;
				for _ in 0..n {
					let at = r.pos;
					let name = cx.pool.module(r.u16(Role::PoolIndex)?, at)?;
					let flags = r.u16(Role::AccessFlags)? & mask::REQUIRES;
					let version = opt_utf8(r)?;
					m.requires.push((name, flags, version));
				}
				for which in 0..2 {
					let n = r.u16(Role::Count)?;
					for _ in 0..n {
						let at = r.pos;
						let pkg = cx.pool.package(r.u16(Role::PoolIndex)?, at)?;
						let flags = r.u16(Role::AccessFlags)? & mask::EXPORTS;
						let k = r.u16(Role::Count)?;
						let mut to = Vec::new();
						for _ in 0..k {
							let at = r.pos;
							to.push(cx.pool.module(r.u16(Role::PoolIndex)?, at)?);
						}
						if which == 0 { m.exports.push((pkg, flags, to)) } else { m.opens.push((pkg, flags, to)) }
					}
				}
				let n = r.u16(Role::Count)?;
				for _ in 0..n {
					let at = r.pos;
					m.uses.push(cx.pool.class(r.u16(Role::PoolIndex)?, at)?);
				}
				let n = r.u16(Role::Count)?;
				for _ in 0..n {
					let at = r.pos;
					let svc = cx.pool.class(r.u16(Role::PoolIndex)?, at)?;
					let k = r.u16(Role::Count)?;
					let mut with = Vec::new();
					for _ in 0..k {
						let at = r.pos;
						with.push(cx.pool.class(r.u16(Role::PoolIndex)?, at)?);
					}
					m.provides.push((svc, with));
				}
				if let AttrSink::Class(c) = sink { c.module = Some(m) }
			},
			(Level::Class, "Record") => {
				at_most_once(r)?;
				let n = r.u16(Role::Count)?;
				let mut v = Vec::new();
				for _ in 0..n {
					let at = r.pos;
					let mut rc = SRecordComponent { name: cx.pool.utf8(r.u16(Role::PoolIndex)?, at)?, ..Default::default() };
					let at = r.pos;
					rc.desc = cx.pool.utf8(r.u16(Role::PoolIndex)?, at)?;
					let mut s = AttrSink::Record(&mut rc);
					attributes(r, cx, Level::Record, &mut s, depth + 1, None)?;
					rc.unknown.sort();
					v.push(rc);
				}
				if let AttrSink::Class(c) = sink { c.record = Some(v) }
			},
			(Level::Field, "ConstantValue") => {
				at_most_once(r)?;
				let at = r.pos;
				let c = cx.loadable(r.u16(Role::PoolIndex)?, at, 0)?;
				if !matches!(c, SConst::Int(_) | SConst::Float(_) | SConst::Long(_) | SConst::Double(_) | SConst::Str(_)) {
					return Err(ParseError { at, msg: "ConstantValue of a kind that is not allowed".into() });
				}
				if let AttrSink::Field(f) = sink { f.constant_value = Some(c) }
			},
			(Level::Method, "Exceptions") => {
				at_most_once(r)?;
				let n = r.u16(Role::Count)?;
				let mut v = Vec::new();
				for _ in 0..n {
					let at = r.pos;
					v.push(cx.pool.class(r.u16(Role::PoolIndex)?, at)?);
				}
				if let AttrSink::Method(m) = sink { m.exceptions = Some(v) }
			},
			(Level::Method, "RuntimeVisibleParameterAnnotations") | (Level::Method, "RuntimeInvisibleParameterAnnotations") => {
				at_most_once(r)?;
				let np = r.u8(Role::Count)?;
				let mut v = Vec::new();
				for _ in 0..np {
					let n = r.u16(Role::Count)?;
					let mut a = Vec::new();
					for _ in 0..n {
						a.push(annotation(r, cx, 0)?);
					}
					v.push(a);
				}
				if let AttrSink::Method(m) = sink {
					if name_s.starts_with("RuntimeVisible") { m.visible_param_annotations = Some(v) } else { m.invisible_param_annotations = Some(v) }
				}
			},
			(Level::Method, "AnnotationDefault") => {
				at_most_once(r)?;
				let v = element_value(r, cx, 0)?;
				if let AttrSink::Method(m) = sink { m.annotation_default = Some(v) }
			},
			(Level::Method, "MethodParameters") => {
				at_most_once(r)?;
				let n = r.u8(Role::Count)?;
				let mut v = Vec::new();
				for _ in 0..n {
					let at = r.pos;
					let i = r.u16(Role::PoolIndex)?;
					let name = if i == 0 { None } else { Some(cx.pool.utf8(i, at)?) };
					v.push((name, r.u16(Role::AccessFlags)? & mask::PARAMETER));
				}
				if let AttrSink::Method(m) = sink { m.parameters = Some(v) }
			},
			(Level::Method, "Code") => {
				at_most_once(r)?;
				let code = code_attribute(r, cx, depth)?;
				if let AttrSink::Method(m) = sink { m.code = Some(code) }
			},
			(Level::Code, "LineNumberTable") => {
				let n = r.u16(Role::Count)?;
				if let AttrSink::Code(c, l) = sink {
					c.empty_line_table = true; // settled at the end of the Code attribute

					for _ in 0..n {
						let at = r.pos;
						let pc = r.u16(Role::Pc)?;
						let line = r.u16(Role::Other)?;
						let idx = l.idx(pc as i64, at, "line number start_pc")?;
						if idx as usize >= c.insns.len() {
							return Err(ParseError { at, msg: "line number start_pc is the end of the code".into() });
						}
						c.line_numbers.push((idx, line));
					}
				}
			},
			(Level::Code, "LocalVariableTable") | (Level::Code, "LocalVariableTypeTable") => {
				let n = r.u16(Role::Count)?;
				if let AttrSink::Code(c, l) = sink {
					c.empty_local_table = true; // settled at the end of the Code attribute

					for _ in 0..n {
						let at = r.pos;
						let start_pc = r.u16(Role::Pc)?;
						let length = r.u16(Role::Pc)?;
						let start = l.idx(start_pc as i64, at, "local variable start_pc")?;
						let end = l.idx(start_pc as i64 + length as i64, at, "local variable start_pc+length")?;
						let at = r.pos;
						let name = cx.pool.utf8(r.u16(Role::PoolIndex)?, at)?;
						let ty = cx.pool.utf8(r.u16(Role::PoolIndex)?, at)?;
						let index = r.u16(Role::LocalIndex)?;
						let lv = SLocalVar { start, end, name, ty, index };
						if name_s == "LocalVariableTable" { c.local_vars.push(lv) } else { c.local_var_types.push(lv) }
					}
				}
			},
			(Level::Code, "StackMapTable") => {
				at_most_once(r)?;
				if let AttrSink::Code(c, l) = sink {
					if !c.frames.is_empty() {
						return r.err("StackMap and StackMapTable in one Code attribute");
					}
					let n = r.u16(Role::Count)?;
					let mut offset: i64 = -1;
					for _ in 0..n {
						let at = r.pos;
						let t = r.u8(Role::FrameType)?;
						let (delta, frame) = match t {
							0..=63 => (t as u16, SFrame::Same),
							64..=127 => ((t - 64) as u16, SFrame::SameLocals1(vtype(r, cx, l)?)),
							128..=246 => return Err(ParseError { at, msg: format!("reserved frame type {t}") }),
							247 => {
								let d = r.u16(Role::Pc)?;
								(d, SFrame::SameLocals1(vtype(r, cx, l)?))
							},
							248..=250 => (r.u16(Role::Pc)?, SFrame::Chop(251 - t)),
							251 => (r.u16(Role::Pc)?, SFrame::Same),
							252..=254 => {
								let d = r.u16(Role::Pc)?;
								let mut v = Vec::new();
								for _ in 0..(t - 251) {
									v.push(vtype(r, cx, l)?);
								}
								(d, SFrame::Append(v))
							},
							255 => {
								let d = r.u16(Role::Pc)?;
								let nl = r.u16(Role::Count)?;
								let mut locals = Vec::new();
								for _ in 0..nl {
									locals.push(vtype(r, cx, l)?);
								}
								let ns = r.u16(Role::Count)?;
								let mut stack = Vec::new();
								for _ in 0..ns {
									stack.push(vtype(r, cx, l)?);
								}
								(d, SFrame::Full { locals, stack })
							},
						};
						offset += delta as i64 + 1;
						let idx = l.idx(offset, at, "stack map frame offset")?;
						if idx as usize >= c.insns.len() {
							return Err(ParseError { at, msg: "stack map frame at the end of the code".into() });
						}
						c.frames.push((idx, frame));
					}
				}
			},
			// the CLDC `StackMap` attribute (class files of Java ME / javac -target cldc1.0; not in the JVMS, but the reader
			// under test gives it the meaning its specification defines): explicit offsets, every frame a full frame
			(Level::Code, "StackMap") => {
				at_most_once(r)?;
				if let AttrSink::Code(c, l) = sink {
					if !c.frames.is_empty() {
						return r.err("StackMap and StackMapTable in one Code attribute");
					}
					let n = r.u16(Role::Count)?;
					let mut last: i64 = -1;
					for _ in 0..n {
						let at = r.pos;
						let offset = r.u16(Role::Pc)? as i64;
						if offset <= last {
							return Err(ParseError { at, msg: "StackMap frames not in ascending order of offset".into() });
						}
						last = offset;
						let nl = r.u16(Role::Count)?;
						let mut locals = Vec::new();
						for _ in 0..nl {
							locals.push(vtype(r, cx, l)?);
						}
						let ns = r.u16(Role::Count)?;
						let mut stack = Vec::new();
						for _ in 0..ns {
							stack.push(vtype(r, cx, l)?);
						}
						let idx = l.idx(offset, at, "stack map frame offset")?;
						if idx as usize >= c.insns.len() {
							return Err(ParseError { at, msg: "stack map frame at the end of the code".into() });
						}
						c.frames.push((idx, SFrame::Full { locals, stack }));
					}
				}
			},
			_ => handled = false,
		}
		if !handled {
			let b = r.bytes(len)?.to_vec();
			let u = SUnknown { name, bytes: b };
			match sink {
				AttrSink::Class(c) => c.unknown.push(u),
				AttrSink::Field(f) => f.unknown.push(u),
				AttrSink::Method(m) => m.unknown.push(u),
				AttrSink::Code(c, _) => c.unknown.push(u),
				AttrSink::Record(rc) => rc.unknown.push(u),
			}
		}
		if r.pos != end {
			return Err(ParseError { at: start, msg: format!("attribute {name_s}: attribute_length {len} but content is {} bytes", r.pos as i64 - body as i64) });
		}
	}
	Ok(())
}

fn vtype(r: &mut Rd, cx: &Ctx, l: &CodeLayout) -> R<SVType> {
	let at = r.pos;
	Ok(match r.u8(Role::VTypeTag)? {
		0 => SVType::Top,
		1 => SVType::Integer,
		2 => SVType::Float,
		3 => SVType::Double,
		4 => SVType::Long,
		5 => SVType::Null,
		6 => SVType::UninitializedThis,
		7 => SVType::Object(cx.pool.class(r.u16(Role::PoolIndex)?, at)?),
		8 => {
			let off = r.u16(Role::Pc)?;
			SVType::Uninitialized(l.idx(off as i64, at, "uninitialized offset")?)
		},
		t => return Err(ParseError { at, msg: format!("verification type tag {t}") }),
	})
}

fn annotation(r: &mut Rd, cx: &Ctx, depth: usize) -> R<SAnnotation> {
	let at = r.pos;
	let type_name = cx.pool.utf8(r.u16(Role::PoolIndex)?, at)?;
	let n = r.u16(Role::Count)?;
	let mut pairs = Vec::new();
	for _ in 0..n {
		let at = r.pos;
		let name = cx.pool.utf8(r.u16(Role::PoolIndex)?, at)?;
		pairs.push((name, element_value(r, cx, depth + 1)?));
	}
	Ok(SAnnotation { type_name, pairs })
}

fn element_value(r: &mut Rd, cx: &Ctx, depth: usize) -> R<SElementValue> {
	if depth > 64 {
		return r.err("element values nest deeper than 64");
	}
	let at = r.pos;
	let tag = r.u8(Role::ElementTag)?;
	Ok(match tag {
		b'B' | b'C' | b'I' | b'S' | b'Z' => {
			let c = cx.loadable(r.u16(Role::PoolIndex)?, at, 0)?;
			if !matches!(c, SConst::Int(_)) {
				return Err(ParseError { at, msg: "element value: expected Integer constant".into() });
			}
			SElementValue::Const(tag, c)
		},
		b'D' => {
			let c = cx.loadable(r.u16(Role::PoolIndex)?, at, 0)?;
			if !matches!(c, SConst::Double(_)) {
				return Err(ParseError { at, msg: "element value: expected Double constant".into() });
			}
			SElementValue::Const(tag, c)
		},
		b'F' => {
			let c = cx.loadable(r.u16(Role::PoolIndex)?, at, 0)?;
			if !matches!(c, SConst::Float(_)) {
				return Err(ParseError { at, msg: "element value: expected Float constant".into() });
			}
			SElementValue::Const(tag, c)
		},
		b'J' => {
			let c = cx.loadable(r.u16(Role::PoolIndex)?, at, 0)?;
			if !matches!(c, SConst::Long(_)) {
				return Err(ParseError { at, msg: "element value: expected Long constant".into() });
			}
			SElementValue::Const(tag, c)
		},
		b's' => SElementValue::Str(cx.pool.utf8(r.u16(Role::PoolIndex)?, at)?),
		b'e' => {
			let type_name = cx.pool.utf8(r.u16(Role::PoolIndex)?, at)?;
			let const_name = cx.pool.utf8(r.u16(Role::PoolIndex)?, at)?;
			SElementValue::Enum { type_name, const_name }
		},
		b'c' => SElementValue::Class(cx.pool.utf8(r.u16(Role::PoolIndex)?, at)?),
		b'@' => SElementValue::Annotation(annotation(r, cx, depth + 1)?),
		b'[' => {
			let n = r.u16(Role::Count)?;
			let mut v = Vec::new();
			for _ in 0..n {
				v.push(element_value(r, cx, depth + 1)?);
			}
			SElementValue::Array(v)
		},
		t => return Err(ParseError { at, msg: format!("element value tag {t:#x}") }),
	})
}

fn type_annotation(r: &mut Rd, cx: &Ctx, level: Level, layout: Option<&CodeLayout>) -> R<STypeAnnotation> {
	let at = r.pos;
	let tt = r.u8(Role::TargetType)?;
	let need_code = |r: &Rd| -> R<&CodeLayout> {
		match layout {
			Some(l) => Ok(l),
			None => r.err(format!("type annotation target {tt:#x} outside a Code attribute")),
		}
	};
	let ctx_ok = match tt {
		0x00 | 0x10 | 0x11 => level == Level::Class,
		0x01 | 0x12 | 0x14 | 0x15 | 0x16 | 0x17 => level == Level::Method,
		0x13 => level == Level::Field || level == Level::Record,
		0x40..=0x4B => level == Level::Code,
		_ => false,
	};
	if !ctx_ok {
		return Err(ParseError { at, msg: format!("type annotation target_type {tt:#x} not allowed here") });
	}
	let target = match tt {
		0x00 | 0x01 => STarget::TypeParameter { target_type: tt, index: r.u8(Role::Other)? },
		0x10 => STarget::Supertype(r.u16(Role::Other)?),
		0x11 | 0x12 => STarget::TypeParameterBound { target_type: tt, param: r.u8(Role::Other)?, bound: r.u8(Role::Other)? },
		0x13..=0x15 => STarget::Empty(tt),
		0x16 => STarget::FormalParameter(r.u8(Role::Other)?),
		0x17 => STarget::Throws(r.u16(Role::Other)?),
		0x40 | 0x41 => {
			let l = need_code(r)?;
			let n = r.u16(Role::Count)?;
			let mut table = Vec::new();
			for _ in 0..n {
				let at = r.pos;
				let start_pc = r.u16(Role::Pc)?;
				let length = r.u16(Role::Pc)?;
				let index = r.u16(Role::LocalIndex)?;
				table.push((l.idx(start_pc as i64, at, "localvar target start_pc")?, l.idx(start_pc as i64 + length as i64, at, "localvar target start_pc+length")?, index));
			}
			STarget::LocalVar { target_type: tt, table }
		},
		0x42 => STarget::Catch(r.u16(Role::Other)?),
		0x43..=0x46 => {
			let l = need_code(r)?;
			let at = r.pos;
			let off = r.u16(Role::Pc)?;
			STarget::Offset { target_type: tt, at: l.idx(off as i64, at, "offset target")? }
		},
		0x47..=0x4B => {
			let l = need_code(r)?;
			let at = r.pos;
			let off = r.u16(Role::Pc)?;
			let index = r.u8(Role::Other)?;
			STarget::TypeArgument { target_type: tt, at: l.idx(off as i64, at, "type argument target offset")?, index }
		},
		_ => return Err(ParseError { at, msg: format!("type annotation target_type {tt:#x}") }),
	};
	let n = r.u8(Role::Count)?;
	let mut path = Vec::new();
	for _ in 0..n {
		let at = r.pos;
		let k = r.u8(Role::Other)?;
		let i = r.u8(Role::Other)?;
		if k > 3 || (k != 3 && i != 0) {
			return Err(ParseError { at, msg: format!("type path step ({k}, {i})") });
		}
		path.push((k, i));
	}
	let annotation = annotation(r, cx, 0)?;
	Ok(STypeAnnotation { target, path, annotation })
}

/// an instruction with raw byte offsets, before translation to indices
enum RawInsn {
	Done(SInsn),
	Branch(u8, i64),
	Table { default: i64, low: i32, targets: Vec<i64> },
	Lookup { default: i64, pairs: Vec<(i32, i64)> },
}

fn code_attribute(r: &mut Rd, cx: &Ctx, depth: u8) -> R<SCode> {
	let max_stack = r.u16(Role::MaxStackLocals)?;
	let max_locals = r.u16(Role::MaxStackLocals)?;
	let at = r.pos;
	let code_length = r.u32(Role::CodeLength)? as usize;
	if code_length == 0 || code_length > 65535 {
		return Err(ParseError { at, msg: format!("code_length {code_length} outside 1..=65535") });
	}
	r.need(code_length)?;
	let base = r.pos;
	let end = base + code_length;
	let mut raw: Vec<RawInsn> = Vec::new();
	let mut idx_of = vec![u32::MAX; code_length + 1];
	while r.pos < end {
		let at = r.pos;
		let off = (at - base) as i64;
		idx_of[at - base] = raw.len() as u32;
		let opc = r.u8(Role::Opcode)?;
		let pool_idx = |r: &mut Rd| r.u16(Role::PoolIndex);
		let insn = match opc {
			o if op::is_simple(o) => RawInsn::Done(SInsn::Simple(o)),
			op::BIPUSH => RawInsn::Done(SInsn::BiPush(r.u8(Role::Immediate)? as i8)),
			op::SIPUSH => RawInsn::Done(SInsn::SiPush(r.u16(Role::Immediate)? as i16)),
			op::LDC => {
				let c = cx.loadable(r.u8(Role::PoolIndex)? as u16, at, 0)?;
				if matches!(c, SConst::Long(_) | SConst::Double(_)) {
					return Err(ParseError { at, msg: "ldc of a two-slot constant".into() });
				}
				if let SConst::Dynamic(d) = &c {
					if d.desc == JS::new("J") || d.desc == JS::new("D") {
						return Err(ParseError { at, msg: "ldc of a two-slot dynamic constant".into() });
					}
				}
				RawInsn::Done(SInsn::Ldc(c))
			},
			op::LDC_W => {
				let c = cx.loadable(pool_idx(r)?, at, 0)?;
				if matches!(c, SConst::Long(_) | SConst::Double(_)) {
					return Err(ParseError { at, msg: "ldc_w of a two-slot constant".into() });
				}
				RawInsn::Done(SInsn::Ldc(c))
			},
			op::LDC2_W => {
				let c = cx.loadable(pool_idx(r)?, at, 0)?;
				let two = match &c {
					SConst::Long(_) | SConst::Double(_) => true,
					SConst::Dynamic(d) => d.desc == JS::new("J") || d.desc == JS::new("D"),
					_ => false,
				};
				if !two {
					return Err(ParseError { at, msg: "ldc2_w of a one-slot constant".into() });
				}
				RawInsn::Done(SInsn::Ldc(c))
			},
			0x15..=0x19 => RawInsn::Done(SInsn::Load(lvkind(opc - 0x15), r.u8(Role::LocalIndex)? as u16)),
			0x1a..=0x2d => RawInsn::Done(SInsn::Load(lvkind((opc - 0x1a) / 4), ((opc - 0x1a) % 4) as u16)),
			0x36..=0x3a => RawInsn::Done(SInsn::Store(lvkind(opc - 0x36), r.u8(Role::LocalIndex)? as u16)),
			0x3b..=0x4e => RawInsn::Done(SInsn::Store(lvkind((opc - 0x3b) / 4), ((opc - 0x3b) % 4) as u16)),
			op::IINC => RawInsn::Done(SInsn::IInc(r.u8(Role::LocalIndex)? as u16, r.u8(Role::Immediate)? as i8 as i16)),
			o if op::is_branch16(o) => RawInsn::Branch(o, off + r.u16(Role::BranchOffset)? as i16 as i64),
			op::GOTO_W => RawInsn::Branch(op::GOTO, off + r.u32(Role::BranchOffset)? as i32 as i64),
			op::JSR_W => RawInsn::Branch(op::JSR, off + r.u32(Role::BranchOffset)? as i32 as i64),
			op::RET => RawInsn::Done(SInsn::Ret(r.u8(Role::LocalIndex)? as u16)),
			op::TABLESWITCH | op::LOOKUPSWITCH => {
				while (r.pos - base) % 4 != 0 {
					r.u8(Role::Other)?;
				}
				let default = off + r.u32(Role::BranchOffset)? as i32 as i64;
				if opc == op::TABLESWITCH {
					let low = r.u32(Role::SwitchBound)? as i32;
					let high = r.u32(Role::SwitchBound)? as i32;
					if low > high {
						return Err(ParseError { at, msg: "tableswitch low > high".into() });
					}
					let n = high as i64 - low as i64 + 1;
					if n * 4 > (end - r.pos) as i64 {
						return Err(ParseError { at, msg: "tableswitch extends past the code".into() });
					}
					let mut targets = Vec::new();
					for _ in 0..n {
						targets.push(off + r.u32(Role::BranchOffset)? as i32 as i64);
					}
					RawInsn::Table { default, low, targets }
				} else {
					let n = r.u32(Role::Count)? as i32;
					if n < 0 || n as i64 * 8 > (end - r.pos) as i64 {
						return Err(ParseError { at, msg: "lookupswitch npairs negative or past the code".into() });
					}
					let mut pairs: Vec<(i32, i64)> = Vec::new();
					for _ in 0..n {
						let k = r.u32(Role::Other)? as i32;
						let t = off + r.u32(Role::BranchOffset)? as i32 as i64;
						if pairs.last().is_some_and(|(pk, _)| *pk >= k) {
							return Err(ParseError { at, msg: "lookupswitch keys not strictly ascending".into() });
						}
						pairs.push((k, t));
					}
					RawInsn::Lookup { default, pairs }
				}
			},
			op::GETSTATIC..=op::PUTFIELD => {
				let (m, _, field) = cx.pool.member(pool_idx(r)?, at)?;
				if !field {
					return Err(ParseError { at, msg: "field instruction on a method reference".into() });
				}
				RawInsn::Done(SInsn::Field(opc, m))
			},
			op::INVOKEVIRTUAL | op::INVOKESPECIAL | op::INVOKESTATIC => {
				let (m, iface, field) = cx.pool.member(pool_idx(r)?, at)?;
				if field || (opc == op::INVOKEVIRTUAL && iface) {
					return Err(ParseError { at, msg: "invoke on the wrong kind of reference".into() });
				}
				RawInsn::Done(SInsn::Invoke(opc, m, iface))
			},
			op::INVOKEINTERFACE => {
				let (m, iface, field) = cx.pool.member(pool_idx(r)?, at)?;
				if field || !iface {
					return Err(ParseError { at, msg: "invokeinterface needs an InterfaceMethodref".into() });
				}
				let count = r.u8(Role::Count)?;
				let zero = r.u8(Role::Other)?;
				let want = arg_slots(&m.desc).map(|n| n + 1);
				if zero != 0 || count == 0 || want != Some(count as usize) {
					return Err(ParseError { at, msg: format!("invokeinterface count {count} / zero byte {zero}, descriptor needs {want:?}") });
				}
				RawInsn::Done(SInsn::Invoke(opc, m, true))
			},
			op::INVOKEDYNAMIC => {
				let d = cx.invoke_dynamic(pool_idx(r)?, at)?;
				if r.u16(Role::Other)? != 0 {
					return Err(ParseError { at, msg: "invokedynamic: non-zero reserved bytes".into() });
				}
				RawInsn::Done(SInsn::InvokeDynamic(d))
			},
			op::NEW => RawInsn::Done(SInsn::New(cx.pool.class(pool_idx(r)?, at)?)),
			op::NEWARRAY => {
				let t = r.u8(Role::Immediate)?;
				if !(4..=11).contains(&t) {
					return Err(ParseError { at, msg: format!("newarray atype {t}") });
				}
				RawInsn::Done(SInsn::NewArray(t))
			},
			op::ANEWARRAY => RawInsn::Done(SInsn::ANewArray(cx.pool.class(pool_idx(r)?, at)?)),
			op::CHECKCAST => RawInsn::Done(SInsn::CheckCast(cx.pool.class(pool_idx(r)?, at)?)),
			op::INSTANCEOF => RawInsn::Done(SInsn::InstanceOf(cx.pool.class(pool_idx(r)?, at)?)),
			op::MULTIANEWARRAY => {
				let c = cx.pool.class(pool_idx(r)?, at)?;
				let d = r.u8(Role::Immediate)?;
				if d == 0 {
					return Err(ParseError { at, msg: "multianewarray with 0 dimensions".into() });
				}
				RawInsn::Done(SInsn::MultiANewArray(c, d))
			},
			op::WIDE => {
				let o2 = r.u8(Role::Opcode)?;
				match o2 {
					0x15..=0x19 => RawInsn::Done(SInsn::Load(lvkind(o2 - 0x15), r.u16(Role::LocalIndex)?)),
					0x36..=0x3a => RawInsn::Done(SInsn::Store(lvkind(o2 - 0x36), r.u16(Role::LocalIndex)?)),
					op::RET => RawInsn::Done(SInsn::Ret(r.u16(Role::LocalIndex)?)),
					op::IINC => RawInsn::Done(SInsn::IInc(r.u16(Role::LocalIndex)?, r.u16(Role::Immediate)? as i16)),
					_ => return Err(ParseError { at, msg: format!("wide {o2:#x}") }),
				}
			},
			o => return Err(ParseError { at, msg: format!("unknown opcode {o:#x}") }),
		};
		if r.pos > end {
			return Err(ParseError { at, msg: "instruction extends past code_length".into() });
		}
		raw.push(insn);
	}
	let n = raw.len() as u32;
	idx_of[code_length] = n;
	let layout = CodeLayout { idx_of };
	let mut code = SCode { max_stack, max_locals, ..Default::default() };
	for ri in raw {
		let tr = |o: i64| -> R<Idx> {
			let i = layout.idx(o, base, "branch target")?;
			if i >= n {
				return Err(ParseError { at: base, msg: "branch target is the end of the code".into() });
			}
			Ok(i)
		};
		code.insns.push(match ri {
			RawInsn::Done(i) => i,
			RawInsn::Branch(o, t) => SInsn::Branch(o, tr(t)?),
			RawInsn::Table { default, low, targets } => SInsn::TableSwitch { default: tr(default)?, low, targets: targets.into_iter().map(tr).collect::<R<_>>()? },
			RawInsn::Lookup { default, pairs } => SInsn::LookupSwitch { default: tr(default)?, pairs: pairs.into_iter().map(|(k, t)| Ok((k, tr(t)?))).collect::<R<_>>()? },
		});
	}
	let ne = r.u16(Role::Count)?;
	for _ in 0..ne {
		let at = r.pos;
		let start = layout.idx(r.u16(Role::Pc)? as i64, at, "exception start_pc")?;
		let endi = layout.idx(r.u16(Role::Pc)? as i64, at, "exception end_pc")?;
		let handler = layout.idx(r.u16(Role::Pc)? as i64, at, "exception handler_pc")?;
		if start >= endi || handler >= n {
			return Err(ParseError { at, msg: "exception table entry with empty range or handler at the end".into() });
		}
		let ct = r.u16(Role::PoolIndex)?;
		let catch = if ct == 0 { None } else { Some(cx.pool.class(ct, at)?) };
		code.exceptions.push(SExceptionEntry { start, end: endi, handler, catch });
	}
	{
		let mut sink = AttrSink::Code(&mut code, &layout);
		attributes(r, cx, Level::Code, &mut sink, depth + 1, Some(&layout))?;
	}
	code.line_numbers.sort();
	code.local_vars.sort();
	code.local_var_types.sort();
	code.unknown.sort();
	code.empty_line_table &= code.line_numbers.is_empty();
	code.empty_local_table &= code.local_vars.is_empty() && code.local_var_types.is_empty();
	Ok(code)
}

fn lvkind(k: u8) -> LvKind {
	match k {
		0 => LvKind::I,
		1 => LvKind::L,
		2 => LvKind::F,
		3 => LvKind::D,
		_ => LvKind::A,
	}
}
