//! Structured differences between two `SClass` values: a list of `(key, detail)` where the key is the
//! path of the differing fact with indices stripped plus a kind (`:dropped`, `:invented`, `:changed`),
//! so that a known finding can name exactly one kind of loss at one place.

use std::fmt::Debug;
use crate::model::*;

#[derive(Default, Debug, Clone)]
pub struct Diffs(pub Vec<(String, String)>);

impl Diffs {
	pub fn is_empty(&self) -> bool {
		self.0.is_empty()
	}
	fn push(&mut self, key: String, detail: String) {
		let mut d = detail;
		if d.len() > 600 {
			let cut = d.char_indices().take_while(|(i, _)| *i < 600).last().map(|(i, _)| i).unwrap_or(0);
			d.truncate(cut);
			d.push('…');
		}
		self.0.push((key, d));
	}
}

trait Emptyish {
	fn is_emptyish(&self) -> bool;
}
impl<T> Emptyish for Option<T> {
	fn is_emptyish(&self) -> bool {
		self.is_none()
	}
}
impl<T> Emptyish for Vec<T> {
	fn is_emptyish(&self) -> bool {
		self.is_empty()
	}
}
impl Emptyish for bool {
	fn is_emptyish(&self) -> bool {
		!*self
	}
}

fn cmp<T: PartialEq + Debug>(d: &mut Diffs, ctx: &str, key: &str, e: &T, a: &T) {
	if e != a {
		d.push(format!("{key}:changed"), format!("{ctx}: expected {e:?}, got {a:?}"));
	}
}

/// like `cmp`, but distinguishes dropped / invented when one side is empty
fn cmpe<T: PartialEq + Debug + Emptyish>(d: &mut Diffs, ctx: &str, key: &str, e: &T, a: &T) {
	if e != a {
		let kind = if a.is_emptyish() { "dropped" } else if e.is_emptyish() { "invented" } else { "changed" };
		d.push(format!("{key}:{kind}"), format!("{ctx}: expected {e:?}, got {a:?}"));
	}
}

fn annotations(d: &mut Diffs, ctx: &str, key: &str, e: &SAnnotations, a: &SAnnotations) {
	cmpe(d, ctx, &format!("{key}.visible_annotations"), &e.visible, &a.visible);
	cmpe(d, ctx, &format!("{key}.invisible_annotations"), &e.invisible, &a.invisible);
	cmpe(d, ctx, &format!("{key}.visible_type_annotations"), &e.visible_type, &a.visible_type);
	cmpe(d, ctx, &format!("{key}.invisible_type_annotations"), &e.invisible_type, &a.invisible_type);
}

pub fn insn_name(i: &SInsn) -> String {
	match i {
		SInsn::Simple(o) => format!("simple-{o:#04x}"),
		SInsn::BiPush(_) => "bipush".into(),
		SInsn::SiPush(_) => "sipush".into(),
		SInsn::Ldc(c) => format!("ldc-{}", const_name(c)),
		SInsn::Load(..) => "load".into(),
		SInsn::Store(..) => "store".into(),
		SInsn::IInc(..) => "iinc".into(),
		SInsn::Ret(_) => "ret".into(),
		SInsn::Branch(o, _) => format!("branch-{o:#04x}"),
		SInsn::TableSwitch { .. } => "tableswitch".into(),
		SInsn::LookupSwitch { .. } => "lookupswitch".into(),
		SInsn::Field(o, _) => format!("field-{o:#04x}"),
		SInsn::Invoke(o, ..) => format!("invoke-{o:#04x}"),
		SInsn::InvokeDynamic(_) => "invokedynamic".into(),
		SInsn::New(_) => "new".into(),
		SInsn::ANewArray(_) => "anewarray".into(),
		SInsn::CheckCast(_) => "checkcast".into(),
		SInsn::InstanceOf(_) => "instanceof".into(),
		SInsn::NewArray(_) => "newarray".into(),
		SInsn::MultiANewArray(..) => "multianewarray".into(),
	}
}

pub fn const_name(c: &SConst) -> &'static str {
	match c {
		SConst::Int(_) => "int",
		SConst::Float(_) => "float",
		SConst::Long(_) => "long",
		SConst::Double(_) => "double",
		SConst::Class(_) => "class",
		SConst::Str(_) => "string",
		SConst::Handle(_) => "handle",
		SConst::MethodType(_) => "methodtype",
		SConst::Dynamic(_) => "dynamic",
	}
}

fn code(d: &mut Diffs, ctx: &str, e: &SCode, a: &SCode) {
	let k = "method.code";
	cmp(d, ctx, &format!("{k}.max_stack"), &e.max_stack, &a.max_stack);
	cmp(d, ctx, &format!("{k}.max_locals"), &e.max_locals, &a.max_locals);
	if e.insns != a.insns {
		if e.insns.len() != a.insns.len() {
			d.push(format!("{k}.insns:count"), format!("{ctx}: expected {} instructions, got {}", e.insns.len(), a.insns.len()));
		} else {
			for (i, (x, y)) in e.insns.iter().zip(&a.insns).enumerate() {
				if x != y {
					d.push(format!("{k}.insns.{}:changed", insn_name(x)), format!("{ctx}: instruction {i}: expected {x:?}, got {y:?}"));
					break;
				}
			}
		}
	}
	cmpe(d, ctx, &format!("{k}.exception_table"), &e.exceptions, &a.exceptions);
	cmpe(d, ctx, &format!("{k}.line_numbers"), &e.line_numbers, &a.line_numbers);
	cmpe(d, ctx, &format!("{k}.local_variables"), &e.local_vars, &a.local_vars);
	cmpe(d, ctx, &format!("{k}.local_variable_types"), &e.local_var_types, &a.local_var_types);
	cmpe(d, ctx, &format!("{k}.line_numbers.empty_table"), &e.empty_line_table, &a.empty_line_table);
	cmpe(d, ctx, &format!("{k}.local_variables.empty_table"), &e.empty_local_table, &a.empty_local_table);
	cmpe(d, ctx, &format!("{k}.frames"), &e.frames, &a.frames);
	cmpe(d, ctx, &format!("{k}.visible_type_annotations"), &e.visible_type, &a.visible_type);
	cmpe(d, ctx, &format!("{k}.invisible_type_annotations"), &e.invisible_type, &a.invisible_type);
	cmpe(d, ctx, &format!("{k}.unknown_attributes"), &e.unknown, &a.unknown);
}

pub fn diff(e: &SClass, a: &SClass) -> Diffs {
	let mut d = Diffs::default();
	if e == a {
		return d;
	}
	let ctx = format!("class {:?}", e.this_class);
	let c = ctx.as_str();
	cmp(&mut d, c, "class.version", &e.version, &a.version);
	cmp(&mut d, c, "class.access", &e.access, &a.access);
	cmp(&mut d, c, "class.this_class", &e.this_class, &a.this_class);
	cmp(&mut d, c, "class.super_class", &e.super_class, &a.super_class);
	cmp(&mut d, c, "class.interfaces", &e.interfaces, &a.interfaces);
	cmp(&mut d, c, "class.synthetic_attribute", &e.synthetic, &a.synthetic);
	cmp(&mut d, c, "class.deprecated_attribute", &e.deprecated, &a.deprecated);
	cmpe(&mut d, c, "class.inner_classes", &e.inner_classes, &a.inner_classes);
	cmpe(&mut d, c, "class.enclosing_method", &e.enclosing_method, &a.enclosing_method);
	cmpe(&mut d, c, "class.signature", &e.signature, &a.signature);
	cmpe(&mut d, c, "class.source_file", &e.source_file, &a.source_file);
	cmpe(&mut d, c, "class.source_debug_extension", &e.source_debug_extension, &a.source_debug_extension);
	annotations(&mut d, c, "class", &e.annotations, &a.annotations);
	match (&e.module, &a.module) {
		(Some(em), Some(am)) if em != am => {
			cmp(&mut d, c, "class.module.name", &em.name, &am.name);
			cmp(&mut d, c, "class.module.flags", &em.flags, &am.flags);
			cmpe(&mut d, c, "class.module.version", &em.version, &am.version);
			cmpe(&mut d, c, "class.module.requires", &em.requires, &am.requires);
			cmpe(&mut d, c, "class.module.exports", &em.exports, &am.exports);
			cmpe(&mut d, c, "class.module.opens", &em.opens, &am.opens);
			cmpe(&mut d, c, "class.module.uses", &em.uses, &am.uses);
			cmpe(&mut d, c, "class.module.provides", &em.provides, &am.provides);
		},
		_ => cmpe(&mut d, c, "class.module", &e.module, &a.module),
	}
	cmpe(&mut d, c, "class.module_packages", &e.module_packages, &a.module_packages);
	cmpe(&mut d, c, "class.module_main_class", &e.module_main_class, &a.module_main_class);
	cmpe(&mut d, c, "class.nest_host", &e.nest_host, &a.nest_host);
	cmpe(&mut d, c, "class.nest_members", &e.nest_members, &a.nest_members);
	cmpe(&mut d, c, "class.permitted_subclasses", &e.permitted_subclasses, &a.permitted_subclasses);
	match (&e.record, &a.record) {
		(Some(er), Some(ar)) if er != ar => {
			if er.len() != ar.len() || er.iter().zip(ar).any(|(x, y)| x.name != y.name || x.desc != y.desc) {
				d.push("class.record.components:list".into(), format!("{c}: record components differ: expected {:?}, got {:?}", er.iter().map(|r| &r.name).collect::<Vec<_>>(), ar.iter().map(|r| &r.name).collect::<Vec<_>>()));
			} else {
				for (x, y) in er.iter().zip(ar) {
					let cc = format!("{c} record component {:?}", x.name);
					cmpe(&mut d, &cc, "class.record.component.signature", &x.signature, &y.signature);
					annotations(&mut d, &cc, "class.record.component", &x.annotations, &y.annotations);
					cmpe(&mut d, &cc, "class.record.component.unknown_attributes", &x.unknown, &y.unknown);
				}
			}
		},
		(Some(er), None) if er.is_empty() => d.push("class.record:dropped-empty".into(), format!("{c}: a Record attribute without components is not distinguished from no Record attribute")),
		_ => cmpe(&mut d, c, "class.record", &e.record, &a.record),
	}
	cmpe(&mut d, c, "class.unknown_attributes", &e.unknown, &a.unknown);

	let sig = |f: &SField| (f.name.clone(), f.desc.clone());
	if e.fields.iter().map(sig).collect::<Vec<_>>() != a.fields.iter().map(sig).collect::<Vec<_>>() {
		d.push("class.fields:list".into(), format!("{c}: field lists differ: expected {:?}, got {:?}", e.fields.iter().map(sig).collect::<Vec<_>>(), a.fields.iter().map(sig).collect::<Vec<_>>()));
	} else {
		for (x, y) in e.fields.iter().zip(&a.fields) {
			if x == y {
				continue;
			}
			let cc = format!("{c} field {:?} {:?}", x.name, x.desc);
			cmp(&mut d, &cc, "field.access", &x.access, &y.access);
			cmpe(&mut d, &cc, "field.constant_value", &x.constant_value, &y.constant_value);
			cmp(&mut d, &cc, "field.synthetic_attribute", &x.synthetic, &y.synthetic);
			cmp(&mut d, &cc, "field.deprecated_attribute", &x.deprecated, &y.deprecated);
			cmpe(&mut d, &cc, "field.signature", &x.signature, &y.signature);
			annotations(&mut d, &cc, "field", &x.annotations, &y.annotations);
			cmpe(&mut d, &cc, "field.unknown_attributes", &x.unknown, &y.unknown);
		}
	}
	let sig = |f: &SMethod| (f.name.clone(), f.desc.clone());
	if e.methods.iter().map(sig).collect::<Vec<_>>() != a.methods.iter().map(sig).collect::<Vec<_>>() {
		d.push("class.methods:list".into(), format!("{c}: method lists differ: expected {:?}, got {:?}", e.methods.iter().map(sig).collect::<Vec<_>>(), a.methods.iter().map(sig).collect::<Vec<_>>()));
	} else {
		for (x, y) in e.methods.iter().zip(&a.methods) {
			if x == y {
				continue;
			}
			let cc = format!("{c} method {:?} {:?}", x.name, x.desc);
			cmp(&mut d, &cc, "method.access", &x.access, &y.access);
			match (&x.code, &y.code) {
				(Some(ec), Some(ac)) => code(&mut d, &cc, ec, ac),
				_ => cmpe(&mut d, &cc, "method.code", &x.code, &y.code),
			}
			cmpe(&mut d, &cc, "method.exceptions", &x.exceptions, &y.exceptions);
			cmp(&mut d, &cc, "method.synthetic_attribute", &x.synthetic, &y.synthetic);
			cmp(&mut d, &cc, "method.deprecated_attribute", &x.deprecated, &y.deprecated);
			cmpe(&mut d, &cc, "method.signature", &x.signature, &y.signature);
			annotations(&mut d, &cc, "method", &x.annotations, &y.annotations);
			cmpe(&mut d, &cc, "method.visible_parameter_annotations", &x.visible_param_annotations, &y.visible_param_annotations);
			cmpe(&mut d, &cc, "method.invisible_parameter_annotations", &x.invisible_param_annotations, &y.invisible_param_annotations);
			cmpe(&mut d, &cc, "method.annotation_default", &x.annotation_default, &y.annotation_default);
			cmpe(&mut d, &cc, "method.parameters", &x.parameters, &y.parameters);
			cmpe(&mut d, &cc, "method.unknown_attributes", &x.unknown, &y.unknown);
		}
	}
	if d.is_empty() {
		d.push("class:other".into(), format!("{c}: values differ in a way the comparator does not itemise"));
	}
	d
}
