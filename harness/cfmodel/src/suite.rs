//! The shared suite of generated classes (explicitly listed spaces) used by the class-file properties.

use crate::asm::{AttrOrder, Encoding, Pad, PoolOrder};
use crate::gen::*;
use crate::model::*;

/// (label, model, encoding)
pub type Case = (String, SClass, Encoding);

fn form_vectors(sites: usize, digits: u8) -> Vec<Vec<u8>> {
	let dims = vec![digits as usize; sites];
	let mut out = Vec::new();
	let total: usize = dims.iter().product();
	for mut idx in 0..total {
		let mut v = vec![0u8; sites];
		for i in (0..sites).rev() {
			v[i] = (idx % dims[i]) as u8;
			idx /= dims[i];
		}
		out.push(v);
	}
	out
}

fn permutations(n: usize) -> Vec<Vec<usize>> {
	fn rec(cur: &mut Vec<usize>, used: &mut Vec<bool>, n: usize, out: &mut Vec<Vec<usize>>) {
		if cur.len() == n {
			out.push(cur.clone());
			return;
		}
		for i in 0..n {
			if !used[i] {
				used[i] = true;
				cur.push(i);
				rec(cur, used, n, out);
				cur.pop();
				used[i] = false;
			}
		}
	}
	let mut out = Vec::new();
	rec(&mut Vec::new(), &mut vec![false; n], n, &mut out);
	out
}

/// Every explicitly listed space, grouped by name. `quick` thins only the pool-rotation step.
pub fn listed_groups(quick: bool) -> Vec<(&'static str, Vec<Case>)> {
	let mut groups: Vec<(&'static str, Vec<Case>)> = Vec::new();
	// 1. instruction samples × forms × pool orders
	let samples = insn_samples();
	let mut cases: Vec<Case> = Vec::new();
	for (i, s) in samples.iter().enumerate() {
		for form in 0..3u8 {
			for (pi, pool) in [PoolOrder::FirstUse, PoolOrder::Reversed, PoolOrder::Utf8Last].into_iter().enumerate() {
				let mut m = class_with_method("p/Op", vec![s.clone(), RETURN]);
				normalize(&mut m);
				cases.push((format!("insn/{i}/form{form}/pool{pi}"), m, Encoding { default_form: form, pool, ..Default::default() }));
			}
		}
	}
	groups.push(("instruction-samples", cases));

	// 3. encoding product: 3^8 per-site forms × 4 paddings × switch arms
	let mut cases: Vec<Case> = Vec::new();
	for fv in form_vectors(8, 3) {
		let m = class_with_method("p/Forms", variable_form_method());
		cases.push((format!("forms/{fv:?}"), m, Encoding { forms: fv, ..Default::default() }));
	}
	for pad in 0..4usize {
		for arms in 0..=3usize {
			for which in 0..2 {
				let mut insns: Vec<SInsn> = (0..pad).map(|_| SInsn::Simple(op::NOP)).collect();
				let here = pad as Idx;
				insns.push(if which == 0 {
					if arms == 0 { SInsn::LookupSwitch { default: here + 1, pairs: vec![] } } else { SInsn::TableSwitch { default: 0, low: -1, targets: (0..arms).map(|i| (i as Idx) % (here + 2)).collect() } }
				} else {
					SInsn::LookupSwitch { default: here, pairs: (0..arms).map(|i| (i as i32 * 1000 - 5, (i as Idx) % (here + 2))).collect() }
				});
				insns.push(RETURN);
				for form in [0u8, 2] {
					cases.push((format!("switch/pad{pad}/arms{arms}/{which}/form{form}"), class_with_method("p/Sw", insns.clone()), Encoding { default_form: form, ..Default::default() }));
				}
			}
		}
	}
	groups.push(("encoding-product", cases));

	// 4. pool layouts
	let mut cases: Vec<Case> = Vec::new();
	{
		// a class whose pool has exactly 6 entries in first-use order: all 720 permutations
		let mut small = SClass { version: (52, 0), access: 0x0021, this_class: js("A"), super_class: Some(js("B")), ..Default::default() };
		small.fields.push(SField { access: 0, name: js("f"), desc: js("I"), ..Default::default() });
		for p in permutations(6) {
			cases.push((format!("pool/perm{p:?}"), small.clone(), Encoding { pool: PoolOrder::Perm(p), ..Default::default() }));
		}
	}
	let sink = {
		let mut s = kitchen_sink(2);
		normalize(&mut s);
		s
	};
	let sink_pool_len = 1200; // upper bound on the kitchen sink's pool, rotations beyond its length wrap
	let step = if quick { 37 } else { 5 };
	for k in (0..sink_pool_len).step_by(step) {
		cases.push((format!("pool/sink-rot{k}"), sink.clone(), Encoding { pool: PoolOrder::Rotated(k), ..Default::default() }));
		cases.push((format!("pool/sink-pad-long-at{k}"), sink.clone(), Encoding { pads: vec![(k, Pad::Long(k as i64))], ..Default::default() }));
		cases.push((format!("pool/sink-pad-dup-at{k}"), sink.clone(), Encoding { pads: vec![(k, Pad::RawUtf8("Code".into())), (k + 1, Pad::Class("p/Unused".into())), (k / 2, Pad::Double(7))], pool: PoolOrder::Reversed, ..Default::default() }));
	}
	for pool in [PoolOrder::Reversed, PoolOrder::Utf8First, PoolOrder::Utf8Last] {
		for form in 0..3u8 {
			cases.push((format!("pool/sink-{pool:?}/form{form}"), sink.clone(), Encoding { pool: pool.clone(), default_form: form, ..Default::default() }));
		}
	}
	groups.push(("pool-layouts", cases));

	// 5. attribute orders and 6. attribute contents
	let mut cases: Vec<Case> = Vec::new();
	for variant in 0..6usize {
		let mut s = kitchen_sink(variant);
		normalize(&mut s);
		for k in 0..24usize {
			cases.push((format!("attrs/sink{variant}/rot{k}"), s.clone(), Encoding { attr_order: AttrOrder::Rotated(k), ..Default::default() }));
		}
		cases.push((format!("attrs/sink{variant}/reversed"), s.clone(), Encoding { attr_order: AttrOrder::Reversed, split_tables: true, frames_extended: true, ..Default::default() }));
		for e in basic_encodings() {
			cases.push((format!("attrs/sink{variant}/basic"), s.clone(), e));
		}
	}
	for open in [false, true] {
		for k in 0..3usize {
			for e in basic_encodings() {
				cases.push((format!("attrs/module-open{open}-{k}"), module_class(open, k), e));
			}
		}
	}
	// element values, one per annotation, at every level; every constant as ConstantValue where legal
	for (i, ev) in element_values(2).into_iter().enumerate() {
		let mut c = skeleton("p/Ev");
		c.annotations.visible = vec![SAnnotation { type_name: js("Lp/A;"), pairs: vec![(js("v"), ev.clone())] }];
		c.methods.push(SMethod { access: 0x0401, name: js("d"), desc: js("()I"), annotation_default: Some(ev), ..Default::default() });
		cases.push((format!("attrs/element-value{i}"), c, Encoding::default()));
	}
	for gap in [0usize, 50, 58, 59, 60, 61, 62, 63, 64, 65, 70, 200] {
		let mut c = skeleton("p/Frames");
		let mut m = method_with("m", "()V", vec![]);
		m.code = Some(rich_code(gap));
		c.methods.push(m);
		normalize(&mut c);
		for ext in [false, true] {
			cases.push((format!("attrs/frames-gap{gap}-ext{ext}"), c.clone(), Encoding { frames_extended: ext, ..Default::default() }));
		}
	}
	// a record without components, absent optional tables vs empty ones
	{
		let mut c = skeleton("p/EmptyRecord");
		c.access = 0x0031;
		c.super_class = Some(js("java/lang/Record"));
		c.record = Some(vec![]);
		cases.push(("attrs/record-without-components".to_owned(), c, Encoding::default()));
		let mut c = skeleton("p/EmptyTables");
		c.inner_classes = Some(vec![]);
		c.nest_members = Some(vec![]);
		c.permitted_subclasses = Some(vec![]);
		c.module_packages = None;
		c.methods.push(SMethod { access: 0x0401, name: js("m"), desc: js("()V"), exceptions: Some(vec![]), parameters: Some(vec![]), ..Default::default() });
		cases.push(("attrs/empty-tables".to_owned(), c, Encoding::default()));
	}
	groups.push(("attribute-orders-and-contents", cases));

	// 7. versions, 7b. Utf8 contents in every role
	let mut cases: Vec<Case> = Vec::new();
	for v in versions() {
		let mut c = class_with_method("p/Ver", vec![RETURN]);
		c.version = v;
		cases.push((format!("version/{}.{}", v.0, v.1), c, Encoding::default()));
	}
	for (i, s) in utf8_samples().into_iter().enumerate() {
		let mut c = skeleton("p/Utf");
		c.source_file = Some(s.clone());
		c.source_debug_extension = Some(s.clone());
		c.signature = Some(s.clone());
		c.unknown.push(SUnknown { name: if s.is_empty() { js("x.Empty") } else { s.clone() }, bytes: vec![1, 2, 3] });
		c.annotations.visible = vec![SAnnotation { type_name: js("Lp/A;"), pairs: vec![(s.clone(), SElementValue::Str(s.clone())), (js("e"), SElementValue::Enum { type_name: js("Lp/E;"), const_name: s.clone() })] }];
		c.inner_classes = Some(vec![SInnerClass { inner: js("p/Utf$I"), outer: Some(js("p/Utf")), name: Some(s.clone()), flags: 0 }]);
		c.methods.push(method_with("m", "()V", vec![SInsn::Ldc(SConst::Str(s.clone())), RETURN]));
		if let Some(code) = &mut c.methods[0].code {
			code.local_var_types.push(SLocalVar { start: 0, end: 1, name: js("v"), ty: s.clone(), index: 0 });
		}
		c.methods[0].parameters = Some(vec![(Some(js("p")), 0)]);
		normalize(&mut c);
		if KNOWN_ATTRIBUTES.iter().any(|k| JS::new(k) == s) {
			continue;
		}
		cases.push((format!("utf8/{i}"), c, Encoding::default()));
	}
	groups.push(("versions-and-utf8", cases));

	// 8. the CLDC `StackMap` attribute (explicit offsets, full frames): three frames whose offsets are branch targets of
	// three jumps at the start of the method, the jumps naming the targets in every order (so that a reader that creates
	// its labels while scanning the jumps meets the frame offsets in every order), and without any jump
	let mut cases: Vec<Case> = Vec::new();
	let frame_at = |k: usize| SFrame::Full {
		locals: vec![SVType::Integer, SVType::Object(js("p/T")), SVType::Uninitialized(5), SVType::Long, SVType::Null][..2 + k].to_vec(),
		stack: vec![SVType::Object(js("[Lp/T;")), SVType::Double, SVType::UninitializedThis, SVType::Float, SVType::Top][..k + 1].to_vec(),
	};
	let targets: [Idx; 3] = [4, 6, 8];
	let mut orders = permutations(3);
	orders.push(vec![]);
	for (oi, order) in orders.iter().enumerate() {
		for version in [(45u16, 3u16), (48, 0), (50, 0), (52, 0)] {
			let mut insns: Vec<SInsn> = (0..3).map(|j| match order.get(j) {
				Some(t) => SInsn::Branch(op::IFEQ, targets[*t]),
				None => SInsn::Simple(op::NOP),
			}).collect();
			insns.extend([SInsn::Simple(op::NOP), SInsn::Simple(op::NOP), SInsn::New(js("p/T")), SInsn::Simple(op::NOP), SInsn::Simple(op::NOP), RETURN]);
			let mut c = class_with_method("p/Cldc", insns);
			c.version = version;
			if let Some(code) = &mut c.methods[0].code {
				code.frames = targets.iter().enumerate().map(|(k, t)| (*t, frame_at(k))).collect();
			}
			normalize(&mut c);
			cases.push((format!("cldc-stack-map/order{oi}/version{}.{}", version.0, version.1), c, Encoding { frames_cldc: true, ..Default::default() }));
		}
	}
	groups.push(("cldc-stack-map", cases));

	// 9. debug tables that are present but empty (a fact of its own: "has a table, with nothing in it"), in each way a
	// class file can state it, alone and next to a non-empty table of the other kind, in two methods of one class
	let mut cases: Vec<Case> = Vec::new();
	for bits in 1..8u32 {
		for kind in 0..3u8 {
			let mut c = skeleton("p/EmptyDebug");
			for (mi, mbits) in [(0usize, bits), (1, 7 & !bits), (2, 0)] {
				let mut m = method_with(&format!("m{mi}"), "()V", vec![SInsn::Simple(op::NOP), RETURN]);
				if let Some(code) = &mut m.code {
					code.max_locals = 2;
					code.empty_line_table = mbits & 1 != 0;
					code.empty_local_table = mbits & 2 != 0;
					if mbits & 4 != 0 {
						// a non-empty table of the other kind next to the empty one
						if code.empty_line_table { code.local_vars.push(SLocalVar { start: 0, end: 2, name: js("v"), ty: js("I"), index: 1 }); code.empty_local_table = false; } else { code.line_numbers.push((1, 7)); }
					}
				}
				c.methods.push(m);
			}
			normalize(&mut c);
			cases.push((format!("empty-debug-tables/bits{bits}/kind{kind}"), c.clone(), Encoding { empty_local_kind: kind, ..Default::default() }));
			cases.push((format!("empty-debug-tables/bits{bits}/kind{kind}/reversed"), c, Encoding { empty_local_kind: kind, attr_order: AttrOrder::Reversed, ..Default::default() }));
		}
	}
	groups.push(("empty-debug-tables", cases));

	groups
}
