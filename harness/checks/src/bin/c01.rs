//! C01 — the class reader delivers every fact of a valid class file accurately.
//!
//! Every generated or vendored class is read by the REAL `duke::read_class`, the resulting tree is
//! projected into the encoding-free model `SClass` and compared, fact by fact, with what the
//! independent strict parser (cfmodel, written from JVMS ch. 4) reads from the same bytes and — for
//! generated classes — with the model the assembler started from (three-way; a disagreement between
//! the assembler and the reference parser is a machinery error, never a verdict).
//!
//! Enumerated spaces (complete within each): instruction samples with boundary operands × forms ×
//! pool orders; all instruction sequences of length ≤ L over the decoding-arm alphabet with every
//! branch target; the 3^8 product of per-site instruction forms × switch paddings; all permutations
//! of a small pool, rotations/reversal/padding of a large one; attribute orders; attribute contents
//! (kitchen sink variants, modules); versions; Utf8 boundary strings in every role; the javac corpus.

use cfmodel::asm::{assemble, AsmError, Encoding, PoolOrder};
use cfmodel::gen::*;
use cfmodel::model::*;
use rayon::prelude::*;
use vcore::{json, Ctx, Stats, Tier};

fn replay_text(label: &str, bytes: &[u8]) -> String {
	format!("label={label}\nclass file bytes (hex):\n{}", vcore::hex(bytes))
}

/// One case: bytes of a well-formed class (+ the model it was assembled from, if generated).
fn check_bytes(ctx: &Ctx, st: &mut Stats, label: &str, bytes: &[u8], source: Option<&SClass>) {
	st.eval();
	let reference = match cfmodel::parse(bytes) {
		Ok(p) => p.class,
		Err(e) => vcore::machinery_fail(&format!("{label}: the reference parser rejects a class of the test set: {e}")),
	};
	if let Some(src) = source {
		if &reference != src {
			let d = cfmodel::sdiff::diff(src, &reference);
			vcore::machinery_fail(&format!("{label}: assembler and reference parser disagree: {:?}", d.0.first()));
		}
	}
	st.distinct.add(&reference);
	let read = vcore::guard(|| duke::read_class(&mut std::io::Cursor::new(bytes)));
	let tree = match read {
		Err(p) => {
			st.outcome("panic");
			ctx.diff(&format!("panic@{}", p.file()), &format!("reader panicked at {}: {}", p.site, p.msg), || replay_text(label, bytes));
			return;
		},
		Ok(Err(e)) => {
			st.outcome("refused");
			let msg = format!("{e:#}");
			let key = if reference.version.0 > 67 || (reference.version.0 == 67 && reference.version.1 != 0) { "reader:refused-version-above-67" } else { "reader:refused-valid-class" };
			ctx.diff(key, &format!("the reader refuses a well-formed class: {}", &msg[..msg.len().min(300)]), || replay_text(label, bytes));
			return;
		},
		Ok(Ok(t)) => t,
	};
	let projected = match cfmodel::duke_proj::project(&tree) {
		Ok(p) => p,
		Err(e) => {
			st.outcome("inconsistent-tree");
			ctx.diff("reader:inconsistent-tree", &format!("the tree refers to a position that does not exist: {e}"), || replay_text(label, bytes));
			return;
		},
	};
	let diffs = cfmodel::sdiff::diff(&reference, &projected);
	if diffs.is_empty() {
		st.outcome("equal");
	} else {
		st.outcome("differs");
	}
	for (key, detail) in diffs.0 {
		ctx.diff(&key, &detail, || replay_text(label, bytes));
	}
	st.sample(label.split('/').next().unwrap_or(label), || json!({"label": label, "class_file_hex": vcore::hex(&bytes[..bytes.len().min(160)]), "bytes": bytes.len(), "this_class": reference.this_class.to_string_lossy(), "methods": reference.methods.len(), "instructions": reference.methods.iter().map(|m| m.code.as_ref().map(|c| c.insns.len()).unwrap_or(0)).sum::<usize>()}));
}

fn check_model(ctx: &Ctx, st: &mut Stats, label: &str, model: &SClass, enc: &Encoding) {
	match assemble(model, enc) {
		Ok(bytes) => vcore::watched(|| replay_text(label, &bytes), || check_bytes(ctx, st, label, &bytes, Some(model))),
		Err(AsmError::Unencodable(_)) => st.outcome("unencodable-skipped"),
		Err(AsmError::Internal(e)) => vcore::machinery_fail(&format!("{label}: assembler: {e}")),
	}
}

fn par_models(ctx: &Ctx, cases: Vec<(String, SClass, Encoding)>) -> Stats {
	cases.into_par_iter().fold(Stats::new, |mut st, (label, m, e)| {
		check_model(ctx, &mut st, &label, &m, &e);
		st
	}).reduce(Stats::new, Stats::merge)
}

fn main() {
	let ctx: &'static Ctx = Box::leak(Box::new(Ctx::new("C01", "exploration")));
	if let Some(path) = ctx.replay.clone() {
		let body = vcore::replay_body(&path);
		let hex: String = body.lines().skip_while(|l| !l.starts_with("class file bytes")).skip(1).collect();
		let bytes = vcore::unhex(&hex).unwrap_or_else(|| vcore::machinery_fail("replay: bad hex"));
		let mut st = Stats::new();
		check_bytes(ctx, &mut st, "replay", &bytes, None);
		let mut st2 = Stats::new();
		check_bytes(ctx, &mut st2, "replay", &bytes, None);
		ctx.finish(json!({"evaluations": 2, "distinct_nontrivial": 2, "rule": "replay of one class file, twice", "samples": [body.lines().next()]}), &[]);
	}
	let quick = ctx.tier == Tier::Quick;
	let mut total = Stats::new();
	let mut spaces = serde_json::Map::new();
	let mut run = |name: &str, st: Stats| {
		spaces.insert(name.to_owned(), json!({"evaluations": st.evaluations, "outcomes": st.outcomes, "distinct_classes": st.distinct.len()}));
		total = std::mem::take(&mut total).merge(st);
	};

	let samples = insn_samples();
	for (name, cases) in cfmodel::suite::listed_groups(quick) {
		run(name, par_models(ctx, cases));
	}

	// 2. shape sweep: all sequences of length ≤ L
	let max_len = ctx.tier.pick(3, 4);
	for len in 1..=max_len {
		let space = ShapeSpace::new(len);
		let encs = [Encoding::default(), Encoding { default_form: 2, pool: PoolOrder::Reversed, ..Default::default() }];
		let n = space.count();
		let st = (0..n).into_par_iter().fold(Stats::new, |mut st, idx| {
			let insns = space.nth(idx);
			let m = class_with_method("p/Shape", insns);
			for (k, e) in encs.iter().enumerate() {
				if k == 1 && len >= 3 && idx % 7 != 0 {
					continue; // the second encoding on a fixed 1/7 slice of the longer spaces (stated in bounds)
				}
				check_model(ctx, &mut st, &format!("shape/len{len}/{idx}/enc{k}"), &m, e);
			}
			st
		}).reduce(Stats::new, Stats::merge);
		run(&format!("shape-sweep-len{len}"), st);
	}

	// 8. the vendored javac corpus (+ the JDK's java.base in the thorough tier)
	let corpus = cfmodel::corpus::vendored(&vcore::verif_root());
	let n_corpus = corpus.len();
	let st = corpus.par_iter().fold(Stats::new, |mut st, (name, bytes)| {
		vcore::watched(|| replay_text(name, bytes), || check_bytes(ctx, &mut st, &format!("corpus/{name}"), bytes, None));
		st
	}).reduce(Stats::new, Stats::merge);
	run("javac-corpus", st);
	let mut n_jdk = 0;
	if !quick {
		let jdk = cfmodel::corpus::jdk_java_base(&vcore::verif_root().join("harness").join("target").join("tmp-jdk-c01"));
		n_jdk = jdk.len();
		let st = jdk.par_iter().fold(Stats::new, |mut st, (name, bytes)| {
			vcore::watched(|| replay_text(name, bytes), || check_bytes(ctx, &mut st, &format!("jdk/{name}"), bytes, None));
			st
		}).reduce(Stats::new, Stats::merge);
		run("jdk-java.base (optional breadth)", st);
	}

	ctx.floor("classes compared", ctx.tier.pick(50_000, 1_000_000), total.evaluations);
	ctx.floor("distinct class descriptions", 50_000, total.distinct.len());
	ctx.floor("classes the reader read without any difference", 5_000, total.get("equal"));
	ctx.floor("vendored corpus classes", 50, n_corpus as u64);

	let coverage = json!({
		"evaluations": total.evaluations,
		"distinct_nontrivial": total.distinct.len(),
		"rule": "every generated model × encoding is assembled, read by the real duke::read_class, projected and compared fact-by-fact with the independent strict parser's reading (and the source model); distinct_nontrivial = distinct class descriptions (hash of the reference SClass)",
		"exhaustive": true,
		"samples": total.samples,
		"outcomes": total.outcomes,
		"spaces": spaces,
		"bounds": {
			"instruction_samples": samples.len(),
			"shape_sweep_max_len": max_len,
			"shape_alphabet": shape_alphabet().len(),
			"shape_second_encoding": "all of lengths 1-2, every 7th sequence of length >= 3",
			"form_product": "3^8 per-site forms",
			"pool_permutations": 720,
			"kitchen_sink_variants": 6,
			"versions": versions().len(),
			"corpus_classes": n_corpus,
			"jdk_classes": n_jdk,
		},
	});
	ctx.finish(coverage, &[
		"cfmodel's strict parser is the independent reading of JVMS ch. 4 (cross-checked: parse(assemble(m)) == m for every generated class, and on every class of java.base)",
		"undefined access-flag bits state nothing and are masked",
		"class files above version 67.0 are outside the property's range",
		"javac-17 output is covered through the vendored corpus only",
	]);
}
