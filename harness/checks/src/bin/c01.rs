//! C01 — the class reader delivers every fact of a valid class file accurately.
//!
//! Every generated or vendored class is read by the REAL `duke::read_class`, the resulting tree is
//! projected into the encoding-free model `SClass` and compared, fact by fact, with what the
//! independent strict parser (cfmodel, written from JVMS ch. 4) reads from the same bytes and — for
//! generated classes — with the model the assembler started from (three-way; a disagreement between
//! the assembler and the reference parser is a machinery error, never a verdict).
//!
//! Enumerated spaces (complete within each): instruction samples with boundary operands × forms ×
//! pool orders; all instruction sequences of length ≤ L over the decoding-arm alphabet with every
//! branch target; the 3^8 product of per-site instruction forms × switch paddings; all permutations
//! of a small pool, rotations/reversal/padding of a large one; attribute orders; attribute contents
//! (kitchen sink variants, modules); versions; Utf8 boundary strings in every role; the javac corpus.
//! Added by the extension (modules in `c01/`): byte-level attribute permutations (`perm`), far code
//! offsets / 64 KiB methods / complete operand ranges / pool indices up to 65534 (`big`), per-bit
//! flags, versions × minors, names, all UTF-16 code units, member-attachment products, bootstrap
//! sharing, table cross products (`facts`), the CLDC `StackMap` arm (`cldc`), the reader's own
//! resource limits met exactly (`limits`), the environment (`env`: every class through scripted
//! `Read + Seek` behaviours — short serves, `BufReader` capacities, one boundary at every byte offset,
//! `Interrupted` — must be read to the same tree as from a cursor).
//! Added by the second extension: bytes that state nothing (`pad`: every filling of the padding of every switch
//! shape at every alignment), features × class file versions (`versioned`: every version 45.3..67 and every
//! preview minor with exactly the features the JVMS allows in it), nesting up to the reader's own depth bounds
//! met exactly (`deep`: element values and dynamic constants at every depth 1..=256 with a two-way oracle where
//! the reference parser cannot follow), tables stated in several attributes in every sequence, present-but-empty
//! tables and merged tables above 65535 entries (`repeat`), odd but legal values (`odd`: ConstantValue × field
//! type, unordered and repeated annotations), and the position of the class in its stream (`offset`: non-zero
//! start positions, concatenated class files, the reader left exactly behind the class).
//!
//! Clause table (statement of C01 → where it is decided; oracle everywhere: `check_bytes` =
//! sdiff(reference parse of the same bytes, projection of the tree the real reader returns), plus
//! reference == source model for generated classes):
//!
//! | clause | decided in (space; "+" = added by the extension) |
//! |---|---|
//! | header: version | suite `versions-and-utf8` (45.0, 45.3, 46..67 .0, previews 56..66); + `facts::versions`: every major 45..=55 x 11 minors of every size class; ++ `versioned`: each of these versions on the kitchen sink / module descriptors reduced to the features of that version (a feature is read in the version that introduced it: tables 4.4-B, 4.7-B) |
//! | header: access flags, this/super/interfaces | suite sinks, corpus; + `facts::flags`: every single bit, 0, 0xFFFF, the JVMS mask and its complement of the class flag word; `facts::names`: 55 odd-but-valid names as this/super/interface; `limits`: 32000 interfaces |
//! | every field and method with flags and descriptors | suite sinks, corpus; + `facts::flags` (field, method, inner-class, parameter, module, requires, exports, opens flag words bit by bit); `facts::names`; `limits` (65535 fields, 65535 methods); ++ `odd`: every legal pairing of ConstantValue kind and field type (Integer x I/S/C/B/Z ...) with boundary values, on static/final/neither fields |
//! | every instruction with its resolved operands | suite `instruction-samples`, shape sweeps, sink `<clinit>`; + `big::dense`: the complete operand range of bipush, sipush, narrow iinc, wide iinc (every index, every constant), every local index 0..=65535 of every load/store/ret in shortest, plain and wide form, newarray, multianewarray 1..=255, all ordered pairs of operand-free opcodes, all ordered pairs of the ~270 instruction samples with operands; `big::pool`: ldc/ldc_w/ldc2_w of ~55000 Integer/Long entries spread over all pool indices up to 65534; `facts::bootstrap`: all sequences of ≤ 3 condy/indy sites that share or do not share bootstrap methods, names, descriptors; ++ `deep`: chains of 1..=256 dynamic constants (the reader's `MAX_DYNAMIC_DEPTH` met exactly) loaded by ldc and as invokedynamic argument, pool references forward and backward |
//! | ... and branch targets | shape sweeps (every target at length ≤ L), `encoding-product`; + `big::far`: all 18 narrow opcodes at distances 32766..32769 / -32767..-32770 (thorough: windows of 16), goto_w/jsr_w over ±65530, tableswitch/lookupswitch arms 60000 bytes forward and 65500 bytes backward at each of the 4 paddings, 16378 table arms / 8189 lookup pairs, a short branch at every third byte of a 65535-byte method; ++ `pad`: the same targets whatever the 1..3 padding bytes of a switch hold (each byte with every value, every combination of 8 telling values; 6 switch shapes x 4 alignments, two switches per method, 64 KiB methods, the sink, the corpus) |
//! | exception ranges | sink `rich_code`, corpus; + `big::far` (ranges ending at code_length 65535, handlers at 65534), `facts::tables` (all start/end/handler triples of 4-instruction programs x every other table), `limits` (65535 entries) |
//! | debug tables (lines, local variables, local variable types, source file, SDE, parameters) | sinks with `split_tables`, corpus (-g -parameters); + `big::far` (pcs at 255/256, 32767/32768, 65533..65535; a label at every one of the 65536 offsets), `perm` (all 8! orders of the Code attributes), `facts::tables`, `facts::members`, `facts::utf16` (SDE of 200000 code units), `limits` (255 parameters); ++ `repeat`: every sequence of ≤ 3 (thorough 4) LineNumberTables of 0/1/2 entries, every interleaving of ≤ 3 (4) LocalVariableTables and LocalVariableTypeTables of 0/1/2 entries, merged tables of 65536..131070 entries |
//! | stack-map frames | `rich_code` gaps around 63/64, both encodings, corpus, suite `cldc-stack-map`; + `big::far` (offset sums up to 65534, one delta of 65534, a frame at every instruction), `facts::tables` (every subset of frame positions), `cldc` (the CLDC `StackMap` attribute hand-encoded over all programs of ≤ 3 (thorough 4) instructions x all frame position sets), `limits` (65535 locals and stack items); ++ `repeat`: a StackMapTable / StackMap without any frame |
//! | annotations (incl. type annotations, defaults) | sinks, `element-value*`, corpus; + `perm`, `facts::members`, `limits` (element values 60 deep = the reference parser's reach, 65535 pairs / array elements / type annotations, type path of 255); ++ `deep`: arrays in arrays, annotations in annotations and both alternating at every depth 1..=256 (the reader's `MAX_ELEMENT_VALUE_DEPTH` met exactly) as annotation value, AnnotationDefault and inside a type annotation; `repeat`: annotation attributes with zero annotations at every level; `odd`: lists out of alphabetical order with repeated types, repeated identical annotations, repeated element names |
//! | module/record/nest data, inner classes, enclosing method, permitted subclasses, signature | sinks, `module-open*`, corpus; + `facts::flags`, `facts::members` (every subset of ≤ 3 (thorough 4) entries of a 19-entry class menu), `perm`, `limits` (every table at 65535 entries) |
//! | unrecognised attributes byte-for-byte | sinks (all five levels); + `perm`, `facts::members`, `facts::misplaced` (every JVMS attribute name in every container where the JVMS does not define it must be kept as an unknown attribute), `limits` (unknown attributes of 65535..200000 bytes at all five levels) |
//! | nothing invented / dropped / attached to the wrong member | sdiff itemises every fact in both directions; + `facts::members`: all 2^9 field, 2^12 method, 2^8 Code, 2^6 record-component attribute subsets on one member with the complement on its neighbour and the subset again on the next, all ordered pairs of single attributes on neighbours |
//! | independent of constant-pool layout | suite `pool-layouts` (720 permutations, rotations, pads); + `big::pool`: a pool filled to index 65534 (two-slot entries included) under first-use, reversed, Utf8-first/last and rotated orders: every kind of entry below 256, above 32767 and near 65534 |
//! | independent of attribute order | suite rotations/reversal via the assembler; + `perm` on the bytes: per container all permutations (≤ 6, thorough ≤ 8 attributes; the 8 Code attributes of a dedicated method: all 40320 in both tiers), larger containers every ordered pair first + rotations + reversal; every corpus class with all containers reversed / rotated |
//! | independent of instruction encoding variant | suite `encoding-product` (3^8), switch paddings, every shape sweep sequence in two encodings; + `big::dense` (every operand in shortest, plain and wide form), `big::far` (goto vs goto_w on both sides of the i16 boundary, switch paddings at the end of a 64 KiB method); ++ `pad` (the contents of the padding) |
//! | (the class file as a part of a stream) | + `env`; ++ `offset`: every class of the corpus and a part of the suite behind 1, 2, 3, 4, 5, 7, 8, 13, 4099 other bytes, in front of trailing bytes, through a BufReader, and as second and third of three concatenated class files; the reader must be left exactly behind the class |
//! | quantifier: generated + javac corpus | corpus (357 classes), thorough: java.base |
//! | (reader's own bounds) | + `limits`: exactly 32768 resolved bootstrap arguments must be read; more than that is refused by `pool.rs` — reported under `more-than-32768-bootstrap-arguments:reader:refused-valid-class` |

use cfmodel::asm::{assemble, AsmError, Encoding, PoolOrder};
use cfmodel::gen::*;
use cfmodel::model::*;
use rayon::prelude::*;
use vcore::{json, Ctx, Stats, Tier};

#[path = "c01/perm.rs"]
mod perm;
#[path = "c01/big.rs"]
mod big;
#[path = "c01/facts.rs"]
mod facts;
#[path = "c01/cldc.rs"]
mod cldc;
#[path = "c01/limits.rs"]
mod limits;
#[path = "c01/env.rs"]
mod env;
#[path = "c01/pad.rs"]
mod pad;
#[path = "c01/versioned.rs"]
mod versioned;
#[path = "c01/deep.rs"]
mod deep;
#[path = "c01/repeat.rs"]
mod repeat;
#[path = "c01/odd.rs"]
mod odd;
#[path = "c01/offset.rs"]
mod offset;
#[allow(dead_code)]
#[path = "c20/io.rs"]
mod io;

/// hex with a lookup table (the replay text of a 2 MiB class is built for every watched case)
pub(crate) fn fast_hex(bytes: &[u8]) -> String {
	const D: &[u8; 16] = b"0123456789abcdef";
	let mut s = Vec::with_capacity(bytes.len() * 2);
	for b in bytes {
		s.push(D[(b >> 4) as usize]);
		s.push(D[(b & 15) as usize]);
	}
	String::from_utf8(s).unwrap_or_default()
}

pub(crate) fn replay_text(label: &str, bytes: &[u8]) -> String {
	format!("label={label}\nclass file bytes (hex):\n{}", fast_hex(bytes))
}

/// what the reader did with one class
#[derive(Clone, Copy, PartialEq, Eq, Debug)]
pub(crate) enum Verdict {
	Equal,
	Differs,
	Refused,
	Panicked,
	Inconsistent,
}

/// One case: bytes of a well-formed class (+ the model it was assembled from, if generated).
pub(crate) fn check_bytes(ctx: &Ctx, st: &mut Stats, label: &str, bytes: &[u8], source: Option<&SClass>) -> Verdict {
	check_bytes_scoped(ctx, st, label, bytes, source, scope_of(label))
}

/// The key scope of a case, from its label (so that `--replay` reports under the same key as the sweep):
/// the CLDC `StackMap` space and the classes that exceed the reader's own bound on resolved bootstrap arguments
/// report under keys of their own.
pub(crate) fn scope_of(label: &str) -> &'static str {
	if label.starts_with("cldc/") {
		"cldc-stackmap:"
	} else if label.starts_with("limits/nested-loadables/") && label.ends_with("/above-32768") {
		"more-than-32768-bootstrap-arguments:"
	} else {
		""
	}
}

/// `scope` (empty, or ending in ':') is put in front of every key of a difference, so that a space which
/// explores one narrow mechanism reports under keys of its own.
pub(crate) fn check_bytes_scoped(ctx: &Ctx, st: &mut Stats, label: &str, bytes: &[u8], source: Option<&SClass>, scope: &str) -> Verdict {
	st.eval();
	let reference = match cfmodel::parse(bytes) {
		Ok(p) => p.class,
		Err(e) => vcore::machinery_fail(&format!("{label}: the reference parser rejects a class of the test set: {e}")),
	};
	if let Some(src) = source {
		if &reference != src {
			let d = cfmodel::sdiff::diff(src, &reference);
			vcore::machinery_fail(&format!("{label}: assembler and reference parser disagree: {:?}", d.0.first()));
		}
	}
	st.distinct.add(&reference);
	let read = vcore::guard(|| duke::read_class(&mut std::io::Cursor::new(bytes)));
	let tree = match read {
		Err(p) => {
			st.outcome("panic");
			ctx.diff(&format!("{scope}panic@{}", p.file()), &format!("reader panicked at {}: {}", p.site, p.msg), || replay_text(label, bytes));
			return Verdict::Panicked;
		},
		Ok(Err(e)) => {
			st.outcome("refused");
			let msg = format!("{e:#}");
			let key = if reference.version.0 > 67 || (reference.version.0 == 67 && reference.version.1 != 0) { "reader:refused-version-above-67" } else { "reader:refused-valid-class" };
			ctx.diff(&format!("{scope}{key}"), &format!("the reader refuses a well-formed class: {}", &msg[..msg.char_indices().take_while(|(i, _)| *i < 300).last().map(|(i, c)| i + c.len_utf8()).unwrap_or(0)]), || replay_text(label, bytes));
			return Verdict::Refused;
		},
		Ok(Ok(t)) => t,
	};
	let projected = match cfmodel::duke_proj::project(&tree) {
		Ok(p) => p,
		Err(e) => {
			st.outcome("inconsistent-tree");
			ctx.diff(&format!("{scope}reader:inconsistent-tree"), &format!("the tree refers to a position that does not exist: {e}"), || replay_text(label, bytes));
			return Verdict::Inconsistent;
		},
	};
	let diffs = cfmodel::sdiff::diff(&reference, &projected);
	let verdict = if diffs.is_empty() {
		st.outcome("equal");
		Verdict::Equal
	} else {
		st.outcome("differs");
		Verdict::Differs
	};
	for (key, detail) in diffs.0 {
		ctx.diff(&format!("{scope}{key}"), &detail, || replay_text(label, bytes));
	}
	st.sample(label.split('/').next().unwrap_or(label), || json!({"label": label, "class_file_hex": vcore::hex(&bytes[..bytes.len().min(160)]), "bytes": bytes.len(), "this_class": reference.this_class.to_string_lossy(), "methods": reference.methods.len(), "instructions": reference.methods.iter().map(|m| m.code.as_ref().map(|c| c.insns.len()).unwrap_or(0)).sum::<usize>()}));
	verdict
}

/// assembles `model` under `enc`; `None` = the model cannot be encoded (counted, skipped)
pub(crate) fn assemble_or_skip(st: &mut Stats, label: &str, model: &SClass, enc: &Encoding) -> Option<Vec<u8>> {
	match assemble(model, enc) {
		Ok(bytes) => Some(bytes),
		Err(AsmError::Unencodable(why)) => {
			st.outcome("unencodable-skipped");
			if std::env::var_os("C01_DEBUG").is_some() {
				eprintln!("unencodable: {label}: {why}");
			}
			None
		},
		Err(AsmError::Internal(e)) => vcore::machinery_fail(&format!("{label}: assembler: {e}")),
	}
}

pub(crate) fn check_model(ctx: &Ctx, st: &mut Stats, label: &str, model: &SClass, enc: &Encoding) {
	if let Some(bytes) = assemble_or_skip(st, label, model, enc) {
		vcore::watched(|| replay_text(label, &bytes), || check_bytes(ctx, st, label, &bytes, Some(model)));
	}
}

/// like `check_model`, for a model whose written form states less than the model holds (reserved flag
/// bits): the reference parser must read `expected` from the assembled bytes
pub(crate) fn check_model_expect(ctx: &Ctx, st: &mut Stats, label: &str, model: &SClass, enc: &Encoding, expected: &SClass) {
	if let Some(bytes) = assemble_or_skip(st, label, model, enc) {
		vcore::watched(|| replay_text(label, &bytes), || check_bytes(ctx, st, label, &bytes, Some(expected)));
	}
}

pub(crate) fn par_models(ctx: &Ctx, cases: Vec<(String, SClass, Encoding)>) -> Stats {
	cases.into_par_iter().fold(Stats::new, |mut st, (label, m, e)| {
		check_model(ctx, &mut st, &label, &m, &e);
		st
	}).reduce(Stats::new, Stats::merge)
}

fn main() {
	let ctx: &'static Ctx = Box::leak(Box::new(Ctx::new("C01", "exploration")));
	if let Some(path) = ctx.replay.clone() {
		let body = vcore::replay_body(&path);
		let hex: String = body.lines().skip_while(|l| !l.starts_with("class file bytes")).skip(1).collect();
		let bytes = vcore::unhex(&hex).unwrap_or_else(|| vcore::machinery_fail("replay: bad hex"));
		// the label decides the key scope (see `scope_of`)
		let label = body.lines().find_map(|l| l.strip_prefix("label=")).unwrap_or("replay").to_owned();
		let mut st = Stats::new();
		if label.starts_with("deep/") {
			// (nesting the reference parser cannot follow: judged without it, see `deep`)
			deep::replay(ctx, &mut st, &label, &bytes);
			deep::replay(ctx, &mut st, &label, &bytes);
		} else {
			check_bytes(ctx, &mut st, &label, &bytes, None);
			let mut st2 = Stats::new();
			check_bytes(ctx, &mut st2, &label, &bytes, None);
		}
		if label.starts_with("env/") {
			env::replay(ctx, &mut st, &label, &bytes);
		}
		if label.starts_with("offset/") {
			offset::replay(ctx, &mut st, &label, &bytes);
		}
		ctx.finish(json!({"evaluations": 2, "distinct_nontrivial": 2, "rule": "replay of one class file, twice", "samples": [body.lines().next()]}), &[]);
	}
	let quick = ctx.tier == Tier::Quick;
	let mut total = Stats::new();
	let mut spaces = serde_json::Map::new();
	let mut run = |name: &str, st: Stats| {
		spaces.insert(name.to_owned(), json!({"evaluations": st.evaluations, "outcomes": st.outcomes, "distinct_classes": st.distinct.len()}));
		total = std::mem::take(&mut total).merge(st);
	};

	// development aid: `C01_ONLY=<substring of a space name>` runs the matching extension spaces only; such a run never
	// yields a verdict (it ends as a machinery failure)
	let only = std::env::var("C01_ONLY").ok();
	let samples = insn_samples();
	for (name, cases) in cfmodel::suite::listed_groups(quick) {
		if only.is_some() {
			continue;
		}
		run(name, par_models(ctx, cases));
	}

	// 2. shape sweep: all sequences of length ≤ L
	let max_len = ctx.tier.pick(3, 4);
	for len in 1..=max_len {
		if only.is_some() {
			continue;
		}
		let space = ShapeSpace::new(len);
		let encs = [Encoding::default(), Encoding { default_form: 2, pool: PoolOrder::Reversed, ..Default::default() }];
		let n = space.count();
		let st = (0..n).into_par_iter().fold(Stats::new, |mut st, idx| {
			let insns = space.nth(idx);
			let m = class_with_method("p/Shape", insns);
			for (k, e) in encs.iter().enumerate() {
				check_model(ctx, &mut st, &format!("shape/len{len}/{idx}/enc{k}"), &m, e);
			}
			st
		}).reduce(Stats::new, Stats::merge);
		run(&format!("shape-sweep-len{len}"), st);
	}

	// extension spaces (each returns its statistics and a bounds object; floors are registered inside)
	let mut ext_bounds = serde_json::Map::new();
	for (name, f) in [
		("attribute-permutations", perm::run as fn(&'static Ctx) -> (Stats, serde_json::Value)),
		("far-offsets-and-dense-operands", big::run),
		("facts-flags-versions-names-members-bootstrap-tables", facts::run),
		("cldc-stackmap", cldc::run),
		("reader-limits-met-exactly", limits::run),
		("environment-short-reads", env::run),
		("switch-padding-bytes", pad::run),
		("features-by-class-file-version", versioned::run),
		("nesting-depths-up-to-the-readers-bounds", deep::run),
		("repeated-empty-and-merged-tables", repeat::run),
		("odd-but-legal-values", odd::run),
		("stream-offsets-and-concatenated-class-files", offset::run),
	] {
		if only.as_ref().is_some_and(|o| !name.contains(o.as_str())) {
			continue;
		}
		let t0 = ctx.elapsed_s();
		let (st, bounds) = f(ctx);
		if std::env::var_os("C01_DEBUG").is_some() {
			eprintln!("space {name}: {:.1}s", ctx.elapsed_s() - t0);
		}
		ext_bounds.insert(name.to_owned(), bounds);
		run(name, st);
	}

	if only.is_some() {
		eprintln!("C01_ONLY: {} evaluations, outcomes {:?}, {} violations", total.evaluations, total.outcomes, ctx.violation_count());
		vcore::machinery_fail("C01_ONLY is set: a partial run yields no verdict");
	}
	// 8. the vendored javac corpus (+ the JDK's java.base in the thorough tier)
	let corpus = cfmodel::corpus::vendored(&vcore::verif_root());
	let n_corpus = corpus.len();
	let st = corpus.par_iter().fold(Stats::new, |mut st, (name, bytes)| {
		vcore::watched(|| replay_text(name, bytes), || check_bytes(ctx, &mut st, &format!("corpus/{name}"), bytes, None));
		st
	}).reduce(Stats::new, Stats::merge);
	run("javac-corpus", st);
	let mut n_jdk = 0;
	if !quick {
		let jdk = cfmodel::corpus::jdk_java_base(&vcore::verif_root().join("harness").join("target").join("tmp-jdk-c01"));
		n_jdk = jdk.len();
		let st = jdk.par_iter().fold(Stats::new, |mut st, (name, bytes)| {
			vcore::watched(|| replay_text(name, bytes), || check_bytes(ctx, &mut st, &format!("jdk/{name}"), bytes, None));
			st
		}).reduce(Stats::new, Stats::merge);
		run("jdk-java.base (optional breadth)", st);
	}

	ctx.floor("classes compared", ctx.tier.pick(50_000, 1_000_000), total.evaluations);
	ctx.floor("distinct class descriptions", 50_000, total.distinct.len());
	ctx.floor("classes the reader read without any difference", 5_000, total.get("equal"));
	ctx.floor("vendored corpus classes", 50, n_corpus as u64);

	let coverage = json!({
		"evaluations": total.evaluations,
		"distinct_nontrivial": total.distinct.len(),
		"rule": "every generated model × encoding is assembled, read by the real duke::read_class, projected and compared fact-by-fact with the independent strict parser's reading (and the source model); distinct_nontrivial = distinct class descriptions (hash of the reference SClass)",
		"exhaustive": true,
		"samples": total.samples,
		"outcomes": total.outcomes,
		"spaces": spaces,
		"bounds": {
			"instruction_samples": samples.len(),
			"shape_sweep_max_len": max_len,
			"shape_alphabet": shape_alphabet().len(),
			"shape_encodings": "every sequence in two encodings (shortest forms / first-use pool; widest forms / reversed pool)",
			"form_product": "3^8 per-site forms",
			"pool_permutations": 720,
			"kitchen_sink_variants": 6,
			"versions": versions().len(),
			"corpus_classes": n_corpus,
			"jdk_classes": n_jdk,
			"extension": ext_bounds,
		},
	});
	ctx.finish(coverage, &[
		"cfmodel's strict parser is the independent reading of JVMS ch. 4 (cross-checked: parse(assemble(m)) == m for every generated class, and on every class of java.base)",
		"undefined access-flag bits state nothing and are masked",
		"class files above version 67.0 are outside the property's range",
		"javac-17 output is covered through the vendored corpus only",
		"byte-level attribute permutations keep a class well-formed and its statement unchanged (self-checked: the reference parser reads the same class description from the permuted bytes)",
		"the CLDC StackMap attribute is read with the meaning its specification defines (frames in ascending offset order), as cfmodel's reference parser does",
		"element values nested deeper than 64 and dynamic constants nested deeper than 32 are beyond the reference parser's bounds: up to the reader's documented bounds (256) they are judged against the model the class was assembled from (two-way; the assembling code is the same for every depth and is checked three-way at the depths the reference parser follows); above 256 a clean refusal is recorded, not judged",
		"the values of the padding bytes of tableswitch / lookupswitch state nothing (JVMS 6.5 gives them no meaning); the reference parser reads the same class whatever they hold (self-checked per case)",
		"a class file of version v is built from the features the JVMS allows in version v only (what a newer attribute in an older class file states is not settled by the statement)",
		"a reader is read from its current position (std::io) and is left behind the last byte of the class file; class files may follow each other in one stream (class_reader.rs says so itself)",
		"a class file is the same class file through every legal std::io::Read + Seek: requests served short and Interrupted (retry) are legal answers of the environment; the scripted readers are self-tested before use",
	]);
}
