//! Far code offsets, 64 KiB methods, complete operand ranges and constant-pool indices up to the limit.
//!
//! The reader computes every branch target as `u16 position + signed offset`, keeps labels in a table keyed
//! by `u16` offsets and resolves every table (exceptions, lines, local variables, frames, type annotations)
//! through it; pool indices are `u16`. The spaces here put every one of these quantities at its boundaries
//! (255/256, ±32767/32768, 65534/65535) and sweep the complete operand range of every instruction that has
//! an immediate or a local-variable operand, in narrow and in wide form.

use cfmodel::asm::{AttrOrder, Encoding, PoolOrder};
use cfmodel::gen::*;
use cfmodel::model::*;
use cfmodel::parse::Role;
use rayon::prelude::*;
use vcore::{json, Ctx, Stats};
use crate::{assemble_or_skip, check_bytes, replay_text};

const NOP: SInsn = SInsn::Simple(op::NOP);

fn nops(n: usize) -> Vec<SInsn> {
	vec![NOP; n]
}

fn big_class(name: &str, methods: Vec<SMethod>) -> SClass {
	let mut c = skeleton(name);
	c.methods = methods;
	c
}

fn m(name: &str, insns: Vec<SInsn>) -> SMethod {
	method_with(name, "()V", insns)
}

/// what the assembled bytes really contain (measured on the reference parser's field map)
#[derive(Default, Clone)]
struct Measure {
	narrow_max: u64,
	narrow_min: u64,
	wide_far_forward: u64,
	wide_far_backward: u64,
	wide_extreme: u64,
	pc_ge_32768: u64,
	pc_at_65535: u64,
	pool_index_ge_32768: u64,
	pool_index_ge_65000: u64,
	code_length_65535: u64,
	local_index_65535: u64,
}

impl Measure {
	fn add(&mut self, o: &Measure) {
		self.narrow_max += o.narrow_max;
		self.narrow_min += o.narrow_min;
		self.wide_far_forward += o.wide_far_forward;
		self.wide_far_backward += o.wide_far_backward;
		self.wide_extreme += o.wide_extreme;
		self.pc_ge_32768 += o.pc_ge_32768;
		self.pc_at_65535 += o.pc_at_65535;
		self.pool_index_ge_32768 += o.pool_index_ge_32768;
		self.pool_index_ge_65000 += o.pool_index_ge_65000;
		self.code_length_65535 += o.code_length_65535;
		self.local_index_65535 += o.local_index_65535;
	}
	fn of(bytes: &[u8]) -> Measure {
		let mut x = Measure::default();
		let p = match cfmodel::parse(bytes) {
			Ok(p) => p,
			Err(_) => return x,
		};
		for e in &p.map {
			let v: u64 = bytes[e.offset..e.offset + e.width as usize].iter().fold(0u64, |a, b| (a << 8) | *b as u64);
			match (e.role, e.width) {
				(Role::BranchOffset, 2) => {
					let s = v as u16 as i16;
					if s == i16::MAX {
						x.narrow_max += 1;
					}
					if s == i16::MIN {
						x.narrow_min += 1;
					}
				},
				(Role::BranchOffset, 4) => {
					let s = v as u32 as i32;
					if s > 32767 {
						x.wide_far_forward += 1;
					}
					if s < -32768 {
						x.wide_far_backward += 1;
					}
					if s.unsigned_abs() >= 65530 {
						x.wide_extreme += 1;
					}
				},
				(Role::Pc, 2) => {
					if v >= 32768 {
						x.pc_ge_32768 += 1;
					}
					if v == 65535 {
						x.pc_at_65535 += 1;
					}
				},
				(Role::PoolIndex, 2) => {
					if v >= 32768 {
						x.pool_index_ge_32768 += 1;
					}
					if v >= 65000 {
						x.pool_index_ge_65000 += 1;
					}
				},
				(Role::CodeLength, 4) => {
					if v == 65535 {
						x.code_length_65535 += 1;
					}
				},
				(Role::LocalIndex, 2) => {
					if v == 65535 {
						x.local_index_65535 += 1;
					}
				},
				_ => {},
			}
		}
		x
	}
}

/// branches, switches and tables at the offset boundaries
fn far_cases(quick: bool) -> Vec<(String, SClass, Encoding)> {
	let mut out: Vec<(String, SClass, Encoding)> = Vec::new();
	let mut push = |label: String, insns: Vec<SInsn>, form: u8| {
		out.push((label, big_class("p/Far", vec![m("m", insns)]), Encoding { default_form: form, ..Default::default() }));
	};
	// every opcode with a 16-bit offset; quick: the four distances around the limit, thorough: a window of 16
	let narrow: Vec<u8> = (0x99..=0xa8u8).chain([op::IFNULL, op::IFNONNULL]).collect();
	let forward: Vec<usize> = if quick { vec![32766, 32767, 32768, 32769] } else { (32760..=32775).collect() };
	let backward: Vec<usize> = if quick { vec![32767, 32768, 32769, 32770] } else { (32761..=32776).collect() };
	// forward: [branch -> T] nops [T: return]; the target is d bytes after the branch opcode
	for o in narrow {
		for &d in &forward {
			let mut v = vec![SInsn::Branch(o, (d - 3 + 1) as Idx)];
			v.extend(nops(d - 3));
			v.push(RETURN);
			push(format!("far/forward/op{o:#x}/d{d}"), v, 0);
		}
		// backward: [T: nop] nops [branch -> T] return; the target is d bytes before the branch opcode
		for &d in &backward {
			let mut v = nops(d);
			v.push(SInsn::Branch(o, 0));
			v.push(RETURN);
			push(format!("far/backward/op{o:#x}/d{d}"), v, 0);
		}
	}
	// the extremes: goto_w / jsr_w across a whole 65535-byte method
	for o in [op::GOTO, op::JSR] {
		// forward: opcode at 0 (5 bytes), target = the last instruction at 65534
		let mut v = vec![SInsn::Branch(o, 65530)];
		v.extend(nops(65529));
		v.push(RETURN);
		push(format!("far/extreme-forward/op{o:#x}"), v, 0);
		// backward: opcode at 65530, target 0
		let mut v = nops(65530);
		v.push(SInsn::Branch(o, 0));
		push(format!("far/extreme-backward/op{o:#x}"), v, 0);
		// forced wide forms with targets just inside the narrow range
		let mut v = vec![SInsn::Branch(o, 32763)];
		v.extend(nops(32762));
		v.push(RETURN);
		push(format!("far/wide-form-near-limit/op{o:#x}"), v, 2);
	}
	// switches whose arms reach over the whole method, at the start (every arm forward) and at the end (every
	// arm backward), at each of the four paddings
	for pad in 0..4usize {
		let lead = (3 + 4 - pad) % 4; // nops before the switch so that it needs `pad` padding bytes
		for table in [true, false] {
			// forward
			let far = 60000usize;
			let mut v = nops(lead);
			let here = lead as Idx;
			let last = (lead + 1 + far) as Idx;
			v.push(if table {
				SInsn::TableSwitch { default: last, low: -1, targets: vec![here, last, here + 1, last - 1] }
			} else {
				SInsn::LookupSwitch { default: last, pairs: vec![(i32::MIN, last), (-1, here), (0, last - 1), (i32::MAX, here + 1)] }
			});
			v.extend(nops(far));
			v.push(RETURN);
			push(format!("far/switch-forward/pad{pad}/table{table}"), v, 0);
			// backward: the switch is the last instruction of a method of exactly 65535 bytes where possible
			let size = 1 + pad + if table { 12 + 4 * 4 } else { 8 + 8 * 4 };
			let mut before = 65535 - size;
			while (before + 1 + pad) % 4 != 0 {
				before -= 1;
			}
			let mut v = nops(before);
			let here = before as Idx;
			v.push(if table {
				SInsn::TableSwitch { default: 0, low: i32::MAX - 3, targets: vec![0, here, 1, here - 1] }
			} else {
				SInsn::LookupSwitch { default: 0, pairs: vec![(i32::MIN, 0), (-1, here), (0, 1), (i32::MAX, here - 1)] }
			});
			push(format!("far/switch-backward/pad{pad}/table{table}"), v, 0);
		}
	}
	// a short branch at every third byte of a 65535-byte method: every position-dependent step of the target
	// arithmetic (255/256, 32767/32768, the end) is crossed by some forward and some backward branch
	for o in [op::GOTO, op::IFEQ, op::JSR, op::IFNONNULL] {
		let n = 21845usize;
		let v: Vec<SInsn> = (0..n).map(|i| SInsn::Branch(o, if i % 5 == 4 { i.saturating_sub(3) } else { (i + 7).min(n - 1) } as Idx)).collect();
		push(format!("far/short-branches-everywhere/op{o:#x}"), v, 0);
	}
	// switches with as many arms as fit into a method
	for (low, n) in [(i32::MIN, 16000usize), (i32::MAX - 15999, 16000), (-8000, 16378)] {
		let mut v = vec![NOP, NOP, NOP];
		v.push(SInsn::TableSwitch { default: 4, low, targets: (0..n).map(|i| [0, 3, 4, 5][i % 4] as Idx).collect() });
		v.push(NOP);
		v.push(RETURN);
		push(format!("far/tableswitch-{n}-arms/low{low}"), v, 0);
	}
	for n in [8000usize, 8189] {
		let mut v = vec![NOP, NOP, NOP];
		v.push(SInsn::LookupSwitch { default: 0, pairs: (0..n).map(|i| ((i32::MIN as i64 + i as i64 * 524287) as i32, [0, 3, 4, 5][i % 4] as Idx)).collect() });
		v.push(NOP);
		v.push(RETURN);
		push(format!("far/lookupswitch-{n}-pairs"), v, 0);
	}
	out
}

/// a method of exactly 65535 bytes with every code table pointing at the offset boundaries
fn big_tables(variant: usize) -> SClass {
	// [0..a) nops, a: new p/T (3 bytes), nops, last: return at 65534
	let a = [40000usize, 32767, 255][variant % 3];
	let mut insns = nops(a);
	insns.push(SInsn::New(js("p/T")));
	let rest = 65535 - a - 3 - 1;
	insns.extend(nops(rest));
	insns.push(RETURN);
	let n = insns.len() as Idx; // end-of-code index
	let last = n - 1;
	let a = a as Idx;
	// instruction index of byte offset o (all instructions but `new` are 1 byte)
	// (an offset inside `new` stands for the instruction after it)
	let at = |o: u32| -> Idx { if o <= a { o } else if o < a + 3 { a + 1 } else { o - 2 } };
	let vt = vtypes(n);
	let mut code = SCode { max_stack: 65535, max_locals: 65535, insns, ..Default::default() };
	code.exceptions = vec![
		SExceptionEntry { start: 0, end: n, handler: last, catch: None },
		SExceptionEntry { start: a, end: a + 1, handler: 0, catch: Some(js("java/lang/Throwable")) },
		SExceptionEntry { start: at(32767), end: at(32768), handler: at(32768), catch: Some(js("p/E")) },
		SExceptionEntry { start: last, end: n, handler: at(65533), catch: None },
	];
	code.line_numbers = vec![(0, 1), (at(255), 255), (at(256), 256), (at(32767), 32767), (at(32768), 32768), (a, 7), (at(65533), 65533), (last, 65535), (last, 0)];
	code.local_vars = vec![
		SLocalVar { start: 0, end: n, name: js("whole"), ty: js("I"), index: 0 },
		SLocalVar { start: last, end: n, name: js("tail"), ty: js("J"), index: 65534 },
		SLocalVar { start: a, end: a, name: js("empty"), ty: js("Lp/T;"), index: 65535 },
		SLocalVar { start: at(32768), end: at(32769), name: js("mid"), ty: js("[I"), index: 256 },
		SLocalVar { start: 1, end: at(65534), name: js("almost"), ty: js("D"), index: 255 },
	];
	code.local_var_types = vec![
		SLocalVar { start: 0, end: n, name: js("whole"), ty: js("TX;"), index: 0 },
		SLocalVar { start: at(32767), end: n, name: js("late"), ty: js("Lp/T<TX;>;"), index: 65535 },
	];
	code.frames = vec![
		(at(63), SFrame::Same),
		(at(127), SFrame::SameLocals1(SVType::Integer)),
		(at(128), SFrame::Chop(2)),
		(at(255), SFrame::Append(vt[1..3].to_vec())),
		(at(256), SFrame::Same),
		(at(32767), SFrame::SameLocals1(SVType::Uninitialized(a))),
		(at(32768), SFrame::Full { locals: vec![SVType::Uninitialized(a), SVType::Object(js("p/T")), SVType::Long], stack: vec![SVType::Uninitialized(a)] }),
		(at(65533), SFrame::Chop(1)),
		(last, SFrame::Same),
	];
	if variant % 3 == 2 {
		// the first frame far away: one delta of 65534
		code.frames = vec![(last, SFrame::Full { locals: vec![], stack: vec![SVType::Uninitialized(a)] })];
	}
	code.frames.sort_by_key(|(i, _)| *i);
	code.frames.dedup_by_key(|(i, _)| *i);
	let ann = |t: STarget, p: Vec<(u8, u8)>| STypeAnnotation { target: t, path: p, annotation: SAnnotation { type_name: js("Lp/TA;"), pairs: vec![] } };
	code.visible_type = vec![
		ann(STarget::Offset { target_type: 0x44, at: a }, vec![]),
		ann(STarget::LocalVar { target_type: 0x40, table: vec![(0, n, 0), (last, n, 65535), (at(32768), at(32768), 1)] }, vec![(3, 7)]),
		ann(STarget::TypeArgument { target_type: 0x47, at: last, index: 255 }, vec![(0, 0)]),
		ann(STarget::Offset { target_type: 0x43, at: at(65533) }, vec![]),
	];
	code.invisible_type = vec![ann(STarget::LocalVar { target_type: 0x41, table: vec![(at(32767), last, 300)] }, vec![]), ann(STarget::Offset { target_type: 0x46, at: at(32768) }, vec![(1, 0)])];
	let mut mm = m("tables", vec![]);
	mm.code = Some(code);
	let mut c = big_class("p/BigTables", vec![m("before", vec![SInsn::Branch(op::GOTO, 1), RETURN]), mm, m("after", vec![SInsn::Branch(op::GOTO, 1), RETURN])]);
	normalize(&mut c);
	c
}

/// a label at every one of the 65536 offsets of a method: a line number entry per instruction of a
/// 65535-byte method plus a local variable that is live to the end
fn label_everywhere() -> SClass {
	let mut insns = nops(65534);
	insns.push(RETURN);
	let n = insns.len() as Idx;
	let mut code = SCode { max_stack: 0, max_locals: 1, insns, ..Default::default() };
	code.line_numbers = (0..n).map(|i| (i, (i % 65536) as u16)).collect();
	code.local_vars = vec![SLocalVar { start: 0, end: n, name: js("v"), ty: js("I"), index: 0 }];
	code.exceptions = vec![SExceptionEntry { start: 0, end: n, handler: n - 1, catch: None }];
	let mut mm = m("everywhere", vec![]);
	mm.code = Some(code);
	let mut c = big_class("p/LabelEverywhere", vec![mm]);
	normalize(&mut c);
	c
}

/// splits a long instruction list into methods of at most 65535 bytes (`width` = the largest encoded size of
/// one of the instructions), each closed by a `return`
fn split_methods(prefix: &str, insns: Vec<SInsn>, width: usize) -> Vec<SMethod> {
	let per = (65535 - 1) / width;
	insns.chunks(per).enumerate().map(|(i, c)| {
		let mut v = c.to_vec();
		v.push(RETURN);
		m(&format!("{prefix}{i}"), v)
	}).collect()
}

/// complete operand ranges, one class per instruction family
fn dense_cases(quick: bool) -> Vec<(String, SClass, Encoding)> {
	let mut out: Vec<(String, SClass, Encoding)> = Vec::new();
	let e = |form: u8| Encoding { default_form: form, ..Default::default() };
	// bipush: all 256, sipush: all 65536
	let mut v: Vec<SInsn> = (i8::MIN..=i8::MAX).map(SInsn::BiPush).collect();
	v.extend((i16::MIN..=i16::MAX).map(SInsn::SiPush));
	out.push(("dense/push".into(), big_class("p/DensePush", split_methods("push", v, 3)), e(0)));
	// iinc: every (index, constant) of the narrow form; wide form: every index with boundary constants and every
	// constant with boundary indices
	let mut v = Vec::new();
	for x in 0..=255u16 {
		for d in i8::MIN..=i8::MAX {
			v.push(SInsn::IInc(x, d as i16));
		}
	}
	out.push(("dense/iinc-narrow".into(), big_class("p/DenseIinc", split_methods("iinc", v.clone(), 3)), e(0)));
	if !quick {
		out.push(("dense/iinc-narrow-as-wide".into(), big_class("p/DenseIinc", split_methods("iinc", v, 6)), e(2)));
	}
	let mut v = Vec::new();
	for x in 0..=65535u16 {
		for d in [i16::MIN, -129, 128, i16::MAX] {
			v.push(SInsn::IInc(x, d));
		}
	}
	for d in i16::MIN..=i16::MAX {
		for x in [0u16, 256, 65535] {
			v.push(SInsn::IInc(x, d));
		}
	}
	out.push(("dense/iinc-wide".into(), big_class("p/DenseIincW", split_methods("iincw", v, 6)), e(0)));
	// loads, stores, ret: every local index, shortest form and widest form
	for (ki, k) in [LvKind::I, LvKind::L, LvKind::F, LvKind::D, LvKind::A].into_iter().enumerate() {
		for store in [false, true] {
			let v: Vec<SInsn> = (0..=65535u16).map(|x| if store { SInsn::Store(k, x) } else { SInsn::Load(k, x) }).collect();
			out.push((format!("dense/local/kind{ki}/store{store}/shortest"), big_class("p/DenseLocal", split_methods("lv", v.clone(), 4)), e(0)));
			let narrow: Vec<SInsn> = v[..256].to_vec();
			out.push((format!("dense/local/kind{ki}/store{store}/no-n-form"), big_class("p/DenseLocal", split_methods("lv", narrow.clone(), 4)), e(1)));
			out.push((format!("dense/local/kind{ki}/store{store}/wide"), big_class("p/DenseLocal", split_methods("lv", narrow, 4)), e(2)));
		}
	}
	let v: Vec<SInsn> = (0..=65535u16).map(SInsn::Ret).collect();
	out.push(("dense/ret".into(), big_class("p/DenseRet", split_methods("ret", v.clone(), 4)), e(0)));
	out.push(("dense/ret-wide".into(), big_class("p/DenseRet", split_methods("ret", v[..256].to_vec(), 4)), e(2)));
	// newarray: all 8 types; multianewarray: every dimension count 1..=255 on a 255-dimensional array class
	let arr = format!("{}I", "[".repeat(255));
	let mut v: Vec<SInsn> = (4..=11u8).map(SInsn::NewArray).collect();
	v.extend((1..=255u8).map(|d| SInsn::MultiANewArray(js(&arr), d)));
	out.push(("dense/arrays".into(), big_class("p/DenseArrays", split_methods("arr", v, 4)), e(0)));
	// every opcode without operands, each followed by every other one (all ordered pairs): a decoding slip that
	// mistakes one opcode for another or consumes a byte too many shows in the neighbour
	let simple: Vec<u8> = (0..=255u8).filter(|o| op::is_simple(*o)).collect();
	let mut v = Vec::new();
	for &a in &simple {
		for &b in &simple {
			v.push(SInsn::Simple(a));
			v.push(SInsn::Simple(b));
		}
	}
	out.push(("dense/simple-pairs".into(), big_class("p/DensePairs", split_methods("sp", v, 1)), e(0)));
	// every instruction sample (boundary operands, every constant kind, every member reference kind) followed by
	// every other one: a decoding arm that consumes a byte too many or too few shows in its neighbour
	// (dynamic constants that have dynamic constants among their bootstrap arguments are left out: several hundred
	// loads of them need more than the 32768 resolved bootstrap arguments the reader allows per class file, which
	// is the business of `limits`)
	let nested = |b: &SBootstrap| b.args.iter().any(|a| matches!(a, SConst::Dynamic(_)));
	let samples: Vec<SInsn> = insn_samples().into_iter().filter(|i| match i {
		SInsn::Branch(..) | SInsn::TableSwitch { .. } | SInsn::LookupSwitch { .. } | SInsn::Simple(_) => false,
		SInsn::Ldc(SConst::Dynamic(d)) => !nested(&d.bootstrap),
		SInsn::InvokeDynamic(d) => !nested(&d.bootstrap),
		_ => true,
	}).collect();
	let mut v = Vec::new();
	for a in &samples {
		for b in &samples {
			v.push(a.clone());
			v.push(b.clone());
		}
	}
	for form in 0..3u8 {
		if quick && form == 1 {
			continue;
		}
		out.push((format!("dense/sample-pairs/form{form}"), big_class("p/SamplePairs", split_methods("pp", v.clone(), 6)), e(form)));
	}
	out
}

/// A class whose constant pool is filled up to the limit: `ints` Integer and `longs` Long constants, each
/// loaded once, and a last method that uses one constant of every other kind. Under the pool orders below
/// every kind of entry is met at indices below 256, above 32767 and close to 65534.
fn full_pool_class(ints: usize, longs: usize) -> SClass {
	let mut v: Vec<SInsn> = Vec::new();
	for i in 0..ints.max(longs) {
		if i < ints {
			v.push(SInsn::Ldc(SConst::Int(i as i32 * 7 - 100_000)));
		}
		if i < longs {
			v.push(SInsn::Ldc(SConst::Long(i as i64 * 1_000_003 - 5)));
		}
	}
	let mut methods = split_methods("fill", v, 3);
	let mut tail: Vec<SInsn> = insn_samples().into_iter().filter(|i| !matches!(i, SInsn::Branch(..) | SInsn::TableSwitch { .. } | SInsn::LookupSwitch { .. } | SInsn::Simple(_))).collect();
	tail.push(RETURN);
	methods.push(m("tail", tail));
	let mut c = big_class("p/FullPool", methods);
	c.fields.push(SField { access: 0x0019, name: js("k"), desc: js("Ljava/lang/String;"), constant_value: Some(SConst::Str(js("constant"))), signature: Some(js("TX;")), ..Default::default() });
	c.interfaces = vec![js("p/I0"), js("p/I1")];
	c.source_file = Some(js("FullPool.java"));
	c.nest_host = Some(js("p/Host"));
	c.annotations.visible = annotations(2);
	c.inner_classes = Some(vec![SInnerClass { inner: js("p/FullPool$In"), outer: Some(js("p/FullPool")), name: Some(js("In")), flags: 0x0009 }]);
	c.enclosing_method = Some((js("p/Outer"), Some((js("run"), js("()V")))));
	c.record = Some(vec![SRecordComponent { name: js("rc"), desc: js("I"), signature: Some(js("TX;")), ..Default::default() }]);
	normalize(&mut c);
	c
}

pub fn run(ctx: &'static Ctx) -> (Stats, serde_json::Value) {
	let quick = ctx.quick();
	let mut cases = far_cases(quick);
	for variant in 0..3usize {
		let c = big_tables(variant);
		cases.push((format!("far/tables{variant}/default"), c.clone(), Encoding::default()));
		cases.push((format!("far/tables{variant}/extended-split-reversed"), c.clone(), Encoding { frames_extended: true, split_tables: true, attr_order: AttrOrder::Reversed, pool: PoolOrder::Reversed, ..Default::default() }));
		if !quick {
			for k in 1..8 {
				cases.push((format!("far/tables{variant}/rot{k}"), c.clone(), Encoding { attr_order: AttrOrder::Rotated(k), split_tables: k % 2 == 0, ..Default::default() }));
			}
		}
	}
	cases.push(("far/label-at-every-offset".into(), label_everywhere(), Encoding::default()));
	{
		// a stack map frame at every instruction of a 65535-byte method (65535 frames, every offset_delta 0)
		let mut c = label_everywhere();
		if let Some(code) = &mut c.methods[0].code {
			let n = code.insns.len() as Idx;
			code.frames = (0..n).map(|i| (i, if i % 2 == 0 { SFrame::Same } else { SFrame::SameLocals1(SVType::Integer) })).collect();
			code.line_numbers.truncate(3);
		}
		cases.push(("far/frame-at-every-offset".into(), c.clone(), Encoding::default()));
		cases.push(("far/frame-at-every-offset/extended".into(), c, Encoding { frames_extended: true, ..Default::default() }));
	}
	cases.push(("far/label-at-every-offset/split".into(), label_everywhere(), Encoding { attr_order: AttrOrder::Reversed, ..Default::default() }));
	let n_far = cases.len();
	cases.extend(dense_cases(quick));
	let n_dense = cases.len() - n_far;
	// the pool filled to the limit: 10000 Long (20000 slots) + whatever the rest of the class needs + as many
	// Integer entries as still fit (the last entry gets index 65534)
	let longs = 10000usize;
	let base_slots = {
		let mut st = Stats::new();
		let b = assemble_or_skip(&mut st, "pool/full/base", &full_pool_class(0, longs), &Encoding::default()).unwrap_or_else(|| vcore::machinery_fail("pool/full/base cannot be assembled"));
		match cfmodel::parse(&b) {
			Ok(p) => p.pool_count as usize - 1,
			Err(e) => vcore::machinery_fail(&format!("pool/full/base: {e}")),
		}
	};
	// (more Integer loads need more methods, whose names are pool entries too: approach the limit from below)
	let slots_with = |ints: usize| -> Option<usize> {
		let mut st = Stats::new();
		let b = assemble_or_skip(&mut st, "pool/full/probe", &full_pool_class(ints, longs), &Encoding::default())?;
		cfmodel::parse(&b).ok().map(|p| p.pool_count as usize - 1)
	};
	let mut ints = 65534 - base_slots - 16;
	for _ in 0..4 {
		match slots_with(ints) {
			Some(s) if s < 65534 && slots_with(ints + 65534 - s).is_some() => ints += 65534 - s,
			_ => break,
		}
	}
	let full = full_pool_class(ints, longs);
	let full_slots = slots_with(ints).unwrap_or(0);
	let mut pool_orders = vec![PoolOrder::FirstUse, PoolOrder::Reversed, PoolOrder::Utf8First, PoolOrder::Utf8Last, PoolOrder::Rotated(32000), PoolOrder::Rotated(100)];
	if !quick {
		for k in [1usize, 255, 256, 20000, 40000, 54000, 54500, 55000, 55200] {
			pool_orders.push(PoolOrder::Rotated(k));
		}
	}
	let n_pool = pool_orders.len();
	for (i, po) in pool_orders.into_iter().enumerate() {
		cases.push((format!("pool/full/{po:?}"), full.clone(), Encoding { pool: po, default_form: (i % 3) as u8, ..Default::default() }));
	}
	// a small pool variant whose every index is ≤ 255 is the suite's business; here also a medium one around 255/256
	cases.push(("pool/around-256".into(), full_pool_class(200, 20), Encoding::default()));
	cases.push(("pool/around-256/reversed".into(), full_pool_class(200, 20), Encoding { pool: PoolOrder::Reversed, ..Default::default() }));

	let results: Vec<(Stats, Measure)> = cases.into_par_iter().map(|(label, model, enc)| {
		let mut st = Stats::new();
		let mut ms = Measure::default();
		if let Some(bytes) = assemble_or_skip(&mut st, &label, &model, &enc) {
			ms = Measure::of(&bytes);
			vcore::watched(|| replay_text(&label, &bytes), || check_bytes(ctx, &mut st, &label, &bytes, Some(&model)));
			let insns: usize = model.methods.iter().map(|m| m.code.as_ref().map(|c| c.insns.len()).unwrap_or(0)).sum();
			st.outcome_n("instructions-compared", insns as u64);
		}
		(st, ms)
	}).collect();
	let mut total = Stats::new();
	let mut ms = Measure::default();
	for (st, x) in results {
		total = total.merge(st);
		ms.add(&x);
	}
	ctx.floor("narrow branch offsets of exactly +32767", 18, ms.narrow_max);
	ctx.floor("narrow branch offsets of exactly -32768", 18, ms.narrow_min);
	ctx.floor("wide branch offsets beyond +32767", 10, ms.wide_far_forward);
	ctx.floor("wide branch offsets beyond -32768", 10, ms.wide_far_backward);
	ctx.floor("wide branch offsets of magnitude >= 65530", 4, ms.wide_extreme);
	ctx.floor("code offsets >= 32768 in tables", 50, ms.pc_ge_32768);
	ctx.floor("code offsets or lengths of exactly 65535 in tables", 5, ms.pc_at_65535);
	ctx.floor("methods with code_length 65535", 10, ms.code_length_65535);
	ctx.floor("constant pool indices >= 32768 in use", 10_000, ms.pool_index_ge_32768);
	ctx.floor("constant pool indices >= 65000 in use", 100, ms.pool_index_ge_65000);
	ctx.floor("slots of the full constant pool", 65530, full_slots as u64);
	ctx.floor("local variable index 65535 in wide form", 10, ms.local_index_65535);
	ctx.floor("instructions compared in the big-method spaces", 1_000_000, total.get("instructions-compared"));
	ctx.floor("big-method classes read without any difference", (n_far + n_dense) as u64 / 2, total.get("equal"));
	let bounds = json!({
		"far_offset_cases": n_far,
		"narrow_distances": if quick { "32766..32769 forward, 32767..32770 backward, for all 18 opcodes with a 16-bit offset" } else { "32760..32775 forward, 32761..32776 backward, for all 18 opcodes with a 16-bit offset" },
		"extremes": "goto_w/jsr_w over 65530 bytes both ways; tableswitch/lookupswitch at each padding with arms 60000 bytes forward and 65500 bytes backward; tableswitch up to 16378 arms, lookupswitch up to 8189 pairs",
		"tables": "3 methods of 65535 bytes with exception, line, local variable, local variable type, frame and type annotation entries at 255/256, 32767/32768, 65533..65535; a label at each of the 65536 offsets",
		"dense_operand_cases": n_dense,
		"dense": "all ordered pairs of the instruction samples with operands (shortest and widest forms, thorough also plain); bipush 256, sipush 65536, iinc narrow 256x256, iinc wide all indices x 4 constants + all constants x 3 indices, every local index 0..65535 for 5 kinds x load/store and ret, newarray 8, multianewarray 1..255, all ordered pairs of operand-free opcodes",
		"full_pool": {"integers": ints, "longs": longs, "slots_in_use": full_slots, "orders": n_pool},
	});
	(total, bounds)
}
