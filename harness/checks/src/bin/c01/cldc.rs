//! The CLDC `StackMap` attribute (class files of Java ME; `class_reader.rs` has an arm of its own for it and
//! cfmodel's reference parser reads it the way its specification defines: explicit offsets in ascending order,
//! every frame a full frame). The assembler has no notion of it, so the attribute is written here by hand as
//! the bytes of a Code-level attribute named `StackMap`; the reference parser then has to read exactly the
//! frames this module intended (three-way, like everywhere else).
//!
//! Space: every program of ≤ 3 instructions (+ `return`) over {nop, sipush, new, goto→t, ifeq→t} with every
//! target t, × every non-empty set of instruction positions that carry a frame. Branch targets make the reader
//! create labels before it meets the frames, in an order that differs from the order of the offsets.

use cfmodel::asm::Encoding;
use cfmodel::gen::*;
use cfmodel::model::*;
use rayon::prelude::*;
use vcore::{json, Ctx, Stats};
use crate::{assemble_or_skip, check_bytes, replay_text};

#[derive(Clone, Copy)]
enum Item {
	Nop,
	SiPush,
	New,
	Goto(Idx),
	IfEq(Idx),
}

fn items(len: usize) -> Vec<Item> {
	let mut v = vec![Item::Nop, Item::SiPush, Item::New];
	for t in 0..=len as Idx {
		v.push(Item::Goto(t));
		v.push(Item::IfEq(t));
	}
	v
}

fn insn(i: Item) -> (SInsn, u16) {
	match i {
		Item::Nop => (SInsn::Simple(op::NOP), 1),
		Item::SiPush => (SInsn::SiPush(300), 3),
		Item::New => (SInsn::New(js("p/T")), 3),
		Item::Goto(t) => (SInsn::Branch(op::GOTO, t), 3),
		Item::IfEq(t) => (SInsn::Branch(op::IFEQ, t), 3),
	}
}

/// the verification types of the frame at position `p`: (model, bytes); pool indices under first-use order:
/// 2 = this class, 4 = super class
fn frame_at(p: usize, this: &JS, sup: &JS) -> (SFrame, Vec<u8>) {
	let menu: Vec<(SVType, Vec<u8>)> = vec![
		(SVType::Integer, vec![1]),
		(SVType::Object(this.clone()), vec![7, 0, 2]),
		(SVType::Uninitialized(0), vec![8, 0, 0]),
		(SVType::Long, vec![4]),
		(SVType::Top, vec![0]),
		(SVType::Null, vec![5]),
		(SVType::UninitializedThis, vec![6]),
		(SVType::Double, vec![3]),
	];
	let locals: Vec<&(SVType, Vec<u8>)> = menu.iter().skip(p % 3).take(p % 4 + 1).collect();
	let stack: Vec<(SVType, Vec<u8>)> = if p % 2 == 0 { vec![] } else { vec![(SVType::Object(sup.clone()), vec![7, 0, 4]), (SVType::Float, vec![2])] };
	let mut b = Vec::new();
	b.extend_from_slice(&(locals.len() as u16).to_be_bytes());
	for (_, x) in &locals {
		b.extend_from_slice(x);
	}
	b.extend_from_slice(&(stack.len() as u16).to_be_bytes());
	for (_, x) in &stack {
		b.extend_from_slice(x);
	}
	(SFrame::Full { locals: locals.iter().map(|(t, _)| t.clone()).collect(), stack: stack.iter().map(|(t, _)| t.clone()).collect() }, b)
}

pub fn run(ctx: &'static Ctx) -> (Stats, serde_json::Value) {
	let mut jobs: Vec<(usize, u64, u32)> = Vec::new(); // (len, program index, frame position set)
	let max_len = ctx.tier.pick(3usize, 4usize);
	for len in 1..=max_len {
		let k = items(len).len() as u64;
		for idx in 0..k.pow(len as u32) {
			for set in 1..(1u32 << (len + 1)) {
				jobs.push((len, idx, set));
			}
		}
	}
	let n_jobs = jobs.len();
	let total = jobs.into_par_iter().fold(Stats::new, |mut st, (len, idx, set)| {
		let its = items(len);
		let k = its.len() as u64;
		let mut insns = Vec::new();
		let mut offsets: Vec<u16> = Vec::new();
		let mut pos = 0u16;
		let mut x = idx;
		let mut branches = 0;
		for _ in 0..len {
			let it = its[(x % k) as usize];
			x /= k;
			let (i, w) = insn(it);
			if matches!(it, Item::Goto(_) | Item::IfEq(_)) {
				branches += 1;
			}
			insns.push(i);
			offsets.push(pos);
			pos += w;
		}
		insns.push(RETURN);
		offsets.push(pos);
		let this = js("p/Cldc");
		let sup = js("java/lang/Object");
		let mut frames: Vec<(Idx, SFrame)> = Vec::new();
		let mut body: Vec<u8> = Vec::new();
		let positions: Vec<usize> = (0..=len).filter(|p| set & (1 << p) != 0).collect();
		body.extend_from_slice(&(positions.len() as u16).to_be_bytes());
		for &p in &positions {
			let (f, b) = frame_at(p, &this, &sup);
			body.extend_from_slice(&offsets[p].to_be_bytes());
			body.extend_from_slice(&b);
			frames.push((p as Idx, f));
		}
		let version = [(45u16, 3u16), (47, 0), (49, 0), (61, 0)][(idx % 4) as usize];
		let mut written = class_with_method("p/Cldc", insns.clone());
		written.version = version;
		let mut expected = written.clone();
		if let Some(c) = &mut written.methods[0].code {
			c.unknown = vec![SUnknown { name: js("StackMap"), bytes: body }];
		}
		if let Some(c) = &mut expected.methods[0].code {
			c.frames = frames;
		}
		let label = format!("cldc/len{len}/{idx}/frames{set:#b}");
		if let Some(bytes) = assemble_or_skip(&mut st, &label, &written, &Encoding::default()) {
			vcore::watched(|| replay_text(&label, &bytes), || check_bytes(ctx, &mut st, &label, &bytes, Some(&expected)));
			if positions.len() >= 2 && branches > 0 {
				st.outcome("two-or-more-frames-in-a-method-with-branches");
			}
			st.outcome_n("stackmap-frames-written", positions.len() as u64);
		}
		st
	}).reduce(Stats::new, Stats::merge);
	ctx.floor("cldc: cases that reached the reader", n_jobs as u64, total.evaluations);
	ctx.floor("cldc: methods with branches and two or more StackMap frames", 5_000, total.get("two-or-more-frames-in-a-method-with-branches"));
	ctx.floor("cldc: StackMap frames written", 20_000, total.get("stackmap-frames-written"));
	let bounds = json!({
		"programs": format!("all sequences of 1..={max_len} instructions over {{nop, sipush, new, goto->t, ifeq->t}} (every target) + return"),
		"frames": "every non-empty set of instruction positions; full frames with 1..=4 locals of 8 verification types and 0 or 2 stack items",
		"cases": n_jobs,
	});
	(total, bounds)
}
