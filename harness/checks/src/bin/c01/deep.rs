//! Nesting depths up to the reader's own bounds, met exactly.
//!
//! `class_reader.rs` bounds the nesting of element values (`MAX_ELEMENT_VALUE_DEPTH` = 256 containers — arrays
//! or annotations — below a top-level value) and `pool.rs` the nesting of dynamic constants in bootstrap
//! arguments (`MAX_DYNAMIC_DEPTH` = 256 constants in a chain). The reference parser follows 64 / 32 levels
//! only, so `limits` stops at 60 / 30. Here every depth 1..=256 is explored with a two-way oracle that needs
//! no reference parser: the class is assembled from a model and the projection of the tree the reader returns
//! must state exactly that model (where the reference parser can follow, it is consulted as well, three-way,
//! like everywhere else). Depths above the reader's documented bounds (257, 258, 300, 1000) are explored for
//! "no panic, no hang, no silently wrong answer" only: a clean refusal there is recorded, not judged.
//!
//! Shapes: arrays in arrays, annotations in annotations, array/annotation alternating (both phases) — each as
//! the value of a class annotation (the named entry point of the reader), as an `AnnotationDefault` (the
//! unnamed entry point) and inside a type annotation; dynamic constants loaded by `ldc` and as an argument of
//! an `invokedynamic` bootstrap method.
//!
//! The cases run on threads with a 64 MiB stack, so that the verdict does not depend on the stack size rayon
//! happens to give its workers.

use cfmodel::asm::{Encoding, PoolOrder};
use cfmodel::gen::*;
use cfmodel::model::*;
use rayon::prelude::*;
use vcore::{json, Ctx, Stats};
use crate::{assemble_or_skip, replay_text, Verdict};

/// what the reader documents as its bounds
const READER_ELEMENT_VALUE_DEPTH: usize = 256;
const READER_DYNAMIC_DEPTH: usize = 256;

fn leaf(i: usize) -> SElementValue {
	[SElementValue::Str(js("leaf")), SElementValue::Const(b'I', SConst::Int(7)), SElementValue::Enum { type_name: js("Lp/E;"), const_name: js("K") }, SElementValue::Array(vec![])][i % 4].clone()
}

/// `k` containers around a leaf; shape 0: arrays, 1: annotations, 2: array outermost then alternating,
/// 3: annotation outermost then alternating
fn nested(shape: usize, k: usize) -> SElementValue {
	// (an empty array as leaf is a container itself: use the other leaves so that `k` is exact)
	let mut v = leaf(k % 3);
	for level in (0..k).rev() {
		let array = match shape {
			0 => true,
			1 => false,
			2 => level % 2 == 0,
			_ => level % 2 == 1,
		};
		v = if array {
			SElementValue::Array(vec![SElementValue::Const(b'I', SConst::Int(level as i32)), v])
		} else {
			SElementValue::Annotation(SAnnotation { type_name: js(&format!("Lp/N{};", level % 5)), pairs: vec![(js("w"), SElementValue::Const(b'Z', SConst::Int((level % 2) as i32))), (js("v"), v)] })
		};
	}
	v
}

fn element_value_class(carrier: usize, shape: usize, k: usize) -> SClass {
	let mut c = skeleton("p/Deep");
	let v = nested(shape, k);
	match carrier {
		0 => c.annotations.visible = vec![SAnnotation { type_name: js("Lp/A;"), pairs: vec![(js("first"), SElementValue::Str(js("s"))), (js("deep"), v), (js("last"), SElementValue::Const(b'I', SConst::Int(1)))] }],
		1 => {
			c.methods.push(SMethod { access: 0x0401, name: js("before"), desc: js("()I"), annotation_default: Some(SElementValue::Const(b'I', SConst::Int(1))), ..Default::default() });
			c.methods.push(SMethod { access: 0x0401, name: js("d"), desc: js("()I"), annotation_default: Some(v), ..Default::default() });
			c.methods.push(SMethod { access: 0x0401, name: js("after"), desc: js("()I"), annotation_default: Some(SElementValue::Str(js("after"))), ..Default::default() });
		},
		_ => {
			c.fields.push(SField { access: 0x0002, name: js("f"), desc: js("I"), annotations: SAnnotations { invisible_type: vec![STypeAnnotation { target: STarget::Empty(0x13), path: vec![(3, 1)], annotation: SAnnotation { type_name: js("Lp/TA;"), pairs: vec![(js("deep"), v)] } }], ..Default::default() }, ..Default::default() });
			c.fields.push(SField { access: 0x0002, name: js("g"), desc: js("I"), ..Default::default() });
		},
	}
	c
}

const BSM_DESC: &str = "(Ljava/lang/invoke/MethodHandles$Lookup;Ljava/lang/String;Ljava/lang/Class;[Ljava/lang/Object;)Ljava/lang/Object;";

fn boot_handle() -> SHandle {
	SHandle { kind: 6, member: mref("p/Boot", "bsm", BSM_DESC), interface: false }
}

/// a chain of `k` dynamic constants (all with the same bootstrap method handle): each but the innermost has the
/// next one among its bootstrap arguments
fn condy_chain(k: usize) -> SConst {
	let mut d = SDynamic { bootstrap: SBootstrap { handle: boot_handle(), args: vec![SConst::Str(js("innermost"))] }, name: js("d0"), desc: js("I") };
	for i in 1..k {
		d = SDynamic { bootstrap: SBootstrap { handle: boot_handle(), args: if i % 2 == 0 { vec![SConst::Dynamic(Box::new(d)), SConst::Int(i as i32)] } else { vec![SConst::Int(i as i32), SConst::Dynamic(Box::new(d))] } }, name: js(&format!("d{i}")), desc: js("I") };
	}
	SConst::Dynamic(Box::new(d))
}

/// site 0: the chain is loaded by `ldc_w`; site 1: it is an argument of the bootstrap method of an `invokedynamic`
fn condy_class(site: usize, k: usize) -> SClass {
	let insns = match site {
		0 => vec![SInsn::Ldc(condy_chain(k)), RETURN],
		_ => vec![SInsn::Simple(op::NOP), SInsn::InvokeDynamic(SDynamic { bootstrap: SBootstrap { handle: boot_handle(), args: vec![SConst::Int(0), condy_chain(k)] }, name: js("run"), desc: js("()V") }), RETURN],
	};
	class_with_method("p/DeepCondy", insns)
}

/// The bytes of `condy_class(site, k)`, written by hand in time linear in `k` (the assembler looks bootstrap methods
/// up by comparing them, which is cubic in the length of such a chain). `reverse`: the levels are laid out innermost
/// last in the constant pool and in the BootstrapMethods table, so that every reference points forward. For the
/// depths the reference parser follows it must read `condy_class(site, k)` from these bytes (checked for every one
/// of them: the hand-written layout is the same for every `k`).
fn condy_bytes(site: usize, k: usize, reverse: bool) -> Vec<u8> {
	// (bytes of the pool entries, constant_pool_count so far)
	let state = std::cell::RefCell::new((Vec::<u8>::new(), 1u16));
	let add = |bytes: Vec<u8>| -> u16 {
		let mut s = state.borrow_mut();
		s.0.extend_from_slice(&bytes);
		s.1 += 1;
		s.1 - 1
	};
	let utf8 = |s: &str| -> Vec<u8> { [vec![1u8], (s.len() as u16).to_be_bytes().to_vec(), s.as_bytes().to_vec()].concat() };
	let one = |tag: u8, a: u16| -> Vec<u8> { [vec![tag], a.to_be_bytes().to_vec()].concat() };
	let two = |tag: u8, a: u16, b: u16| -> Vec<u8> { [vec![tag], a.to_be_bytes().to_vec(), b.to_be_bytes().to_vec()].concat() };
	let this_name = add(utf8("p/DeepCondy"));
	let this = add(one(7, this_name));
	let super_name = add(utf8("java/lang/Object"));
	let sup = add(one(7, super_name));
	let m_name = add(utf8("m"));
	let void_desc = add(utf8("()V"));
	let code_name = add(utf8("Code"));
	let bm_name = add(utf8("BootstrapMethods"));
	let boot_name = add(utf8("p/Boot"));
	let boot = add(one(7, boot_name));
	let bsm_name = add(utf8("bsm"));
	let bsm_desc = add(utf8(BSM_DESC));
	let bsm_nat = add(two(12, bsm_name, bsm_desc));
	let bsm_ref = add(two(10, boot, bsm_nat));
	let handle = add([vec![15u8, 6], bsm_ref.to_be_bytes().to_vec()].concat());
	let int_desc = add(utf8("I"));
	let innermost_utf = add(utf8("innermost"));
	let innermost = add(one(8, innermost_utf));
	let int0 = add([vec![3u8], 0i32.to_be_bytes().to_vec()].concat());
	let run_name = add(utf8("run"));
	let run_nat = add(two(12, run_name, void_desc));
	// level i lies at slot(i) of the pool block and of the bootstrap table; 4 pool entries per level
	let slot = |i: usize| if reverse { k - 1 - i } else { i };
	let base = state.borrow().1;
	let dyn_index = |i: usize| base + 4 * slot(i) as u16 + 3;
	let int_index = |i: usize| base + 4 * slot(i) as u16 + 2;
	let mut by_slot: Vec<usize> = (0..k).collect();
	if reverse {
		by_slot.reverse();
	}
	for &i in &by_slot {
		let name = add(utf8(&format!("d{i}")));
		let nat = add(two(12, name, int_desc));
		add([vec![3u8], (i as i32).to_be_bytes().to_vec()].concat());
		add(two(17, slot(i) as u16, nat));
	}
	// the call site's bootstrap method is the entry after the chain's
	let indy = add(two(18, k as u16, run_nat));
	let mut table: Vec<u8> = Vec::new();
	let entries = if site == 1 { k + 1 } else { k };
	table.extend_from_slice(&(entries as u16).to_be_bytes());
	for &i in &by_slot {
		table.extend_from_slice(&handle.to_be_bytes());
		let args: Vec<u16> = if i == 0 { vec![innermost] } else if i % 2 == 0 { vec![dyn_index(i - 1), int_index(i)] } else { vec![int_index(i), dyn_index(i - 1)] };
		table.extend_from_slice(&(args.len() as u16).to_be_bytes());
		for a in args {
			table.extend_from_slice(&a.to_be_bytes());
		}
	}
	if site == 1 {
		table.extend_from_slice(&handle.to_be_bytes());
		table.extend_from_slice(&2u16.to_be_bytes());
		table.extend_from_slice(&int0.to_be_bytes());
		table.extend_from_slice(&dyn_index(k - 1).to_be_bytes());
	}
	let code: Vec<u8> = if site == 0 {
		[vec![0x13u8], dyn_index(k - 1).to_be_bytes().to_vec(), vec![0xb1]].concat()
	} else {
		[vec![0x00u8, 0xba], indy.to_be_bytes().to_vec(), vec![0, 0, 0xb1]].concat()
	};
	let mut code_attr: Vec<u8> = Vec::new();
	code_attr.extend_from_slice(&10u16.to_be_bytes()); // max_stack, max_locals as `method_with` has them
	code_attr.extend_from_slice(&300u16.to_be_bytes());
	code_attr.extend_from_slice(&(code.len() as u32).to_be_bytes());
	code_attr.extend_from_slice(&code);
	code_attr.extend_from_slice(&[0, 0, 0, 0]); // no exception table, no attributes
	let mut out: Vec<u8> = vec![0xca, 0xfe, 0xba, 0xbe, 0, 0, 0, 61];
	let (pool, count) = state.into_inner();
	out.extend_from_slice(&count.to_be_bytes());
	out.extend_from_slice(&pool);
	out.extend_from_slice(&0x0021u16.to_be_bytes());
	out.extend_from_slice(&this.to_be_bytes());
	out.extend_from_slice(&sup.to_be_bytes());
	out.extend_from_slice(&[0, 0, 0, 0, 0, 1]); // no interfaces, no fields, one method
	out.extend_from_slice(&0x0009u16.to_be_bytes());
	out.extend_from_slice(&m_name.to_be_bytes());
	out.extend_from_slice(&void_desc.to_be_bytes());
	out.extend_from_slice(&1u16.to_be_bytes());
	out.extend_from_slice(&code_name.to_be_bytes());
	out.extend_from_slice(&(code_attr.len() as u32).to_be_bytes());
	out.extend_from_slice(&code_attr);
	out.extend_from_slice(&1u16.to_be_bytes());
	out.extend_from_slice(&bm_name.to_be_bytes());
	out.extend_from_slice(&(table.len() as u32).to_be_bytes());
	out.extend_from_slice(&table);
	out
}

/// The two-way oracle: `bytes` were assembled from `model`; the projection of what the reader returns must state
/// `model`. Where the reference parser can follow the nesting, it must read `model` too (machinery otherwise).
/// `within` = the depth is within the bounds the reader documents: a refusal is a difference.
fn check_two_way(ctx: &Ctx, st: &mut Stats, label: &str, bytes: &[u8], model: &SClass, within: bool) -> Verdict {
	st.eval();
	match cfmodel::parse(bytes) {
		Ok(p) => {
			if &p.class != model {
				let d = cfmodel::sdiff::diff(model, &p.class);
				vcore::machinery_fail(&format!("{label}: assembler and reference parser disagree: {:?}", d.0.first()));
			}
			st.outcome("three-way (the reference parser follows)");
		},
		Err(e) if e.msg.contains("nest deeper than") => st.outcome("two-way (beyond the reference parser's reach)"),
		Err(e) => vcore::machinery_fail(&format!("{label}: the reference parser rejects a class of the test set: {e}")),
	}
	st.distinct.add(model);
	let scope = if within { "" } else { "beyond-the-readers-depth-bound:" };
	let tree = match vcore::guard(|| duke::read_class(&mut std::io::Cursor::new(bytes))) {
		Err(p) => {
			st.outcome("panic");
			ctx.diff(&format!("{scope}panic@{}", p.file()), &format!("reader panicked at {}: {}", p.site, p.msg), || replay_text(label, bytes));
			return Verdict::Panicked;
		},
		Ok(Err(e)) => {
			if within {
				st.outcome("refused");
				ctx.diff("reader:refused-valid-class", &format!("the reader refuses a well-formed class: {}", format!("{e:#}").chars().take(300).collect::<String>()), || replay_text(label, bytes));
			} else {
				st.outcome("refused beyond the reader's documented depth bound (recorded, not judged)");
			}
			return Verdict::Refused;
		},
		Ok(Ok(t)) => t,
	};
	let projected = match cfmodel::duke_proj::project(&tree) {
		Ok(p) => p,
		Err(e) => {
			st.outcome("inconsistent-tree");
			ctx.diff(&format!("{scope}reader:inconsistent-tree"), &format!("the tree refers to a position that does not exist: {e}"), || replay_text(label, bytes));
			return Verdict::Inconsistent;
		},
	};
	let diffs = cfmodel::sdiff::diff(model, &projected);
	if diffs.is_empty() {
		st.outcome("equal");
		return Verdict::Equal;
	}
	st.outcome("differs");
	for (key, detail) in diffs.0 {
		// (the detail of a difference 256 levels deep is long: keep its head)
		ctx.diff(&format!("{scope}{key}"), &detail.chars().take(600).collect::<String>(), || replay_text(label, bytes));
	}
	Verdict::Differs
}

/// `--replay` of a case of this space
pub fn replay(ctx: &Ctx, st: &mut Stats, label: &str, bytes: &[u8]) {
	// the model is not in the replay file: what the reference parser cannot follow is replayed for panics and
	// refusals only (the sweep names the shape and depth in the label)
	let within = !label.contains("/beyond/");
	let r = vcore::guard(|| duke::read_class(&mut std::io::Cursor::new(bytes)));
	match r {
		Err(p) => ctx.diff(&format!("{}panic@{}", if within { "" } else { "beyond-the-readers-depth-bound:" }, p.file()), &format!("reader panicked at {}: {}", p.site, p.msg), || replay_text(label, bytes)),
		Ok(Err(e)) if within => ctx.diff("reader:refused-valid-class", &format!("the reader refuses a well-formed class: {}", format!("{e:#}").chars().take(300).collect::<String>()), || replay_text(label, bytes)),
		_ => {},
	}
	st.eval();
}

pub fn run(ctx: &'static Ctx) -> (Stats, serde_json::Value) {
	// (label, model, within the reader's bound?)
	let mut cases: Vec<(String, SClass, bool)> = Vec::new();
	let beyond = [READER_ELEMENT_VALUE_DEPTH + 1, READER_ELEMENT_VALUE_DEPTH + 2, 300, 1000];
	for carrier in 0..3usize {
		for shape in 0..4usize {
			for k in 1..=READER_ELEMENT_VALUE_DEPTH {
				cases.push((format!("deep/element-value/within/carrier{carrier}/shape{shape}/depth{k}"), element_value_class(carrier, shape, k), true));
			}
			for k in beyond {
				cases.push((format!("deep/element-value/beyond/carrier{carrier}/shape{shape}/depth{k}"), element_value_class(carrier, shape, k), false));
			}
		}
	}
	let n_ev = cases.len();
	// dynamic constants: the assembler's classes up to depth 40 (two pool orders), the hand-written ones at every depth
	let mut prebuilt: Vec<(String, SClass, bool, Vec<u8>)> = Vec::new();
	for site in 0..2usize {
		for k in 1..=40usize {
			cases.push((format!("deep/dynamic-constant/within/assembled/site{site}/depth{k}"), condy_class(site, k), true));
		}
		for k in (1..=READER_DYNAMIC_DEPTH).chain([READER_DYNAMIC_DEPTH + 1, READER_DYNAMIC_DEPTH + 2, 300, 1000]) {
			let within = k <= READER_DYNAMIC_DEPTH;
			let model = condy_class(site, k);
			for reverse in [false, true] {
				prebuilt.push((format!("deep/dynamic-constant/{}/by-hand/site{site}/reverse-{reverse}/depth{k}", if within { "within" } else { "beyond" }), model.clone(), within, condy_bytes(site, k, reverse)));
			}
		}
	}
	let n_condy = cases.len() - n_ev + prebuilt.len();
	let pool = match rayon::ThreadPoolBuilder::new().stack_size(64 << 20).build() {
		Ok(p) => p,
		Err(e) => vcore::machinery_fail(&format!("deep: cannot build a thread pool: {e}")),
	};
	let condy_cases = cases.split_off(n_ev);
	let run_cases = |cases: Vec<(String, SClass, bool)>| pool.install(|| {
		cases.into_par_iter().fold(Stats::new, |mut st, (label, model, within)| {
			let encs = [Encoding::default(), Encoding { pool: PoolOrder::Reversed, default_form: 2, ..Default::default() }];
			for (ei, enc) in encs.iter().enumerate() {
				if ei == 1 && !within {
					continue;
				}
				let l = format!("{label}/enc{ei}");
				let Some(bytes) = assemble_or_skip(&mut st, &l, &model, enc) else { vcore::machinery_fail(&format!("{l}: cannot be assembled")) };
				let v = vcore::watched(|| replay_text(&l, &bytes), || check_two_way(ctx, &mut st, &l, &bytes, &model, within));
				if within && v == Verdict::Equal {
					st.outcome("within-bound-equal");
					if label.contains("/element-value/within/") && label.ends_with(&format!("depth{READER_ELEMENT_VALUE_DEPTH}")) {
						st.outcome("element values at the reader's bound read equal");
					}
					if label.contains("/dynamic-constant/within/") && label.ends_with(&format!("depth{READER_DYNAMIC_DEPTH}")) {
						st.outcome("dynamic constants at the reader's bound read equal");
					}
				}
				if within {
					st.outcome("within-bound");
				}
			}
			st
		}).reduce(Stats::new, Stats::merge)
	});
	let t0 = ctx.elapsed_s();
	let st_ev = run_cases(cases);
	let t1 = ctx.elapsed_s();
	let st_condy = run_cases(condy_cases);
	let st_hand = pool.install(|| {
		prebuilt.into_par_iter().fold(Stats::new, |mut st, (label, model, within, bytes)| {
			let v = vcore::watched(|| replay_text(&label, &bytes), || check_two_way(ctx, &mut st, &label, &bytes, &model, within));
			if within {
				st.outcome("within-bound");
				if v == Verdict::Equal {
					st.outcome("within-bound-equal");
					if label.ends_with(&format!("depth{READER_DYNAMIC_DEPTH}")) {
						st.outcome("dynamic constants at the reader's bound read equal");
					}
				}
			}
			st
		}).reduce(Stats::new, Stats::merge)
	});
	let st_condy = st_condy.merge(st_hand);
	if std::env::var_os("C01_DEBUG").is_some() {
		eprintln!("deep: element values {:.1}s, dynamic constants {:.1}s", t1 - t0, ctx.elapsed_s() - t1);
	}
	let total = st_ev.merge(st_condy);
	ctx.floor("deep: cases beyond the reference parser's reach (two-way oracle)", 5_000, total.get("two-way (beyond the reference parser's reach)"));
	ctx.floor("deep: cases the reference parser follows (three-way)", 1_000, total.get("three-way (the reference parser follows)"));
	ctx.floor("deep: element values nested exactly as deep as the reader allows, read without any difference", 24, total.get("element values at the reader's bound read equal"));
	ctx.floor("deep: dynamic constants nested exactly as deep as the reader allows, read without any difference", 4, total.get("dynamic constants at the reader's bound read equal"));
	ctx.floor("deep: classes within the reader's bounds read without any difference", total.get("within-bound"), total.get("within-bound-equal"));
	let bounds = json!({
		"element_values": {"depths": "every depth 1..=256", "shapes": 4, "carriers": 3, "beyond_the_bound": beyond, "cases": n_ev},
		"dynamic_constants": {"depths": "assembled 1..=40; written by hand every depth 1..=256", "sites": 2, "layouts": "references backward / forward", "beyond_the_bound": [READER_DYNAMIC_DEPTH + 1, READER_DYNAMIC_DEPTH + 2, 300, 1000], "cases": n_condy},
		"encodings": 2,
		"stack_of_the_worker_threads_mib": 64,
	});
	(total, bounds)
}
