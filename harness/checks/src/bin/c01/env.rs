//! The environment of the reader: a class file is the same class file whichever legal `Read + Seek` it arrives
//! through. `Read::read` may serve fewer bytes than asked for (a `BufReader` at the end of its buffer, a zip
//! entry, a file on a network share) and may ask for a retry with `ErrorKind::Interrupted`. The deviation from
//! the default environment (a cursor over a slice: every request served in full) is enumerated — chunk sizes,
//! `BufReader` capacities, periodic boundaries with every phase, one boundary at every byte offset of small
//! classes — and the tree the real reader returns must state the same facts as the tree read from a cursor,
//! with the reader left at the end of the class.

use crate::io::{self, ReaderKind};
use rayon::prelude::*;
use vcore::{json, Ctx, Stats};

fn alphabet(len: usize, full: bool) -> Vec<ReaderKind> {
	use ReaderKind as K;
	let mut v = vec![K::Chunk(1), K::Chunk(3), K::Buf(5), K::Interrupted(2), K::Periodic { period: 7, phase: 3 }];
	if !full {
		return v;
	}
	v.extend([2, 5, 8, 13].map(K::Chunk));
	v.extend([1, 2, 3, 4, 7, 8, 16, 64, 8192].map(K::Buf));
	v.extend([1, 4, 16].map(K::BufOverChunk3));
	v.extend([1, 4].map(K::Interrupted));
	for period in [2usize, 3, 4, 5, 8, 16, 61] {
		for phase in 0..period.min(4) {
			v.push(K::Periodic { period, phase });
		}
	}
	let step = if len <= 600 { 1 } else { len / 211 + 1 };
	v.extend((1..len).step_by(step).map(K::SplitAt));
	v
}

/// `bytes` is a well-formed class; what the reader makes of it through a cursor is judged by `check_bytes`,
/// here only: through every other reader it makes the same of it
fn one_class(ctx: &Ctx, st: &mut Stats, label: &str, bytes: &[u8], full: bool) {
	let base = match vcore::guard(|| duke::read_class(&mut std::io::Cursor::new(bytes))) {
		Ok(Ok(t)) => t,
		_ => {
			st.outcome("not-read-from-a-cursor (judged by the other spaces)");
			return;
		},
	};
	let Ok(base) = cfmodel::duke_proj::project(&base) else { return };
	for kind in alphabet(bytes.len(), full) {
		let fam = kind.family();
		let replay = || format!("reader={kind:?}\n{}", crate::replay_text(label, bytes));
		st.eval();
		let (res, trace) = io::with_seek_reader(kind, bytes, |mut r| vcore::guard(|| duke::read_class(&mut r)));
		match res {
			Err(p) => {
				st.outcome("env-panic");
				ctx.diff(&format!("environment:{fam}-reader:panic@{}", p.file()), &format!("through {kind:?} the reader panicked at {} on a class it reads from a cursor: {}", p.site, p.msg), replay);
			},
			Ok(Err(e)) => {
				st.outcome("env-refused");
				ctx.diff(&format!("environment:{fam}-reader:refused"), &format!("through {kind:?} the reader refuses a class it reads from a cursor: {}", format!("{e:#}").chars().take(300).collect::<String>()), replay);
			},
			Ok(Ok(tree)) => match cfmodel::duke_proj::project(&tree) {
				Err(e) => ctx.diff(&format!("environment:{fam}-reader:inconsistent-tree"), &e, replay),
				Ok(p) if p != base => {
					st.outcome("env-differs");
					let d = cfmodel::sdiff::diff(&base, &p);
					let first = d.0.first().map(|(k, t)| format!("{k}: {t}")).unwrap_or_default();
					ctx.diff(&format!("environment:{fam}-reader:differs"), &format!("through {kind:?} the reader returns another class than from a cursor over the same bytes: {first}"), replay);
				},
				Ok(_) if trace.consumed != bytes.len() => {
					st.outcome("env-position");
					ctx.diff(&format!("environment:{fam}-reader:position"), &format!("through {kind:?} the reader is left at byte {} of {}", trace.consumed, bytes.len()), replay);
				},
				Ok(_) => {
					st.outcome("env-equal");
					if trace.short_serves > 0 {
						st.outcome("env-equal-with-requests-served-short");
					}
					if trace.interrupts > 0 {
						st.outcome("env-equal-with-interrupts");
					}
				},
			},
		}
	}
}

pub fn run(ctx: &'static Ctx) -> (Stats, serde_json::Value) {
	if let Err(e) = io::self_test() {
		vcore::machinery_fail(&format!("scripted readers: {e}"));
	}
	let quick = ctx.tier == vcore::Tier::Quick;
	// the classes: the vendored corpus, and the suite groups that carry one instance of nearly everything
	let mut cases: Vec<(String, Vec<u8>, bool)> = Vec::new();
	for (i, (name, bytes)) in cfmodel::corpus::vendored(&vcore::verif_root()).into_iter().enumerate() {
		let full = i % ctx.tier.pick(2, 1) == 0 && bytes.len() < 8000;
		cases.push((format!("env/corpus/{name}"), bytes, full));
	}
	let mut st0 = Stats::new();
	for (group, models) in cfmodel::suite::listed_groups(quick) {
		let every = match group {
			"attribute-orders-and-contents" | "cldc-stack-map" | "empty-debug-tables" => 1,
			_ => ctx.tier.pick(23, 5),
		};
		for (i, (label, m, e)) in models.into_iter().enumerate() {
			if i % every != 0 {
				continue;
			}
			if let Some(bytes) = crate::assemble_or_skip(&mut st0, &label, &m, &e) {
				let full = (i / every) % ctx.tier.pick(2, 1) == 0 && bytes.len() < 8000;
				cases.push((format!("env/{group}/{label}"), bytes, full));
			}
		}
	}
	let n_cases = cases.len();
	let n_full = cases.iter().filter(|c| c.2).count();
	let st = cases.par_iter().fold(Stats::new, |mut st, (label, bytes, full)| {
		vcore::watched(|| crate::replay_text(label, bytes), || one_class(ctx, &mut st, label, bytes, *full));
		st
	}).reduce(Stats::new, Stats::merge);
	ctx.floor("environment: reads through a reader that served requests short, equal to the read from a cursor", ctx.tier.pick(20_000, 200_000), st.get("env-equal-with-requests-served-short"));
	ctx.floor("environment: reads with Interrupted answers, equal to the read from a cursor", 1_000, st.get("env-equal-with-interrupts"));
	let bounds = json!({
		"classes": n_cases,
		"classes_with_the_full_alphabet": n_full,
		"small_alphabet": format!("{:?}", alphabet(1, false)),
		"full_alphabet": format!("{:?} + one boundary at every byte offset (classes up to 600 bytes; a grid of 211 offsets beyond)", alphabet(1, true)),
	});
	(st, bounds)
}

/// `--replay` of a case of this space (its text starts with `reader=`)
pub fn replay(ctx: &Ctx, st: &mut Stats, label: &str, bytes: &[u8]) {
	one_class(ctx, st, label, bytes, true);
}
