//! Small complete spaces of single facts and of pairs of facts that could be mixed up:
//!
//! * `flags`     — every flag word of the format, bit by bit (plus 0, all ones, the mask, its complement)
//! * `versions`  — every major 45..=55 with minor versions of every size class
//! * `names`     — odd but valid names in every role a name can play
//! * `utf16`     — every UTF-16 code unit, every kind of surrogate neighbourhood, as string constants
//! * `members`   — every subset of the attribute menu of a field / method / Code / record component on one
//!                 member with the complement on its neighbour; subsets of the class attribute menu
//! * `misplaced` — every JVMS attribute name in every container for which the JVMS does not define it
//! * `bootstrap` — every short sequence of dynamic constants and call sites that share, or do not share,
//!                 bootstrap methods, names and descriptors
//! * `tables`    — pairs of code tables (exceptions, frames, lines, local variables, type annotations), each at
//!                 every position of short programs with instructions of different sizes

use cfmodel::asm::{AttrOrder, Encoding, PoolOrder};
use cfmodel::gen::*;
use cfmodel::model::*;
use cfmodel::parse::mask;
use rayon::prelude::*;
use vcore::{json, Ctx, Stats};
use crate::{check_model, check_model_expect};

type Case = (String, SClass, Option<SClass>, Encoding);

fn ann_i(i: usize) -> SAnnotation {
	SAnnotation { type_name: js(&format!("Lp/A{i};")), pairs: vec![(js("v"), SElementValue::Const(b'I', SConst::Int(i as i32)))] }
}

fn tann_i(target: STarget, i: usize) -> STypeAnnotation {
	STypeAnnotation { target, path: vec![(3, (i % 256) as u8)], annotation: ann_i(i + 100) }
}

fn unk(tag: &str, i: usize) -> SUnknown {
	SUnknown { name: js(&format!("x.{tag}")), bytes: vec![0xca, 0xfe, i as u8] }
}

// ---------------------------------------------------------------------------------------------
// flags

fn flag_values(m: u16) -> Vec<u16> {
	let mut v: Vec<u16> = (0..16).map(|b| 1u16 << b).collect();
	v.extend([0, 0xFFFF, m, !m]);
	v
}

fn flags_cases() -> Vec<Case> {
	let mut out: Vec<Case> = Vec::new();
	let mut add = |ctx_name: &str, v: u16, model: SClass, expected: SClass| {
		out.push((format!("flags/{ctx_name}/{v:#06x}"), model, Some(expected), Encoding::default()));
	};
	for v in flag_values(mask::CLASS) {
		let mk = |x: u16| {
			let mut c = class_with_method("p/Flags", vec![RETURN]);
			c.access = x;
			c
		};
		add("class", v, mk(v), mk(v & mask::CLASS));
	}
	for v in flag_values(mask::FIELD) {
		let mk = |x: u16| {
			let mut c = skeleton("p/Flags");
			c.fields.push(SField { access: 0x0001, name: js("before"), desc: js("I"), ..Default::default() });
			c.fields.push(SField { access: x, name: js("f"), desc: js("I"), ..Default::default() });
			c.fields.push(SField { access: 0x0002, name: js("after"), desc: js("I"), ..Default::default() });
			c
		};
		add("field", v, mk(v), mk(v & mask::FIELD));
	}
	for v in flag_values(mask::METHOD) {
		let mk = |x: u16| {
			let mut c = skeleton("p/Flags");
			c.methods.push(SMethod { access: 0x0401, name: js("before"), desc: js("()V"), ..Default::default() });
			c.methods.push(SMethod { access: x, name: js("m"), desc: js("()V"), ..Default::default() });
			c.methods.push(SMethod { access: 0x0102, name: js("after"), desc: js("()V"), ..Default::default() });
			c
		};
		add("method", v, mk(v), mk(v & mask::METHOD));
	}
	for v in flag_values(mask::INNER_CLASS) {
		let mk = |x: u16| {
			let mut c = skeleton("p/Flags");
			c.inner_classes = Some(vec![
				SInnerClass { inner: js("p/Flags$A"), outer: Some(js("p/Flags")), name: Some(js("A")), flags: 0x0001 },
				SInnerClass { inner: js("p/Flags$B"), outer: None, name: None, flags: x },
				SInnerClass { inner: js("p/Flags$C"), outer: Some(js("p/Flags")), name: Some(js("C")), flags: 0x0002 },
			]);
			c
		};
		add("inner-class", v, mk(v), mk(v & mask::INNER_CLASS));
	}
	for v in flag_values(mask::PARAMETER) {
		let mk = |x: u16| {
			let mut c = skeleton("p/Flags");
			c.methods.push(SMethod { access: 0x0401, name: js("m"), desc: js("(III)V"), parameters: Some(vec![(Some(js("a")), 0x0010), (None, x), (Some(js("c")), 0x8000)]), ..Default::default() });
			c
		};
		add("parameter", v, mk(v), mk(v & mask::PARAMETER));
	}
	for (which, m) in [("module", mask::MODULE), ("requires", mask::REQUIRES), ("exports", mask::EXPORTS), ("opens", mask::EXPORTS)] {
		for v in flag_values(m) {
			let mk = |x: u16| {
				let mut c = module_class(false, 2);
				if let Some(md) = &mut c.module {
					match which {
						"module" => md.flags = x,
						"requires" => md.requires[1].1 = x,
						"exports" => md.exports[1].1 = x,
						_ => md.opens[0].1 = x,
					}
				}
				c
			};
			add(which, v, mk(v), mk(v & m));
		}
	}
	out
}

// ---------------------------------------------------------------------------------------------
// versions

fn version_cases() -> Vec<Case> {
	let mut out = Vec::new();
	for major in 45..=55u16 {
		for minor in [0u16, 1, 2, 3, 4, 255, 256, 32767, 32768, 65534, 65535] {
			if major == 45 && minor < 3 {
				continue; // the property's range starts at 45.3
			}
			let mut c = class_with_method("p/Ver", vec![RETURN]);
			c.version = (major, minor);
			out.push((format!("version/{major}.{minor}"), c, None, Encoding::default()));
		}
	}
	out
}

// ---------------------------------------------------------------------------------------------
// names

fn cat(parts: &[&JS]) -> JS {
	JS(parts.iter().flat_map(|p| p.0.iter().copied()).collect())
}

/// unqualified names that are unusual and valid (JVMS 4.2.2: at least one code point, none of `. ; [ /`;
/// method names also without `<` and `>`); bool = usable as a method name
fn name_samples() -> Vec<(JS, bool)> {
	let mut v: Vec<(JS, bool)> = Vec::new();
	for s in ["$", "a b", " ", "a-b+c", "1", "(", ")", "()V", ":", "@", "\\", "\"", "L", "I", "V", "J", "module-info", "package-info", "a\tb", "a\nb", "é", "a\u{2028}b", "#", "%", "'", ",", "=", "?", "^", "`", "{|}", "~", "!", "&", "*"] {
		v.push((js(s), true));
	}
	for s in ["<x>", "<", ">", "<init>x", "a<b", "<clinit", "init>"] {
		v.push((js(s), false));
	}
	for u in [vec![0u16], vec![0x41, 0, 0x42], vec![0x7f], vec![0x80], vec![0x7ff], vec![0x800], vec![0xffff], vec![0xd83d, 0xde00], vec![0xd800], vec![0xdfff], vec![0xdc00, 0xd800], vec![0x41, 0xd800, 0x42]] {
		v.push((JS(u), true));
	}
	v.push((JS(vec![0x61; 4000]), true));
	v
}

/// a class that uses `n` in every role a name can play
fn names_class(n: &JS, method_ok: bool) -> SClass {
	let p = js("p/");
	let cls = |suffix: &str| cat(&[&p, n, &js(suffix)]);
	let desc = |suffix: &str| cat(&[&js("Lp/"), n, &js(suffix), &js(";")]);
	let mname = if method_ok { n.clone() } else { js("m") };
	let mut c = SClass { version: (61, 0), access: 0x0021, this_class: cls(""), super_class: Some(cls("S")), interfaces: vec![cls("I"), cat(&[n]), cat(&[n, &js("/"), n])], ..Default::default() };
	c.fields.push(SField { access: 0x0001, name: n.clone(), desc: desc(""), signature: Some(cat(&[&js("T"), n, &js(";")])), ..Default::default() });
	c.fields.push(SField { access: 0x0008, name: cat(&[n, n]), desc: cat(&[&js("[["), &desc("")]), ..Default::default() });
	let mdesc = cat(&[&js("("), &desc(""), &js("I["), &desc("A"), &js(")"), &desc("R")]);
	let owner = cls("O");
	let fref = SMemberRef { owner: owner.clone(), name: n.clone(), desc: desc("") };
	let mref_ = SMemberRef { owner: owner.clone(), name: mname.clone(), desc: mdesc.clone() };
	let handle = SHandle { kind: 6, member: SMemberRef { owner: owner.clone(), name: mname.clone(), desc: js("()V") }, interface: false };
	let boot = SBootstrap { handle: handle.clone(), args: vec![SConst::Class(cls("C")), SConst::MethodType(mdesc.clone()), SConst::Str(n.clone()), SConst::Handle(SHandle { kind: 1, member: fref.clone(), interface: false })] };
	let insns = vec![
		SInsn::Field(op::GETSTATIC, fref.clone()),
		SInsn::Invoke(op::INVOKEVIRTUAL, mref_.clone(), false),
		SInsn::Invoke(op::INVOKEINTERFACE, SMemberRef { owner: cls("I"), name: mname.clone(), desc: js("()V") }, true),
		SInsn::Invoke(op::INVOKESTATIC, SMemberRef { owner: cat(&[&js("["), &desc("")]), name: js("clone"), desc: js("()Ljava/lang/Object;") }, false),
		SInsn::New(cls("N")),
		SInsn::ANewArray(cat(&[&js("["), &desc("")])),
		SInsn::CheckCast(cls("")),
		SInsn::InstanceOf(cat(&[n])),
		SInsn::MultiANewArray(cat(&[&js("[["), &desc("")]), 2),
		SInsn::Ldc(SConst::Class(cls("L"))),
		SInsn::Ldc(SConst::Str(n.clone())),
		SInsn::Ldc(SConst::Dynamic(Box::new(SDynamic { bootstrap: boot.clone(), name: n.clone(), desc: desc("") }))),
		SInsn::InvokeDynamic(SDynamic { bootstrap: boot.clone(), name: mname.clone(), desc: mdesc.clone() }),
		RETURN,
	];
	let k = insns.len() as Idx;
	let mut m = SMethod { access: 0x0001, name: mname.clone(), desc: mdesc.clone(), ..Default::default() };
	m.code = Some(SCode {
		max_stack: 9,
		max_locals: 9,
		insns,
		exceptions: vec![SExceptionEntry { start: 0, end: k, handler: 0, catch: Some(cls("E")) }],
		local_vars: vec![SLocalVar { start: 0, end: k, name: n.clone(), ty: desc(""), index: 1 }],
		local_var_types: vec![SLocalVar { start: 0, end: k, name: n.clone(), ty: cat(&[&js("T"), n, &js(";")]), index: 1 }],
		frames: vec![(1, SFrame::SameLocals1(SVType::Object(cls("F")))), (2, SFrame::Append(vec![SVType::Object(cat(&[&js("["), &desc("")]))]))],
		..Default::default()
	});
	m.exceptions = Some(vec![cls("X")]);
	m.signature = Some(cat(&[&js("<"), n, &js(":Ljava/lang/Object;>()V")]));
	m.parameters = Some(vec![(Some(n.clone()), 0), (Some(cat(&[n, n])), 0x0010)]);
	m.annotations.visible = vec![SAnnotation { type_name: desc("Ann"), pairs: vec![(n.clone(), SElementValue::Enum { type_name: desc("En"), const_name: n.clone() }), (cat(&[n, n]), SElementValue::Class(desc("Cl"))), (js("s"), SElementValue::Str(n.clone())), (js("n"), SElementValue::Annotation(SAnnotation { type_name: desc("In"), pairs: vec![(n.clone(), SElementValue::Array(vec![SElementValue::Str(n.clone())]))] }))] }];
	c.methods.push(m);
	c.methods.push(SMethod { access: 0x0401, name: js("dflt"), desc: js("()I"), annotation_default: Some(SElementValue::Enum { type_name: desc("En"), const_name: n.clone() }), ..Default::default() });
	c.inner_classes = Some(vec![SInnerClass { inner: cls("$In"), outer: Some(cls("")), name: Some(n.clone()), flags: 1 }]);
	c.enclosing_method = Some((cls("Out"), Some((mname.clone(), mdesc.clone()))));
	c.nest_host = Some(cls("Host"));
	c.nest_members = Some(vec![cls("$M1"), cls("$M2")]);
	c.permitted_subclasses = Some(vec![cls("Sub")]);
	c.record = Some(vec![SRecordComponent { name: n.clone(), desc: desc(""), signature: Some(cat(&[&js("T"), n, &js(";")])), ..Default::default() }]);
	c.signature = Some(cat(&[&js("<"), n, &js(":Ljava/lang/Object;>Ljava/lang/Object;")]));
	c.source_file = Some(cat(&[n, &js(".java")]));
	c.unknown = vec![SUnknown { name: cat(&[&js("x."), n]), bytes: vec![1] }];
	normalize(&mut c);
	c
}

fn names_module(n: &JS) -> SClass {
	let mut c = module_class(true, 2);
	if let Some(m) = &mut c.module {
		m.name = cat(&[&js("m."), n]);
		m.version = Some(n.clone());
		m.requires[1].0 = cat(&[n, &js(".r")]);
		m.requires[1].2 = Some(cat(&[n, n]));
		m.exports[0].0 = cat(&[&js("p/"), n]);
		m.exports[1].2 = vec![cat(&[&js("t."), n])];
		m.opens[0].0 = cat(&[&js("o/"), n]);
		m.uses[0] = cat(&[&js("p/U"), n]);
		m.provides[0] = (cat(&[&js("p/S"), n]), vec![cat(&[&js("p/Impl"), n])]);
	}
	c.module_packages = Some(vec![cat(&[&js("p/"), n]), cat(&[&js("o/"), n])]);
	c.module_main_class = Some(cat(&[&js("p/Main"), n]));
	c
}

fn names_cases() -> Vec<Case> {
	let mut out = Vec::new();
	for (i, (n, ok)) in name_samples().into_iter().enumerate() {
		out.push((format!("names/{i}/class"), names_class(&n, ok), None, Encoding::default()));
		out.push((format!("names/{i}/class/reversed-pool"), names_class(&n, ok), None, Encoding { pool: PoolOrder::Reversed, default_form: 2, ..Default::default() }));
		out.push((format!("names/{i}/module"), names_module(&n), None, Encoding::default()));
	}
	out
}

// ---------------------------------------------------------------------------------------------
// every UTF-16 code unit

fn utf16_cases() -> Vec<Case> {
	let mut out = Vec::new();
	// all 65536 code units in ascending order, in chunks that fit a Utf8 entry (≤ 65535 bytes)
	let mut insns = Vec::new();
	for chunk in 0..8u32 {
		let units: Vec<u16> = (chunk * 8192..(chunk + 1) * 8192).map(|u| u as u16).collect();
		insns.push(SInsn::Ldc(SConst::Str(JS(units.clone()))));
		// and in descending order (a low surrogate followed by a high one is not a pair)
		insns.push(SInsn::Ldc(SConst::Str(JS(units.into_iter().rev().collect()))));
	}
	insns.push(RETURN);
	out.push(("utf16/all-code-units".to_owned(), class_with_method("p/Utf16", insns), None, Encoding::default()));
	// surrogate neighbourhoods: every (x, y) over the boundaries of the surrogate blocks and their neighbours
	let edge: [u16; 12] = [0x41, 0, 0xd7ff, 0xd800, 0xd801, 0xdbfe, 0xdbff, 0xdc00, 0xdc01, 0xdffe, 0xdfff, 0xe000];
	let mut insns = Vec::new();
	for &x in &edge {
		for &y in &edge {
			insns.push(SInsn::Ldc(SConst::Str(JS(vec![x, y]))));
			for &z in &[0xd800u16, 0xdc00, 0x41] {
				insns.push(SInsn::Ldc(SConst::Str(JS(vec![x, y, z]))));
			}
		}
	}
	insns.push(RETURN);
	let mut c = class_with_method("p/Surrogates", insns);
	c.source_debug_extension = Some(JS(edge.iter().flat_map(|&x| edge.iter().map(move |&y| [x, y])).flatten().collect()));
	for enc in [Encoding::default(), Encoding { pool: PoolOrder::Reversed, default_form: 2, ..Default::default() }] {
		out.push(("utf16/surrogate-neighbourhoods".to_owned(), c.clone(), None, enc));
	}
	// a SourceDebugExtension longer than any Utf8 entry can be (the attribute has a u4 length)
	let mut c = skeleton("p/LongSde");
	c.source_debug_extension = Some(JS((0..200_000u32).map(|i| [0x41u16, 0, 0x7ff, 0x800, 0xd83d, 0xde00, 0xffff][(i % 7) as usize]).collect()));
	out.push(("utf16/sde-200000-units".to_owned(), c, None, Encoding::default()));
	out
}

// ---------------------------------------------------------------------------------------------
// members: subsets of attribute menus

fn field_with(i: usize, bits: u32) -> SField {
	let b = |k: u32| bits & (1 << k) != 0;
	SField {
		access: 0x0008,
		name: js(&format!("f{i}")),
		desc: js("I"),
		constant_value: b(0).then(|| SConst::Int(100 + i as i32)),
		synthetic: b(1),
		deprecated: b(2),
		signature: b(3).then(|| js(&format!("TF{i};"))),
		annotations: SAnnotations {
			visible: if b(4) { vec![ann_i(i)] } else { vec![] },
			invisible: if b(5) { vec![ann_i(i + 10)] } else { vec![] },
			visible_type: if b(6) { vec![tann_i(STarget::Empty(0x13), i)] } else { vec![] },
			invisible_type: if b(7) { vec![tann_i(STarget::Empty(0x13), i + 10)] } else { vec![] },
		},
		unknown: if b(8) { vec![unk("F", i)] } else { vec![] },
	}
}
const FIELD_MENU: u32 = 9;

fn code_with(i: usize, bits: u32) -> SCode {
	let b = |k: u32| bits & (1 << k) != 0;
	SCode {
		max_stack: i as u16,
		max_locals: 9,
		insns: vec![SInsn::BiPush(i as i8), SInsn::Simple(op::NOP), RETURN],
		exceptions: if b(0) { vec![SExceptionEntry { start: 0, end: 2, handler: 2, catch: Some(js(&format!("p/E{i}"))) }] } else { vec![] },
		frames: if b(1) { vec![(1, SFrame::SameLocals1(SVType::Object(js(&format!("p/T{i}"))))), (2, SFrame::Chop(1))] } else { vec![] },
		line_numbers: if b(2) { vec![(0, i as u16), (2, 9)] } else { vec![] },
		local_vars: if b(3) { vec![SLocalVar { start: 0, end: 3, name: js(&format!("v{i}")), ty: js("I"), index: i as u16 }] } else { vec![] },
		local_var_types: if b(4) { vec![SLocalVar { start: 1, end: 3, name: js(&format!("g{i}")), ty: js("TX;"), index: i as u16 }] } else { vec![] },
		visible_type: if b(5) { vec![tann_i(STarget::Catch(i as u16), i), tann_i(STarget::Offset { target_type: 0x44, at: 1 }, i)] } else { vec![] },
		invisible_type: if b(6) { vec![tann_i(STarget::LocalVar { target_type: 0x40, table: vec![(0, 3, i as u16)] }, i + 10)] } else { vec![] },
		unknown: if b(7) { vec![unk("C", i)] } else { vec![] },
		..Default::default()
	}
}
const CODE_MENU: u32 = 8;

fn method_with_bits(i: usize, bits: u32, code_bits: u32) -> SMethod {
	let b = |k: u32| bits & (1 << k) != 0;
	SMethod {
		access: if b(0) { 0x0009 } else { 0x0401 },
		name: js(&format!("m{i}")),
		desc: js("(I)V"),
		code: b(0).then(|| code_with(i, code_bits)),
		exceptions: b(1).then(|| vec![js(&format!("p/X{i}"))]),
		synthetic: b(2),
		deprecated: b(3),
		signature: b(4).then(|| js(&format!("<Y{i}:Ljava/lang/Object;>(I)V"))),
		annotations: SAnnotations {
			visible: if b(5) { vec![ann_i(i)] } else { vec![] },
			invisible: if b(6) { vec![ann_i(i + 10)] } else { vec![] },
			visible_type: if b(7) { vec![tann_i(STarget::Empty(0x14), i)] } else { vec![] },
			invisible_type: if b(8) { vec![tann_i(STarget::FormalParameter(i as u8), i + 10)] } else { vec![] },
		},
		visible_param_annotations: None,
		invisible_param_annotations: None,
		annotation_default: b(9).then(|| SElementValue::Const(b'I', SConst::Int(i as i32))),
		parameters: b(10).then(|| vec![(Some(js(&format!("p{i}"))), 0x0010)]),
		unknown: if b(11) { vec![unk("M", i)] } else { vec![] },
	}
}
const METHOD_MENU: u32 = 12;

fn component_with(i: usize, bits: u32) -> SRecordComponent {
	let b = |k: u32| bits & (1 << k) != 0;
	SRecordComponent {
		name: js(&format!("rc{i}")),
		desc: js("I"),
		signature: b(0).then(|| js(&format!("TR{i};"))),
		annotations: SAnnotations {
			visible: if b(1) { vec![ann_i(i)] } else { vec![] },
			invisible: if b(2) { vec![ann_i(i + 10)] } else { vec![] },
			visible_type: if b(3) { vec![tann_i(STarget::Empty(0x13), i)] } else { vec![] },
			invisible_type: if b(4) { vec![tann_i(STarget::Empty(0x13), i + 10)] } else { vec![] },
		},
		unknown: if b(5) { vec![unk("R", i)] } else { vec![] },
	}
}
const COMPONENT_MENU: u32 = 6;

const CLASS_MENU: u32 = 19;
fn class_with_bits(bits: u32) -> SClass {
	let b = |k: u32| bits & (1 << k) != 0;
	let mut c = skeleton("p/Menu");
	c.synthetic = b(0);
	c.deprecated = b(1);
	c.inner_classes = b(2).then(|| vec![SInnerClass { inner: js("p/Menu$I"), outer: Some(js("p/Menu")), name: Some(js("I")), flags: 9 }]);
	c.enclosing_method = b(3).then(|| (js("p/Out"), Some((js("run"), js("()V")))));
	c.signature = b(4).then(|| js("<X:Ljava/lang/Object;>Ljava/lang/Object;"));
	c.source_file = b(5).then(|| js("Menu.java"));
	c.source_debug_extension = b(6).then(|| js("SMAP"));
	if b(7) {
		c.annotations.visible = vec![ann_i(1)];
	}
	if b(8) {
		c.annotations.invisible = vec![ann_i(2)];
	}
	if b(9) {
		c.annotations.visible_type = vec![tann_i(STarget::Supertype(65535), 3)];
	}
	if b(10) {
		c.annotations.invisible_type = vec![tann_i(STarget::TypeParameter { target_type: 0, index: 1 }, 4)];
	}
	c.nest_host = b(11).then(|| js("p/Host"));
	c.nest_members = b(12).then(|| vec![js("p/Menu$N")]);
	c.permitted_subclasses = b(13).then(|| vec![js("p/Sub")]);
	c.record = b(14).then(|| vec![component_with(0, 0b100001)]);
	if b(15) {
		c.unknown = vec![unk("K", 0)];
	}
	if b(16) {
		// brings a BootstrapMethods attribute
		c.methods.push(method_with("indy", "()V", vec![SInsn::InvokeDynamic(SDynamic { bootstrap: bootstrap(0), name: js("run"), desc: js("()V") }), RETURN]));
	}
	if b(17) {
		c.fields.push(field_with(0, 0b1_0000_1001));
	}
	if b(18) {
		c.methods.push(method_with_bits(1, 0b1000_0011_0001, 0b1000_0110));
	}
	c
}

fn members_cases(quick: bool) -> Vec<Case> {
	let mut out: Vec<Case> = Vec::new();
	let e = Encoding::default();
	// fields: member 0 carries S, member 1 the complement, member 2 S again
	for s in 0..(1u32 << FIELD_MENU) {
		let all = (1u32 << FIELD_MENU) - 1;
		let mut c = skeleton("p/Members");
		c.fields = vec![field_with(0, s), field_with(1, all & !s), field_with(2, s)];
		out.push((format!("members/field/{s:#b}"), c, None, e.clone()));
	}
	for s in 0..(1u32 << METHOD_MENU) {
		let all = (1u32 << METHOD_MENU) - 1;
		let mut c = skeleton("p/Members");
		c.methods = vec![method_with_bits(0, s, s & 0xff), method_with_bits(1, all & !s, !s & 0xff), method_with_bits(2, s, (s >> 4) & 0xff)];
		out.push((format!("members/method/{s:#b}"), c, None, if s % 2 == 0 { e.clone() } else { Encoding { attr_order: AttrOrder::Reversed, ..Default::default() } }));
	}
	for s in 0..(1u32 << CODE_MENU) {
		let all = (1u32 << CODE_MENU) - 1;
		let mut c = skeleton("p/Members");
		c.methods = vec![method_with_bits(0, 1, s), method_with_bits(1, 1, all & !s), method_with_bits(2, 1, s)];
		out.push((format!("members/code/{s:#b}"), c.clone(), None, e.clone()));
		out.push((format!("members/code/{s:#b}/rotated"), c, None, Encoding { attr_order: AttrOrder::Rotated(3), pool: PoolOrder::Reversed, ..Default::default() }));
	}
	for s in 0..(1u32 << COMPONENT_MENU) {
		let all = (1u32 << COMPONENT_MENU) - 1;
		let mut c = skeleton("p/Members");
		c.record = Some(vec![component_with(0, s), component_with(1, all & !s), component_with(2, s)]);
		out.push((format!("members/record-component/{s:#b}"), c, None, e.clone()));
	}
	// every ordered pair of single attributes (or none) on two neighbouring members
	let singles = |menu: u32| -> Vec<u32> { std::iter::once(0).chain((0..menu).map(|k| 1 << k)).collect() };
	for a in singles(FIELD_MENU) {
		for b in singles(FIELD_MENU) {
			let mut c = skeleton("p/Members");
			c.fields = vec![field_with(0, a), field_with(1, b)];
			out.push((format!("members/field-pair/{a:#b}/{b:#b}"), c, None, e.clone()));
		}
	}
	for a in singles(METHOD_MENU) {
		for b in singles(METHOD_MENU) {
			let mut c = skeleton("p/Members");
			c.methods = vec![method_with_bits(0, a, 0xff), method_with_bits(1, b, 0)];
			out.push((format!("members/method-pair/{a:#b}/{b:#b}"), c, None, e.clone()));
		}
	}
	// the class attribute menu: every subset of at most 3 (thorough: 4) entries
	let max = if quick { 3 } else { 4 };
	for s in 0..(1u32 << CLASS_MENU) {
		if s.count_ones() <= max {
			out.push((format!("members/class/{s:#b}"), class_with_bits(s), None, e.clone()));
		}
	}
	out.push(("members/class/all".to_owned(), class_with_bits((1 << CLASS_MENU) - 1), None, e.clone()));
	out
}

// ---------------------------------------------------------------------------------------------
// JVMS attribute names where the JVMS does not define them

fn misplaced_cases() -> Vec<Case> {
	let levels = ["class", "field", "method", "code", "record-component"];
	// names the reference parser (and the JVMS) gives a meaning at each level
	let defined = |level: &str, name: &str| -> bool {
		match name {
			"Synthetic" | "Deprecated" => level != "code" && level != "record-component",
			"Signature" | "RuntimeVisibleAnnotations" | "RuntimeInvisibleAnnotations" => level != "code",
			"RuntimeVisibleTypeAnnotations" | "RuntimeInvisibleTypeAnnotations" => true,
			"SourceFile" | "SourceDebugExtension" | "InnerClasses" | "EnclosingMethod" | "BootstrapMethods" | "NestHost" | "NestMembers" | "PermittedSubclasses" | "ModulePackages" | "ModuleMainClass" | "Module" | "Record" => level == "class",
			"ConstantValue" => level == "field",
			"Exceptions" | "RuntimeVisibleParameterAnnotations" | "RuntimeInvisibleParameterAnnotations" | "AnnotationDefault" | "MethodParameters" | "Code" => level == "method",
			"LineNumberTable" | "LocalVariableTable" | "LocalVariableTypeTable" | "StackMapTable" | "StackMap" => level == "code",
			_ => false,
		}
	};
	let names: Vec<&str> = KNOWN_ATTRIBUTES.iter().copied().chain(["StackMap", "stackmaptable", "Code ", "Synthetic\u{0}"]).collect();
	let build = |picks: &[(usize, &str)]| -> SClass {
		let mut c = skeleton("p/Misplaced");
		c.fields.push(field_with(0, 0b1001));
		c.methods.push(method_with_bits(0, 0b10_0001_0011, 0b0000_0110));
		c.record = Some(vec![component_with(0, 0b11)]);
		for (k, (li, name)) in picks.iter().enumerate() {
			let u = SUnknown { name: js(name), bytes: vec![k as u8, 0, 1, 0xff] };
			match levels[*li] {
				"class" => c.unknown.push(u),
				"field" => c.fields[0].unknown.push(u),
				"method" => c.methods[0].unknown.push(u),
				"code" => {
					if let Some(code) = &mut c.methods[0].code {
						code.unknown.push(u)
					}
				},
				_ => {
					if let Some(r) = &mut c.record {
						r[0].unknown.push(u)
					}
				},
			}
		}
		normalize(&mut c);
		c
	};
	let mut out: Vec<Case> = Vec::new();
	let mut all: Vec<(usize, &str)> = Vec::new();
	for (li, level) in levels.iter().enumerate() {
		for name in &names {
			if !defined(level, name) {
				all.push((li, *name));
				out.push((format!("misplaced/{level}/{name}"), build(&[(li, *name)]), None, Encoding::default()));
			}
		}
	}
	out.push(("misplaced/all-at-once".to_owned(), build(&all), None, Encoding::default()));
	out.push(("misplaced/all-at-once/reversed".to_owned(), build(&all), None, Encoding { attr_order: AttrOrder::Reversed, pool: PoolOrder::Reversed, ..Default::default() }));
	out
}

// ---------------------------------------------------------------------------------------------
// bootstrap methods shared between dynamic constants and call sites

fn bootstrap_sites() -> Vec<SInsn> {
	let h0 = SHandle { kind: 6, member: mref("p/Boot", "bsm", "(Ljava/lang/invoke/MethodHandles$Lookup;Ljava/lang/String;Ljava/lang/Class;)Ljava/lang/Object;"), interface: false };
	let h1 = SHandle { kind: 6, member: mref("p/Boot", "other", "(Ljava/lang/invoke/MethodHandles$Lookup;Ljava/lang/String;Ljava/lang/Class;)Ljava/lang/Object;"), interface: false };
	let b0 = SBootstrap { handle: h0.clone(), args: vec![] };
	let b1 = SBootstrap { handle: h0.clone(), args: vec![SConst::Int(1)] };
	let b2 = SBootstrap { handle: h1, args: vec![SConst::Int(1)] };
	let b3 = SBootstrap { handle: h0, args: vec![SConst::Dynamic(Box::new(SDynamic { bootstrap: b0.clone(), name: js("x"), desc: js("I") })), SConst::Int(1)] };
	let mut v = Vec::new();
	for b in [&b0, &b1, &b2, &b3] {
		for name in ["x", "y"] {
			for desc in ["I", "Lp/T;"] {
				v.push(SInsn::Ldc(SConst::Dynamic(Box::new(SDynamic { bootstrap: b.clone(), name: js(name), desc: js(desc) }))));
			}
			v.push(SInsn::InvokeDynamic(SDynamic { bootstrap: b.clone(), name: js(name), desc: js("()V") }));
		}
	}
	v
}

fn bootstrap_cases(quick: bool) -> Vec<Case> {
	let sites = bootstrap_sites();
	let n = sites.len();
	let mut out: Vec<Case> = Vec::new();
	let max_len = if quick { 3 } else { 4 };
	for len in 1..=max_len {
		let total = n.pow(len as u32);
		for idx in 0..total {
			let mut k = idx;
			let mut seq = Vec::new();
			for _ in 0..len {
				seq.push(sites[k % n].clone());
				k /= n;
			}
			// in one method
			let mut one = seq.clone();
			one.push(RETURN);
			let enc = if idx % 2 == 0 { Encoding::default() } else { Encoding { pool: PoolOrder::Reversed, default_form: 2, attr_order: AttrOrder::Reversed, ..Default::default() } };
			out.push((format!("bootstrap/len{len}/{idx}/one-method"), class_with_method("p/Boot", one), None, enc.clone()));
			// one site per method (the second and third method meet the state the first one left)
			if len == 2 || (len == 3 && !quick) {
				let mut c = skeleton("p/Boot");
				for (i, s) in seq.iter().enumerate() {
					c.methods.push(method_with(&format!("m{i}"), "()V", vec![s.clone(), RETURN]));
				}
				out.push((format!("bootstrap/len{len}/{idx}/one-site-per-method"), c, None, enc));
			}
		}
	}
	out
}

// ---------------------------------------------------------------------------------------------
// pairs of code tables at every position of short programs

fn programs(quick: bool) -> Vec<Vec<SInsn>> {
	let mut v = base_programs();
	if !quick {
		// every rotation of the first three instructions of the base programs whose branch targets stay valid under
		// rotation is a different layout of the same labels; plus programs made of one instruction kind only
		let extra: Vec<Vec<SInsn>> = vec![
			vec![SInsn::Load(LvKind::A, 9), SInsn::SiPush(300), SInsn::IInc(300, 300), RETURN],
			vec![SInsn::IInc(300, 300), SInsn::Load(LvKind::A, 9), SInsn::SiPush(300), RETURN],
			vec![SInsn::Simple(op::NOP), SInsn::Branch(op::GOTO, 3), SInsn::TableSwitch { default: 0, low: 0, targets: vec![3, 1] }, RETURN],
			vec![SInsn::Simple(op::NOP), SInsn::Simple(op::NOP), SInsn::LookupSwitch { default: 3, pairs: vec![(-1, 0), (1, 2)] }, RETURN],
			vec![SInsn::Simple(op::NOP), SInsn::Simple(op::NOP), SInsn::Simple(op::NOP), SInsn::TableSwitch { default: 0, low: 7, targets: vec![1, 2, 3] }],
			vec![SInsn::Branch(op::JSR, 2), SInsn::Ret(300), SInsn::Store(LvKind::A, 300), RETURN],
			vec![SInsn::Ldc(SConst::Str(js("s"))), SInsn::Invoke(op::INVOKEINTERFACE, mref("p/Itf", "i", "(J)V"), true), SInsn::MultiANewArray(js("[[I"), 2), SInsn::Simple(op::ATHROW)],
			vec![SInsn::Branch(op::IFNULL, 0), SInsn::Branch(op::IFNONNULL, 1), SInsn::Branch(op::IF_ACMPNE, 2), SInsn::Branch(op::GOTO, 3)],
			vec![SInsn::InvokeDynamic(SDynamic { bootstrap: bootstrap(0), name: js("run"), desc: js("()V") }), SInsn::NewArray(10), SInsn::BiPush(-3), RETURN],
			vec![SInsn::Branch(op::GOTO, 3), SInsn::Branch(op::GOTO, 0), SInsn::Branch(op::GOTO, 1), SInsn::Branch(op::GOTO, 2)],
		];
		v.extend(extra);
	}
	v
}

fn base_programs() -> Vec<Vec<SInsn>> {
	vec![
		vec![SInsn::Simple(op::NOP), SInsn::Simple(op::NOP), SInsn::Simple(op::NOP), RETURN],
		vec![SInsn::SiPush(300), SInsn::IInc(300, 300), SInsn::Load(LvKind::A, 9), RETURN],
		vec![SInsn::Branch(op::GOTO, 2), SInsn::TableSwitch { default: 3, low: 0, targets: vec![0, 2] }, SInsn::Simple(op::NOP), RETURN],
		vec![SInsn::Branch(op::IFEQ, 3), SInsn::New(js("p/T")), SInsn::Branch(op::GOTO, 0), RETURN],
		vec![SInsn::LookupSwitch { default: 1, pairs: vec![(1, 3)] }, SInsn::Ldc(SConst::Long(5)), SInsn::Branch(op::JSR, 1), RETURN],
	]
}

/// the choices of one table kind for a program of 4 instructions (positions 0..=3, end = 4)
fn table_choices(kind: usize) -> Vec<SCode> {
	let mut v: Vec<SCode> = vec![SCode::default()];
	match kind {
		0 => {
			for s in 0..4u32 {
				for e in s + 1..=4 {
					for h in 0..4 {
						v.push(SCode { exceptions: vec![SExceptionEntry { start: s, end: e, handler: h, catch: if h % 2 == 0 { None } else { Some(js("p/E")) } }], ..Default::default() });
					}
				}
			}
		},
		1 => {
			for set in 1..16u32 {
				let kinds = [SFrame::Same, SFrame::SameLocals1(SVType::Uninitialized(1)), SFrame::Append(vec![SVType::Integer, SVType::Uninitialized(0)]), SFrame::Full { locals: vec![SVType::Long], stack: vec![SVType::Uninitialized(3), SVType::Null] }];
				v.push(SCode { frames: (0..4u32).filter(|p| set & (1 << p) != 0).map(|p| (p, kinds[((p + set) % 4) as usize].clone())).collect(), ..Default::default() });
			}
		},
		2 => {
			for set in 1..16u32 {
				v.push(SCode { line_numbers: (0..4u32).filter(|p| set & (1 << p) != 0).map(|p| (p, (p * 10 + set) as u16)).collect(), ..Default::default() });
			}
		},
		3 => {
			for s in 0..4u32 {
				for e in s..=4 {
					v.push(SCode {
						local_vars: vec![SLocalVar { start: s, end: e, name: js("v"), ty: js("I"), index: s as u16 }],
						local_var_types: if (s + e) % 2 == 0 { vec![SLocalVar { start: s, end: e, name: js("v"), ty: js("TX;"), index: s as u16 }] } else { vec![] },
						..Default::default()
					});
				}
			}
		},
		_ => {
			for p in 0..4u32 {
				v.push(SCode { visible_type: vec![tann_i(STarget::Offset { target_type: 0x43 + (p % 4) as u8, at: p }, p as usize)], ..Default::default() });
				v.push(SCode { invisible_type: vec![tann_i(STarget::TypeArgument { target_type: 0x47 + (p % 5) as u8, at: p, index: p as u8 }, p as usize)], ..Default::default() });
			}
			for s in 0..4u32 {
				for e in s..=4 {
					v.push(SCode { visible_type: vec![tann_i(STarget::LocalVar { target_type: 0x40 + (e % 2) as u8, table: vec![(s, e, 7)] }, s as usize)], ..Default::default() });
				}
			}
		},
	}
	v
}

/// the tables of the chosen kinds together (the kinds are distinct, so no table is filled twice)
fn merge_tables(insns: &[SInsn], parts: &[&SCode]) -> SCode {
	let mut c = SCode { max_stack: 4, max_locals: 400, insns: insns.to_vec(), ..Default::default() };
	for x in parts {
		c.exceptions.extend(x.exceptions.iter().cloned());
		c.frames.extend(x.frames.iter().cloned());
		c.line_numbers.extend(x.line_numbers.iter().cloned());
		c.local_vars.extend(x.local_vars.iter().cloned());
		c.local_var_types.extend(x.local_var_types.iter().cloned());
		c.visible_type.extend(x.visible_type.iter().cloned());
		c.invisible_type.extend(x.invisible_type.iter().cloned());
	}
	c
}

fn tables_case(pi: usize, prog: &[SInsn], picks: &[(usize, usize, &SCode)]) -> Case {
	let mut c = skeleton("p/Tables");
	let mut m = method_with("m", "()V", vec![]);
	m.code = Some(merge_tables(prog, &picks.iter().map(|p| p.2).collect::<Vec<_>>()));
	c.methods.push(m);
	normalize(&mut c);
	let sum: usize = picks.iter().map(|p| p.1).sum();
	let enc = if sum % 3 == 0 { Encoding { attr_order: AttrOrder::Reversed, frames_extended: true, default_form: 2, ..Default::default() } } else { Encoding::default() };
	let label = picks.iter().map(|p| format!("{}-{}", p.0, p.1)).collect::<Vec<_>>().join("/");
	(format!("tables/prog{pi}/{label}"), c, None, enc)
}

/// all pairs (thorough: also all triples) of table kinds, the full product of their choices; generated and
/// checked in parallel without materialising the space; returns (statistics, number of cases)
fn tables_run(ctx: &'static Ctx, quick: bool) -> (Stats, u64) {
	let choices: Vec<Vec<SCode>> = (0..5).map(table_choices).collect();
	let progs = programs(quick);
	let mut outer: Vec<(usize, usize, usize, usize)> = Vec::new(); // (program, kind a, kind b, choice of a)
	for pi in 0..progs.len() {
		for ka in 0..5 {
			for kb in ka + 1..5 {
				for ia in 0..choices[ka].len() {
					outer.push((pi, ka, kb, ia));
				}
			}
		}
	}
	let run_case = |st: &mut Stats, case: Case| {
		let (label, model, _, enc) = case;
		check_model(ctx, st, &label, &model, &enc);
		st.outcome("tables-case");
	};
	let mut total = progs.iter().enumerate().fold(Stats::new(), |mut st, (pi, prog)| {
		run_case(&mut st, tables_case(pi, prog, &[]));
		st
	});
	let st = outer.into_par_iter().fold(Stats::new, |mut st, (pi, ka, kb, ia)| {
		let prog = &progs[pi];
		let a = &choices[ka][ia];
		for (ib, b) in choices[kb].iter().enumerate() {
			if ia == 0 && ib == 0 {
				continue; // the program without any table: once, above
			}
			run_case(&mut st, tables_case(pi, prog, &[(ka, ia, a), (kb, ib, b)]));
			if ia == 0 || ib == 0 {
				continue;
			}
			for kc in kb + 1..5 {
				// (choice 0 = the table is absent: that is the pair itself)
				for (ic, c) in choices[kc].iter().enumerate().skip(1) {
					run_case(&mut st, tables_case(pi, prog, &[(ka, ia, a), (kb, ib, b), (kc, ic, c)]));
				}
			}
		}
		st
	}).reduce(Stats::new, Stats::merge);
	total = total.merge(st);
	let n = total.get("tables-case");
	(total, n)
}

pub fn run(ctx: &'static Ctx) -> (Stats, serde_json::Value) {
	let quick = ctx.quick();
	let groups: Vec<(&str, Vec<Case>)> = vec![
		("flags", flags_cases()),
		("versions", version_cases()),
		("names", names_cases()),
		("utf16", utf16_cases()),
		("members", members_cases(quick)),
		("misplaced", misplaced_cases()),
		("bootstrap", bootstrap_cases(quick)),
	];
	let mut total = Stats::new();
	let mut counts = serde_json::Map::new();
	for (name, cases) in groups {
		let n = cases.len();
		let st = cases.into_par_iter().fold(Stats::new, |mut st, (label, model, expected, enc)| {
			match &expected {
				Some(e) => check_model_expect(ctx, &mut st, &label, &model, &enc, e),
				None => check_model(ctx, &mut st, &label, &model, &enc),
			}
			st
		}).reduce(Stats::new, Stats::merge);
		counts.insert(name.to_owned(), json!({"cases": n, "outcomes": st.outcomes}));
		// every case of these spaces must be encodable and reach the reader: the floor is the space itself
		ctx.floor(&format!("{name}: cases that reached the reader"), n as u64, st.evaluations);
		ctx.floor(&format!("{name}: distinct class descriptions"), (n as u64 / 3).max(1), st.distinct.len());
		total = total.merge(st);
	}
	{
		let (st, n) = tables_run(ctx, quick);
		counts.insert("tables".to_owned(), json!({"cases": n, "outcomes": st.outcomes}));
		ctx.floor("tables: cases that reached the reader", ctx.tier.pick(400_000, 1_000_000), st.evaluations);
		ctx.floor("tables: distinct class descriptions", ctx.tier.pick(300_000, 800_000), st.distinct.len());
		total = total.merge(st);
	}
	let bounds = json!({
		"flags": "class, field, method, inner class, parameter, module, requires, exports, opens: each single bit, 0, 0xFFFF, the JVMS mask and its complement",
		"versions": "majors 45..=55 x minors {0,1,2,3,4,255,256,32767,32768,65534,65535} (45 from minor 3)",
		"names": name_samples().len(),
		"utf16": "all 65536 code units ascending and descending; 12x12 (x3 tails) surrogate-block edge neighbourhoods; a SourceDebugExtension of 200000 code units",
		"members": {"field_menu": FIELD_MENU, "method_menu": METHOD_MENU, "code_menu": CODE_MENU, "record_component_menu": COMPONENT_MENU, "class_menu": CLASS_MENU, "class_subset_size": if quick { 3 } else { 4 }},
		"bootstrap": {"sites": bootstrap_sites().len(), "max_sequence": if quick { 3 } else { 4 }, "one_site_per_method_up_to": if quick { 2 } else { 3 }},
		"tables": {"programs": programs(quick).len(), "choices_per_kind": (0..5).map(|k| table_choices(k).len()).collect::<Vec<_>>(), "combination": "all pairs and all triples of table kinds, full product of their choices"},
		"spaces": counts,
	});
	(total, bounds)
}
