//! The boundary constants of the reader itself, and every count of the format at its maximum.
//!
//! `pool.rs` bounds the number of bootstrap-method arguments it resolves for `Dynamic` constants per class file
//! (`MAX_NESTED_LOADABLES` = 32768); a class that needs exactly that many must still be read, and the
//! statement makes no exception for a well-formed class that needs more (reported under a key of its own).
//! Nesting depths are explored up to what the reference parser can follow (element values 60 deep, dynamic
//! constants 30 deep); the reader's own depth bounds (256) are beyond that and are not decided here.
//! Counts: every u16 (u8) count of the format at or near its maximum.

use cfmodel::asm::{Encoding, PoolOrder};
use cfmodel::gen::*;
use cfmodel::model::*;
use rayon::prelude::*;
use vcore::{json, Ctx, Stats};
use crate::{assemble_or_skip, check_bytes, replay_text};

fn boot_handle() -> SHandle {
	SHandle { kind: 6, member: mref("p/Boot", "bsm", "(Ljava/lang/invoke/MethodHandles$Lookup;Ljava/lang/String;Ljava/lang/Class;[Ljava/lang/Object;)Ljava/lang/Object;"), interface: false }
}

/// a dynamic constant whose bootstrap method takes `k` integer arguments, loaded `r` times
fn condy_class(k: usize, r: usize) -> SClass {
	let d = SDynamic { bootstrap: SBootstrap { handle: boot_handle(), args: (0..k).map(|i| SConst::Int((i % 30000) as i32 + 1000)).collect() }, name: js("k"), desc: js("I") };
	let mut c = skeleton("p/Condy");
	let per = 21000;
	let mut left = r;
	let mut i = 0;
	while left > 0 {
		let n = left.min(per);
		let mut v: Vec<SInsn> = (0..n).map(|_| SInsn::Ldc(SConst::Dynamic(Box::new(d.clone())))).collect();
		v.push(RETURN);
		c.methods.push(method_with(&format!("m{i}"), "()V", v));
		left -= n;
		i += 1;
	}
	c
}

fn nested_array(depth: usize) -> SElementValue {
	let mut v = SElementValue::Str(js("leaf"));
	for _ in 0..depth {
		v = SElementValue::Array(vec![v, SElementValue::Const(b'I', SConst::Int(1))]);
	}
	v
}

fn nested_annotation(depth: usize) -> SElementValue {
	let mut v = SElementValue::Str(js("leaf"));
	for i in 0..depth {
		v = SElementValue::Annotation(SAnnotation { type_name: js(&format!("Lp/N{i};")), pairs: vec![(js("v"), v), (js("w"), SElementValue::Const(b'I', SConst::Int(i as i32)))] });
	}
	v
}

fn nested_condy(depth: usize) -> SConst {
	let mut d = SDynamic { bootstrap: SBootstrap { handle: boot_handle(), args: vec![] }, name: js("d0"), desc: js("I") };
	for i in 1..=depth {
		d = SDynamic { bootstrap: SBootstrap { handle: boot_handle(), args: vec![SConst::Dynamic(Box::new(d)), SConst::Int(i as i32)] }, name: js(&format!("d{i}")), desc: js("I") };
	}
	SConst::Dynamic(Box::new(d))
}

fn count_cases(quick: bool) -> Vec<(String, SClass)> {
	let mut out: Vec<(String, SClass)> = Vec::new();
	let big = 65535usize;
	let _ = quick;
	// fields / methods
	let mut c = skeleton("p/ManyFields");
	c.fields = (0..big).map(|i| SField { access: (i % 2) as u16, name: js(["f", "g"][i % 2]), desc: js(["I", "J"][(i / 2) % 2]), ..Default::default() }).collect();
	out.push(("counts/fields-65535".into(), c));
	let mut c = skeleton("p/ManyMethods");
	c.methods = (0..big).map(|i| SMethod { access: 0x0401, name: js(["m", "n"][i % 2]), desc: js(["()V", "(I)V"][(i / 2) % 2]), ..Default::default() }).collect();
	out.push(("counts/methods-65535".into(), c));
	// interfaces: each needs a Class and a Utf8 entry
	let mut c = skeleton("p/ManyInterfaces");
	c.interfaces = (0..32000).map(|i| js(&format!("p/I{i}"))).collect();
	out.push(("counts/interfaces-32000".into(), c));
	// class-level tables of 65535 entries over a handful of pool entries
	let mut c = skeleton("p/ManyEntries");
	c.inner_classes = Some((0..big).map(|i| SInnerClass { inner: js(["p/A$X", "p/A$Y"][i % 2]), outer: if i % 3 == 0 { None } else { Some(js("p/A")) }, name: if i % 5 == 0 { None } else { Some(js("X")) }, flags: (i % 16) as u16 }).collect());
	c.nest_members = Some((0..big).map(|i| js(["p/A$X", "p/A$Y"][i % 2])).collect());
	c.permitted_subclasses = Some((0..big).map(|i| js(["p/A$Y", "p/A$X"][i % 2])).collect());
	c.unknown = (0..65000).map(|i| SUnknown { name: js("x.Many"), bytes: vec![(i % 251) as u8; i % 3] }).collect();
	c.unknown.sort();
	out.push(("counts/class-tables-65535".into(), c));
	// annotation with 65535 element pairs, an array value of 65535 elements, 65535 annotations
	let mut c = skeleton("p/ManyPairs");
	c.annotations.visible = vec![SAnnotation { type_name: js("Lp/A;"), pairs: (0..big).map(|i| (js(["v", "w"][i % 2]), SElementValue::Const(b'I', SConst::Int((i % 3) as i32)))).collect() }];
	c.annotations.invisible = vec![SAnnotation { type_name: js("Lp/A;"), pairs: vec![(js("a"), SElementValue::Array((0..big).map(|i| SElementValue::Const(b'Z', SConst::Int((i % 2) as i32))).collect()))] }];
	c.annotations.visible_type = (0..big).map(|i| STypeAnnotation { target: STarget::Supertype((i % 65536) as u16), path: vec![], annotation: SAnnotation { type_name: js("Lp/T;"), pairs: vec![] } }).collect();
	out.push(("counts/annotations-65535".into(), c));
	// method-level: 255 parameters, 65535 thrown exceptions, a type path of 255 steps
	let mut c = skeleton("p/ManyParams");
	let mut m = SMethod { access: 0x0401, name: js("m"), desc: js(&format!("({})V", "I".repeat(255))), ..Default::default() };
	m.parameters = Some((0..255).map(|i| (if i % 2 == 0 { Some(js(&format!("p{i}"))) } else { None }, [0u16, 0x0010, 0x1000, 0x8000][i % 4])).collect());
	m.exceptions = Some((0..big).map(|i| js(["p/E0", "p/E1", "p/E2"][i % 3])).collect());
	m.annotations.visible_type = vec![STypeAnnotation { target: STarget::FormalParameter(254), path: (0..255).map(|i| ([0u8, 1, 2, 3][i % 4], if i % 4 == 3 { i as u8 } else { 0 })).collect(), annotation: SAnnotation { type_name: js("Lp/T;"), pairs: vec![] } }];
	c.methods.push(m);
	out.push(("counts/method-tables".into(), c));
	// code-level: 65535 exception entries, a full frame with 65535 locals and 65535 stack items, 65535 bootstrap arguments
	let mut c = skeleton("p/ManyCode");
	let mut m = method_with("m", "()V", vec![SInsn::Simple(op::NOP), SInsn::InvokeDynamic(SDynamic { bootstrap: SBootstrap { handle: boot_handle(), args: (0..big).map(|i| SConst::Int((i % 7) as i32)).collect() }, name: js("run"), desc: js("()V") }), RETURN]);
	if let Some(code) = &mut m.code {
		code.exceptions = (0..big).map(|i| SExceptionEntry { start: (i % 2) as Idx, end: 2 + (i % 2) as Idx, handler: (i % 3) as Idx, catch: if i % 2 == 0 { None } else { Some(js("p/E")) } }).collect();
		code.frames = vec![(1, SFrame::Full { locals: (0..big).map(|i| [SVType::Integer, SVType::Top, SVType::Uninitialized(0), SVType::Null][i % 4].clone()).collect(), stack: (0..big).map(|i| [SVType::Long, SVType::Object(js("p/T"))][i % 2].clone()).collect() })];
		code.local_vars = (0..big).map(|i| SLocalVar { start: (i % 3) as Idx, end: 3, name: js("v"), ty: js("I"), index: i as u16 }).collect();
		code.visible_type = vec![STypeAnnotation { target: STarget::LocalVar { target_type: 0x40, table: (0..big).map(|i| ((i % 3) as Idx, 3, i as u16)).collect() }, path: vec![], annotation: SAnnotation { type_name: js("Lp/T;"), pairs: vec![] } }];
	}
	c.methods.push(m);
	normalize(&mut c);
	out.push(("counts/code-tables-65535".into(), c));
	// module tables
	let mut c = module_class(true, 2);
	if let Some(md) = &mut c.module {
		md.requires = (0..big).map(|i| (js(["m.a", "m.b"][i % 2]), [0u16, 0x20, 0x40, 0x1000, 0x8000][i % 5], if i % 3 == 0 { Some(js("1")) } else { None })).collect();
		md.exports = vec![(js("p/e"), 0, (0..big).map(|i| js(["m.a", "m.b"][i % 2])).collect())];
		md.opens = (0..big).map(|i| (js(["p/e", "p/o"][i % 2]), [0u16, 0x1000, 0x8000][i % 3], vec![])).collect();
		md.uses = (0..big).map(|i| js(["p/S", "p/T"][i % 2])).collect();
		md.provides = vec![(js("p/S"), (0..big).map(|i| js(["p/I0", "p/I1", "p/I2"][i % 3])).collect())];
	}
	c.module_packages = Some((0..big).map(|i| js(["p/e", "p/o"][i % 2])).collect());
	out.push(("counts/module-tables-65535".into(), c));
	// unknown attributes longer than any u16 length, at every level
	let mut c = skeleton("p/LongUnknown");
	let blob = |tag: u8, n: usize| SUnknown { name: js("x.Blob"), bytes: (0..n).map(|i| (i % 253) as u8 ^ tag).collect() };
	c.unknown = vec![blob(1, 65536), blob(2, 200_000)];
	c.fields.push(SField { access: 0, name: js("f"), desc: js("I"), unknown: vec![blob(3, 65537)], ..Default::default() });
	let mut m = method_with("m", "()V", vec![RETURN]);
	m.unknown = vec![blob(4, 70_000)];
	if let Some(code) = &mut m.code {
		code.unknown = vec![blob(5, 65535), blob(6, 131_072)];
	}
	c.methods.push(m);
	c.methods.push(method_with("after", "()V", vec![SInsn::BiPush(7), RETURN]));
	c.record = Some(vec![SRecordComponent { name: js("rc"), desc: js("I"), unknown: vec![blob(7, 66_000)], ..Default::default() }]);
	normalize(&mut c);
	out.push(("counts/unknown-attributes-longer-than-65535".into(), c));
	// record components
	let mut c = skeleton("p/ManyComponents");
	c.record = Some((0..big).map(|i| SRecordComponent { name: js(["a", "b"][i % 2]), desc: js("I"), signature: if i % 4 == 0 { Some(js("TX;")) } else { None }, ..Default::default() }).collect());
	out.push(("counts/record-components-65535".into(), c));
	out
}

pub fn run(ctx: &'static Ctx) -> (Stats, serde_json::Value) {
	let quick = ctx.quick();
	// (label, model); the label decides the key scope (`crate::scope_of`)
	let mut cases: Vec<(String, SClass)> = Vec::new();
	for (k, r) in [(128usize, 256usize), (32768, 1), (4, 8192), (1, 32768), (32767, 1), (127, 258)] {
		cases.push((format!("limits/nested-loadables/args{k}x{r}-loads/at-or-below-32768"), condy_class(k, r)));
	}
	for (k, r) in [(128usize, 257usize), (32769, 1), (65535, 1), (1, 32769), (3, 20000)] {
		cases.push((format!("limits/nested-loadables/args{k}x{r}-loads/above-32768"), condy_class(k, r)));
	}
	for depth in [1usize, 8, 30, 60] {
		let mut c = skeleton("p/Deep");
		c.annotations.visible = vec![SAnnotation { type_name: js("Lp/A;"), pairs: vec![(js("arr"), nested_array(depth)), (js("ann"), nested_annotation(depth / 2))] }];
		c.methods.push(SMethod { access: 0x0401, name: js("d"), desc: js("()I"), annotation_default: Some(nested_array(depth)), ..Default::default() });
		cases.push((format!("limits/element-values-{depth}-deep"), c));
	}
	for depth in [1usize, 8, 30] {
		let c = class_with_method("p/DeepCondy", vec![SInsn::Ldc(nested_condy(depth)), SInsn::InvokeDynamic(SDynamic { bootstrap: SBootstrap { handle: boot_handle(), args: vec![nested_condy(depth)] }, name: js("run"), desc: js("()V") }), RETURN]);
		cases.push((format!("limits/dynamic-constants-{depth}-deep"), c));
	}
	for (l, c) in count_cases(quick) {
		cases.push((format!("limits/{l}"), c));
	}
	let n = cases.len();
	let total = cases.into_par_iter().fold(Stats::new, |mut st, (label, model)| {
		for enc in [Encoding::default(), Encoding { pool: PoolOrder::Reversed, default_form: 2, ..Default::default() }] {
			if let Some(bytes) = assemble_or_skip(&mut st, &label, &model, &enc) {
				let v = vcore::watched(|| replay_text(&label, &bytes), || check_bytes(ctx, &mut st, &label, &bytes, Some(&model)));
				if label.contains("at-or-below-32768") && v == crate::Verdict::Equal {
					st.outcome("nested-loadables-at-the-bound-read");
				}
				if label.contains("/counts/") {
					st.outcome("count-at-maximum");
				}
			}
		}
		st
	}).reduce(Stats::new, Stats::merge);
	ctx.floor("limits: cases that reached the reader", 2 * n as u64, total.evaluations);
	ctx.floor("limits: classes at the count maxima", 16, total.get("count-at-maximum"));
	let bounds = json!({
		"nested_loadables": "bootstrap arguments x loads: 128x256, 32768x1, 4x8192, 1x32768 (= 32768), 32767x1, 127x258 below; 128x257, 32769x1, 65535x1, 1x32769, 3x20000 above the reader's bound",
		"element_value_depth": 60,
		"dynamic_constant_depth": 30,
		"counts": "fields, methods 65535; interfaces 32000; inner classes, nest members, permitted subclasses, unknown attributes, element pairs, array elements, type annotations, thrown exceptions, exception table, frame locals/stack, local variables, localvar targets, bootstrap arguments, requires/exports-to/opens/uses/provides-with/packages, record components 65535; parameters 255; type path 255",
		"cases": n,
	});
	(total, bounds)
}
