//! Odd but legal values of single facts that the other spaces give one ordinary value only.
//!
//! * `ConstantValue` × field type (JVMS table 4.7.2-A): an Integer constant is the constant of fields of type
//!   `I`, `S`, `C`, `B` and `Z`; Float of `F`; Long of `J`; Double of `D`; String of `Ljava/lang/String;`. The
//!   other spaces pair Integer with `I` only. Every legal pairing, with the boundary values of the field's type
//!   and of the constant's kind (the format does not restrict an Integer constant to the range of a `byte`
//!   field: the file states the constant, the reader must deliver it), on fields with every combination of the
//!   `static` and `final` flags (the JVM ignores the attribute of a non-static field; the file still states it),
//!   between neighbours without constants.
//! * annotation lists out of alphabetical order, with repeated types, repeated identical annotations and repeated
//!   element names, at every level.
//! * `ModulePackages` present and empty; a module without version that requires a module with one and the
//!   reverse.

use cfmodel::asm::{Encoding, PoolOrder};
use cfmodel::gen::*;
use cfmodel::model::*;
use rayon::prelude::*;
use vcore::{json, Ctx, Stats};
use crate::check_model;

fn constant_cases() -> Vec<(String, SClass)> {
	let mut pairs: Vec<(&str, SConst)> = Vec::new();
	let ints = |lo: i32, hi: i32| -> Vec<i32> {
		let mut v = vec![0, 1, -1, lo, hi, lo.wrapping_sub(1), hi.wrapping_add(1), i32::MIN, i32::MAX, 2, 255, 256, 65535, 65536];
		v.sort();
		v.dedup();
		v
	};
	for (desc, lo, hi) in [("I", i32::MIN, i32::MAX), ("S", -32768, 32767), ("C", 0, 65535), ("B", -128, 127), ("Z", 0, 1)] {
		for x in ints(lo, hi) {
			pairs.push((desc, SConst::Int(x)));
		}
	}
	for x in [0f32.to_bits(), (-0f32).to_bits(), 1.5f32.to_bits(), f32::NAN.to_bits(), 0x7fc00001, 0xffc00000, f32::INFINITY.to_bits(), f32::MIN_POSITIVE.to_bits(), 1] {
		pairs.push(("F", SConst::Float(x)));
	}
	for x in [0i64, 1, -1, i64::MIN, i64::MAX, 1 << 32, (1 << 32) - 1, -(1 << 31) - 1] {
		pairs.push(("J", SConst::Long(x)));
	}
	for x in [0f64.to_bits(), (-0f64).to_bits(), 2.5f64.to_bits(), f64::NAN.to_bits(), 0x7ff8000000000001, 0xfff8000000000000, f64::NEG_INFINITY.to_bits(), 1] {
		pairs.push(("D", SConst::Double(x)));
	}
	for s in [js(""), js("s"), JS(vec![0]), JS(vec![0xd800]), JS(vec![0xd83d, 0xde00]), js("Ljava/lang/String;")] {
		pairs.push(("Ljava/lang/String;", SConst::Str(s)));
	}
	let mut out = Vec::new();
	for (i, (desc, c)) in pairs.into_iter().enumerate() {
		for access in [0x0018u16, 0x0008, 0x0010, 0x0000] {
			let mut cl = skeleton("p/Const");
			cl.fields.push(SField { access: 0x0008, name: js("before"), desc: js(desc), ..Default::default() });
			cl.fields.push(SField { access, name: js("k"), desc: js(desc), constant_value: Some(c.clone()), ..Default::default() });
			cl.fields.push(SField { access: 0x0018, name: js("after"), desc: js(desc), ..Default::default() });
			out.push((format!("odd/constant-value/{i}/{desc}/{c:?}/access{access:#06x}"), cl));
		}
	}
	out
}

fn module_cases() -> Vec<(String, SClass)> {
	let mut out = Vec::new();
	for k in 0..3usize {
		let mut c = module_class(k == 1, k);
		c.module_packages = Some(vec![]);
		out.push((format!("odd/module-packages-empty/{k}"), c));
		let mut c = module_class(false, 2);
		if let Some(m) = &mut c.module {
			m.version = if k == 0 { None } else { Some(js("")) };
			for (i, r) in m.requires.iter_mut().enumerate() {
				r.2 = if (i + k) % 2 == 0 { Some(js(&format!("{i}"))) } else { None };
			}
		}
		out.push((format!("odd/module-versions/{k}"), c));
	}
	out
}

/// annotation lists that are not in ascending order of their types and hold the same type (even the same
/// annotation) more than once, element pairs likewise: the format allows it and the order and the repetition are
/// stated (a repeated annotation is what a container annotation unfolds to in other tools' output)
fn annotation_order_cases() -> Vec<(String, SClass)> {
	let a = |t: &str, names: &[&str], base: i32| SAnnotation { type_name: js(t), pairs: names.iter().enumerate().map(|(i, n)| (js(n), SElementValue::Const(b'I', SConst::Int(base + i as i32)))).collect() };
	let list = |salt: i32| vec![a("Lp/Z;", &["z", "a", "z"], salt), a("Lp/A;", &["v"], salt + 10), a("Lp/Z;", &["a"], salt + 20), a("Lp/A;", &["v"], salt + 10), a("Lp/M;", &[], 0), a("Lp/M;", &[], 0)];
	let tlist = |t: STarget, salt: i32| -> Vec<STypeAnnotation> { list(salt).into_iter().enumerate().map(|(i, an)| STypeAnnotation { target: t.clone(), path: if i % 2 == 0 { vec![(3, 2), (0, 0)] } else { vec![] }, annotation: an }).collect() };
	let anns = |salt: i32, t: STarget| SAnnotations { visible: list(salt), invisible: list(salt + 100).into_iter().rev().collect(), visible_type: tlist(t.clone(), salt + 200), invisible_type: tlist(t, salt + 300).into_iter().rev().collect() };
	let mut out = Vec::new();
	for level in 0..6usize {
		let mut c = skeleton("p/Order");
		c.fields.push(SField { access: 0x0008, name: js("f"), desc: js("I"), ..Default::default() });
		let mut m = method_with("m", "(I)V", vec![SInsn::Simple(op::NOP), RETURN]);
		c.record = Some(vec![SRecordComponent { name: js("rc"), desc: js("I"), ..Default::default() }]);
		match level {
			0 => c.annotations = anns(1, STarget::Supertype(0)),
			1 => c.fields[0].annotations = anns(2, STarget::Empty(0x13)),
			2 => m.annotations = anns(3, STarget::FormalParameter(0)),
			3 => {
				if let Some(code) = &mut m.code {
					code.visible_type = tlist(STarget::Offset { target_type: 0x44, at: 1 }, 4);
					code.invisible_type = tlist(STarget::Catch(3), 5).into_iter().rev().collect();
				}
			},
			4 => {
				if let Some(r) = &mut c.record {
					r[0].annotations = anns(6, STarget::Empty(0x13));
				}
			},
			_ => {
				c.annotations = anns(1, STarget::Supertype(0));
				c.fields[0].annotations = anns(1, STarget::Empty(0x13));
				m.annotations = anns(1, STarget::Empty(0x14));
				m.annotation_default = Some(SElementValue::Array(vec![SElementValue::Annotation(a("Lp/Z;", &["z", "a", "z"], 7)), SElementValue::Annotation(a("Lp/A;", &[], 0)), SElementValue::Annotation(a("Lp/Z;", &["z", "a", "z"], 7))]));
				m.code = None;
				m.access = 0x0401;
			},
		}
		c.methods.push(m);
		out.push((format!("odd/annotation-order-and-repetition/level{level}"), c));
	}
	out
}

pub fn run(ctx: &'static Ctx) -> (Stats, serde_json::Value) {
	let consts = constant_cases();
	let n_consts = consts.len();
	let mut cases = consts;
	cases.extend(module_cases());
	cases.extend(annotation_order_cases());
	let n = cases.len();
	let total = cases.into_par_iter().fold(Stats::new, |mut st, (label, model)| {
		for (ei, enc) in [Encoding::default(), Encoding { pool: PoolOrder::Reversed, ..Default::default() }].iter().enumerate() {
			check_model(ctx, &mut st, &format!("{label}/enc{ei}"), &model, enc);
		}
		st
	}).reduce(Stats::new, Stats::merge);
	ctx.floor("odd values: cases that reached the reader", 2 * n as u64, total.evaluations);
	ctx.floor("odd values: classes read without any difference", 2 * n as u64, total.get("equal"));
	let bounds = json!({
		"constant_value": "Integer x {I, S, C, B, Z} with 0, 1, -1, 2, 255, 256, 65535, 65536, the bounds of the field type and one beyond, i32::MIN/MAX; Float (9), Long (8), Double (8), String (6); each on a field with every combination of static/final, between two fields without constant",
		"constant_value_cases": n_consts,
		"module": "ModulePackages present and empty; module / requires versions present, empty, absent in alternation",
		"annotations": "lists of annotations and type annotations in non-ascending order of their types with repeated types and repeated identical annotations, element pairs with repeated names, on class, field, method, Code, record component, and all at once with an AnnotationDefault holding repeated annotations",
		"cases": n,
	});
	(total, bounds)
}
