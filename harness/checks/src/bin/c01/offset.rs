//! The environment, second part: where in its stream a class file lies.
//!
//! `duke::read_class(&mut (impl Read + Seek))` reads from the current position of the reader it is given (as
//! every `std::io` consumer does), and `class_reader.rs` jumps back and forth inside the class ("We jump back
//! to the end of the class file to allow people to concat class files directly"). A class file is the same
//! class file at whatever position of a stream it begins: after a header of other bytes, after another class
//! file, in front of trailing bytes. Here every class of the set is read
//!
//! * from a cursor positioned behind a prefix of 1, 2, 3, 4, 5, 7, 8, 13 and 4099 other bytes (every residue
//!   mod 4: the switch padding is relative to the code array, not to the stream), with and without bytes after it,
//! * the same through a `BufReader` of capacity 7 and 8192 over that cursor,
//! * as the second and third of three class files concatenated in one stream, read one after the other,
//!
//! and must come out as the same description as when read alone from position 0, with the reader left exactly
//! behind the last byte of the class (the next class of the stream starts there).

use rayon::prelude::*;
use std::io::{Cursor, Seek, SeekFrom};
use vcore::{json, Ctx, Stats};

const PREFIXES: [usize; 9] = [1, 2, 3, 4, 5, 7, 8, 13, 4099];

fn junk(n: usize, salt: u8) -> Vec<u8> {
	// other bytes; among them the magic number and a plausible header, so that nothing can tell them by a pattern
	let pat: [u8; 12] = [0xca, 0xfe, 0xba, 0xbe, 0x00, 0x00, 0x00, 0x3d, 0x00, 0x02, 0x01, 0xff];
	(0..n).map(|i| pat[(i + salt as usize) % pat.len()] ^ if i % 17 == 16 { salt } else { 0 }).collect()
}

#[allow(clippy::too_many_arguments)]
fn judge(ctx: &Ctx, st: &mut Stats, what: &str, label: &str, bytes: &[u8], base: &cfmodel::SClass, result: Result<anyhow::Result<duke::tree::class::ClassFile>, vcore::Panic>, position: Option<u64>, expected_position: u64) -> bool {
	let replay = || format!("placement={what}\n{}", crate::replay_text(label, bytes));
	st.eval();
	match result {
		Err(p) => {
			st.outcome("offset-panic");
			ctx.diff(&format!("environment:stream-offset:panic@{}", p.file()), &format!("{what}: the reader panicked at {} on a class it reads at position 0: {}", p.site, p.msg), replay);
		},
		Ok(Err(e)) => {
			st.outcome("offset-refused");
			ctx.diff("environment:stream-offset:refused", &format!("{what}: the reader refuses a class it reads at position 0: {}", format!("{e:#}").chars().take(300).collect::<String>()), replay);
		},
		Ok(Ok(tree)) => match cfmodel::duke_proj::project(&tree) {
			Err(e) => ctx.diff("environment:stream-offset:inconsistent-tree", &e, replay),
			Ok(p) if &p != base => {
				st.outcome("offset-differs");
				let d = cfmodel::sdiff::diff(base, &p);
				let first = d.0.first().map(|(k, t)| format!("{k}: {t}")).unwrap_or_default();
				ctx.diff("environment:stream-offset:differs", &format!("{what}: the reader returns another class than at position 0: {}", first.chars().take(400).collect::<String>()), replay);
			},
			Ok(_) if position != Some(expected_position) => {
				st.outcome("offset-position");
				ctx.diff("environment:stream-offset:position", &format!("{what}: the reader is left at {position:?}, the class ends at {expected_position}"), replay);
			},
			Ok(_) => {
				st.outcome("offset-equal");
				return true;
			},
		},
	}
	false
}

fn one_class(ctx: &Ctx, st: &mut Stats, label: &str, bytes: &[u8], full: bool) {
	let Ok(Ok(base)) = vcore::guard(|| duke::read_class(&mut Cursor::new(bytes))) else {
		st.outcome("not-read-at-position-0 (judged by the other spaces)");
		return;
	};
	let Ok(base) = cfmodel::duke_proj::project(&base) else { return };
	let prefixes: &[usize] = if full { &PREFIXES } else { &[1, 2, 3, 4] };
	for &p in prefixes {
		for tail in [0usize, 9] {
			if !full && tail != 0 && p != 3 {
				continue;
			}
			let mut stream = junk(p, p as u8);
			stream.extend_from_slice(bytes);
			stream.extend(junk(tail, 3));
			let end = (p + bytes.len()) as u64;
			// a cursor
			let mut c = Cursor::new(&stream[..]);
			c.set_position(p as u64);
			let r = vcore::guard(|| duke::read_class(&mut c));
			if judge(ctx, st, &format!("cursor at {p}, {tail} bytes after the class"), label, bytes, &base, r, Some(c.position()), end) {
				st.outcome("read-at-a-non-zero-position");
			}
			// a BufReader over the cursor
			for cap in [7usize, 8192] {
				if !full && cap != 7 {
					continue;
				}
				let mut c = Cursor::new(&stream[..]);
				c.set_position(p as u64);
				let mut b = std::io::BufReader::with_capacity(cap, c);
				let r = vcore::guard(|| duke::read_class(&mut b));
				let pos = b.stream_position().ok();
				if judge(ctx, st, &format!("BufReader({cap}) over a cursor at {p}, {tail} bytes after the class"), label, bytes, &base, r, pos, end) {
					st.outcome("read-at-a-non-zero-position-buffered");
				}
			}
		}
	}
}

/// three class files in one stream, read one after the other from the same reader
fn concatenated(ctx: &Ctx, st: &mut Stats, labels: [&str; 3], classes: [&[u8]; 3]) {
	let mut bases = Vec::new();
	for b in classes {
		let Ok(Ok(t)) = vcore::guard(|| duke::read_class(&mut Cursor::new(b))) else { return };
		let Ok(p) = cfmodel::duke_proj::project(&t) else { return };
		bases.push(p);
	}
	let stream: Vec<u8> = classes.concat();
	let mut c = Cursor::new(&stream[..]);
	let mut end = 0u64;
	for i in 0..3 {
		end += classes[i].len() as u64;
		let r = vcore::guard(|| duke::read_class(&mut c));
		let ok = judge(ctx, st, &format!("class {} of 3 concatenated class files ({} | {} | {})", i + 1, labels[0], labels[1], labels[2]), labels[i], classes[i], &bases[i], r, Some(c.position()), end);
		if !ok {
			return;
		}
		if i > 0 {
			st.outcome("read-as-a-later-class-of-a-concatenation");
		}
		// (the next class is read from where this one ended, whatever the reader did)
		let _ = c.seek(SeekFrom::Start(end));
	}
}

pub fn run(ctx: &'static Ctx) -> (Stats, serde_json::Value) {
	let quick = ctx.quick();
	let mut cases: Vec<(String, Vec<u8>, bool)> = Vec::new();
	for (i, (name, bytes)) in cfmodel::corpus::vendored(&vcore::verif_root()).into_iter().enumerate() {
		cases.push((format!("offset/corpus/{name}"), bytes, i % ctx.tier.pick(4, 1) == 0));
	}
	let mut st0 = Stats::new();
	for (group, models) in cfmodel::suite::listed_groups(quick) {
		let every = match group {
			"attribute-orders-and-contents" => ctx.tier.pick(7, 1),
			"cldc-stack-map" | "empty-debug-tables" => ctx.tier.pick(5, 1),
			_ => ctx.tier.pick(41, 7),
		};
		for (i, (label, m, e)) in models.into_iter().enumerate() {
			if i % every != 0 {
				continue;
			}
			if let Some(bytes) = crate::assemble_or_skip(&mut st0, &label, &m, &e) {
				cases.push((format!("offset/{group}/{label}"), bytes, (i / every) % ctx.tier.pick(4, 1) == 0));
			}
		}
	}
	let n_cases = cases.len();
	let st = cases.par_iter().fold(Stats::new, |mut st, (label, bytes, full)| {
		vcore::watched(|| crate::replay_text(label, bytes), || one_class(ctx, &mut st, label, bytes, *full));
		st
	}).reduce(Stats::new, Stats::merge);
	// every window of three neighbouring classes of the set, concatenated
	let st3 = (0..n_cases.saturating_sub(2)).into_par_iter().fold(Stats::new, |mut st, i| {
		let (a, b, c) = (&cases[i], &cases[i + 1], &cases[i + 2]);
		vcore::watched(|| format!("three concatenated class files starting at {}", a.0), || concatenated(ctx, &mut st, [&a.0, &b.0, &c.0], [&a.1, &b.1, &c.1]));
		st
	}).reduce(Stats::new, Stats::merge);
	let total = st.merge(st3);
	ctx.floor("stream offsets: classes read at a non-zero position, equal to the read at position 0", ctx.tier.pick(2_000, 6_000), total.get("read-at-a-non-zero-position"));
	ctx.floor("stream offsets: the same through a BufReader", ctx.tier.pick(2_000, 6_000), total.get("read-at-a-non-zero-position-buffered"));
	ctx.floor("stream offsets: classes read as the second or third of a concatenation", ctx.tier.pick(600, 700), total.get("read-as-a-later-class-of-a-concatenation"));
	let bounds = json!({
		"classes": n_cases,
		"prefixes": format!("{PREFIXES:?} bytes (every fourth class; the others 1, 2, 3, 4), with 0 and 9 bytes after the class"),
		"readers": "a cursor; BufReader of capacity 7 and 8192 over the cursor",
		"concatenations": "every window of three neighbouring classes of the set in one stream, read one after the other",
	});
	(total, bounds)
}

/// `--replay` of a case of this space (its text starts with `placement=`)
pub fn replay(ctx: &Ctx, st: &mut Stats, label: &str, bytes: &[u8]) {
	one_class(ctx, st, label, bytes, true);
}
