//! Bytes of a class file that state nothing: the zero to three padding bytes between the opcode of a
//! `tableswitch` / `lookupswitch` and its operands. JVMS 6.5 gives them no meaning and no required value
//! ("between zero and three bytes must act as padding"), so a class file whose padding holds other bytes than
//! zero states exactly the same class as its zero-padded twin — the reference parser reads the same
//! description from both (self-checked for every case) — and the reader must deliver it.
//!
//! The padding bytes are located on the reference parser's field map (the one-byte `Other` fields that follow
//! a switch opcode) and overwritten in the assembled / vendored bytes; the file keeps its length.
//!
//! Space: every switch shape (tableswitch with 1..=3 arms, lookupswitch with 0..=2 pairs) at each of the four
//! alignments, alone and followed by a second switch at every alignment; switches at the end of a 64 KiB
//! method; the kitchen-sink method (frames, lines, local variables and type annotations after the switch);
//! every switch of the javac corpus. Per switch with k padding bytes: every single padding byte with every
//! value 1..=255 (the others zero) and every combination of k values from
//! {00, 01, 7f, 80, aa (tableswitch), ab (lookupswitch), c4 (wide), ff}.

use cfmodel::asm::Encoding;
use cfmodel::gen::*;
use cfmodel::model::*;
use cfmodel::parse::Role;
use rayon::prelude::*;
use vcore::{json, Ctx, Stats};
use crate::{assemble_or_skip, check_bytes, replay_text};

const NOP: SInsn = SInsn::Simple(op::NOP);
const ALPHABET: [u8; 8] = [0x00, 0x01, 0x7f, 0x80, 0xaa, 0xab, 0xc4, 0xff];

/// one switch instruction of a class file: (file offset of the opcode, opcode, file offsets of its padding bytes)
#[derive(Clone, Debug)]
pub(crate) struct Switch {
	pub opcode: u8,
	pub padding: Vec<usize>,
}

/// every switch instruction of a well-formed class, in file order
pub(crate) fn switches(bytes: &[u8]) -> Vec<Switch> {
	let parsed = match cfmodel::parse(bytes) {
		Ok(p) => p,
		Err(e) => vcore::machinery_fail(&format!("pad: the reference parser rejects a class of the test set: {e}")),
	};
	let mut out = Vec::new();
	let mut i = 0;
	while i < parsed.map.len() {
		let e = parsed.map[i];
		i += 1;
		if e.role != Role::Opcode || e.width != 1 || !matches!(bytes[e.offset], op::TABLESWITCH | op::LOOKUPSWITCH) {
			continue;
		}
		let mut padding = Vec::new();
		while i < parsed.map.len() && parsed.map[i].role == Role::Other && parsed.map[i].width == 1 {
			padding.push(parsed.map[i].offset);
			i += 1;
		}
		// self-check of the location: padding bytes directly follow the opcode, at most three, and the next field is
		// the default offset
		let contiguous = padding.iter().enumerate().all(|(k, o)| *o == e.offset + 1 + k);
		let next_is_default = parsed.map.get(i).is_some_and(|n| n.role == Role::BranchOffset && n.width == 4 && n.offset == e.offset + 1 + padding.len());
		if padding.len() > 3 || !contiguous || !next_is_default {
			vcore::machinery_fail("pad: the field map does not show a switch the way this space expects it");
		}
		out.push(Switch { opcode: bytes[e.offset], padding });
	}
	out
}

/// the fillings of `k` padding bytes (all zero excluded)
fn fillings(k: usize) -> Vec<Vec<u8>> {
	let mut out: Vec<Vec<u8>> = Vec::new();
	for pos in 0..k {
		for v in 1..=255u8 {
			let mut f = vec![0u8; k];
			f[pos] = v;
			out.push(f);
		}
	}
	let n = ALPHABET.len().pow(k as u32);
	for mut idx in 0..n {
		let mut f = vec![0u8; k];
		for b in f.iter_mut() {
			*b = ALPHABET[idx % ALPHABET.len()];
			idx /= ALPHABET.len();
		}
		if f.iter().any(|b| *b != 0) && !out.contains(&f) {
			out.push(f);
		}
	}
	out
}

fn table(default: Idx, arms: &[Idx]) -> SInsn {
	SInsn::TableSwitch { default, low: -1, targets: arms.to_vec() }
}

fn lookup(default: Idx, arms: &[Idx]) -> SInsn {
	SInsn::LookupSwitch { default, pairs: arms.iter().enumerate().map(|(i, t)| (i as i32 * 1000 - 5, *t)).collect() }
}

/// the six switch shapes; `here` = index of the switch, `after` = index of the instruction after it
fn shapes(here: Idx, after: Idx) -> Vec<SInsn> {
	vec![
		table(after, &[here]),
		table(here, &[after, 0]),
		table(0, &[after, here, after]),
		lookup(after, &[]),
		lookup(here, &[after]),
		lookup(0, &[here, after]),
	]
}

/// bases: (label, class); one method, all instructions but the switches one byte long
fn small_bases() -> Vec<(String, SClass)> {
	let mut out = Vec::new();
	// one switch after `lead` nops: the opcode at offset lead, padding (3 - lead) mod 4
	for lead in 0..4usize {
		let here = lead as Idx;
		for (si, s) in shapes(here, here + 1).into_iter().enumerate() {
			let mut insns = vec![NOP; lead];
			insns.push(s);
			insns.push(RETURN);
			out.push((format!("pad/one/lead{lead}/shape{si}"), class_with_method("p/Pad", insns)));
		}
	}
	// two switches: lead nops, switch A, gap nops, switch B (the alignment of B depends on the size of A)
	for lead in 0..4usize {
		for gap in 0..4usize {
			for (ai, bi) in [(1usize, 4usize), (4, 1), (0, 2), (3, 5), (5, 3), (2, 0)] {
				let a_at = lead as Idx;
				let b_at = (lead + 1 + gap) as Idx;
				let a = shapes(a_at, b_at)[ai].clone();
				let b = shapes(b_at, b_at + 1)[bi].clone();
				let mut insns = vec![NOP; lead];
				insns.push(a);
				insns.extend(vec![NOP; gap]);
				insns.push(b);
				insns.push(RETURN);
				out.push((format!("pad/two/lead{lead}/gap{gap}/shapes{ai}-{bi}"), class_with_method("p/Pad2", insns)));
			}
		}
	}
	out
}

/// a switch as the last instruction of a method of (nearly) 65535 bytes, at each alignment, every arm far backward
fn far_bases() -> Vec<(String, SClass)> {
	let mut out = Vec::new();
	for pad in 1..4usize {
		for is_table in [true, false] {
			let size = 1 + pad + if is_table { 12 + 4 * 2 } else { 8 + 8 * 2 };
			let mut before = 65535 - size;
			while (before + 1 + pad) % 4 != 0 {
				before -= 1;
			}
			let here = before as Idx;
			let mut insns = vec![NOP; before];
			insns.push(if is_table { table(0, &[here, 1]) } else { lookup(0, &[here, 1]) });
			out.push((format!("pad/far/pad{pad}/table{is_table}"), class_with_method("p/PadFar", insns)));
		}
	}
	out
}

/// all cases of one base: its bytes with the padding of one switch (or, `joint`, of all switches) overwritten
fn cases_of(bytes: &[u8], full: bool) -> Vec<(String, Vec<u8>)> {
	let sw = switches(bytes);
	let mut out = Vec::new();
	for (wi, s) in sw.iter().enumerate() {
		let k = s.padding.len();
		if k == 0 {
			continue;
		}
		let fs = if full { fillings(k) } else { vec![vec![0xff; k], vec![1, 2, 3][..k].to_vec(), vec![0xaa, 0xab, 0xc4][..k].to_vec(), [vec![0; k - 1], vec![0x80]].concat()] };
		for f in fs {
			let mut b = bytes.to_vec();
			for (o, v) in s.padding.iter().zip(&f) {
				b[*o] = *v;
			}
			out.push((format!("switch{wi}/{}{:02x?}", if s.opcode == op::TABLESWITCH { "table" } else { "lookup" }, f), b));
		}
	}
	if sw.iter().filter(|s| !s.padding.is_empty()).count() >= 2 {
		// all switches at once, a handful of joint fillings
		for (ji, vals) in [[0xffu8, 0xff, 0xff], [0x01, 0x02, 0x03], [0xab, 0xaa, 0xc4], [0x00, 0x00, 0x80], [0x80, 0x00, 0x00]].iter().enumerate() {
			let mut b = bytes.to_vec();
			for (wi, s) in sw.iter().enumerate() {
				for (k, o) in s.padding.iter().enumerate() {
					b[*o] = vals[(k + wi) % 3];
				}
			}
			if b != bytes {
				out.push((format!("all-switches/joint{ji}"), b));
			}
		}
	}
	out
}

pub fn run(ctx: &'static Ctx) -> (Stats, serde_json::Value) {
	let mut st0 = Stats::new();
	// (label, bytes, the description the file states, full alphabet?)
	let mut bases: Vec<(String, Vec<u8>, SClass, bool)> = Vec::new();
	for (label, model) in small_bases().into_iter().chain(far_bases()) {
		let full = !label.starts_with("pad/far") && !label.starts_with("pad/two");
		if let Some(bytes) = assemble_or_skip(&mut st0, &label, &model, &Encoding::default()) {
			bases.push((label, bytes, model, full));
		} else {
			vcore::machinery_fail(&format!("{label}: a base of the padding space cannot be assembled"));
		}
	}
	for v in [1usize, 2] {
		let mut s = kitchen_sink(v);
		normalize(&mut s);
		for (ei, enc) in [Encoding::default(), Encoding { default_form: 2, ..Default::default() }].into_iter().enumerate() {
			let label = format!("pad/sink{v}/enc{ei}");
			match assemble_or_skip(&mut st0, &label, &s, &enc) {
				Some(bytes) => bases.push((label, bytes, s.clone(), true)),
				None => vcore::machinery_fail(&format!("{label}: a base of the padding space cannot be assembled")),
			}
		}
	}
	let n_generated = bases.len();
	for (name, bytes) in cfmodel::corpus::vendored(&vcore::verif_root()) {
		let parsed = match cfmodel::parse(&bytes) {
			Ok(p) => p,
			Err(e) => vcore::machinery_fail(&format!("{name}: the reference parser rejects a corpus class: {e}")),
		};
		if switches(&bytes).iter().any(|s| !s.padding.is_empty()) {
			bases.push((format!("pad/corpus/{name}"), bytes, parsed.class, false));
		}
	}
	let n_corpus = bases.len() - n_generated;
	let per_base: Vec<(Stats, [u64; 4], [u64; 2])> = bases.par_iter().map(|(label, bytes, model, full)| {
		let mut st = Stats::new();
		let mut by_k = [0u64; 4];
		let mut by_kind = [0u64; 2];
		for s in switches(bytes) {
			by_k[s.padding.len()] += 1;
			if !s.padding.is_empty() {
				by_kind[(s.opcode == op::LOOKUPSWITCH) as usize] += 1;
			}
		}
		for (sub, mutated) in cases_of(bytes, *full) {
			if mutated.len() != bytes.len() || &mutated == bytes {
				vcore::machinery_fail("pad: a filling did not change the padding only");
			}
			let l = format!("{label}/{sub}");
			// `model` is what the zero-padded file states: the reference parser must read it from the filled file too
			let v = vcore::watched(|| replay_text(&l, &mutated), || check_bytes(ctx, &mut st, &l, &mutated, Some(model)));
			st.outcome("padding-filled");
			if v == crate::Verdict::Equal {
				st.outcome("padding-filled-and-read-equal");
			}
		}
		(st, by_k, by_kind)
	}).collect();
	let mut total = Stats::new();
	let mut by_k = [0u64; 4];
	let mut by_kind = [0u64; 2];
	for (st, k, kind) in per_base {
		total = total.merge(st);
		for i in 0..4 {
			by_k[i] += k[i];
		}
		by_kind[0] += kind[0];
		by_kind[1] += kind[1];
	}
	for k in 1..4 {
		ctx.floor(&format!("padding: switches with {k} padding byte(s) among the bases"), 20, by_k[k]);
	}
	ctx.floor("padding: tableswitch instructions with padding among the bases", 40, by_kind[0]);
	ctx.floor("padding: lookupswitch instructions with padding among the bases", 40, by_kind[1]);
	ctx.floor("padding: corpus classes with a padded switch", 3, n_corpus as u64);
	ctx.floor("padding: files with non-zero padding that reached the reader", 12_000, total.get("padding-filled"));
	ctx.floor("padding: files with non-zero padding read without any difference", 12_000, total.get("padding-filled-and-read-equal"));
	let bounds = json!({
		"bases": {"generated": n_generated, "corpus_classes_with_a_padded_switch": n_corpus},
		"switches_by_number_of_padding_bytes": {"0": by_k[0], "1": by_k[1], "2": by_k[2], "3": by_k[3]},
		"fillings": "per switch with k padding bytes: each byte alone with every value 1..=255, every combination of k values of {00,01,7f,80,aa,ab,c4,ff}; two-switch, 64 KiB and corpus bases: ff.., 01 02 03, aa ab c4, 00.. 80, and five joint fillings of all switches at once",
		"cases": total.get("padding-filled"),
	});
	(total, bounds)
}
