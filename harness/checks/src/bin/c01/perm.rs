//! Attribute order, decided on the bytes: the attributes of one container (class, field, method, Code,
//! record component) of an assembled or vendored class are re-ordered in the file itself; the class stays
//! well-formed and states the same facts, so the reader must deliver the same description.
//!
//! Per container with k attributes: all k! orders when k ≤ `full` (the 8 attributes of a Code attribute:
//! all 40320), otherwise every rotation, the reversal and every ordered pair of attributes placed first
//! and second (the rest in file order) — the latter covers every "x before y" dependence between two
//! attributes of one container.

use std::collections::BTreeSet;
use cfmodel::asm::{assemble, Encoding};
use cfmodel::gen::*;
use cfmodel::model::*;
use cfmodel::parse::AttrSpan;
use rayon::prelude::*;
use vcore::{json, Ctx, Stats};
use crate::{check_bytes, replay_text};

/// groups of sibling attributes (same container), each as (start, len) in file order; only groups of ≥ 2
pub(crate) fn sibling_groups(spans: &[AttrSpan]) -> Vec<Vec<AttrSpan>> {
	let mut groups: Vec<Vec<AttrSpan>> = Vec::new();
	// per depth: index of the group that the last span of that depth went to
	let mut last: Vec<Option<usize>> = vec![None; 8];
	for s in spans {
		let d = s.depth as usize;
		if d >= last.len() {
			vcore::machinery_fail("attribute nesting deeper than 8");
		}
		let adjacent = last[d].is_some_and(|g| groups[g].last().is_some_and(|p| p.start + p.len == s.start));
		if adjacent {
			let g = last[d].unwrap_or(0);
			groups[g].push(s.clone());
		} else {
			groups.push(vec![s.clone()]);
			last[d] = Some(groups.len() - 1);
		}
	}
	groups.retain(|g| g.len() >= 2);
	groups
}

/// the file with the attributes of `group` in `order` (indices into the group)
pub(crate) fn reorder(bytes: &[u8], group: &[AttrSpan], order: &[usize]) -> Vec<u8> {
	let start = group[0].start;
	let end = group[group.len() - 1].start + group[group.len() - 1].len;
	let mut out = Vec::with_capacity(bytes.len());
	out.extend_from_slice(&bytes[..start]);
	for &i in order {
		let s = &group[i];
		out.extend_from_slice(&bytes[s.start..s.start + s.len]);
	}
	out.extend_from_slice(&bytes[end..]);
	out
}

fn all_permutations(k: usize) -> Vec<Vec<usize>> {
	fn rec(cur: &mut Vec<usize>, used: &mut Vec<bool>, out: &mut Vec<Vec<usize>>) {
		if cur.len() == used.len() {
			out.push(cur.clone());
			return;
		}
		for i in 0..used.len() {
			if !used[i] {
				used[i] = true;
				cur.push(i);
				rec(cur, used, out);
				cur.pop();
				used[i] = false;
			}
		}
	}
	let mut out = Vec::new();
	rec(&mut Vec::new(), &mut vec![false; k], &mut out);
	out
}

/// the orders explored for a container of `k` attributes (the file order itself excluded)
pub(crate) fn orders(k: usize, full: usize) -> Vec<Vec<usize>> {
	let identity: Vec<usize> = (0..k).collect();
	let mut set: BTreeSet<Vec<usize>> = BTreeSet::new();
	if k <= full {
		set.extend(all_permutations(k));
	} else {
		for r in 1..k {
			let mut v = identity.clone();
			v.rotate_left(r);
			set.insert(v);
		}
		set.insert(identity.iter().rev().copied().collect());
		for i in 0..k {
			for j in 0..k {
				if i != j {
					let mut v = vec![i, j];
					v.extend((0..k).filter(|x| *x != i && *x != j));
					set.insert(v);
				}
			}
		}
	}
	set.remove(&identity);
	set.into_iter().collect()
}

fn kind_of(group: &[AttrSpan]) -> &'static str {
	let has = |n: &str| group.iter().any(|s| s.name == n);
	if has("Code") || has("Exceptions") || has("MethodParameters") || has("AnnotationDefault") {
		"method"
	} else if has("ConstantValue") {
		"field"
	} else if has("StackMapTable") || has("LineNumberTable") || has("LocalVariableTable") || has("LocalVariableTypeTable") {
		"code"
	} else if group[0].depth >= 1 {
		"record-component"
	} else if has("SourceFile") || has("InnerClasses") || has("Module") || has("BootstrapMethods") || has("NestHost") || has("Record") {
		"class"
	} else {
		"member-other"
	}
}

/// one target class: every sibling group, every explored order, one group at a time
fn one_target(ctx: &Ctx, label: &str, bytes: &[u8], full: usize) -> Stats {
	let parsed = match cfmodel::parse(bytes) {
		Ok(p) => p,
		Err(e) => vcore::machinery_fail(&format!("{label}: the reference parser rejects a class of the test set: {e}")),
	};
	let groups = sibling_groups(&parsed.attribute_spans);
	let mut jobs: Vec<(usize, Vec<usize>)> = Vec::new();
	for (gi, g) in groups.iter().enumerate() {
		for o in orders(g.len(), full) {
			jobs.push((gi, o));
		}
	}
	let expected = &parsed.class;
	jobs.into_par_iter().fold(Stats::new, |mut st, (gi, order)| {
		let g = &groups[gi];
		let out = reorder(bytes, g, &order);
		if out.len() != bytes.len() {
			vcore::machinery_fail("attribute permutation changed the file length");
		}
		let l = format!("perm/{label}/{}{gi}/{order:?}", kind_of(g));
		// the permuted file must state the same class (self-check of this tool: `expected` is the reading of the
		// original bytes, passed as the source model)
		vcore::watched(|| replay_text(&l, &out), || check_bytes(ctx, &mut st, &l, &out, Some(expected)));
		st.outcome(&format!("permuted:{}", kind_of(g)));
		let pos = |n: &str| order.iter().position(|&i| g[i].name == n);
		if let (Some(a), Some(b)) = (pos("LocalVariableTypeTable"), pos("LocalVariableTable")) {
			if a < b {
				st.outcome("order:LocalVariableTypeTable-before-LocalVariableTable");
			}
		}
		if let (Some(a), Some(b)) = (pos("StackMapTable"), order.iter().position(|&i| g[i].name != "StackMapTable")) {
			if a > b {
				st.outcome("order:StackMapTable-not-first");
			}
		}
		if kind_of(g) == "class" && pos("BootstrapMethods") == Some(order.len() - 1) {
			st.outcome("order:BootstrapMethods-last");
		}
		st
	}).reduce(Stats::new, Stats::merge)
}

fn must_assemble(label: &str, m: &SClass, e: &Encoding) -> Vec<u8> {
	match assemble(m, e) {
		Ok(b) => b,
		Err(e) => vcore::machinery_fail(&format!("{label}: a permutation target cannot be assembled: {e:?}")),
	}
}

/// every sibling group of the class reversed / rotated by one, all groups at once
fn all_groups_at_once(bytes: &[u8], spans: &[AttrSpan], which: u8) -> Vec<u8> {
	// innermost groups first would invalidate outer spans only if lengths changed; they do not, and a nested
	// group lies inside one attribute of its parent group, so groups are applied on a copy by absolute position
	let groups = sibling_groups(spans);
	// process deeper groups first and keep the moves consistent by recomputing spans after every change
	let mut cur = bytes.to_vec();
	let n = groups.len();
	for gi in 0..n {
		let parsed = match cfmodel::parse(&cur) {
			Ok(p) => p,
			Err(e) => vcore::machinery_fail(&format!("re-parse during permutation: {e}")),
		};
		let gs = sibling_groups(&parsed.attribute_spans);
		if gs.len() != n {
			vcore::machinery_fail("sibling groups changed during permutation");
		}
		let g = &gs[gi];
		let mut order: Vec<usize> = (0..g.len()).collect();
		if which == 0 {
			order.reverse();
		} else {
			order.rotate_left(1);
		}
		cur = reorder(&cur, g, &order);
	}
	cur
}

pub fn run(ctx: &'static Ctx) -> (Stats, serde_json::Value) {
	let quick = ctx.quick();
	let mut total = Stats::new();
	let mut targets: Vec<(String, Vec<u8>, usize)> = Vec::new();

	// the 8 kinds of Code attribute on a small method: all 8! orders
	let mut code8 = skeleton("p/CodeAttrs");
	let mut m = method_with("m", "()V", vec![]);
	m.code = Some(rich_code(0));
	code8.methods.push(m);
	normalize(&mut code8);
	targets.push(("code8".into(), must_assemble("code8", &code8, &Encoding::default()), 8));
	// the same with one attribute per table entry (4 LineNumberTable, 3 LocalVariableTable, 2 LocalVariableTypeTable ...)
	targets.push(("code-split".into(), must_assemble("code-split", &code8, &Encoding { split_tables: true, frames_extended: true, ..Default::default() }), if quick { 6 } else { 7 }));
	// the kitchen sink: every container it has
	for v in [2usize, 4] {
		let mut s = kitchen_sink(v);
		normalize(&mut s);
		targets.push((format!("sink{v}"), must_assemble("sink", &s, &Encoding::default()), if quick { 6 } else { 8 }));
	}
	for (open, k) in [(true, 2usize), (false, 1)] {
		targets.push((format!("module{open}{k}"), must_assemble("module", &module_class(open, k), &Encoding::default()), 7));
	}
	for (label, bytes, full) in &targets {
		total = total.merge(one_target(ctx, label, bytes, *full));
	}

	// the corpus: every container of every class reversed, and rotated by one, all containers at once
	let corpus = cfmodel::corpus::vendored(&vcore::verif_root());
	let st = corpus.par_iter().fold(Stats::new, |mut st, (name, bytes)| {
		let parsed = match cfmodel::parse(bytes) {
			Ok(p) => p,
			Err(e) => vcore::machinery_fail(&format!("{name}: the reference parser rejects a corpus class: {e}")),
		};
		for which in 0..2u8 {
			let out = all_groups_at_once(bytes, &parsed.attribute_spans, which);
			if &out == bytes {
				st.outcome("corpus-class-without-two-sibling-attributes");
				continue;
			}
			let l = format!("perm/corpus/{name}/{}", ["reversed", "rotated"][which as usize]);
			vcore::watched(|| replay_text(&l, &out), || check_bytes(ctx, &mut st, &l, &out, Some(&parsed.class)));
			st.outcome("permuted:corpus");
		}
		st
	}).reduce(Stats::new, Stats::merge);
	total = total.merge(st);

	for kind in ["class", "field", "method", "code", "record-component"] {
		ctx.floor(&format!("attribute permutations of a {kind} container"), 20, total.get(&format!("permuted:{kind}")));
	}
	ctx.floor("orders with LocalVariableTypeTable before LocalVariableTable", 100, total.get("order:LocalVariableTypeTable-before-LocalVariableTable"));
	ctx.floor("orders with StackMapTable after another Code attribute", 100, total.get("order:StackMapTable-not-first"));
	ctx.floor("orders with BootstrapMethods as the last class attribute", 2, total.get("order:BootstrapMethods-last"));
	ctx.floor("corpus classes with permuted containers", 100, total.get("permuted:corpus"));
	let bounds = json!({
		"targets": targets.iter().map(|(l, b, full)| json!({"target": l, "bytes": b.len(), "all_orders_up_to_k": full})).collect::<Vec<_>>(),
		"larger_containers": "every rotation, the reversal, every ordered pair first and second",
		"corpus": "every container reversed / rotated by one, all containers of a class at once",
	});
	(total, bounds)
}
