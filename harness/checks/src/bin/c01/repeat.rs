//! Tables stated in several attributes, tables that are present and empty, and merged tables larger than any
//! single attribute can be.
//!
//! JVMS 4.7.12–4.7.14 allow any number of `LineNumberTable`, `LocalVariableTable` and
//! `LocalVariableTypeTable` attributes per `Code` attribute, in any order, each with any number of entries
//! (zero included); the reader merges them into one list per kind (the two local variable kinds even into one
//! shared list). The assembler writes either one attribute per kind or one per entry; here the attributes are
//! written by hand (as the bytes of Code-level attributes with these names, pool indices looked up in the
//! assembled pool), so that every *sequence* of tables is explored: sizes 0, 1, 2 in every order, the two local
//! variable kinds interleaved in every order, and merged tables of more than 65535 entries (two tables of 65535
//! entries each: more than the `u16` count of any one attribute, still a well-formed class file).
//!
//! Likewise for attributes whose table may be empty although the model cannot say so ("present with nothing in
//! it" states the same as "absent" for them): `StackMapTable`, CLDC `StackMap`, the four annotation attributes at
//! every level, `BootstrapMethods` — each alone, and with the non-empty variant on the neighbouring member.
//!
//! Oracle: three-way as everywhere (the reference parser must read the intended description from the bytes).

use cfmodel::asm::{Encoding, Pad};
use cfmodel::gen::*;
use cfmodel::model::*;
use rayon::prelude::*;
use std::collections::HashMap;
use vcore::{json, Ctx, Stats};
use crate::{assemble_or_skip, check_bytes, replay_text, Verdict};

const NOP: SInsn = SInsn::Simple(op::NOP);

/// pool index of every Utf8 entry of an assembled class, by its raw bytes (first occurrence)
fn utf8_indices(bytes: &[u8]) -> HashMap<Vec<u8>, u16> {
	let mut out = HashMap::new();
	let rd16 = |p: usize| u16::from_be_bytes([bytes[p], bytes[p + 1]]) as usize;
	let count = rd16(8);
	let mut pos = 10;
	let mut i = 1;
	while i < count {
		let tag = bytes[pos];
		pos += 1;
		match tag {
			1 => {
				let len = rd16(pos);
				out.entry(bytes[pos + 2..pos + 2 + len].to_vec()).or_insert(i as u16);
				pos += 2 + len;
			},
			3 | 4 | 9 | 10 | 11 | 12 | 17 | 18 => pos += 4,
			5 | 6 => {
				pos += 8;
				i += 1;
			},
			7 | 8 | 16 | 19 | 20 => pos += 2,
			15 => pos += 3,
			t => vcore::machinery_fail(&format!("repeat: unknown pool tag {t} in an assembled class")),
		}
		i += 1;
	}
	out
}

/// one hand-written table attribute of a method whose instructions are all one byte long (offset = index)
#[derive(Clone, Debug)]
enum Table {
	/// (pc, line)
	Lines(Vec<(u16, u16)>),
	/// (start, length, local index); name "v", descriptor "I"
	Vars(Vec<(u16, u16, u16)>),
	/// (start, length, local index); name "v", signature "TX;"
	VarTypes(Vec<(u16, u16, u16)>),
}

impl Table {
	fn name(&self) -> &'static str {
		match self {
			Table::Lines(_) => "LineNumberTable",
			Table::Vars(_) => "LocalVariableTable",
			Table::VarTypes(_) => "LocalVariableTypeTable",
		}
	}
	fn bytes(&self, idx: &dyn Fn(&str) -> u16) -> Vec<u8> {
		let mut b = Vec::new();
		match self {
			Table::Lines(v) => {
				b.extend_from_slice(&(v.len() as u16).to_be_bytes());
				for (pc, line) in v {
					b.extend_from_slice(&pc.to_be_bytes());
					b.extend_from_slice(&line.to_be_bytes());
				}
			},
			Table::Vars(v) | Table::VarTypes(v) => {
				let ty = idx(if matches!(self, Table::Vars(_)) { "I" } else { "TX;" });
				let name = idx("v");
				b.extend_from_slice(&(v.len() as u16).to_be_bytes());
				for (start, len, index) in v {
					for x in [*start, *len, name, ty, *index] {
						b.extend_from_slice(&x.to_be_bytes());
					}
				}
			},
		}
		b
	}
	/// what the table states, added to `code`
	fn state(&self, code: &mut SCode) {
		match self {
			Table::Lines(v) => {
				code.empty_line_table = true;
				code.line_numbers.extend(v.iter().map(|(pc, line)| (*pc as Idx, *line)));
			},
			Table::Vars(v) => {
				code.empty_local_table = true;
				code.local_vars.extend(v.iter().map(|(s, l, i)| SLocalVar { start: *s as Idx, end: *s as Idx + *l as Idx, name: js("v"), ty: js("I"), index: *i }));
			},
			Table::VarTypes(v) => {
				code.empty_local_table = true;
				code.local_var_types.extend(v.iter().map(|(s, l, i)| SLocalVar { start: *s as Idx, end: *s as Idx + *l as Idx, name: js("v"), ty: js("TX;"), index: *i }));
			},
		}
	}
}

/// The class with `tables` written by hand into the Code attribute of its middle method (`n_nops` nops and a
/// return), and the description it states. The neighbouring methods carry ordinary tables of their own.
fn with_tables(n_nops: usize, tables: &[Table], neighbours: bool) -> (Vec<u8>, SClass) {
	let mut insns = vec![NOP; n_nops];
	insns.push(RETURN);
	let mut c = skeleton("p/Repeat");
	let side = |name: &str, line: u16| {
		let mut m = method_with(name, "()V", vec![NOP, RETURN]);
		if let Some(code) = &mut m.code {
			code.line_numbers = vec![(0, line), (1, line + 1)];
			code.local_vars = vec![SLocalVar { start: 0, end: 2, name: js("v"), ty: js("I"), index: line }];
			code.local_var_types = vec![SLocalVar { start: 1, end: 2, name: js("v"), ty: js("TX;"), index: line }];
		}
		m
	};
	if neighbours {
		c.methods.push(side("before", 7));
	}
	c.methods.push(method_with("m", "()V", insns));
	let at = c.methods.len() - 1;
	if neighbours {
		c.methods.push(side("after", 9));
	}
	let mut expected = c.clone();
	if let Some(code) = &mut expected.methods[at].code {
		for t in tables {
			t.state(code);
		}
		code.line_numbers.sort();
		code.local_vars.sort();
		code.local_var_types.sort();
		code.empty_line_table &= code.line_numbers.is_empty();
		code.empty_local_table &= code.local_vars.is_empty() && code.local_var_types.is_empty();
	}
	let enc = Encoding { pads: vec![(1_000_000, Pad::RawUtf8("v".into())), (1_000_000, Pad::RawUtf8("I".into())), (1_000_000, Pad::RawUtf8("TX;".into()))], ..Default::default() };
	let assemble_with = |idx: &dyn Fn(&str) -> u16| -> Vec<u8> {
		let mut w = c.clone();
		if let Some(code) = &mut w.methods[at].code {
			// (file order = this order: the assembler writes unknown attributes in the order given)
			code.unknown = tables.iter().map(|t| SUnknown { name: js(t.name()), bytes: t.bytes(idx) }).collect();
		}
		let mut st = Stats::new();
		match assemble_or_skip(&mut st, "repeat", &w, &enc) {
			Some(b) => b,
			None => vcore::machinery_fail("repeat: a class of this space cannot be assembled"),
		}
	};
	// first with placeholder indices (the pool does not depend on the bytes of an opaque attribute), then for real
	let probe = assemble_with(&|_| 0);
	let map = utf8_indices(&probe);
	let lookup = |s: &str| -> u16 {
		match map.get(s.as_bytes()) {
			Some(i) => *i,
			None => vcore::machinery_fail(&format!("repeat: no Utf8 entry {s:?} in the assembled pool")),
		}
	};
	let bytes = assemble_with(&lookup);
	if utf8_indices(&bytes) != map {
		vcore::machinery_fail("repeat: the pool moved between the two assembler passes");
	}
	(bytes, expected)
}

/// all sequences of 1..=max_len symbols of 0..k
fn sequences(k: usize, max_len: usize) -> Vec<Vec<usize>> {
	let mut out = Vec::new();
	for len in 1..=max_len {
		for mut idx in 0..k.pow(len as u32) {
			let mut s = Vec::new();
			for _ in 0..len {
				s.push(idx % k);
				idx /= k;
			}
			out.push(s);
		}
	}
	out
}

/// the hand-written sequences: (label, number of nops, tables)
fn sequence_cases(quick: bool) -> Vec<(String, usize, Vec<Table>)> {
	let n = 6u16; // 5 nops + return
	let mut out = Vec::new();
	// entry j of a method: distinct per j, positions over the whole method (a range may end at code_length)
	let line = |j: u16| (j % n, 100 + j);
	let var = |j: u16| {
		let start = j % n;
		(start, if j % 2 == 0 { n - start } else { 0 }, j)
	};
	// line number tables: every sequence of up to 3 (thorough 4) tables of 0, 1 or 2 entries
	for seq in sequences(3, if quick { 3 } else { 4 }) {
		let mut j = 0u16;
		let tables: Vec<Table> = seq.iter().map(|size| {
			Table::Lines((0..*size).map(|_| { j += 1; line(j) }).collect())
		}).collect();
		out.push((format!("repeat/lines/{seq:?}"), 5, tables));
	}
	// local variable tables and type tables interleaved: every sequence of up to 3 (thorough 4) of
	// {LVT with 0, 1, 2 entries, LVTT with 0, 1 entries}
	for seq in sequences(5, if quick { 3 } else { 4 }) {
		let mut j = 0u16;
		let tables: Vec<Table> = seq.iter().map(|sym| {
			let mut take = |k: usize| -> Vec<(u16, u16, u16)> { (0..k).map(|_| { j += 1; var(j) }).collect() };
			match sym {
				0 => Table::Vars(take(0)),
				1 => Table::Vars(take(1)),
				2 => Table::Vars(take(2)),
				3 => Table::VarTypes(take(0)),
				_ => Table::VarTypes(take(1)),
			}
		}).collect();
		out.push((format!("repeat/locals/{seq:?}"), 5, tables));
	}
	// all three kinds in every order, each with 2 entries and an empty twin
	for order in [[0usize, 1, 2], [0, 2, 1], [1, 0, 2], [1, 2, 0], [2, 0, 1], [2, 1, 0]] {
		for empty_first in [false, true] {
			let mut tables = Vec::new();
			let mut j = 0u16;
			for k in order {
				let mut pair = vec![
					match k { 0 => Table::Lines(vec![]), 1 => Table::Vars(vec![]), _ => Table::VarTypes(vec![]) },
					match k {
						0 => Table::Lines((0..2).map(|_| { j += 1; line(j) }).collect()),
						1 => Table::Vars((0..2).map(|_| { j += 1; var(j) }).collect()),
						_ => Table::VarTypes((0..2).map(|_| { j += 1; var(j) }).collect()),
					},
				];
				if !empty_first {
					pair.reverse();
				}
				tables.extend(pair);
			}
			out.push((format!("repeat/all-kinds/{order:?}/empty-first-{empty_first}"), 5, tables));
		}
	}
	out
}

/// merged tables of more than 65535 entries, on a method of 65535 one-byte instructions
fn merged_cases() -> Vec<(String, usize, Vec<Table>)> {
	let n = 65535u32;
	let lines = |shift: u32, count: u32| Table::Lines((0..count).map(|j| ((j % n) as u16, ((j + shift) % 65536) as u16)).collect());
	let vars = |types: bool, base: u32, count: u32| {
		let v: Vec<(u16, u16, u16)> = (0..count).map(|j| {
			let start = ((j * 7 + base) % n) as u16;
			(start, if j % 3 == 0 { (n - start as u32) as u16 } else { (j % 2) as u16 }, (j % 65536) as u16)
		}).collect();
		if types { Table::VarTypes(v) } else { Table::Vars(v) }
	};
	vec![
		("repeat/merged/lines-65535+1".into(), 65534, vec![lines(0, 65535), lines(9, 1)]),
		("repeat/merged/lines-65535+65535".into(), 65534, vec![lines(0, 65535), lines(9, 65535)]),
		("repeat/merged/lines-3x40000".into(), 65534, vec![lines(0, 40000), lines(1, 40000), lines(2, 40000)]),
		("repeat/merged/vars-65535+types-1".into(), 65534, vec![vars(false, 0, 65535), vars(true, 1, 1)]),
		("repeat/merged/types-1+vars-65535".into(), 65534, vec![vars(true, 1, 1), vars(false, 0, 65535)]),
		("repeat/merged/vars-65535+types-65535".into(), 65534, vec![vars(false, 0, 65535), vars(true, 1, 65535)]),
		("repeat/merged/vars-65535+vars-65535".into(), 65534, vec![vars(false, 0, 65535), vars(false, 3, 65535)]),
	]
}

/// attributes that are present with an empty table where "empty" states the same as "absent"
fn empty_cases() -> Vec<(String, SClass, SClass)> {
	let mut out = Vec::new();
	let raw = |name: &str, bytes: &[u8]| SUnknown { name: js(name), bytes: bytes.to_vec() };
	let ann = |i: usize| SAnnotation { type_name: js(&format!("Lp/A{i};")), pairs: vec![(js("v"), SElementValue::Const(b'I', SConst::Int(i as i32)))] };
	let tann = |t: STarget, i: usize| STypeAnnotation { target: t, path: vec![], annotation: ann(i) };
	// the base: three fields, three methods with code, three record components; member 1 is the one under test,
	// members 0 and 2 carry the non-empty variant of every attribute (`full` = true) or nothing
	let base = |full: bool| -> SClass {
		let mut c = skeleton("p/Empty");
		let anns = |i: usize, t: STarget| if full { SAnnotations { visible: vec![ann(i)], invisible: vec![ann(i + 1)], visible_type: vec![tann(t.clone(), i + 2)], invisible_type: vec![tann(t, i + 3)] } } else { SAnnotations::default() };
		for i in 0..3usize {
			let on = i != 1;
			c.fields.push(SField { access: 0x0008, name: js(&format!("f{i}")), desc: js("I"), annotations: if on { anns(i * 10, STarget::Empty(0x13)) } else { Default::default() }, ..Default::default() });
			let mut m = method_with(&format!("m{i}"), "()V", vec![NOP, SInsn::New(js("p/T")), RETURN]);
			if on {
				m.annotations = anns(i * 10 + 4, STarget::Empty(0x14));
			}
			if let Some(code) = &mut m.code {
				if on && full {
					code.frames = vec![(1, SFrame::Same), (2, SFrame::SameLocals1(SVType::Uninitialized(1)))];
					code.visible_type = vec![tann(STarget::Offset { target_type: 0x44, at: 1 }, i)];
					code.invisible_type = vec![tann(STarget::Catch(0), i + 1)];
				}
			}
			c.methods.push(m);
		}
		c.record = Some((0..3usize).map(|i| SRecordComponent { name: js(&format!("rc{i}")), desc: js("I"), annotations: if i != 1 { anns(i * 10 + 7, STarget::Empty(0x13)) } else { Default::default() }, ..Default::default() }).collect());
		if full {
			c.annotations = anns(90, STarget::Supertype(65535));
		}
		c
	};
	let four = ["RuntimeVisibleAnnotations", "RuntimeInvisibleAnnotations", "RuntimeVisibleTypeAnnotations", "RuntimeInvisibleTypeAnnotations"];
	for full in [false, true] {
		let b = base(full);
		let mut add = |what: &str, f: &dyn Fn(&mut SClass)| {
			let mut w = b.clone();
			f(&mut w);
			out.push((format!("repeat/empty/neighbours-{}/{what}", if full { "full" } else { "bare" }), w, b.clone()));
		};
		for name in four {
			add(&format!("field/{name}"), &|c| c.fields[1].unknown.push(raw(name, &[0, 0])));
			add(&format!("method/{name}"), &|c| c.methods[1].unknown.push(raw(name, &[0, 0])));
			add(&format!("record-component/{name}"), &|c| {
				if let Some(r) = &mut c.record {
					r[1].unknown.push(raw(name, &[0, 0]))
				}
			});
			if !full {
				add(&format!("class/{name}"), &|c| c.unknown.push(raw(name, &[0, 0])));
			}
		}
		for name in ["RuntimeVisibleTypeAnnotations", "RuntimeInvisibleTypeAnnotations", "StackMapTable", "StackMap"] {
			add(&format!("code/{name}"), &|c| {
				if let Some(code) = &mut c.methods[1].code {
					code.unknown.push(raw(name, &[0, 0]))
				}
			});
		}
		add("class/BootstrapMethods", &|c| c.unknown.push(raw("BootstrapMethods", &[0, 0])));
		// all of them at once
		add("all-at-once", &|c| {
			for name in four {
				c.fields[1].unknown.push(raw(name, &[0, 0]));
				c.methods[1].unknown.push(raw(name, &[0, 0]));
				if let Some(r) = &mut c.record {
					r[1].unknown.push(raw(name, &[0, 0]));
				}
			}
			if let Some(code) = &mut c.methods[1].code {
				for name in ["RuntimeVisibleTypeAnnotations", "RuntimeInvisibleTypeAnnotations", "StackMapTable"] {
					code.unknown.push(raw(name, &[0, 0]));
				}
			}
			c.unknown.push(raw("BootstrapMethods", &[0, 0]));
		});
	}
	out
}

pub fn run(ctx: &'static Ctx) -> (Stats, serde_json::Value) {
	let quick = ctx.quick();
	let mut seqs = sequence_cases(quick);
	let n_seq = seqs.len();
	seqs.extend(merged_cases());
	let n_merged = seqs.len() - n_seq;
	let st_tables = seqs.into_par_iter().fold(Stats::new, |mut st, (label, n_nops, tables)| {
		for neighbours in [false, true] {
			if neighbours && n_nops > 100 {
				continue;
			}
			let (bytes, expected) = with_tables(n_nops, &tables, neighbours);
			let l = format!("{label}/neighbours-{neighbours}");
			let v = vcore::watched(|| replay_text(&l, &bytes), || check_bytes(ctx, &mut st, &l, &bytes, Some(&expected)));
			let at = if neighbours { 1 } else { 0 };
			let code = expected.methods[at].code.as_ref();
			let entries = code.map(|c| c.line_numbers.len().max(c.local_vars.len() + c.local_var_types.len())).unwrap_or(0);
			st.outcome("hand-written-table-sequence");
			if tables.len() >= 2 {
				st.outcome("two-or-more-tables-in-one-method");
			}
			if tables.iter().any(|t| matches!(t, Table::Lines(v) if v.is_empty()) || matches!(t, Table::Vars(v) | Table::VarTypes(v) if v.is_empty())) && entries > 0 {
				st.outcome("an-empty-table-next-to-a-non-empty-one");
			}
			if entries > 65535 {
				st.outcome("merged-table-above-65535");
				if v == Verdict::Equal {
					st.outcome("merged-table-above-65535-read-equal");
				}
			}
		}
		st
	}).reduce(Stats::new, Stats::merge);
	let empties = empty_cases();
	let n_empty = empties.len();
	let st_empty = empties.into_par_iter().fold(Stats::new, |mut st, (label, written, expected)| {
		for (ei, enc) in [Encoding::default(), Encoding { attr_order: cfmodel::asm::AttrOrder::Reversed, pool: cfmodel::asm::PoolOrder::Reversed, ..Default::default() }].iter().enumerate() {
			let l = format!("{label}/enc{ei}");
			let Some(bytes) = assemble_or_skip(&mut st, &l, &written, enc) else { vcore::machinery_fail(&format!("{l}: cannot be assembled")) };
			let v = vcore::watched(|| replay_text(&l, &bytes), || check_bytes(ctx, &mut st, &l, &bytes, Some(&expected)));
			st.outcome("present-but-empty");
			if v == Verdict::Equal {
				st.outcome("present-but-empty-read-equal");
			}
		}
		st
	}).reduce(Stats::new, Stats::merge);
	ctx.floor("repeat: hand-written table sequences that reached the reader", 2 * n_seq as u64, st_tables.get("hand-written-table-sequence"));
	ctx.floor("repeat: methods with two or more tables of a kind or of the shared local variable list", 200, st_tables.get("two-or-more-tables-in-one-method"));
	ctx.floor("repeat: an empty table next to a non-empty one", 100, st_tables.get("an-empty-table-next-to-a-non-empty-one"));
	ctx.floor("repeat: merged tables of more than 65535 entries", n_merged as u64, st_tables.get("merged-table-above-65535"));
	ctx.floor("repeat: merged tables of more than 65535 entries read without any difference", n_merged as u64, st_tables.get("merged-table-above-65535-read-equal"));
	ctx.floor("repeat: present-but-empty attributes that reached the reader", 2 * n_empty as u64, st_empty.get("present-but-empty"));
	// (the classes whose neighbours carry parameter-free annotations are read without difference; none of them has a
	// known finding in it)
	ctx.floor("repeat: present-but-empty attributes read without any difference", 2 * n_empty as u64, st_empty.get("present-but-empty-read-equal"));
	let bounds = json!({
		"line_number_tables": format!("every sequence of 1..={} tables with 0, 1 or 2 entries", if quick { 3 } else { 4 }),
		"local_variable_tables": format!("every sequence of 1..={} of {{LocalVariableTable with 0, 1, 2 entries, LocalVariableTypeTable with 0, 1 entries}}", if quick { 3 } else { 4 }),
		"all_kinds": "the three kinds in all 6 orders, each as an empty and a two-entry table (empty first / last)",
		"merged": "65535+1, 65535+65535, 3x40000 line numbers; 65535 local variables + 1 / 65535 local variable types in both orders; 65535+65535 local variables",
		"present_but_empty": "RuntimeVisible/InvisibleAnnotations and -TypeAnnotations on class, field, method, record component; the type annotations, StackMapTable and StackMap on Code; BootstrapMethods; each alone and all at once, the neighbouring members bare or carrying the non-empty variants",
		"cases": {"sequences": n_seq, "merged": n_merged, "present_but_empty": n_empty},
	});
	(st_tables.merge(st_empty), bounds)
}
