//! Features × class file versions. The statement quantifies over "all class files (versions 45.3..67)"; the
//! other spaces put nearly every feature into classes of version 61.0 (and the javac corpus has 52, 55, 61).
//! Here every class file version of the range (45.3, 46.0 .. 67.0, the preview minors 56..66 .65535) gets the
//! kitchen-sink class (and from 53 on the module descriptors) reduced to exactly the features the JVMS allows
//! in a class file of that version (tables 4.4-B, 4.7-B, §4.9.1): a feature must be read in the very version
//! that introduced it, in every later one, and in the preview variant of every later one. Nothing newer than
//! the version is ever put into a class (what such a file "states" is a matter of interpretation the statement
//! does not settle), so every class here is well-formed by the letter of the JVMS.
//!
//! | since | features |
//! |---|---|
//! | 45.3 | ConstantValue, Code, Exceptions, SourceFile, LineNumberTable, LocalVariableTable, InnerClasses, Synthetic, Deprecated, unknown attributes, jsr/ret |
//! | 49 | EnclosingMethod, Signature, SourceDebugExtension, LocalVariableTypeTable, annotations, AnnotationDefault, ldc of a class |
//! | 50 | StackMapTable |
//! | 51 | BootstrapMethods, invokedynamic, method handles, method types (jsr/ret no longer) |
//! | 52 | type annotations, MethodParameters, invokestatic/invokespecial and handles on interface methods |
//! | 53 | Module, ModulePackages, ModuleMainClass |
//! | 55 | NestHost, NestMembers, dynamic constants |
//! | 60 | Record |
//! | 61 | PermittedSubclasses |

use cfmodel::asm::{AttrOrder, Encoding, PoolOrder};
use cfmodel::gen::*;
use cfmodel::model::*;
use rayon::prelude::*;
use vcore::{json, Ctx, Stats};
use crate::{assemble_or_skip, check_bytes, replay_text};

fn handle_ok(h: &SHandle, major: u16) -> bool {
	major >= 51 && (!h.interface || h.kind == 9 || major >= 52)
}

fn const_ok(c: &SConst, major: u16) -> bool {
	match c {
		SConst::Int(_) | SConst::Float(_) | SConst::Long(_) | SConst::Double(_) | SConst::Str(_) => true,
		SConst::Class(_) => major >= 49,
		SConst::Handle(h) => handle_ok(h, major),
		SConst::MethodType(_) => major >= 51,
		SConst::Dynamic(d) => major >= 55 && bootstrap_ok(&d.bootstrap, major),
	}
}

fn bootstrap_ok(b: &SBootstrap, major: u16) -> bool {
	handle_ok(&b.handle, major) && b.args.iter().all(|a| const_ok(a, major))
}

fn insn_ok(i: &SInsn, major: u16) -> bool {
	match i {
		SInsn::Ldc(c) => const_ok(c, major),
		SInsn::InvokeDynamic(d) => major >= 51 && bootstrap_ok(&d.bootstrap, major),
		SInsn::Invoke(o, _, iface) => !*iface || *o == op::INVOKEINTERFACE || major >= 52,
		SInsn::Ret(_) => major <= 50,
		SInsn::Branch(o, _) => *o != op::JSR || major <= 50,
		_ => true,
	}
}

fn strip_annotations(a: &mut SAnnotations, major: u16) {
	if major < 49 {
		a.visible.clear();
		a.invisible.clear();
	}
	if major < 52 {
		a.visible_type.clear();
		a.invisible_type.clear();
	}
}

/// reduces `c` to what a class file of major version `major` may contain, and gives it that version
pub(crate) fn strip(c: &mut SClass, version: (u16, u16)) {
	let major = version.0;
	c.version = version;
	strip_annotations(&mut c.annotations, major);
	if major < 49 {
		c.enclosing_method = None;
		c.signature = None;
		c.source_debug_extension = None;
	}
	if major < 53 {
		c.module = None;
		c.module_packages = None;
		c.module_main_class = None;
	}
	if major < 55 {
		c.nest_host = None;
		c.nest_members = None;
	}
	if major < 60 {
		c.record = None;
	}
	if major < 61 {
		c.permitted_subclasses = None;
	}
	if let Some(r) = &mut c.record {
		for rc in r {
			strip_annotations(&mut rc.annotations, major);
		}
	}
	for f in &mut c.fields {
		strip_annotations(&mut f.annotations, major);
		if major < 49 {
			f.signature = None;
		}
	}
	// a method whose instructions are not all allowed in this version: methods without jumps and tables lose the
	// instructions, the others go as a whole
	c.methods.retain_mut(|m| {
		let Some(code) = &mut m.code else { return true };
		if code.insns.iter().all(|i| insn_ok(i, major)) {
			return true;
		}
		let plain = code.exceptions.is_empty() && code.frames.is_empty() && code.line_numbers.is_empty() && code.local_vars.is_empty() && code.local_var_types.is_empty() && code.visible_type.is_empty() && code.invisible_type.is_empty()
			&& !code.insns.iter().any(|i| matches!(i, SInsn::Branch(..) | SInsn::TableSwitch { .. } | SInsn::LookupSwitch { .. }));
		if plain {
			code.insns.retain(|i| insn_ok(i, major));
		}
		plain
	});
	for m in &mut c.methods {
		strip_annotations(&mut m.annotations, major);
		if major < 49 {
			m.signature = None;
			m.visible_param_annotations = None;
			m.invisible_param_annotations = None;
			m.annotation_default = None;
		}
		if major < 52 {
			m.parameters = None;
		}
		if let Some(code) = &mut m.code {
			if major < 49 {
				code.local_var_types.clear();
			}
			if major < 50 {
				code.frames.clear();
			}
			if major < 52 {
				code.visible_type.clear();
				code.invisible_type.clear();
			}
		}
	}
}

pub fn run(ctx: &'static Ctx) -> (Stats, serde_json::Value) {
	let quick = ctx.quick();
	let mut cases: Vec<(String, SClass, Encoding)> = Vec::new();
	let encodings = |i: usize| -> Vec<Encoding> {
		let mut v = vec![Encoding::default(), Encoding { pool: PoolOrder::Reversed, default_form: 2, attr_order: AttrOrder::Reversed, split_tables: true, frames_extended: true, ..Default::default() }];
		if !quick {
			v.push(Encoding { pool: PoolOrder::Utf8Last, default_form: 1, attr_order: AttrOrder::Rotated(i % 7 + 1), ..Default::default() });
		}
		v
	};
	let mut vs = versions();
	vs.retain(|v| *v != (45, 0)); // the property's range starts at 45.3
	for (vi, v) in vs.iter().enumerate() {
		for variant in 0..6usize {
			let mut c = kitchen_sink(variant);
			strip(&mut c, *v);
			normalize(&mut c);
			for (ei, e) in encodings(vi + variant).into_iter().enumerate() {
				cases.push((format!("versioned/{}.{}/sink{variant}/enc{ei}", v.0, v.1), c.clone(), e));
			}
		}
		if v.0 >= 53 {
			for (open, k) in [(false, 0usize), (true, 1), (false, 2), (true, 2)] {
				let mut c = module_class(open, k);
				strip(&mut c, *v);
				for (ei, e) in encodings(vi + k).into_iter().enumerate() {
					cases.push((format!("versioned/{}.{}/module-open{open}-{k}/enc{ei}", v.0, v.1), c.clone(), e));
				}
			}
		}
	}
	let n = cases.len();
	let total = cases.into_par_iter().fold(Stats::new, |mut st, (label, model, enc)| {
		if let Some(bytes) = assemble_or_skip(&mut st, &label, &model, &enc) {
			vcore::watched(|| replay_text(&label, &bytes), || check_bytes(ctx, &mut st, &label, &bytes, Some(&model)));
			// what the class that reached the reader carries, at the version that introduced it
			let major = model.version.0;
			let code = |f: &dyn Fn(&SCode) -> bool| model.methods.iter().any(|m| m.code.as_ref().is_some_and(f));
			let insn = |f: &dyn Fn(&SInsn) -> bool| code(&|c| c.insns.iter().any(f));
			let marks: [(&str, u16, bool); 12] = [
				("jsr-or-ret", 50, insn(&|i| matches!(i, SInsn::Ret(_) | SInsn::Branch(op::JSR, _)))),
				("signature-and-annotations", 49, model.signature.is_some() && !model.annotations.invisible.is_empty()),
				("ldc-class", 49, insn(&|i| matches!(i, SInsn::Ldc(SConst::Class(_))))),
				("stack-map-table", 50, code(&|c| !c.frames.is_empty())),
				("invokedynamic", 51, insn(&|i| matches!(i, SInsn::InvokeDynamic(_)))),
				("type-annotations-and-method-parameters", 52, code(&|c| !c.visible_type.is_empty()) && model.methods.iter().any(|m| m.parameters.is_some())),
				("interface-method-handle", 52, insn(&|i| matches!(i, SInsn::Ldc(SConst::Handle(h)) if h.interface && h.kind != 9))),
				("module", 53, model.module.is_some()),
				("nest", 55, model.nest_host.is_some() && model.nest_members.is_some()),
				("dynamic-constant", 55, insn(&|i| matches!(i, SInsn::Ldc(SConst::Dynamic(_))))),
				("record", 60, model.record.as_ref().is_some_and(|r| !r.is_empty())),
				("permitted-subclasses", 61, model.permitted_subclasses.is_some()),
			];
			for (name, at, has) in marks {
				if has && major == at {
					st.outcome(&format!("carried-at-its-boundary-version:{name}@{at}"));
				}
			}
		}
		st
	}).reduce(Stats::new, Stats::merge);
	ctx.floor("versioned: cases that reached the reader", n as u64, total.evaluations);
	for (name, at) in [("jsr-or-ret", 50), ("signature-and-annotations", 49), ("ldc-class", 49), ("stack-map-table", 50), ("invokedynamic", 51), ("type-annotations-and-method-parameters", 52), ("interface-method-handle", 52), ("module", 53), ("nest", 55), ("dynamic-constant", 55), ("record", 60), ("permitted-subclasses", 61)] {
		ctx.floor(&format!("versioned: classes of major version {at} that carry {name}"), 2, total.get(&format!("carried-at-its-boundary-version:{name}@{at}")));
	}
	let bounds = json!({
		"versions": vs.iter().map(|v| format!("{}.{}", v.0, v.1)).collect::<Vec<_>>(),
		"classes_per_version": "6 kitchen-sink variants (+ 4 module descriptors from 53 on), reduced to the features of the version",
		"encodings_per_class": if quick { 2 } else { 3 },
		"cases": n,
	});
	(total, bounds)
}
