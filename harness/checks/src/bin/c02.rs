//! C02 — the class writer emits a well-formed file denoting exactly the given class.
//!
//! For every tree `T = duke::read_class(bytes)` the REAL `duke::write_class(T)` is executed; a
//! successful output must be accepted by the independent strict parser (cfmodel, JVMS ch. 4) and must
//! state exactly `project(T)` — the description that was *given to the writer* (so reader losses are
//! not charged here) — modulo the one rewriting the property allows: a conditional jump that does not
//! fit 16 bits may appear as `if<¬c> +8; goto_w L`. A clean `Err` is accepted unless the class is
//! one no writer has a reason to refuse (every method fits 65535 bytes even in the longest encoding);
//! a panic is a violation.
//!
//! Clause table (statement + quantifier → where decided, over which space):
//!
//! | clause | decided in | space |
//! |---|---|---|
//! | every class description the reader can produce | `judge`: `read_class` builds the tree, nothing hand-made | (a) shared suite, shape sweep, corpus; (b) windows; (c) collision spaces |
//! | … and every such description after renaming | `judge_renamed`: real `dukebox::remap::remap_class` with two total remappers (c02/renamed.rs), then `judge_tree` against `project(renamed tree)` | every case of the suite, shape sweep len ≤ 2, corpus, operand/collision spaces, every 8th (thorough: 2nd) window scene × 2 remappers |
//! | writing succeeds or fails cleanly | `judge_tree`: `vcore::guard` (panic = violation), `vcore::watched` (hang = violation); `Err` only where `must_be_writable` is false (renamed: or the reference assembler cannot encode the description either) | all |
//! | output structurally valid: indices in range and of the right kind, lengths exact, code within limits | `cfmodel::parse` (strict) on every output | all; boundary: `code-length-limit`, `full-constant-pool`, `operand-thresholds`, `invokeinterface-descriptors` (count byte), `dynamic-constant-descriptors` (ldc vs ldc2_w) |
//! | an independent parser reads back exactly the same facts | `oracle::normalise` + `cfmodel::sdiff::diff(project(T), parse(out))` | all; tables that collide: `bootstrap-table`, `pool-collisions` |
//! | every branch / switch arm / exception range / table entry designates the same instruction after rewriting | same diff, on scenes with `decor` ≥ 1 (exceptions, line numbers, local variables, type annotations anchored on the jumps, their neighbours and the end of the code) | windows, `end-of-code-tables` |
//! | every length field exact: counts at their limit | `split-tables` (every list the reader accumulates over repeated attributes — line numbers, local variables with a descriptor / with a signature / both in one method, annotations and type annotations of class, field, method, record component and code, 22 kinds: one list of 65534 / 65535 entries from several attributes must come out whole; 65536 / 65538 must be refused cleanly, never truncated), `full-constant-pool` (65531..65535 slots; renamed trees needing 1-2 entries more: written up to 65535, refused beyond) | |
//! | … after renaming, at the constant-pool limit: "succeeds or fails cleanly", "every index in range" | `judge_pool_limit` → `judge_renamed` → `judge_tree` (same verdicts as every renamed tree) | `pool-limit-after-renaming` (c02/poollimit.rs): trees read from valid files with nearly full pools whose renamed form needs 65531..65538 (thorough 65515..65538) slots × kind of the last entries (Utf8, Class, String, Integer, Float, Long, Double, NameAndType, Fieldref, Methodref, InterfaceMethodref, MethodHandle, MethodType, Dynamic, InvokeDynamic) × site (field ConstantValue, ldc/ldc2_w operand, annotation value, bootstrap argument, member reference, class attribute / attribute name / the bootstrap table built last) × 2 renamings |
//! | (domain edge) descriptions only a lenient reader produces | `invokeinterface-unrepresentable` (clean error demanded: the count byte cannot be stated), `unrepresentable-code` (equal/descending lookupswitch keys, zero dimensions: no panic; an output that is invalid exactly as the input was is not charged) | |
//! | all method sizes up to 65535 | `code-length-limit` (65528..65541, with and without tables ending at the end of the code) | |
//! | forward/backward jumps straddling ±32767 | `single-far-jump` (18 opcodes × direction × window) | |
//! | chains where widening one jump pushes another over the limit | `cascade-of-two`, `cascade-of-three`, `chain-of-k` (k+1 layouts, k ≤ 33 / 96), `fan-of-k` (k ≤ 260 / 1000), `mixed-chain` (forward and backward alternately, m ≤ 13 / 32) | |
//! | switches at every alignment | `switch-alignment` kinds 0-4 (4 = backward jump over a switch whose padding differs) | |
//! | pools crossing the ldc 255 boundary, locals crossing 255 | `operand-thresholds`, `dynamic-constant-descriptors` | |
//!
//! Enumerated spaces (each complete within its stated bounds, no sampling):
//! (a) the shared class suite of C01 (instruction samples × forms × pools, 3^8 form product, switch
//!     paddings, pool permutations/rotations/padding, attribute orders and contents, versions, Utf8
//!     boundary strings), the shape sweep (all instruction sequences up to length L with every branch
//!     target) and the vendored javac corpus (thorough: also java.base);
//! (b) threshold windows (c02/windows.rs): one far jump for each of the 18 jump opcodes × direction ×
//!     every distance in a window around ±32767/32768; two and three jumps in crossing, nested,
//!     disjoint arrangements where rewriting one pushes another over the limit; chains of k jumps in which
//!     every rewriting pushes exactly one more jump over the limit, fans of k jumps that are all too far at
//!     once, mixed chains of forward and backward jumps; switches at every
//!     alignment with far arms before/after a rewritten jump and with input/output padding that differs;
//!     code length landing on 65528..65541; a backward conditional jump whose opcode sits at 65515..65535;
//!     `ldc` around pool index 255, locals around 3/4 and 255/256, `iinc` around ±127/128, `ret`,
//!     `invokeinterface` counts up to 255 (and the unrepresentable 256/257), MethodParameters up to 255,
//!     constant pools filled to 65531..65535 slots;
//! (c) collision spaces (c02/spaces.rs): invokeinterface on every parameter list of length ≤ 3 (5) over 12
//!     parameter types × 4 return types; dynamic constants of 19 descriptor shapes; a bootstrap-method table
//!     of 3 handles × 6 argument lists in every rotation; one class holding every text and bit pattern in
//!     every constant kind; methods ending in a multi-byte instruction with tables that end at the end of the code;
//!     line-number tables, local-variable (type) tables and annotation / type-annotation lists of 65534..65538 entries
//!     spread over 2-4 attributes (the reader appends them to one list); lookupswitch/multianewarray operands no class
//!     file may state;
//! (d) renamed trees (c02/renamed.rs): the cases named in the clause table, each renamed by the real
//!     `dukebox::remap::remap_class` with two remappers and written;
//! (e) renamed trees at the pool limit (c02/poollimit.rs): renaming un-shares pool entries, so the pool the writer must
//!     build for a renamed tree can exceed the pool of the valid file the tree was read from. 54 tails (site × kind of the
//!     last pool entry) × 2 renamings × every number of needed slots in a window around 65535; the floors measure, for
//!     one-slot and for two-slot last entries, that a file of exactly 65535 slots was written and that a need of 65536
//!     (a Long/Double starting at 65534, and at 65535) was refused.
//!
//! Level `model_checking`: states = distinct (method body, set of sites the writer emitted in the long
//! form) reached; transitions = executions of the real `duke::write_class`, each validated.

use std::collections::BTreeMap;

use cfmodel::asm::{assemble, AsmError, Encoding, PoolOrder};
use cfmodel::gen::*;
use cfmodel::model::*;
use rayon::prelude::*;
use vcore::{json, Ctx, Distinct, Stats, Tier};

#[path = "c02/oracle.rs"]
mod oracle;
#[path = "c02/windows.rs"]
mod windows;
#[path = "c02/spaces.rs"]
mod spaces;
#[path = "c02/renamed.rs"]
mod renamed;
#[path = "c02/poollimit.rs"]
mod poollimit;

use windows::Intent;

#[derive(Default)]
struct Acc {
	st: Stats,
	states: Distinct,
	transitions: u64,
	validated: u64,
	widen_hist: BTreeMap<u64, u64>,
	/// observations about the writer's output used by the vacuity floors
	obs: BTreeMap<String, u64>,
	/// extreme offsets observed: (max narrow, min narrow, min wide forward, max wide backward, min trampoline distance forward, max trampoline distance backward)
	max_narrow: i32,
	min_narrow: i32,
	min_wide_fwd: i64,
	max_wide_bwd: i64,
	min_tramp_fwd: i64,
	max_tramp_bwd: i64,
	/// most long-form sites in one method; the same over scenes in which some jump was pushed over the limit by another
	max_sites: u64,
	max_cascade_sites: u64,
	/// cases whose tree is also written after renaming: (label, class file bytes)
	queue: Vec<(String, Vec<u8>)>,
	/// the pool-limit space, per family `site/kind renamed=<remapper>`
	limit: BTreeMap<String, Limit>,
}

/// What one family of the pool-limit space showed: `constant_pool_count` of the files written (measured on the output by
/// the strict parser) and, for the trees refused, the slots they need (measured by the reference assembler).
#[derive(Default, Clone)]
struct Limit {
	last_slots: u8,
	written: std::collections::BTreeSet<u32>,
	refused_needing: std::collections::BTreeSet<u32>,
	/// files written whose constant_pool_count is not what the reference assembler needs for the same description (information)
	other_count: u64,
}

/// what `judge_tree` saw
#[derive(Clone, Copy, PartialEq, Eq, Debug)]
enum TreeOutcome {
	/// well-formed output with this constant_pool_count
	Written(u16),
	Refused,
	Other,
}

impl Acc {
	fn new() -> Acc {
		Acc { min_wide_fwd: i64::MAX, max_wide_bwd: i64::MIN, min_tramp_fwd: i64::MAX, max_tramp_bwd: i64::MIN, ..Default::default() }
	}
	fn ob(&mut self, k: &str) {
		*self.obs.entry(k.to_owned()).or_insert(0) += 1;
	}
	fn obs(&self, k: &str) -> u64 {
		self.obs.get(k).copied().unwrap_or(0)
	}
	fn merge(mut self, o: Acc) -> Acc {
		self.st = std::mem::take(&mut self.st).merge(o.st);
		self.states.merge(o.states);
		self.transitions += o.transitions;
		self.validated += o.validated;
		for (k, v) in o.widen_hist {
			*self.widen_hist.entry(k).or_insert(0) += v;
		}
		for (k, v) in o.obs {
			*self.obs.entry(k).or_insert(0) += v;
		}
		self.max_narrow = self.max_narrow.max(o.max_narrow);
		self.min_narrow = self.min_narrow.min(o.min_narrow);
		self.min_wide_fwd = self.min_wide_fwd.min(o.min_wide_fwd);
		self.max_wide_bwd = self.max_wide_bwd.max(o.max_wide_bwd);
		self.min_tramp_fwd = self.min_tramp_fwd.min(o.min_tramp_fwd);
		self.max_tramp_bwd = self.max_tramp_bwd.max(o.max_tramp_bwd);
		self.max_sites = self.max_sites.max(o.max_sites);
		self.max_cascade_sites = self.max_cascade_sites.max(o.max_cascade_sites);
		self.queue.extend(o.queue);
		for (k, v) in o.limit {
			let e = self.limit.entry(k).or_default();
			e.last_slots = e.last_slots.max(v.last_slots);
			e.written.extend(v.written);
			e.refused_needing.extend(v.refused_needing);
			e.other_count += v.other_count;
		}
		self
	}
}

static PHASE_NS: [std::sync::atomic::AtomicU64; 10] = [const { std::sync::atomic::AtomicU64::new(0) }; 10];
const PHASES: [&str; 10] = ["realise", "assemble", "self-check parse", "reference parse", "read_class", "project", "write_class", "parse output", "normalise+diff", "scan+stats"];

/// development aid: cumulative time per phase, printed to stderr under C02_TIMING (never in evidence)
fn timed<T>(phase: usize, f: impl FnOnce() -> T) -> T {
	let t = std::time::Instant::now();
	let r = f();
	PHASE_NS[phase].fetch_add(t.elapsed().as_nanos() as u64, std::sync::atomic::Ordering::Relaxed);
	r
}

fn replay_text(label: &str, bytes: &[u8]) -> String {
	format!("label={label}\nclass file bytes (hex):\n{}", oracle::fast_hex(bytes))
}

/// a stable category of a parser or panic message: its first words, every token with a digit dropped
fn message_class(msg: &str) -> String {
	let words: Vec<String> = msg.split_whitespace()
		.map(|w| w.trim_matches(|c: char| !c.is_ascii_alphanumeric() && c != '_'))
		.filter(|w| w.len() > 1 && !w.chars().any(|c| c.is_ascii_digit()) && w.chars().all(|c| c.is_ascii_alphanumeric() || c == '_'))
		.take(6).map(|w| w.to_ascii_lowercase()).collect();
	words.join("-")
}

/// One case: the bytes of a class file. Read it with the real reader, write the tree with the real
/// writer, judge the result. `rename`: the case is queued for the renamed-trees pass as well.
fn judge(ctx: &Ctx, acc: &mut Acc, label: &str, bytes: &[u8], intent: Intent, parsed_input: Option<cfmodel::Parsed>, rename: bool) {
	let reference = match parsed_input {
		Some(p) => Ok(p),
		None => timed(3, || cfmodel::parse(bytes)),
	};
	if intent.strict {
		if let Err(e) = &reference {
			vcore::machinery_fail(&format!("{label}: the reference parser rejects a class of the test set: {e}"));
		}
	}
	let read = timed(4, || vcore::guard(|| duke::read_class(&mut std::io::Cursor::new(bytes))));
	let tree = match read {
		Err(_) => {
			acc.st.outcome("not-written:reader-panicked (C01/C16)");
			return;
		},
		Ok(Err(_)) => {
			acc.st.outcome("not-written:reader-refused (C01)");
			return;
		},
		Ok(Ok(t)) => t,
	};
	if rename {
		acc.queue.push((label.to_owned(), bytes.to_vec()));
	}
	let input_rejection = reference.as_ref().err().map(|e| message_class(&e.msg));
	judge_tree(ctx, acc, label, bytes, &tree, reference.as_ref().ok(), intent, None, input_rejection);
}

/// The renamed-trees pass: the tree the reader built, renamed by the real `dukebox::remap::remap_class`, is what
/// the writer is given. A renaming that fails or panics is C07's business.
///
/// `measure` (pool-limit space): also returns how many pool slots the renamed description needs according to the
/// reference assembler — information for the floors, never part of a verdict (so a replay judges exactly the same).
fn judge_renamed(ctx: &Ctx, acc: &mut Acc, label: &str, bytes: &[u8], mode: renamed::Mode, measure: bool) -> (TreeOutcome, Option<u32>) {
	let Ok(Ok(tree)) = vcore::guard(|| duke::read_class(&mut std::io::Cursor::new(bytes))) else {
		acc.st.outcome("not-written:reader-refused (C01)");
		return (TreeOutcome::Other, None);
	};
	let tree = match vcore::guard(|| dukebox::remap::remap_class(&renamed::Renamer(mode), tree)) {
		Err(_) => {
			acc.st.outcome("not-written:renaming-panicked (C07)");
			return (TreeOutcome::Other, None);
		},
		Ok(Err(_)) => {
			acc.st.outcome("not-written:renaming-refused (C07)");
			return (TreeOutcome::Other, None);
		},
		Ok(Ok(t)) => t,
	};
	let needed = if measure { timed(9, || cfmodel::duke_proj::project(&tree).ok().and_then(|mut e| poollimit::needed_slots(&mut e))) } else { None };
	acc.ob("tree renamed by dukebox and given to the writer");
	if label.starts_with("ldc/") {
		// information for a floor: does the renamed tree take other ldc / ldc_w decisions than the tree it was made from?
		let forms = |t: &duke::tree::class::ClassFile| -> Option<(u32, u32)> {
			let mut out: Vec<u8> = Vec::new();
			vcore::guard(|| duke::write_class(&mut out, t)).ok()?.ok()?;
			let p = cfmodel::parse(&out).ok()?;
			let s = oracle::scan(&p, &out);
			Some((s.iter().map(|c| c.ldc).sum(), s.iter().map(|c| c.ldc_w).sum()))
		};
		if let Ok(Ok(original)) = vcore::guard(|| duke::read_class(&mut std::io::Cursor::new(bytes))) {
			if let (Some(a), Some(b)) = (forms(&original), forms(&tree)) {
				if a != b {
					acc.ob("renaming moved a constant across the ldc/ldc_w boundary");
				}
			}
		}
	}
	let reference = cfmodel::parse(bytes).ok();
	let label = format!("{label} renamed={}", mode.name());
	let lenient = Intent { strict: false, ..STRICT };
	(judge_tree(ctx, acc, &label, bytes, &tree, reference.as_ref(), lenient, Some(mode), None), needed)
}

/// Writes `tree` with the real writer and judges the result against `project(tree)`. `reference` = the parse of the
/// class file the tree (or, for a renamed tree, its original) was read from.
#[allow(clippy::too_many_arguments)]
fn judge_tree(ctx: &Ctx, acc: &mut Acc, label: &str, bytes: &[u8], tree: &duke::tree::class::ClassFile, reference: Option<&cfmodel::Parsed>, intent: Intent, renamed: Option<renamed::Mode>, input_rejection: Option<String>) -> TreeOutcome {
	let expected = match timed(5, || cfmodel::duke_proj::project(tree)) {
		Ok(p) => p,
		Err(_) => {
			acc.st.outcome(if renamed.is_some() { "not-written:inconsistent-renamed-tree (C07)" } else { "not-written:inconsistent-tree (C01)" });
			return TreeOutcome::Other;
		},
	};
	acc.st.distinct.add(&expected);
	acc.st.eval();
	acc.transitions += 1;
	let written = timed(6, || vcore::guard(|| {
		let mut out: Vec<u8> = Vec::new();
		duke::write_class(&mut out, tree).map(|()| out)
	}));
	let group = match renamed {
		Some(m) => format!("renamed-{}", m.name()),
		None => label.split('/').next().unwrap_or(label).to_owned(),
	};
	let out = match written {
		Err(p) => {
			acc.st.outcome("panic");
			acc.validated += 1;
			ctx.diff(&format!("panic@{}:{}", p.file(), message_class(&p.msg)), &format!("write_class panicked at {}: {}", p.site, p.msg), || replay_text(label, bytes));
			return TreeOutcome::Other;
		},
		Ok(Err(e)) => {
			acc.validated += 1;
			let msg = format!("{e:#}");
			let msg = &msg[..msg.char_indices().take_while(|(i, _)| *i < 300).last().map(|(i, c)| i + c.len_utf8()).unwrap_or(0)];
			let pool = reference.map(|p| p.pool_count).unwrap_or(u16::MAX);
			// a renamed description may have become unrepresentable (a name longer than 65535 bytes): the independent
			// assembler decides that, not the message of the code under test
			let representable = || renamed.is_none() || assemble(&expected, &Encoding::default()).is_ok();
			if reference.is_some() && !intent.table_overflow && oracle::must_be_writable(&expected, pool) && representable() {
				acc.st.outcome("refused-writable-class");
				ctx.diff("writer:refused-writable-class", &format!("write_class fails on a class every method of which fits 65535 bytes in any encoding: {msg}"), || replay_text(label, bytes));
			} else {
				acc.st.outcome("clean-error");
				if renamed.is_some() && pool >= 65_500 {
					acc.ob("renamed tree refused cleanly: it needs more constant pool entries than the full pool it was read from");
				}
				if intent.overflow {
					acc.ob("clean error where the settled layout exceeds 65535 bytes");
				}
				if intent.table_overflow {
					acc.ob("clean error where a table has more than 65535 entries");
				}
				acc.st.sample("clean-error", || json!({"label": label, "outcome": "clean error", "message": msg}));
			}
			return TreeOutcome::Refused;
		},
		Ok(Ok(out)) => out,
	};
	acc.validated += 1;
	let parsed = match timed(7, || cfmodel::parse(&out)) {
		Ok(p) => p,
		Err(e) if intent.invalid_code && input_rejection.as_deref() == Some(message_class(&e.msg).as_str()) => {
			acc.st.outcome("written:invalid-as-given (the input breaks the same code constraint)");
			return TreeOutcome::Other;
		},
		Err(e) => {
			acc.st.outcome("ill-formed-output");
			ctx.diff(&format!("output:ill-formed:{}", message_class(&e.msg)), &format!("the written file is not a well-formed class file: {e}"), || replay_text(label, bytes));
			return TreeOutcome::Other;
		},
	};
	let (actual, info) = timed(8, || oracle::normalise(&expected, &parsed.class));
	let diffs = timed(8, || cfmodel::sdiff::diff(&expected, &actual));
	acc.st.outcome(if diffs.is_empty() { "written:equal" } else { "written:differs" });
	if renamed.is_some() {
		acc.ob(if diffs.is_empty() { "renamed tree written and read back equal" } else { "renamed tree written and read back different" });
	}
	for (key, detail) in diffs.0 {
		ctx.diff(&key, &detail, || replay_text(label, bytes));
	}
	if let (Some(r), None) = (reference, renamed) {
		acc.ob(if r.class == parsed.class { "composite parse(b') == parse(b) (information)" } else { "composite parse(b') != parse(b) (information)" });
	}

	// what the output shows about the fix-point (states, histograms, floors)
	let scans = oracle::scan(&parsed, &out);
	let mut si = 0usize;
	let mut case_wide = 0u64;
	let mut case_folds = 0u64;
	for (mi, m) in expected.methods.iter().enumerate() {
		let Some(ec) = &m.code else { continue };
		if actual.methods.get(mi).and_then(|m| m.code.as_ref()).is_none() {
			continue;
		}
		let Some(cs) = scans.get(si) else { break };
		si += 1;
		let Some(Some((folds, map))) = info.get(mi) else { continue };
		let mut wide_set: Vec<Idx> = Vec::new();
		for (ai, off) in &cs.wide_sites {
			let mapped = map.get(*ai as usize).copied().unwrap_or(u32::MAX);
			if mapped == oracle::INTERIOR {
				// the goto_w of a trampoline: the jump it stands for starts 3 bytes earlier
				let d = *off as i64 + 3;
				if d > 0 {
					acc.min_tramp_fwd = acc.min_tramp_fwd.min(d);
				} else {
					acc.max_tramp_bwd = acc.max_tramp_bwd.max(d);
				}
			} else {
				wide_set.push(mapped);
				if *off > 0 {
					acc.min_wide_fwd = acc.min_wide_fwd.min(*off as i64);
				} else {
					acc.max_wide_bwd = acc.max_wide_bwd.max(*off as i64);
				}
			}
		}
		let (mut fwd_tramp, mut bwd_tramp) = (false, false);
		for f in folds {
			wide_set.push(*f);
			match ec.insns.get(*f as usize) {
				Some(SInsn::Branch(_, t)) if *t > *f => {
					fwd_tramp = true;
					acc.ob("forward conditional jump written as a trampoline")
				},
				Some(SInsn::Branch(..)) => {
					bwd_tramp = true;
					acc.ob("backward conditional jump written as a trampoline")
				},
				_ => {},
			}
		}
		if fwd_tramp && bwd_tramp {
			acc.ob("method with forward and backward trampolines");
		}
		wide_set.sort();
		case_wide += wide_set.len() as u64;
		case_folds += folds.len() as u64;
		acc.max_sites = acc.max_sites.max(wide_set.len() as u64);
		if intent.cascade {
			acc.max_cascade_sites = acc.max_cascade_sites.max(wide_set.len() as u64);
		}
		if intent.widened > 0 && (m.name == JS::new("m") || m.name == JS::new("m2")) {
			// information: does the number of long sites equal what the layout model of the scene predicts?
			acc.ob(if wide_set.len() as u32 == intent.widened { "long sites as predicted by the layout model (information)" } else { "long sites differ from the layout model's prediction (information)" });
		}
		acc.max_narrow = acc.max_narrow.max(cs.max_narrow);
		acc.min_narrow = acc.min_narrow.min(cs.min_narrow);
		if cs.far_switch_arms > 0 {
			acc.ob("switch with an arm beyond 16 bits");
		}
		if cs.switches > 0 && !wide_set.is_empty() {
			acc.ob("switch in a method with a rewritten jump");
		}
		if cs.ldc > 0 {
			acc.ob("method written with ldc");
		}
		if cs.ldc_w > 0 {
			acc.ob("method written with ldc_w");
		}
		if cs.ldc2_w > 0 && ec.insns.iter().any(|i| matches!(i, SInsn::Ldc(SConst::Dynamic(_)))) {
			acc.ob("method with dynamic constants written with ldc2_w");
		}
		if cs.code_length >= 65_533 {
			acc.ob(&format!("code_length {} written", cs.code_length));
		}
		if renamed.is_some() && !wide_set.is_empty() {
			acc.ob("renamed tree with a rewritten jump");
		}
		acc.states.add(&(vcore::hash64(&ec.insns), &wide_set));
	}
	*acc.widen_hist.entry(case_wide).or_insert(0) += 1;
	if intent.cascade && case_wide >= 2 {
		acc.ob("cascade: a jump in range in the all-narrow layout was rewritten because another one was (>= 2 long sites)");
	}
	if intent.cascade && case_wide >= 3 {
		acc.ob("cascade with >= 3 long sites");
	}
	if parsed.pool_count >= 65_533 {
		acc.ob(&format!("constant_pool_count {} written", parsed.pool_count));
		if renamed.is_some() && reference.is_some_and(|r| r.pool_count < parsed.pool_count) {
			acc.ob("renamed tree written with a larger, nearly full constant pool");
		}
	}
	let tag = if case_folds > 0 { format!("{group}+trampoline") } else if case_wide > 0 { format!("{group}+wide") } else { group.to_owned() };
	acc.st.sample(&tag, || json!({
		"label": label, "input_bytes": bytes.len(), "output_bytes": out.len(), "input_head_hex": vcore::hex(&bytes[..bytes.len().min(64)]),
		"this_class": expected.this_class.to_string_lossy(), "methods": expected.methods.len(),
		"instructions": expected.methods.iter().map(|m| m.code.as_ref().map(|c| c.insns.len()).unwrap_or(0)).sum::<usize>(),
		"long_form_sites_in_output": case_wide, "trampolines": case_folds,
		"code_lengths": scans.iter().map(|s| s.code_length).collect::<Vec<_>>(),
	}));
	TreeOutcome::Written(parsed.pool_count)
}

/// One case of the pool-limit space (c02/poollimit.rs): the class is assembled, read by the real reader, renamed by the
/// real renaming and given to the writer — judged by `judge_renamed` like every renamed tree. What is recorded besides
/// serves the floors only.
fn judge_pool_limit(ctx: &Ctx, acc: &mut Acc, family: &poollimit::Family, target: u32) {
	let label = family.label(target);
	let class = timed(0, || family.class(target));
	let Some(bytes) = timed(1, || family.bytes(target)) else {
		acc.st.outcome("unencodable-skipped");
		return;
	};
	// oracle self-check: the spliced file states exactly the class meant
	match timed(2, || cfmodel::parse(&bytes)) {
		Ok(p) if p.class == class => {},
		Ok(_) => vcore::machinery_fail(&format!("{label}: the spliced class file does not state the class it was built for")),
		Err(e) => vcore::machinery_fail(&format!("{label}: the reference parser rejects an assembled class: {e}")),
	}
	drop(class);
	let mode = family.mode;
	let (outcome, needed) = vcore::watched(|| replay_text(&format!("{label} renamed={}", mode.name()), &bytes), || judge_renamed(ctx, acc, &label, &bytes, mode, true));
	let Some(needed) = needed else {
		acc.ob("pool-limit: case whose need of pool slots could not be measured");
		return;
	};
	if needed == target {
		acc.ob("pool-limit: renamed tree needs exactly the number of pool slots aimed at");
	}
	let e = acc.limit.entry(format!("{} renamed={}", family.tail.label(), mode.name())).or_default();
	e.last_slots = family.tail.last_slots;
	match outcome {
		TreeOutcome::Written(count) => {
			e.written.insert(count as u32);
			if count as u32 != needed {
				e.other_count += 1;
			}
		},
		TreeOutcome::Refused => {
			e.refused_needing.insert(needed);
		},
		TreeOutcome::Other => {},
	}
}

fn judge_model(ctx: &Ctx, acc: &mut Acc, label: &str, model: &SClass, enc: &Encoding, intent: Intent, rename: bool) {
	match timed(1, || assemble(model, enc)) {
		Ok(bytes) => {
			// oracle self-check before the code under test is consulted
			let p = match timed(2, || cfmodel::parse(&bytes)) {
				Ok(p) if &p.class == model => p,
				Ok(p) => vcore::machinery_fail(&format!("{label}: assembler and reference parser disagree: {:?}", cfmodel::sdiff::diff(model, &p.class).0.first())),
				Err(e) => vcore::machinery_fail(&format!("{label}: the reference parser rejects an assembled class: {e}")),
			};
			vcore::watched(|| replay_text(label, &bytes), || judge(ctx, acc, label, &bytes, intent, Some(p), rename))
		},
		Err(AsmError::Unencodable(_)) => acc.st.outcome("unencodable-skipped"),
		Err(AsmError::Internal(e)) => vcore::machinery_fail(&format!("{label}: assembler: {e}")),
	}
}

const STRICT: Intent = Intent { widened: 0, cascade: false, overflow: false, strict: true, invalid_code: false, table_overflow: false };

fn par_models(ctx: &'static Ctx, cases: Vec<(String, SClass, Encoding)>, rename: bool) -> Acc {
	cases.into_par_iter().fold(Acc::new, |mut acc, (label, m, e)| {
		judge_model(ctx, &mut acc, &label, &m, &e, STRICT, rename);
		acc
	}).reduce(Acc::new, Acc::merge)
}

static SAVED_STDERR: std::sync::atomic::AtomicI32 = std::sync::atomic::AtomicI32::new(-1);

/// dukebox reports every `// TODO` it passes (one line per Signature attribute) on stderr; the renamed-trees pass
/// silences stderr unless C02_STDERR is set. VIOLATION lines go to stdout and are not affected.
fn silence_stderr() {
	if std::env::var_os("C02_STDERR").is_some() {
		return;
	}
	// SAFETY: plain file-descriptor calls on descriptors this process owns
	unsafe {
		let saved = libc::dup(2);
		let null = libc::open(c"/dev/null".as_ptr(), libc::O_WRONLY);
		if saved < 0 || null < 0 {
			return;
		}
		libc::dup2(null, 2);
		libc::close(null);
		SAVED_STDERR.store(saved, std::sync::atomic::Ordering::SeqCst);
	}
}

fn restore_stderr() {
	let fd = SAVED_STDERR.swap(-1, std::sync::atomic::Ordering::SeqCst);
	if fd >= 0 {
		// SAFETY: as above
		unsafe {
			libc::dup2(fd, 2);
			libc::close(fd);
		}
	}
}

/// accumulates the spaces of a run
struct Sink {
	total: Acc,
	spaces: serde_json::Map<String, serde_json::Value>,
	/// per space: (cases judged, of these written and read back equal)
	space_equal: BTreeMap<String, (u64, u64)>,
	timing: bool,
}

impl Sink {
	fn run(&mut self, ctx: &Ctx, name: &str, acc: Acc) {
		if self.timing {
			eprintln!("[timing] {:8.2}s after {name}", ctx.elapsed_s());
		}
		self.space_equal.insert(name.to_owned(), (acc.transitions, acc.st.get("written:equal")));
		self.spaces.insert(name.to_owned(), json!({"writer_executions": acc.transitions, "outcomes": acc.st.outcomes, "distinct_classes": acc.st.distinct.len(), "states": acc.states.len()}));
		self.total = std::mem::replace(&mut self.total, Acc::new()).merge(acc);
	}
}

fn main() {
	// the cases allocate and free many buffers of 0.1..10 MB; keep them in the heap instead of
	// mapping/unmapping (and re-faulting) them each time
	unsafe {
		libc::mallopt(libc::M_MMAP_THRESHOLD, 1 << 30);
		libc::mallopt(libc::M_TRIM_THRESHOLD, 1 << 30);
		libc::mallopt(libc::M_TOP_PAD, 64 << 20);
	}
	let ctx: &'static Ctx = Box::leak(Box::new(Ctx::new("C02", "model_checking")));
	if let Some(path) = ctx.replay.clone() {
		let body = vcore::replay_body(&path);
		let hex: String = body.lines().skip_while(|l| !l.starts_with("class file bytes")).skip(1).collect();
		let bytes = vcore::unhex(&hex).unwrap_or_else(|| vcore::machinery_fail("replay: bad hex"));
		let invalid_code = body.lines().next().is_some_and(|l| l.starts_with("label=unrepresentable-code/"));
		let table_overflow = body.lines().next().is_some_and(|l| l.starts_with("label=split-tables/") && l.contains("entries-over-65535"));
		let lenient = Intent { strict: false, invalid_code, table_overflow, ..STRICT };
		// a case of the renamed-trees pass carries ` renamed=<remapper>` at the end of its label
		let mode = body.lines().next().and_then(|l| l.rsplit_once(" renamed=")).and_then(|(_, m)| renamed::Mode::from_name(m.trim()));
		let once = |acc: &mut Acc| match mode {
			Some(m) => {
				silence_stderr();
				judge_renamed(ctx, acc, "replay", &bytes, m, false);
				restore_stderr();
			},
			None => judge(ctx, acc, "replay", &bytes, lenient, None, false),
		};
		let mut a = Acc::new();
		once(&mut a);
		let mut b = Acc::new();
		once(&mut b);
		if a.st.outcomes != b.st.outcomes {
			vcore::machinery_fail("replay: the two runs of the case differ");
		}
		ctx.finish(json!({"evaluations": 2, "distinct_nontrivial": 2, "states": 1, "transitions": 2, "traces_validated_against_impl": 2, "rule": "replay of one class file, twice", "outcomes": a.st.outcomes, "samples": [body.lines().next()]}), &[]);
	}
	let quick = ctx.tier == Tier::Quick;
	let timing = std::env::var_os("C02_TIMING").is_some();
	let mut sink = Sink { total: Acc::new(), spaces: serde_json::Map::new(), space_equal: BTreeMap::new(), timing };
	macro_rules! run {
		($name:expr, $acc:expr) => {{
			let acc = $acc;
			sink.run(ctx, $name, acc)
		}};
	}

	// (a) the shared suite, the shape sweep, the corpus
	for (name, cases) in cfmodel::suite::listed_groups(quick) {
		run!(name, par_models(ctx, cases, true));
	}
	let max_len = ctx.tier.pick(3, 4);
	for len in 1..=max_len {
		let space = ShapeSpace::new(len);
		let encs = [Encoding::default(), Encoding { default_form: 2, pool: PoolOrder::Reversed, ..Default::default() }];
		let n = space.count();
		let acc = (0..n).into_par_iter().fold(Acc::new, |mut acc, idx| {
			let m = class_with_method("p/Shape", space.nth(idx));
			for (k, e) in encs.iter().enumerate() {
				if k == 1 && len >= 3 && idx % 7 != 0 {
					continue; // the second encoding on a fixed 1/7 slice of the longer spaces (stated in bounds)
				}
				judge_model(ctx, &mut acc, &format!("shape/len{len}/{idx}/enc{k}"), &m, e, STRICT, len <= 2);
			}
			acc
		}).reduce(Acc::new, Acc::merge);
		run!(&format!("shape-sweep-len{len}"), acc);
	}
	let corpus = cfmodel::corpus::vendored(&vcore::verif_root());
	let n_corpus = corpus.len();
	let acc = corpus.par_iter().fold(Acc::new, |mut acc, (name, bytes)| {
		let label = format!("corpus/{name}");
		vcore::watched(|| replay_text(&label, bytes), || judge(ctx, &mut acc, &label, bytes, STRICT, None, true));
		acc
	}).reduce(Acc::new, Acc::merge);
	run!("javac-corpus", acc);
	let mut n_jdk = 0;
	if !quick {
		let jdk = cfmodel::corpus::jdk_java_base(&vcore::verif_root().join("harness").join("target").join("tmp-jdk-c02"));
		n_jdk = jdk.len();
		let acc = jdk.par_iter().fold(Acc::new, |mut acc, (name, bytes)| {
			let label = format!("jdk/{name}");
			vcore::watched(|| replay_text(&label, bytes), || judge(ctx, &mut acc, &label, bytes, STRICT, None, false));
			acc
		}).reduce(Acc::new, Acc::merge);
		run!("jdk-java.base (optional breadth)", acc);
	}

	// (b) threshold windows
	let rename_every: usize = ctx.tier.pick(8, 2);
	let mut window_specs = 0u64;
	let mut window_bounds = serde_json::Map::new();
	for (name, specs) in windows::specs(quick) {
		window_specs += specs.len() as u64;
		window_bounds.insert(name.to_owned(), json!(specs.len()));
		let acc = specs.par_iter().enumerate().fold(Acc::new, |mut acc, (si, spec)| {
			match timed(0, || spec.realise()) {
				Some(case) => {
					if case.intent.widened > 0 {
						acc.ob("scene whose settled layout needs a long form");
					}
					// every 8th (thorough: 2nd) scene of each group is also written after renaming (stated in bounds)
					judge_model(ctx, &mut acc, &format!("{name}/{}", case.label), &case.class, &case.enc, case.intent, si % rename_every == 0)
				},
				None => acc.st.outcome("scene-infeasible-skipped"),
			}
			acc
		}).reduce(Acc::new, Acc::merge);
		run!(name, acc);
	}
	run!("operand-thresholds", par_models(ctx, windows::operand_cases(quick), true));
	let full = windows::full_pool_cases(quick);
	let n_full = full.len() as u64;
	// the cases that share Utf8 entries with renamable names are also written after renaming (pool overflow)
	let acc = full.into_par_iter().fold(Acc::new, |mut acc, (label, m, e)| {
		let shared = label.ends_with("sharedtrue");
		judge_model(ctx, &mut acc, &label, &m, &e, STRICT, shared);
		acc
	}).reduce(Acc::new, Acc::merge);
	run!("full-constant-pool", acc);
	let patched = windows::patched_invokeinterface();
	let acc = patched.par_iter().fold(Acc::new, |mut acc, (label, bytes)| {
		vcore::watched(|| replay_text(label, bytes), || judge(ctx, &mut acc, label, bytes, Intent { strict: false, ..STRICT }, None, false));
		acc
	}).reduce(Acc::new, Acc::merge);
	run!("invokeinterface-unrepresentable", acc);

	// (c) collision spaces
	let desc_len = spaces::descriptor_max_len(quick);
	let n_lists = spaces::descriptor_lists(desc_len);
	let acc = (0..n_lists).into_par_iter().fold(Acc::new, |mut acc, idx| {
		let params = spaces::descriptor_nth(idx, desc_len);
		let slots = spaces::descriptor_slots(&params);
		acc.ob(match slots {
			0..=2 => "descriptor list needing <= 2 argument slots",
			3..=5 => "descriptor list needing 3-5 argument slots",
			_ => "descriptor list needing >= 6 argument slots",
		});
		judge_model(ctx, &mut acc, &format!("invokeinterface-descriptors/{}", params.concat()), &spaces::descriptor_class(&params), &Encoding::default(), STRICT, idx % 16 == 0);
		acc
	}).reduce(Acc::new, Acc::merge);
	run!("invokeinterface-descriptors", acc);
	run!("dynamic-constant-descriptors", par_models(ctx, spaces::condy_cases(), true));
	run!("bootstrap-table", par_models(ctx, spaces::bootstrap_cases(), true));
	run!("pool-collisions", par_models(ctx, spaces::collision_cases(), true));
	run!("end-of-code-tables", par_models(ctx, spaces::tail_cases(), true));

	let patched = spaces::patched_code_cases();
	let acc = patched.par_iter().fold(Acc::new, |mut acc, (label, bytes)| {
		vcore::watched(|| replay_text(label, bytes), || judge(ctx, &mut acc, label, bytes, Intent { strict: false, invalid_code: true, ..STRICT }, None, false));
		acc
	}).reduce(Acc::new, Acc::merge);
	run!("unrepresentable-code", acc);

	let mut split: Vec<(String, Vec<u8>, usize, bool)> = spaces::split_table_cases().into_iter().map(|(l, b, n)| (l, b, n, true)).collect();
	split.extend(spaces::merged_table_cases());
	let acc = split.par_iter().fold(Acc::new, |mut acc, (label, bytes, total, strict)| {
		let intent = Intent { table_overflow: *total > 65_535, strict: *strict, ..STRICT };
		if *total == 65_535 {
			acc.ob("table of exactly 65535 entries given to the writer");
		}
		// label = split-tables/<kind>/<shape>/<entries-fit | entries-over-65535>
		let kind = label.split('/').nth(1).unwrap_or("?");
		let before = (acc.st.get("written:equal"), acc.st.get("clean-error"));
		vcore::watched(|| replay_text(label, bytes), || judge(ctx, &mut acc, label, bytes, intent, None, false));
		if *total > 65_535 && acc.st.get("clean-error") > before.1 {
			acc.ob(&format!("split-tables/{kind}: list of more than 65535 entries refused cleanly"));
		}
		if *total <= 65_535 && acc.st.get("written:equal") > before.0 {
			acc.ob(&format!("split-tables/{kind}: list of {total} entries written and read back equal"));
		}
		acc
	}).reduce(Acc::new, Acc::merge);
	run!("split-tables", acc);
	let at_limit = spaces::limit_table_cases();
	let n_at_limit = at_limit.len() as u64;
	let acc = at_limit.into_par_iter().fold(Acc::new, |mut acc, (label, bytes, parsed)| {
		vcore::watched(|| replay_text(&label, &bytes), || judge(ctx, &mut acc, &label, &bytes, STRICT, Some(parsed), false));
		acc
	}).reduce(Acc::new, Acc::merge);
	run!("tables-at-limit", acc);
	let split_kinds: std::collections::BTreeSet<String> = split.iter().filter_map(|(l, ..)| l.split('/').nth(1).map(str::to_owned)).collect();

	// (d) the queued cases once more, each tree renamed by dukebox with each remapper before it is written
	let queue = std::mem::take(&mut sink.total.queue);
	let n_queue = queue.len();
	silence_stderr();
	let acc = queue.par_iter().fold(Acc::new, |mut acc, (label, bytes)| {
		for mode in renamed::MODES {
			vcore::watched(|| replay_text(&format!("{label} renamed={}", mode.name()), bytes), || {
				judge_renamed(ctx, &mut acc, label, bytes, mode, false);
			});
		}
		acc
	}).reduce(Acc::new, Acc::merge);
	restore_stderr();
	drop(queue);
	run!("renamed-trees", acc);

	// (e) renamed trees whose pool lands on, below and above the 65535-slot limit
	let families = poollimit::families(quick);
	let phases_before: Vec<u64> = PHASE_NS.iter().map(|p| p.load(std::sync::atomic::Ordering::Relaxed)).collect();
	silence_stderr();
	let families: Vec<poollimit::Family> = families.par_iter().map(|(tail, mode)| poollimit::calibrate(tail, *mode)).collect();
	let limit_cases: Vec<(usize, u32)> = (0..families.len()).flat_map(|f| poollimit::window(quick).map(move |t| (f, t))).collect();
	let acc = limit_cases.par_iter().fold(Acc::new, |mut acc, (f, target)| {
		judge_pool_limit(ctx, &mut acc, &families[*f], *target);
		acc
	}).reduce(Acc::new, Acc::merge);
	restore_stderr();
	if timing {
		for (i, n) in PHASES.iter().enumerate() {
			eprintln!("[timing] pool-limit phase {n:18} {:8.2}s (summed over threads)", (PHASE_NS[i].load(std::sync::atomic::Ordering::Relaxed) - phases_before[i]) as f64 / 1e9);
		}
	}
	run!("pool-limit-after-renaming", acc);
	let Sink { total, spaces, space_equal, .. } = sink;

	if timing {
		for (i, n) in PHASES.iter().enumerate() {
			eprintln!("[timing] phase {n:18} {:8.2}s (summed over threads)", PHASE_NS[i].load(std::sync::atomic::Ordering::Relaxed) as f64 / 1e9);
		}
	}

	// vacuity floors: the interesting mechanisms really ran
	ctx.floor("writer executions", ctx.tier.pick(50_000, 1_000_000), total.transitions);
	ctx.floor("classes written and read back equal", 5_000, total.st.get("written:equal"));
	ctx.floor("vendored corpus classes", 50, n_corpus as u64);
	ctx.floor("forward conditional jumps written as a trampoline", 1, total.obs("forward conditional jump written as a trampoline"));
	ctx.floor("backward conditional jumps written as a trampoline", 1, total.obs("backward conditional jump written as a trampoline"));
	ctx.floor("cascades needing >= 2 long sites", 1, total.obs("cascade: a jump in range in the all-narrow layout was rewritten because another one was (>= 2 long sites)"));
	ctx.floor("cascades with >= 3 long sites", 1, total.obs("cascade with >= 3 long sites"));
	ctx.floor("longest chain: long sites in one method of a scene where jumps push each other over the limit", ctx.tier.pick(33, 96), total.max_cascade_sites);
	ctx.floor("most long sites in one method", ctx.tier.pick(260, 1000), total.max_sites);
	ctx.floor("methods with forward and backward trampolines", 1, total.obs("method with forward and backward trampolines"));
	ctx.floor("methods with dynamic constants written with ldc2_w", 1, total.obs("method with dynamic constants written with ldc2_w"));
	// the new spaces ran and produced outputs that were read back equal (a difference is a VIOLATION of its own, not a floor)
	for (name, least) in [("invokeinterface-descriptors", n_lists), ("dynamic-constant-descriptors", 400), ("bootstrap-table", 80), ("pool-collisions", 18), ("end-of-code-tables", 200), ("chain-of-k", ctx.tier.pick(200, 800)), ("fan-of-k", ctx.tier.pick(60, 300)), ("mixed-chain", ctx.tier.pick(100, 900)), ("unrepresentable-code", 20)] {
		let (cases, equal) = space_equal.get(name).copied().unwrap_or((0, 0));
		ctx.floor(&format!("{name}: cases given to the writer"), least, cases);
		if name != "unrepresentable-code" {
			ctx.floor(&format!("{name}: cases written and read back equal"), least / 2, equal);
		}
	}
	ctx.floor("renamed trees given to the writer", ctx.tier.pick(10_000, 20_000), total.obs("tree renamed by dukebox and given to the writer"));
	ctx.floor("renamed trees written and read back equal", 5_000, total.obs("renamed tree written and read back equal"));
	ctx.floor("full constant pool cases", 11, n_full);
	ctx.floor("tables of more than 65535 entries refused cleanly", 1, total.obs("clean error where a table has more than 65535 entries"));
	ctx.floor("split-tables: tables of up to 65535 entries written and read back equal", 2, space_equal.get("split-tables").map(|x| x.1).unwrap_or(0));
	ctx.floor("tables-at-limit: tables of exactly 65535 (type path: 255) entries given to the writer", 10, space_equal.get("tables-at-limit").map(|x| x.0).unwrap_or(0));
	ctx.floor("tables-at-limit: written and read back equal", 10, space_equal.get("tables-at-limit").map(|x| x.1).unwrap_or(0));
	// every list the reader accumulates over repeated attributes: written whole with exactly 65535 entries, refused beyond
	ctx.floor("split-tables: kinds of accumulated lists", 22, split_kinds.len() as u64);
	ctx.floor("split-tables: kinds whose list of exactly 65535 entries was written and read back equal", split_kinds.len() as u64,
		split_kinds.iter().filter(|k| total.obs(&format!("split-tables/{k}: list of 65535 entries written and read back equal")) > 0).count() as u64);
	ctx.floor("split-tables: kinds whose list of more than 65535 entries was refused cleanly", split_kinds.len() as u64,
		split_kinds.iter().filter(|k| total.obs(&format!("split-tables/{k}: list of more than 65535 entries refused cleanly")) > 0).count() as u64);
	ctx.floor("renamed trees refused cleanly because the constant pool overflows", 1, total.obs("renamed tree refused cleanly: it needs more constant pool entries than the full pool it was read from"));
	ctx.floor("renamed trees written with a larger, nearly full constant pool", 1, total.obs("renamed tree written with a larger, nearly full constant pool"));
	ctx.floor("renamed trees whose ldc/ldc_w choices differ from those of the unrenamed tree", 1, total.obs("renaming moved a constant across the ldc/ldc_w boundary"));
	ctx.floor("renamed trees with a rewritten jump", 1, total.obs("renamed tree with a rewritten jump"));
	ctx.floor("clean errors where the code cannot fit", 1, total.obs("clean error where the settled layout exceeds 65535 bytes"));
	ctx.floor("switches with an arm beyond 16 bits", 1, total.obs("switch with an arm beyond 16 bits"));
	ctx.floor("switches in a method with a rewritten jump", 1, total.obs("switch in a method with a rewritten jump"));
	ctx.floor("narrow jump over exactly +32767 written", 1, (total.max_narrow == 32_767) as u64);
	ctx.floor("narrow jump over exactly -32768 written", 1, (total.min_narrow == -32_768) as u64);
	// a forward jump rewritten by the writer grows by its own rewriting: 32768 + 2 (goto_w) / + 5 (trampoline)
	ctx.floor("forward goto_w/jsr_w at the smallest distance that needs it (<= 32770) written", 1, (total.min_wide_fwd <= 32_770) as u64);
	ctx.floor("backward goto_w/jsr_w over exactly -32769 written", 1, (total.max_wide_bwd == -32_769) as u64);
	ctx.floor("forward trampoline at the smallest distance that needs it (<= 32773) written", 1, (total.min_tramp_fwd <= 32_773) as u64);
	ctx.floor("backward trampoline for a jump over exactly -32769 written", 1, (total.max_tramp_bwd == -32_769) as u64);
	ctx.floor("methods written with ldc and with ldc_w", 2, (total.obs("method written with ldc") > 0) as u64 + (total.obs("method written with ldc_w") > 0) as u64);
	ctx.floor("code_length 65535 written", 1, total.obs("code_length 65535 written"));
	// the pool-limit space: both sides of the limit were reached, by one-slot and by two-slot last entries
	let side = |slots: u8, f: &dyn Fn(&Limit) -> Option<u32>, best: &dyn Fn(u32, u32) -> u32| -> Option<u32> {
		total.limit.values().filter(|l| l.last_slots == slots).filter_map(f).reduce(best)
	};
	let largest_written = |slots: u8| side(slots, &|l| l.written.iter().next_back().copied(), &|a, b| a.max(b)).unwrap_or(0);
	let smallest_refused = |slots: u8| side(slots, &|l| l.refused_needing.iter().next().copied(), &|a, b| a.min(b)).unwrap_or(0);
	ctx.floor("pool-limit: cases given to the writer", limit_cases.len() as u64, space_equal.get("pool-limit-after-renaming").map(|x| x.0).unwrap_or(0));
	ctx.floor("pool-limit: renamed trees needing exactly the number of pool slots aimed at", limit_cases.len() as u64, total.obs("pool-limit: renamed tree needs exactly the number of pool slots aimed at"));
	ctx.floor("pool-limit: renamed trees written and read back equal", families.len() as u64 * 5, space_equal.get("pool-limit-after-renaming").map(|x| x.1).unwrap_or(0));
	ctx.floor("pool-limit, last entry of one slot: largest constant_pool_count written is 65535", 1, (largest_written(1) == 65_535) as u64);
	ctx.floor("pool-limit, last entry of one slot: smallest need refused is 65536 slots", 1, (smallest_refused(1) == 65_536) as u64);
	ctx.floor("pool-limit, last entry of two slots: largest constant_pool_count written is 65535 (entry at 65533)", 1, (largest_written(2) == 65_535) as u64);
	ctx.floor("pool-limit, last entry of two slots: smallest need refused is 65536 slots (entry at 65534)", 1, (smallest_refused(2) == 65_536) as u64);
	ctx.floor("pool-limit, last entry of two slots: families refused when the entry would start at 65534 and at 65535", total.limit.values().filter(|l| l.last_slots == 2).count() as u64,
		total.limit.values().filter(|l| l.last_slots == 2 && l.refused_needing.contains(&65_536) && l.refused_needing.contains(&65_537)).count() as u64);
	ctx.floor("pool-limit: families (site, kind of the last entry, renaming) with a file of 65535 slots written and a need of 65536 refused", families.len() as u64,
		total.limit.values().filter(|l| l.written.contains(&65_535) && l.refused_needing.contains(&65_536)).count() as u64);
	ctx.floor("constant_pool_count 65535 written", 1, total.obs("constant_pool_count 65535 written"));

	let extremes = json!({
		"max_narrow_offset": total.max_narrow, "min_narrow_offset": total.min_narrow,
		"min_forward_goto_w_offset": if total.min_wide_fwd == i64::MAX { json!(null) } else { json!(total.min_wide_fwd) },
		"max_backward_goto_w_offset": if total.max_wide_bwd == i64::MIN { json!(null) } else { json!(total.max_wide_bwd) },
		"min_forward_trampoline_distance": if total.min_tramp_fwd == i64::MAX { json!(null) } else { json!(total.min_tramp_fwd) },
		"max_backward_trampoline_distance": if total.max_tramp_bwd == i64::MIN { json!(null) } else { json!(total.max_tramp_bwd) },
	});
	let mut coverage = json!({
		"states": total.states.len(),
		"transitions": total.transitions,
		"traces_validated_against_impl": total.validated,
		"max_depth": total.widen_hist.keys().max().copied().unwrap_or(0) + 1,
		"evaluations": total.transitions,
		"distinct_nontrivial": total.st.distinct.len(),
		"rule": "every case is a class file read by the real duke::read_class; the tree is written by the real duke::write_class; the output is parsed by the independent strict parser and compared fact-by-fact with the projection of the tree (trampolines folded on the written side only). states = distinct (method body, set of sites written in the long form); transitions = write_class executions; distinct_nontrivial = distinct class descriptions given to the writer",
		"exhaustive": true,
		"samples": total.st.samples,
		"outcomes": total.st.outcomes,
		"widenings_histogram": total.widen_hist.iter().map(|(k, v)| (format!("{k} long sites"), json!(v))).collect::<serde_json::Map<_, _>>(),
		"observations": total.obs,
		"offset_extremes": extremes,
		"spaces": spaces,
		"bounds": {
			"shape_sweep_max_len": max_len,
			"shape_alphabet": shape_alphabet().len(),
			"shape_second_encoding": "all of lengths 1-2, every 7th sequence of length >= 3",
			"corpus_classes": n_corpus,
			"jdk_classes": n_jdk,
			"window_half_width": ctx.tier.pick(8, 20),
			"far_jumps_per_method": "2 and 3 in every arrangement; chains up to 33 (thorough 96), fans up to 260 (1000), mixed chains up to 2x13 (2x32)",
			"invokeinterface_descriptor_alphabet": spaces::PARAM_TYPES.len(),
			"invokeinterface_descriptor_max_params": desc_len,
			"invokeinterface_descriptor_lists": n_lists,
			"invokeinterface_return_types": spaces::RETURN_TYPES.len(),
			"split_tables": split.iter().map(|(l, _, n, _)| format!("{l} ({n})")).collect::<Vec<_>>(),
			"unrepresentable_code_cases": patched.len(),
			"tables_at_limit_cases": n_at_limit,
			"full_pool_cases": n_full,
			"renamed_cases": n_queue,
			"renamed_remappers": renamed::MODES.iter().map(|m| m.name()).collect::<Vec<_>>(),
			"renamed_slice": "every case of the shared suite, shape sweep of lengths 1-2, javac corpus, operand thresholds, collision spaces (every 16th descriptor list); every 8th (thorough: 2nd) scene of each window group",
			"longest_chain_long_sites": total.max_cascade_sites,
			"most_long_sites_in_one_method": total.max_sites,
			"jump_opcodes": 18,
			"window_specifications": window_specs,
			"window_groups": window_bounds,
			"fill_constants": windows::FILL,
		},
	});
	coverage["pool_limit"] = total.limit.iter().map(|(k, l)| (k.clone(), json!({
		"slots_of_last_entry": l.last_slots, "constant_pool_counts_written": l.written, "needs_refused": l.refused_needing,
		"written_with_a_count_other_than_the_reference_needs": l.other_count,
	}))).collect::<serde_json::Map<_, _>>().into();
	coverage["bounds"]["pool_limit"] = json!({
		"window_of_needed_slots": [poollimit::window(quick).start(), poollimit::window(quick).end()],
		"tails": poollimit::tails().iter().map(|t| t.label()).collect::<Vec<_>>(),
		"families": families.len(),
		"cases": limit_cases.len(),
		"renamings": "grow on every tail; owner on every tail outside a field (quick: on the tails with a two-slot constant among the last entries and on every sixth other tail)",
		"warmed_attribute_names": poollimit::WARM,
	});
	ctx.finish(coverage, &[
		"cfmodel's strict parser is the independent reading of JVMS ch. 4 (cross-checked: parse(assemble(m)) == m for every generated class)",
		"the writer is judged against the projection of the tree it was given; what the reader loses is C01's business",
		"`if<not c> next-next; goto L` in the output where the tree has `if<c> L` is the same fact (the rewriting the property names); goto_w/jsr_w are goto/jsr",
		"a clean Err is a difference only when every method of the class fits 65535 bytes in the longest encoding of each instruction and the input pool used at most 32767 slots",
		"the window generators aim at output distances assuming short instruction forms and a first-use constant pool; the floors measure on the writer's real output that the limits were hit exactly",
		"renamed trees: the renaming is done by the real dukebox::remap::remap_class with two remappers of the harness; only the writer is judged (against the projection of the renamed tree), whether the renaming is right is C07's business",
		"a clean Err on a renamed tree is accepted also when the reference assembler cannot encode the renamed description (a name that no longer fits 65535 bytes)",
		"pool-limit space: the statement does not say which trees must be written, so a refusal is never a difference there; that the writer does write up to 65535 slots and refuses from 65536 on is measured by floors (constant_pool_count of the outputs read by the strict parser; need of the refused trees = pool of the reference assembler for the same description without its filler constants + one slot per filler constant)",
		"pool-limit space: the class files are the reference assembler's file of the class without filler, with n Integer entries and n array elements spliced in; parse(file) == the class meant is checked for every case before the code under test is consulted",
	]);
}
