//! C02 — the class writer emits a well-formed file denoting exactly the given class.
//!
//! For every tree `T = duke::read_class(bytes)` the REAL `duke::write_class(T)` is executed; a
//! successful output must be accepted by the independent strict parser (cfmodel, JVMS ch. 4) and must
//! state exactly `project(T)` — the description that was *given to the writer* (so reader losses are
//! not charged here) — modulo the one rewriting the property allows: a conditional jump that does not
//! fit 16 bits may appear as `if<¬c> +8; goto_w L`. A clean `Err` is accepted unless the class is
//! one no writer has a reason to refuse (every method fits 65535 bytes even in the longest encoding);
//! a panic is a violation.
//!
//! Enumerated spaces (each complete within its stated bounds, no sampling):
//! (a) the shared class suite of C01 (instruction samples × forms × pools, 3^8 form product, switch
//!     paddings, pool permutations/rotations/padding, attribute orders and contents, versions, Utf8
//!     boundary strings), the shape sweep (all instruction sequences up to length L with every branch
//!     target) and the vendored javac corpus (thorough: also java.base);
//! (b) threshold windows (c02/windows.rs): one far jump for each of the 18 jump opcodes × direction ×
//!     every distance in a window around ±32767/32768; two (thorough: three) jumps in crossing, nested,
//!     disjoint arrangements where rewriting one pushes another over the limit; switches at every
//!     alignment with far arms before/after a rewritten jump and with input/output padding that differs;
//!     code length landing on 65528..65541; a backward conditional jump whose opcode sits at 65515..65535;
//!     `ldc` around pool index 255, locals around 3/4 and 255/256, `iinc` around ±127/128, `ret`,
//!     `invokeinterface` counts up to 255 (and the unrepresentable 256/257), MethodParameters up to 255,
//!     constant pools filled to 65533..65535 slots.
//!
//! Level `model_checking`: states = distinct (method body, set of sites the writer emitted in the long
//! form) reached; transitions = executions of the real `duke::write_class`, each validated.

use std::collections::BTreeMap;

use cfmodel::asm::{assemble, AsmError, Encoding, PoolOrder};
use cfmodel::gen::*;
use cfmodel::model::*;
use rayon::prelude::*;
use vcore::{json, Ctx, Distinct, Stats, Tier};

#[path = "c02/oracle.rs"]
mod oracle;
#[path = "c02/windows.rs"]
mod windows;

use windows::Intent;

#[derive(Default)]
struct Acc {
	st: Stats,
	states: Distinct,
	transitions: u64,
	validated: u64,
	widen_hist: BTreeMap<u64, u64>,
	/// observations about the writer's output used by the vacuity floors
	obs: BTreeMap<String, u64>,
	/// extreme offsets observed: (max narrow, min narrow, min wide forward, max wide backward, min trampoline distance forward, max trampoline distance backward)
	max_narrow: i32,
	min_narrow: i32,
	min_wide_fwd: i64,
	max_wide_bwd: i64,
	min_tramp_fwd: i64,
	max_tramp_bwd: i64,
}

impl Acc {
	fn new() -> Acc {
		Acc { min_wide_fwd: i64::MAX, max_wide_bwd: i64::MIN, min_tramp_fwd: i64::MAX, max_tramp_bwd: i64::MIN, ..Default::default() }
	}
	fn ob(&mut self, k: &str) {
		*self.obs.entry(k.to_owned()).or_insert(0) += 1;
	}
	fn obs(&self, k: &str) -> u64 {
		self.obs.get(k).copied().unwrap_or(0)
	}
	fn merge(mut self, o: Acc) -> Acc {
		self.st = std::mem::take(&mut self.st).merge(o.st);
		self.states.merge(o.states);
		self.transitions += o.transitions;
		self.validated += o.validated;
		for (k, v) in o.widen_hist {
			*self.widen_hist.entry(k).or_insert(0) += v;
		}
		for (k, v) in o.obs {
			*self.obs.entry(k).or_insert(0) += v;
		}
		self.max_narrow = self.max_narrow.max(o.max_narrow);
		self.min_narrow = self.min_narrow.min(o.min_narrow);
		self.min_wide_fwd = self.min_wide_fwd.min(o.min_wide_fwd);
		self.max_wide_bwd = self.max_wide_bwd.max(o.max_wide_bwd);
		self.min_tramp_fwd = self.min_tramp_fwd.min(o.min_tramp_fwd);
		self.max_tramp_bwd = self.max_tramp_bwd.max(o.max_tramp_bwd);
		self
	}
}

static PHASE_NS: [std::sync::atomic::AtomicU64; 10] = [const { std::sync::atomic::AtomicU64::new(0) }; 10];
const PHASES: [&str; 10] = ["realise", "assemble", "self-check parse", "reference parse", "read_class", "project", "write_class", "parse output", "normalise+diff", "scan+stats"];

/// development aid: cumulative time per phase, printed to stderr under C02_TIMING (never in evidence)
fn timed<T>(phase: usize, f: impl FnOnce() -> T) -> T {
	let t = std::time::Instant::now();
	let r = f();
	PHASE_NS[phase].fetch_add(t.elapsed().as_nanos() as u64, std::sync::atomic::Ordering::Relaxed);
	r
}

fn replay_text(label: &str, bytes: &[u8]) -> String {
	format!("label={label}\nclass file bytes (hex):\n{}", oracle::fast_hex(bytes))
}

/// a stable category of a parser or panic message: its first words, every token with a digit dropped
fn message_class(msg: &str) -> String {
	let words: Vec<String> = msg.split_whitespace()
		.map(|w| w.trim_matches(|c: char| !c.is_ascii_alphanumeric() && c != '_'))
		.filter(|w| w.len() > 1 && !w.chars().any(|c| c.is_ascii_digit()) && w.chars().all(|c| c.is_ascii_alphanumeric() || c == '_'))
		.take(6).map(|w| w.to_ascii_lowercase()).collect();
	words.join("-")
}

/// One case: the bytes of a class file. Read it with the real reader, write the tree with the real
/// writer, judge the result.
fn judge(ctx: &Ctx, acc: &mut Acc, label: &str, bytes: &[u8], intent: Intent, parsed_input: Option<cfmodel::Parsed>) {
	let reference = match parsed_input {
		Some(p) => Ok(p),
		None => timed(3, || cfmodel::parse(bytes)),
	};
	if intent.strict {
		if let Err(e) = &reference {
			vcore::machinery_fail(&format!("{label}: the reference parser rejects a class of the test set: {e}"));
		}
	}
	let read = timed(4, || vcore::guard(|| duke::read_class(&mut std::io::Cursor::new(bytes))));
	let tree = match read {
		Err(_) => {
			acc.st.outcome("not-written:reader-panicked (C01/C16)");
			return;
		},
		Ok(Err(_)) => {
			acc.st.outcome("not-written:reader-refused (C01)");
			return;
		},
		Ok(Ok(t)) => t,
	};
	let expected = match timed(5, || cfmodel::duke_proj::project(&tree)) {
		Ok(p) => p,
		Err(_) => {
			acc.st.outcome("not-written:inconsistent-tree (C01)");
			return;
		},
	};
	acc.st.distinct.add(&expected);
	acc.st.eval();
	acc.transitions += 1;
	let written = timed(6, || vcore::guard(|| {
		let mut out: Vec<u8> = Vec::new();
		duke::write_class(&mut out, &tree).map(|()| out)
	}));
	let group = label.split('/').next().unwrap_or(label);
	let out = match written {
		Err(p) => {
			acc.st.outcome("panic");
			acc.validated += 1;
			ctx.diff(&format!("panic@{}:{}", p.file(), message_class(&p.msg)), &format!("write_class panicked at {}: {}", p.site, p.msg), || replay_text(label, bytes));
			return;
		},
		Ok(Err(e)) => {
			acc.validated += 1;
			let msg = format!("{e:#}");
			let msg = &msg[..msg.char_indices().take_while(|(i, _)| *i < 300).last().map(|(i, c)| i + c.len_utf8()).unwrap_or(0)];
			let pool = reference.as_ref().map(|p| p.pool_count).unwrap_or(u16::MAX);
			if reference.is_ok() && oracle::must_be_writable(&expected, pool) {
				acc.st.outcome("refused-writable-class");
				ctx.diff("writer:refused-writable-class", &format!("write_class fails on a class every method of which fits 65535 bytes in any encoding: {msg}"), || replay_text(label, bytes));
			} else {
				acc.st.outcome("clean-error");
				if intent.overflow {
					acc.ob("clean error where the settled layout exceeds 65535 bytes");
				}
				acc.st.sample("clean-error", || json!({"label": label, "outcome": "clean error", "message": msg}));
			}
			return;
		},
		Ok(Ok(out)) => out,
	};
	acc.validated += 1;
	let parsed = match timed(7, || cfmodel::parse(&out)) {
		Ok(p) => p,
		Err(e) => {
			acc.st.outcome("ill-formed-output");
			ctx.diff(&format!("output:ill-formed:{}", message_class(&e.msg)), &format!("the written file is not a well-formed class file: {e}"), || replay_text(label, bytes));
			return;
		},
	};
	let (actual, info) = timed(8, || oracle::normalise(&expected, &parsed.class));
	let diffs = timed(8, || cfmodel::sdiff::diff(&expected, &actual));
	acc.st.outcome(if diffs.is_empty() { "written:equal" } else { "written:differs" });
	for (key, detail) in diffs.0 {
		ctx.diff(&key, &detail, || replay_text(label, bytes));
	}
	if let Ok(r) = &reference {
		acc.ob(if r.class == parsed.class { "composite parse(b') == parse(b) (information)" } else { "composite parse(b') != parse(b) (information)" });
	}

	// what the output shows about the fix-point (states, histograms, floors)
	let scans = oracle::scan(&parsed, &out);
	let mut si = 0usize;
	let mut case_wide = 0u64;
	let mut case_folds = 0u64;
	for (mi, m) in expected.methods.iter().enumerate() {
		let Some(ec) = &m.code else { continue };
		if actual.methods.get(mi).and_then(|m| m.code.as_ref()).is_none() {
			continue;
		}
		let Some(cs) = scans.get(si) else { break };
		si += 1;
		let Some(Some((folds, map))) = info.get(mi) else { continue };
		let mut wide_set: Vec<Idx> = Vec::new();
		for (ai, off) in &cs.wide_sites {
			let mapped = map.get(*ai as usize).copied().unwrap_or(u32::MAX);
			if mapped == oracle::INTERIOR {
				// the goto_w of a trampoline: the jump it stands for starts 3 bytes earlier
				let d = *off as i64 + 3;
				if d > 0 {
					acc.min_tramp_fwd = acc.min_tramp_fwd.min(d);
				} else {
					acc.max_tramp_bwd = acc.max_tramp_bwd.max(d);
				}
			} else {
				wide_set.push(mapped);
				if *off > 0 {
					acc.min_wide_fwd = acc.min_wide_fwd.min(*off as i64);
				} else {
					acc.max_wide_bwd = acc.max_wide_bwd.max(*off as i64);
				}
			}
		}
		for f in folds {
			wide_set.push(*f);
			match ec.insns.get(*f as usize) {
				Some(SInsn::Branch(_, t)) if *t > *f => acc.ob("forward conditional jump written as a trampoline"),
				Some(SInsn::Branch(..)) => acc.ob("backward conditional jump written as a trampoline"),
				_ => {},
			}
		}
		wide_set.sort();
		case_wide += wide_set.len() as u64;
		case_folds += folds.len() as u64;
		acc.max_narrow = acc.max_narrow.max(cs.max_narrow);
		acc.min_narrow = acc.min_narrow.min(cs.min_narrow);
		if cs.far_switch_arms > 0 {
			acc.ob("switch with an arm beyond 16 bits");
		}
		if cs.switches > 0 && !wide_set.is_empty() {
			acc.ob("switch in a method with a rewritten jump");
		}
		if cs.ldc > 0 {
			acc.ob("method written with ldc");
		}
		if cs.ldc_w > 0 {
			acc.ob("method written with ldc_w");
		}
		if cs.code_length >= 65_533 {
			acc.ob(&format!("code_length {} written", cs.code_length));
		}
		acc.states.add(&(vcore::hash64(&ec.insns), &wide_set));
	}
	*acc.widen_hist.entry(case_wide).or_insert(0) += 1;
	if intent.cascade && case_wide >= 2 {
		acc.ob("cascade: a jump in range in the all-narrow layout was rewritten because another one was (>= 2 long sites)");
	}
	if intent.cascade && case_wide >= 3 {
		acc.ob("cascade with >= 3 long sites");
	}
	if parsed.pool_count >= 65_533 {
		acc.ob(&format!("constant_pool_count {} written", parsed.pool_count));
	}
	let tag = if case_folds > 0 { format!("{group}+trampoline") } else if case_wide > 0 { format!("{group}+wide") } else { group.to_owned() };
	acc.st.sample(&tag, || json!({
		"label": label, "input_bytes": bytes.len(), "output_bytes": out.len(), "input_head_hex": vcore::hex(&bytes[..bytes.len().min(64)]),
		"this_class": expected.this_class.to_string_lossy(), "methods": expected.methods.len(),
		"instructions": expected.methods.iter().map(|m| m.code.as_ref().map(|c| c.insns.len()).unwrap_or(0)).sum::<usize>(),
		"long_form_sites_in_output": case_wide, "trampolines": case_folds,
		"code_lengths": scans.iter().map(|s| s.code_length).collect::<Vec<_>>(),
	}));
}

fn judge_model(ctx: &Ctx, acc: &mut Acc, label: &str, model: &SClass, enc: &Encoding, intent: Intent) {
	match timed(1, || assemble(model, enc)) {
		Ok(bytes) => {
			// oracle self-check before the code under test is consulted
			let p = match timed(2, || cfmodel::parse(&bytes)) {
				Ok(p) if &p.class == model => p,
				Ok(p) => vcore::machinery_fail(&format!("{label}: assembler and reference parser disagree: {:?}", cfmodel::sdiff::diff(model, &p.class).0.first())),
				Err(e) => vcore::machinery_fail(&format!("{label}: the reference parser rejects an assembled class: {e}")),
			};
			vcore::watched(|| replay_text(label, &bytes), || judge(ctx, acc, label, &bytes, intent, Some(p)))
		},
		Err(AsmError::Unencodable(_)) => acc.st.outcome("unencodable-skipped"),
		Err(AsmError::Internal(e)) => vcore::machinery_fail(&format!("{label}: assembler: {e}")),
	}
}

const STRICT: Intent = Intent { widened: 0, cascade: false, overflow: false, strict: true };

fn par_models(ctx: &'static Ctx, cases: Vec<(String, SClass, Encoding)>) -> Acc {
	cases.into_par_iter().fold(Acc::new, |mut acc, (label, m, e)| {
		judge_model(ctx, &mut acc, &label, &m, &e, STRICT);
		acc
	}).reduce(Acc::new, Acc::merge)
}

fn main() {
	// the cases allocate and free many buffers of 0.1..10 MB; keep them in the heap instead of
	// mapping/unmapping (and re-faulting) them each time
	unsafe {
		libc::mallopt(libc::M_MMAP_THRESHOLD, 1 << 30);
		libc::mallopt(libc::M_TRIM_THRESHOLD, 1 << 30);
		libc::mallopt(libc::M_TOP_PAD, 64 << 20);
	}
	let ctx: &'static Ctx = Box::leak(Box::new(Ctx::new("C02", "model_checking")));
	if let Some(path) = ctx.replay.clone() {
		let body = vcore::replay_body(&path);
		let hex: String = body.lines().skip_while(|l| !l.starts_with("class file bytes")).skip(1).collect();
		let bytes = vcore::unhex(&hex).unwrap_or_else(|| vcore::machinery_fail("replay: bad hex"));
		let lenient = Intent { strict: false, ..STRICT };
		let mut a = Acc::new();
		judge(ctx, &mut a, "replay", &bytes, lenient, None);
		let mut b = Acc::new();
		judge(ctx, &mut b, "replay", &bytes, lenient, None);
		if a.st.outcomes != b.st.outcomes {
			vcore::machinery_fail("replay: the two runs of the case differ");
		}
		ctx.finish(json!({"evaluations": 2, "distinct_nontrivial": 2, "states": 1, "transitions": 2, "traces_validated_against_impl": 2, "rule": "replay of one class file, twice", "outcomes": a.st.outcomes, "samples": [body.lines().next()]}), &[]);
	}
	let quick = ctx.tier == Tier::Quick;
	let mut total = Acc::new();
	let mut spaces = serde_json::Map::new();
	let timing = std::env::var_os("C02_TIMING").is_some();
	let mut run = |name: &str, acc: Acc| {
		if timing {
			eprintln!("[timing] {:8.2}s after {name}", ctx.elapsed_s());
		}
		spaces.insert(name.to_owned(), json!({"writer_executions": acc.transitions, "outcomes": acc.st.outcomes, "distinct_classes": acc.st.distinct.len(), "states": acc.states.len()}));
		total = std::mem::replace(&mut total, Acc::new()).merge(acc);
	};

	// (a) the shared suite, the shape sweep, the corpus
	for (name, cases) in cfmodel::suite::listed_groups(quick) {
		run(name, par_models(ctx, cases));
	}
	let max_len = ctx.tier.pick(3, 4);
	for len in 1..=max_len {
		let space = ShapeSpace::new(len);
		let encs = [Encoding::default(), Encoding { default_form: 2, pool: PoolOrder::Reversed, ..Default::default() }];
		let n = space.count();
		let acc = (0..n).into_par_iter().fold(Acc::new, |mut acc, idx| {
			let m = class_with_method("p/Shape", space.nth(idx));
			for (k, e) in encs.iter().enumerate() {
				if k == 1 && len >= 3 && idx % 7 != 0 {
					continue; // the second encoding on a fixed 1/7 slice of the longer spaces (stated in bounds)
				}
				judge_model(ctx, &mut acc, &format!("shape/len{len}/{idx}/enc{k}"), &m, e, STRICT);
			}
			acc
		}).reduce(Acc::new, Acc::merge);
		run(&format!("shape-sweep-len{len}"), acc);
	}
	let corpus = cfmodel::corpus::vendored(&vcore::verif_root());
	let n_corpus = corpus.len();
	let acc = corpus.par_iter().fold(Acc::new, |mut acc, (name, bytes)| {
		let label = format!("corpus/{name}");
		vcore::watched(|| replay_text(&label, bytes), || judge(ctx, &mut acc, &label, bytes, STRICT, None));
		acc
	}).reduce(Acc::new, Acc::merge);
	run("javac-corpus", acc);
	let mut n_jdk = 0;
	if !quick {
		let jdk = cfmodel::corpus::jdk_java_base(&vcore::verif_root().join("harness").join("target").join("tmp-jdk-c02"));
		n_jdk = jdk.len();
		let acc = jdk.par_iter().fold(Acc::new, |mut acc, (name, bytes)| {
			let label = format!("jdk/{name}");
			vcore::watched(|| replay_text(&label, bytes), || judge(ctx, &mut acc, &label, bytes, STRICT, None));
			acc
		}).reduce(Acc::new, Acc::merge);
		run("jdk-java.base (optional breadth)", acc);
	}

	// (b) threshold windows
	let mut window_specs = 0u64;
	let mut window_bounds = serde_json::Map::new();
	for (name, specs) in windows::specs(quick) {
		window_specs += specs.len() as u64;
		window_bounds.insert(name.to_owned(), json!(specs.len()));
		let acc = specs.par_iter().fold(Acc::new, |mut acc, spec| {
			match timed(0, || spec.realise()) {
				Some(case) => {
					if case.intent.widened > 0 {
						acc.ob("scene whose settled layout needs a long form");
					}
					judge_model(ctx, &mut acc, &format!("{name}/{}", case.label), &case.class, &case.enc, case.intent)
				},
				None => acc.st.outcome("scene-infeasible-skipped"),
			}
			acc
		}).reduce(Acc::new, Acc::merge);
		run(name, acc);
	}
	run("operand-thresholds", par_models(ctx, windows::operand_cases(quick)));
	run("full-constant-pool", par_models(ctx, windows::full_pool_cases(quick)));
	let patched = windows::patched_invokeinterface();
	let acc = patched.par_iter().fold(Acc::new, |mut acc, (label, bytes)| {
		vcore::watched(|| replay_text(label, bytes), || judge(ctx, &mut acc, label, bytes, Intent { strict: false, ..STRICT }, None));
		acc
	}).reduce(Acc::new, Acc::merge);
	run("invokeinterface-unrepresentable", acc);

	if timing {
		for (i, n) in PHASES.iter().enumerate() {
			eprintln!("[timing] phase {n:18} {:8.2}s (summed over threads)", PHASE_NS[i].load(std::sync::atomic::Ordering::Relaxed) as f64 / 1e9);
		}
	}

	// vacuity floors: the interesting mechanisms really ran
	ctx.floor("writer executions", ctx.tier.pick(50_000, 1_000_000), total.transitions);
	ctx.floor("classes written and read back equal", 5_000, total.st.get("written:equal"));
	ctx.floor("vendored corpus classes", 50, n_corpus as u64);
	ctx.floor("forward conditional jumps written as a trampoline", 1, total.obs("forward conditional jump written as a trampoline"));
	ctx.floor("backward conditional jumps written as a trampoline", 1, total.obs("backward conditional jump written as a trampoline"));
	ctx.floor("cascades needing >= 2 long sites", 1, total.obs("cascade: a jump in range in the all-narrow layout was rewritten because another one was (>= 2 long sites)"));
	if !quick {
		ctx.floor("cascades with >= 3 long sites", 1, total.obs("cascade with >= 3 long sites"));
	}
	ctx.floor("clean errors where the code cannot fit", 1, total.obs("clean error where the settled layout exceeds 65535 bytes"));
	ctx.floor("switches with an arm beyond 16 bits", 1, total.obs("switch with an arm beyond 16 bits"));
	ctx.floor("switches in a method with a rewritten jump", 1, total.obs("switch in a method with a rewritten jump"));
	ctx.floor("narrow jump over exactly +32767 written", 1, (total.max_narrow == 32_767) as u64);
	ctx.floor("narrow jump over exactly -32768 written", 1, (total.min_narrow == -32_768) as u64);
	// a forward jump rewritten by the writer grows by its own rewriting: 32768 + 2 (goto_w) / + 5 (trampoline)
	ctx.floor("forward goto_w/jsr_w at the smallest distance that needs it (<= 32770) written", 1, (total.min_wide_fwd <= 32_770) as u64);
	ctx.floor("backward goto_w/jsr_w over exactly -32769 written", 1, (total.max_wide_bwd == -32_769) as u64);
	ctx.floor("forward trampoline at the smallest distance that needs it (<= 32773) written", 1, (total.min_tramp_fwd <= 32_773) as u64);
	ctx.floor("backward trampoline for a jump over exactly -32769 written", 1, (total.max_tramp_bwd == -32_769) as u64);
	ctx.floor("methods written with ldc and with ldc_w", 2, (total.obs("method written with ldc") > 0) as u64 + (total.obs("method written with ldc_w") > 0) as u64);
	ctx.floor("code_length 65535 written", 1, total.obs("code_length 65535 written"));
	ctx.floor("constant_pool_count 65535 written", 1, total.obs("constant_pool_count 65535 written"));

	let extremes = json!({
		"max_narrow_offset": total.max_narrow, "min_narrow_offset": total.min_narrow,
		"min_forward_goto_w_offset": if total.min_wide_fwd == i64::MAX { json!(null) } else { json!(total.min_wide_fwd) },
		"max_backward_goto_w_offset": if total.max_wide_bwd == i64::MIN { json!(null) } else { json!(total.max_wide_bwd) },
		"min_forward_trampoline_distance": if total.min_tramp_fwd == i64::MAX { json!(null) } else { json!(total.min_tramp_fwd) },
		"max_backward_trampoline_distance": if total.max_tramp_bwd == i64::MIN { json!(null) } else { json!(total.max_tramp_bwd) },
	});
	let coverage = json!({
		"states": total.states.len(),
		"transitions": total.transitions,
		"traces_validated_against_impl": total.validated,
		"max_depth": total.widen_hist.keys().max().copied().unwrap_or(0) + 1,
		"evaluations": total.transitions,
		"distinct_nontrivial": total.st.distinct.len(),
		"rule": "every case is a class file read by the real duke::read_class; the tree is written by the real duke::write_class; the output is parsed by the independent strict parser and compared fact-by-fact with the projection of the tree (trampolines folded on the written side only). states = distinct (method body, set of sites written in the long form); transitions = write_class executions; distinct_nontrivial = distinct class descriptions given to the writer",
		"exhaustive": true,
		"samples": total.st.samples,
		"outcomes": total.st.outcomes,
		"widenings_histogram": total.widen_hist.iter().map(|(k, v)| (format!("{k} long sites"), json!(v))).collect::<serde_json::Map<_, _>>(),
		"observations": total.obs,
		"offset_extremes": extremes,
		"spaces": spaces,
		"bounds": {
			"shape_sweep_max_len": max_len,
			"shape_alphabet": shape_alphabet().len(),
			"shape_second_encoding": "all of lengths 1-2, every 7th sequence of length >= 3",
			"corpus_classes": n_corpus,
			"jdk_classes": n_jdk,
			"window_half_width": ctx.tier.pick(6, 16),
			"far_jumps_per_method": ctx.tier.pick(2, 3),
			"jump_opcodes": 18,
			"window_specifications": window_specs,
			"window_groups": window_bounds,
			"fill_constants": windows::FILL,
		},
	});
	ctx.finish(coverage, &[
		"cfmodel's strict parser is the independent reading of JVMS ch. 4 (cross-checked: parse(assemble(m)) == m for every generated class)",
		"the writer is judged against the projection of the tree it was given; what the reader loses is C01's business",
		"`if<not c> next-next; goto L` in the output where the tree has `if<c> L` is the same fact (the rewriting the property names); goto_w/jsr_w are goto/jsr",
		"a clean Err is a difference only when every method of the class fits 65535 bytes in the longest encoding of each instruction and the input pool used at most 32767 slots",
		"the window generators aim at output distances assuming short instruction forms and a first-use constant pool; the floors measure on the writer's real output that the limits were hit exactly",
		"renamed trees (dukebox::remap) are written back by C07, not here",
	]);
}
