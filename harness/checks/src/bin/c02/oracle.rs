//! Pieces of the C02 oracle that are independent of how the cases are generated:
//!
//! * `normalise` — the one normalisation the property allows: where the description given to the
//!   writer states `if<c> L` and the written file states `if<¬c> next-next; goto L` (an
//!   inverted-condition trampoline), the two instructions of the file are read as the single fact
//!   `if<c> L`. Only the *written* side is ever folded, and only where the given side has the single
//!   conditional jump of the opposite condition at that place; every other instruction is matched
//!   one to one. A reference to the interior `goto` of a folded trampoline (a branch, a line number,
//!   a range, a frame …) is mapped to a position that exists nowhere and therefore shows up as a
//!   difference of the table that holds it.
//! * `scan` — what the written bytes show about the writer's encoding choices (which sites carry
//!   `goto_w`/`jsr_w`, the extreme narrow and wide offsets, far switch arms, `ldc` vs `ldc_w`); used
//!   only for the state count, the histograms and the vacuity floors, never for a verdict.
//! * `upper_bound_size` — the size of a method body if every instruction took its longest legal
//!   form; a class whose methods all stay within 65535 bytes even then is one no writer has a reason
//!   to refuse.

use cfmodel::model::*;
use cfmodel::parse::{Parsed, Role};

/// index given to references into the interior of a folded trampoline
pub const INTERIOR: Idx = u32::MAX - 1;

pub struct Aligned {
	/// the written code re-expressed in the index space of the given code
	pub code: SCode,
	/// given-side indices of conditional jumps the file states through a trampoline
	pub folds: Vec<Idx>,
	/// written-side instruction index -> given-side index (`INTERIOR` for the goto of a trampoline); len = n + 1
	pub map: Vec<Idx>,
}

pub fn align(exp: &SCode, act: &SCode) -> Aligned {
	let na = act.insns.len();
	let ne = exp.insns.len();
	let mut map = vec![0 as Idx; na + 1];
	let mut folds = Vec::new();
	let mut fold_at = vec![false; na];
	let (mut ia, mut ie) = (0usize, 0usize);
	while ia < na {
		let mut tramp = false;
		if ia + 1 < na && ie < ne {
			if let (SInsn::Branch(c, t), SInsn::Branch(op::GOTO, _), SInsn::Branch(ce, _)) = (&act.insns[ia], &act.insns[ia + 1], &exp.insns[ie]) {
				if *t as usize == ia + 2 && op::inverted(*c) == Some(*ce) {
					tramp = true;
				}
			}
		}
		if tramp {
			map[ia] = ie as Idx;
			map[ia + 1] = INTERIOR;
			fold_at[ia] = true;
			folds.push(ie as Idx);
			ia += 2;
		} else {
			map[ia] = ie as Idx;
			ia += 1;
		}
		ie += 1;
	}
	map[na] = ie as Idx;
	let m = |x: Idx| -> Idx { map.get(x as usize).copied().unwrap_or(x) };
	let mut code = SCode { max_stack: act.max_stack, max_locals: act.max_locals, empty_line_table: act.empty_line_table, empty_local_table: act.empty_local_table, ..Default::default() };
	let mut k = 0usize;
	while k < na {
		if fold_at[k] {
			if let (SInsn::Branch(c, _), SInsn::Branch(_, l)) = (&act.insns[k], &act.insns[k + 1]) {
				code.insns.push(SInsn::Branch(op::inverted(*c).unwrap_or(*c), m(*l)));
			}
			k += 2;
			continue;
		}
		code.insns.push(match &act.insns[k] {
			SInsn::Branch(o, t) => SInsn::Branch(*o, m(*t)),
			SInsn::TableSwitch { default, low, targets } => SInsn::TableSwitch { default: m(*default), low: *low, targets: targets.iter().map(|t| m(*t)).collect() },
			SInsn::LookupSwitch { default, pairs } => SInsn::LookupSwitch { default: m(*default), pairs: pairs.iter().map(|(k, t)| (*k, m(*t))).collect() },
			other => other.clone(),
		});
		k += 1;
	}
	code.exceptions = act.exceptions.iter().map(|e| SExceptionEntry { start: m(e.start), end: m(e.end), handler: m(e.handler), catch: e.catch.clone() }).collect();
	code.line_numbers = act.line_numbers.iter().map(|(i, l)| (m(*i), *l)).collect();
	code.line_numbers.sort();
	let lv = |v: &Vec<SLocalVar>| -> Vec<SLocalVar> {
		let mut out: Vec<SLocalVar> = v.iter().map(|x| SLocalVar { start: m(x.start), end: m(x.end), name: x.name.clone(), ty: x.ty.clone(), index: x.index }).collect();
		out.sort();
		out
	};
	code.local_vars = lv(&act.local_vars);
	code.local_var_types = lv(&act.local_var_types);
	let vt = |v: &SVType| -> SVType {
		match v {
			SVType::Uninitialized(i) => SVType::Uninitialized(m(*i)),
			o => o.clone(),
		}
	};
	code.frames = act.frames.iter().map(|(i, f)| {
		(m(*i), match f {
			SFrame::SameLocals1(v) => SFrame::SameLocals1(vt(v)),
			SFrame::Append(v) => SFrame::Append(v.iter().map(vt).collect()),
			SFrame::Full { locals, stack } => SFrame::Full { locals: locals.iter().map(vt).collect(), stack: stack.iter().map(vt).collect() },
			o => o.clone(),
		})
	}).collect();
	let ta = |v: &Vec<STypeAnnotation>| -> Vec<STypeAnnotation> {
		v.iter().map(|t| STypeAnnotation {
			target: match &t.target {
				STarget::LocalVar { target_type, table } => STarget::LocalVar { target_type: *target_type, table: table.iter().map(|(s, e, i)| (m(*s), m(*e), *i)).collect() },
				STarget::Offset { target_type, at } => STarget::Offset { target_type: *target_type, at: m(*at) },
				STarget::TypeArgument { target_type, at, index } => STarget::TypeArgument { target_type: *target_type, at: m(*at), index: *index },
				o => o.clone(),
			},
			path: t.path.clone(),
			annotation: t.annotation.clone(),
		}).collect()
	};
	code.visible_type = ta(&act.visible_type);
	code.invisible_type = ta(&act.invisible_type);
	code.unknown = act.unknown.clone();
	Aligned { code, folds, map }
}

/// The written class with every method body re-expressed in the index space of the given class.
/// Methods are paired by position; if the method lists do not correspond nothing is folded (the
/// comparator reports the lists). Returns one `Option<Aligned>` (without its code) per method.
pub fn normalise(expected: &SClass, actual: &SClass) -> (SClass, Vec<Option<(Vec<Idx>, Vec<Idx>)>>) {
	let mut out = actual.clone();
	let mut info = Vec::new();
	let same_list = expected.methods.len() == actual.methods.len() && expected.methods.iter().zip(&actual.methods).all(|(a, b)| a.name == b.name && a.desc == b.desc);
	if !same_list {
		return (out, info);
	}
	for (i, em) in expected.methods.iter().enumerate() {
		match (&em.code, &actual.methods[i].code) {
			(Some(ec), Some(ac)) => {
				let a = align(ec, ac);
				out.methods[i].code = Some(a.code);
				info.push(Some((a.folds, a.map)));
			},
			_ => info.push(None),
		}
	}
	(out, info)
}

#[derive(Clone, Debug, Default)]
pub struct CodeScan {
	/// (instruction index in the written code, 32-bit offset) of every `goto_w` / `jsr_w`
	pub wide_sites: Vec<(u32, i32)>,
	pub far_switch_arms: u32,
	pub switches: u32,
	/// extreme 16-bit offsets seen on narrow jumps
	pub max_narrow: i32,
	pub min_narrow: i32,
	pub ldc: u32,
	pub ldc_w: u32,
	pub ldc2_w: u32,
	pub code_length: u32,
}

/// One `CodeScan` per Code attribute of the file, in file order.
pub fn scan(parsed: &Parsed, bytes: &[u8]) -> Vec<CodeScan> {
	let mut out: Vec<CodeScan> = Vec::new();
	let mut idx: i64 = -1;
	let mut pending_wide = false;
	let mut cur: u8 = 0;
	let rd = |off: usize, w: usize| -> i64 {
		let mut v: i64 = 0;
		for k in 0..w {
			v = (v << 8) | bytes.get(off + k).copied().unwrap_or(0) as i64;
		}
		v
	};
	for e in &parsed.map {
		match e.role {
			Role::CodeLength => {
				out.push(CodeScan { code_length: rd(e.offset, 4) as u32, ..Default::default() });
				idx = -1;
				pending_wide = false;
				cur = 0;
			},
			Role::Opcode => {
				let Some(cs) = out.last_mut() else { continue };
				let b = bytes.get(e.offset).copied().unwrap_or(0);
				if pending_wide {
					pending_wide = false;
					cur = b;
					continue;
				}
				idx += 1;
				cur = b;
				match b {
					op::WIDE => pending_wide = true,
					op::LDC => cs.ldc += 1,
					op::LDC_W => cs.ldc_w += 1,
					op::LDC2_W => cs.ldc2_w += 1,
					op::TABLESWITCH | op::LOOKUPSWITCH => cs.switches += 1,
					_ => {},
				}
			},
			Role::BranchOffset => {
				let Some(cs) = out.last_mut() else { continue };
				if e.width == 2 {
					let v = rd(e.offset, 2) as u16 as i16 as i32;
					cs.max_narrow = cs.max_narrow.max(v);
					cs.min_narrow = cs.min_narrow.min(v);
				} else {
					let v = rd(e.offset, 4) as u32 as i32;
					if cur == op::GOTO_W || cur == op::JSR_W {
						cs.wide_sites.push((idx as u32, v));
					} else if !(-32768..=32767).contains(&v) {
						cs.far_switch_arms += 1;
					}
				}
			},
			_ => {},
		}
	}
	out
}

/// Size of the method body if every instruction took the longest form the format allows for it
/// (`ldc_w`, `wide` loads/stores/iinc/ret, `goto_w`/`jsr_w`, an 8-byte trampoline for every
/// conditional jump, 3 bytes of switch padding).
pub fn upper_bound_size(code: &SCode) -> u64 {
	code.insns.iter().map(|i| match i {
		SInsn::Simple(_) => 1u64,
		SInsn::BiPush(_) => 2,
		SInsn::SiPush(_) => 3,
		SInsn::Ldc(_) => 3,
		SInsn::Load(..) | SInsn::Store(..) | SInsn::Ret(_) => 4,
		SInsn::IInc(..) => 6,
		SInsn::Branch(o, _) => if *o == op::GOTO || *o == op::JSR { 5 } else { 8 },
		SInsn::TableSwitch { targets, .. } => 1 + 3 + 12 + 4 * targets.len() as u64,
		SInsn::LookupSwitch { pairs, .. } => 1 + 3 + 8 + 8 * pairs.len() as u64,
		SInsn::Field(..) => 3,
		SInsn::Invoke(o, ..) => if *o == op::INVOKEINTERFACE { 5 } else { 3 },
		SInsn::InvokeDynamic(_) => 5,
		SInsn::New(_) | SInsn::ANewArray(_) | SInsn::CheckCast(_) | SInsn::InstanceOf(_) => 3,
		SInsn::NewArray(_) => 2,
		SInsn::MultiANewArray(..) => 4,
	}).sum()
}

/// No writer has a reason to refuse this class: every method body fits 65535 bytes even in the
/// longest encoding, and the constant pool of the file it was read from used less than half of the
/// index space.
pub fn must_be_writable(expected: &SClass, input_pool_count: u16) -> bool {
	input_pool_count <= 32767 && expected.methods.iter().all(|m| m.code.as_ref().map_or(true, |c| upper_bound_size(c) <= 65535))
}

const HEX: &[u8; 16] = b"0123456789abcdef";

pub fn fast_hex(bytes: &[u8]) -> String {
	let mut s = Vec::with_capacity(bytes.len() * 2);
	for b in bytes {
		s.push(HEX[(b >> 4) as usize]);
		s.push(HEX[(b & 15) as usize]);
	}
	String::from_utf8(s).unwrap_or_default()
}
