//! "… and every such description after renaming" at the constant-pool limit.
//!
//! Reading a file and writing the tree unchanged never needs more pool entries than the file had. Renaming does:
//! it un-shares entries (the Utf8 of a class / field / method name that is also the text of a string stays behind
//! for the string; two member references that shared one NameAndType get different names). So the pool the writer
//! has to build for a renamed tree can be larger than the pool of the (valid) file the tree was read from — and can
//! land exactly on, below and above the 65535-slot limit.
//!
//! A case is a class file assembled from
//!
//! * a **filler**: the first field carries one annotation whose element `v` is an array of `n` distinct `int`
//!   constants (one pool entry each, ~8 bytes per entry) and whose element `w` is an array of strings: the texts of
//!   every attribute name used later ("warm-up", so that no attribute name is a new entry after the tail) and the
//!   texts of the names the renaming is going to change (class, first field, second member);
//! * a **tail**: one construct placed at the structurally last position of the class (last field / last method /
//!   class attributes) whose pool entries are new, the last of them of a chosen kind. Because everything else of the
//!   class has been named before, the tail's last entry is the last entry of the pool in every writer that hands out
//!   indices in order of first use.
//!
//! `n` is chosen so that the number of slots the *renamed* tree needs (`constant_pool_count`) sweeps a window around
//! 65535; with a tail of several entries each of its last entries in turn is the one that does not fit. The
//! dimension "where the entry comes from" is the site, "what it is" the kind:
//!
//! | site | tail | kinds (last entry) |
//! |---|---|---|
//! | `field-constant` | ConstantValue of the last field | Integer, Float, Long, Double, String |
//! | `ldc` | operand of `ldc`/`ldc_w`/`ldc2_w` in the last method | Integer, Float, Long, Double, Class, String, MethodHandle (Fieldref / Methodref / InterfaceMethodref), MethodType, Dynamic (one-slot and two-slot descriptor) |
//! | `annotation` | element value of an annotation on the last method | B C I S Z (Integer), J (Long), F (Float), D (Double), string, enum, class (Utf8) |
//! | `bootstrap-argument` | static argument of the bootstrap method of an `invokedynamic` in the last method | every loadable kind; the InvokeDynamic entry itself comes after the argument |
//! | `member-reference` | operand of getstatic / invokestatic / invokeinterface / new | Fieldref, Methodref, InterfaceMethodref, Class |
//! | `class-attribute` | a class attribute, after all members | Utf8 (attribute name: Deprecated, unknown attribute, RuntimeVisibleAnnotations after its body; SourceFile, Signature), NameAndType (EnclosingMethod), Class (NestHost, InnerClasses), MethodHandle + Utf8 (the BootstrapMethods table a writer builds after everything else) |
//!
//! × two renamings (`grow`: names vs. strings un-share Utf8 entries; `owner`: member names depend on the owner, so
//! references sharing a NameAndType un-share Utf8 and NameAndType entries) × the window.
//!
//! Nothing here decides a verdict: the cases go through the same `judge_tree` as every renamed tree (clean `Err` or
//! an output the strict parser accepts and that states `project(renamed tree)`). This module only builds the cases
//! and supplies `needed_slots`, the reference count used by the floors.

use cfmodel::asm::{assemble, Encoding};
use cfmodel::gen::*;
use cfmodel::model::*;

use super::renamed::Mode;

const FILL_BASE: i32 = 100_000;

#[derive(Clone, Debug)]
pub struct Tail {
	pub site: &'static str,
	pub kind: &'static str,
	/// slots of the last pool entry of the class (2 = Long / Double)
	pub last_slots: u8,
	what: What,
}

#[derive(Clone, Debug)]
enum What {
	FieldConstant(&'static str, SConst),
	Ldc(SConst),
	Annotation(SElementValue),
	BootstrapArgument(SConst),
	Insn(SInsn),
	ClassAttribute(u8),
}

pub const WARM: &[&str] = &[
	"Code", "ConstantValue", "BootstrapMethods", "RuntimeInvisibleAnnotations", "RuntimeVisibleAnnotations", "Deprecated", "Signature", "SourceFile",
	"EnclosingMethod", "InnerClasses", "NestHost",
];

fn boot_handle() -> SHandle {
	SHandle { kind: 6, member: mref("p/Boot", "bsm", "(Ljava/lang/invoke/MethodHandles$Lookup;Ljava/lang/String;Ljava/lang/Class;)Ljava/lang/Object;"), interface: false }
}

fn dynamic(desc: &str, args: Vec<SConst>) -> SConst {
	SConst::Dynamic(Box::new(SDynamic { bootstrap: SBootstrap { handle: boot_handle(), args }, name: js("k"), desc: js(desc) }))
}

/// the loadable constants used as `ldc` operands and bootstrap arguments: (kind, constant, slots)
fn loadables() -> Vec<(&'static str, SConst, u8)> {
	vec![
		("Integer", SConst::Int(-70_000), 1),
		("Float", SConst::Float(2.5f32.to_bits()), 1),
		("Long", SConst::Long(0x1122_3344_5566_7788), 2),
		("Double", SConst::Double(2.5f64.to_bits()), 2),
		("Class", SConst::Class(js("q/Q")), 1),
		("String", SConst::Str(js("tail string")), 1),
		("MethodHandle-Fieldref", SConst::Handle(SHandle { kind: 2, member: mref("q/Q", "y", "I"), interface: false }), 1),
		("MethodHandle-Methodref", SConst::Handle(SHandle { kind: 6, member: mref("q/Q", "y", "(I)I"), interface: false }), 1),
		("MethodHandle-InterfaceMethodref", SConst::Handle(SHandle { kind: 9, member: mref("q/Q", "y", "(I)I"), interface: true }), 1),
		("MethodType", SConst::MethodType(js("(Lq/Q;)V")), 1),
		("Dynamic", dynamic("I", vec![]), 1),
		("Dynamic-two-slot-descriptor", dynamic("J", vec![]), 1),
	]
}

pub fn tails() -> Vec<Tail> {
	let mut v = Vec::new();
	for (kind, desc, c, slots) in [
		("Integer", "I", SConst::Int(-70_000), 1u8),
		("Float", "F", SConst::Float(2.5f32.to_bits()), 1),
		("Long", "J", SConst::Long(0x1122_3344_5566_7788), 2),
		("Double", "D", SConst::Double(2.5f64.to_bits()), 2),
		("String", "Ljava/lang/String;", SConst::Str(js("tail string")), 1),
	] {
		v.push(Tail { site: "field-constant", kind, last_slots: slots, what: What::FieldConstant(desc, c) });
	}
	for (kind, c, slots) in loadables() {
		v.push(Tail { site: "ldc", kind, last_slots: slots, what: What::Ldc(c) });
	}
	for (kind, ev, slots) in [
		("B-Integer", SElementValue::Const(b'B', SConst::Int(-7)), 1u8),
		("C-Integer", SElementValue::Const(b'C', SConst::Int(40_000)), 1),
		("I-Integer", SElementValue::Const(b'I', SConst::Int(-70_000)), 1),
		("S-Integer", SElementValue::Const(b'S', SConst::Int(-300)), 1),
		("Z-Integer", SElementValue::Const(b'Z', SConst::Int(1)), 1),
		("J-Long", SElementValue::Const(b'J', SConst::Long(0x1122_3344_5566_7788)), 2),
		("F-Float", SElementValue::Const(b'F', SConst::Float(2.5f32.to_bits())), 1),
		("D-Double", SElementValue::Const(b'D', SConst::Double(2.5f64.to_bits())), 2),
		("string-Utf8", SElementValue::Str(js("tail string")), 1),
		("enum-Utf8", SElementValue::Enum { type_name: js("Lq/E;"), const_name: js("K") }, 1),
		("class-Utf8", SElementValue::Class(js("Lq/Q;")), 1),
		("array-of-Long", SElementValue::Array(vec![SElementValue::Const(b'J', SConst::Long(1 << 40)), SElementValue::Const(b'J', SConst::Long(0x1122_3344_5566_7788))]), 2),
	] {
		v.push(Tail { site: "annotation", kind, last_slots: slots, what: What::Annotation(ev) });
	}
	for (kind, c, _) in loadables() {
		// the InvokeDynamic entry follows its arguments: the last entry has one slot, the argument is the one before it
		v.push(Tail { site: "bootstrap-argument", kind, last_slots: 1, what: What::BootstrapArgument(c) });
	}
	for (kind, insn) in [
		("Fieldref", SInsn::Field(op::GETSTATIC, mref("q/Q", "y", "I"))),
		("Methodref", SInsn::Invoke(op::INVOKESTATIC, mref("q/Q", "y", "()V"), false)),
		("InterfaceMethodref", SInsn::Invoke(op::INVOKEINTERFACE, mref("q/Q", "y", "()V"), true)),
		("Class", SInsn::New(js("q/Q"))),
	] {
		v.push(Tail { site: "member-reference", kind, last_slots: 1, what: What::Insn(insn) });
	}
	for (i, kind) in ["Utf8-Deprecated", "Utf8-unknown-attribute", "Utf8-name-after-body", "Utf8-SourceFile", "Utf8-Signature", "NameAndType-EnclosingMethod", "Class-NestHost", "Class-InnerClasses", "MethodHandle-and-Utf8-BootstrapMethods"].into_iter().enumerate() {
		v.push(Tail { site: "class-attribute", kind, last_slots: 1, what: What::ClassAttribute(i as u8) });
	}
	v
}

fn ann(name: &str, pairs: Vec<(&str, SElementValue)>) -> SAnnotation {
	SAnnotation { type_name: js(name), pairs: pairs.into_iter().map(|(n, v)| (js(n), v)).collect() }
}

impl Tail {
	pub fn label(&self) -> String {
		format!("{}/{}", self.site, self.kind)
	}

	/// the class with `n` filler constants
	pub fn build(&self, n: usize) -> SClass {
		let mut c = skeleton("p/Full");
		let cold = match &self.what {
			What::ClassAttribute(0) => Some("Deprecated"),
			What::ClassAttribute(2) => Some("RuntimeVisibleAnnotations"),
			What::ClassAttribute(8) => Some("BootstrapMethods"),
			_ => None,
		};
		let second_member = if matches!(self.what, What::FieldConstant(..)) { "tail" } else { "warm" };
		let strings: Vec<SElementValue> = WARM.iter().copied().filter(|w| Some(*w) != cold).chain(["p/Full", "fill", second_member]).map(|s| SElementValue::Str(js(s))).collect();
		let filler = SElementValue::Array((0..n).map(|j| SElementValue::Const(b'I', SConst::Int(FILL_BASE + j as i32))).collect());
		c.fields.push(SField {
			access: 0x0019,
			name: js("fill"),
			desc: js("I"),
			constant_value: Some(SConst::Int(-5)),
			annotations: SAnnotations { invisible: vec![ann("Lp/Fill;", vec![("v", filler), ("w", SElementValue::Array(strings))])], ..Default::default() },
			..Default::default()
		});
		if let What::FieldConstant(desc, value) = &self.what {
			c.fields.push(SField { access: 0x0019, name: js("tail"), desc: js(desc), constant_value: Some(value.clone()), ..Default::default() });
			return c;
		}
		// the members before the tail: three references that share one NameAndType (the `owner` renaming splits them),
		// the bootstrap handle (so that the table built at the end adds nothing), a visible annotation
		let mut warm = vec![
			SInsn::Field(op::GETSTATIC, mref("a/A", "x", "I")),
			SInsn::Field(op::GETSTATIC, mref("b/B", "x", "I")),
			SInsn::Field(op::GETSTATIC, mref("c/C", "x", "I")),
		];
		if cold != Some("BootstrapMethods") {
			warm.push(SInsn::Ldc(SConst::Handle(boot_handle())));
		}
		warm.push(RETURN);
		let mut m = method_with("warm", "()V", warm);
		if cold != Some("RuntimeVisibleAnnotations") {
			m.annotations.visible = vec![ann("Lp/Fill;", vec![("v", SElementValue::Const(b'I', SConst::Int(-5)))])];
		}
		c.methods.push(m);
		let indy = |args: Vec<SConst>| SInsn::InvokeDynamic(SDynamic { bootstrap: SBootstrap { handle: boot_handle(), args }, name: js("run"), desc: js("()V") });
		match &self.what {
			What::FieldConstant(..) => {},
			What::Ldc(k) => c.methods.push(method_with("tail", "()V", vec![SInsn::Ldc(k.clone()), RETURN])),
			What::Annotation(ev) => {
				let mut t = method_with("tail", "()V", vec![RETURN]);
				t.annotations.visible = vec![ann("Lp/Fill;", vec![("v", ev.clone())])];
				c.methods.push(t);
			},
			What::BootstrapArgument(k) => c.methods.push(method_with("tail", "()V", vec![indy(vec![k.clone()]), RETURN])),
			What::Insn(i) => c.methods.push(method_with("tail", "()V", vec![i.clone(), RETURN])),
			What::ClassAttribute(i) => match i {
				0 => c.deprecated = true,
				1 => c.unknown = vec![SUnknown { name: js("Tail"), bytes: vec![1, 2, 3] }],
				2 => c.annotations.visible = vec![ann("Lp/Fill;", vec![("v", SElementValue::Str(js("tail string")))])],
				3 => c.source_file = Some(js("Tail.java")),
				4 => c.signature = Some(js("<X:Ljava/lang/Object;>Ljava/lang/Object;")),
				5 => c.enclosing_method = Some((js("q/Q"), Some((js("y"), js("()V"))))),
				6 => c.nest_host = Some(js("q/Q")),
				7 => c.inner_classes = Some(vec![SInnerClass { inner: js("q/Q$In"), outer: Some(js("q/Q")), name: Some(js("fill")), flags: 0x0009 }]),
				_ => c.methods.push(method_with("tail", "()V", vec![indy(vec![]), RETURN])),
			},
		}
		c
	}
}

/// How many pool slots (`constant_pool_count`) a writer with a minimal pool needs for `expected`, a description built by
/// `Tail::build` (possibly renamed): measured by the reference assembler on the description without its filler
/// constants (so that the measurement itself cannot trip over the limit), plus one slot per filler constant — each is an
/// `int` of its own that nothing else in the class uses. `None`: not such a description.
pub fn needed_slots(expected: &mut SClass) -> Option<u32> {
	let slot = &mut expected.fields.first_mut()?.annotations.invisible.first_mut()?.pairs.first_mut()?.1;
	let SElementValue::Array(items) = slot else { return None };
	let distinct_fillers = items.iter().enumerate().all(|(j, e)| matches!(e, SElementValue::Const(b'I', SConst::Int(v)) if *v == FILL_BASE + j as i32));
	if !distinct_fillers {
		return None;
	}
	let filler = std::mem::take(items);
	let count = assemble(expected, &Encoding::default()).ok().and_then(|b| cfmodel::parse(&b).ok()).map(|p| p.pool_count as u32);
	let n = filler.len() as u32;
	if let SElementValue::Array(items) = &mut expected.fields[0].annotations.invisible[0].pairs[0].1 {
		*items = filler;
	}
	Some(count? + n)
}

/// `needed_slots` of the tree the real reader and the real renaming make of `class`
pub fn needed_after_renaming(class: &SClass, mode: Mode) -> Option<u32> {
	let bytes = assemble(class, &Encoding::default()).ok()?;
	let tree = vcore::guard(|| duke::read_class(&mut std::io::Cursor::new(&bytes))).ok()?.ok()?;
	let tree = vcore::guard(|| dukebox::remap::remap_class(&super::renamed::Renamer(mode), tree)).ok()?.ok()?;
	needed_slots(&mut cfmodel::duke_proj::project(&tree).ok()?)
}

/// One family of cases: a tail and a renaming; `base` = slots the renamed tree needs beyond its filler constants.
pub struct Family {
	pub tail: Tail,
	pub mode: Mode,
	pub base: u32,
	/// the class without filler constants, assembled; the files of the family are this one with the filler spliced in
	template: Vec<u8>,
	template_count: u16,
	/// offset of the byte after the constant pool
	pool_end: usize,
	/// offset of the attribute_length of the filler annotation's attribute, and of the num_values of the filler array
	attr_len_at: usize,
	num_values_at: usize,
}

/// The slots the renamed trees need. The upper end is what the `grow` renaming can reach: it un-shares three entries,
/// and the file the tree is read from cannot have more than 65535 slots itself.
pub fn window(quick: bool) -> std::ops::RangeInclusive<u32> {
	if quick { 65_531..=65_538 } else { 65_515..=65_538 }
}

/// The space: every tail x the renamings of the tier (x every target of `window`, by the caller).
pub fn families(quick: bool) -> Vec<(Tail, Mode)> {
	let mut v = Vec::new();
	for (ti, tail) in tails().into_iter().enumerate() {
		for mode in [Mode::Grow, Mode::Owner] {
			// the second renaming needs member references: not for tails in a field. Quick tier: on every tail whose last
			// entries include a two-slot constant and on every sixth other tail (stated in bounds)
			if mode == Mode::Owner {
				let two_slot = tail.last_slots == 2 || matches!(&tail.what, What::BootstrapArgument(SConst::Long(_) | SConst::Double(_)));
				if tail.site == "field-constant" || (quick && !two_slot && ti % 6 != 0) {
					continue;
				}
			}
			v.push((tail.clone(), mode));
		}
	}
	v
}

/// The filler size for a target is found from one small instance (400 filler constants) read and renamed by the real
/// code and measured by the reference assembler; what a case really needs is measured again when it is judged.
pub fn calibrate(tail: &Tail, mode: Mode) -> Family {
	let Some(with_400) = needed_after_renaming(&tail.build(400), mode) else {
		vcore::machinery_fail(&format!("pool-limit/{}: the small instance cannot be measured", tail.label()));
	};
	let fail = |what: &str| -> ! { vcore::machinery_fail(&format!("pool-limit/{}: template: {what}", tail.label())) };
	let template = assemble(&tail.build(0), &Encoding::default()).unwrap_or_else(|e| fail(&format!("{e:?}")));
	let parsed = cfmodel::parse(&template).unwrap_or_else(|e| fail(&e.msg));
	let pool_end = parsed.map.iter().find(|e| e.role == cfmodel::parse::Role::AccessFlags).map(|e| e.offset).unwrap_or_else(|| fail("no access flags"));
	let span = parsed.attribute_spans.iter().find(|s| s.name == "RuntimeInvisibleAnnotations").unwrap_or_else(|| fail("no filler attribute"));
	// attribute_name_index u16, attribute_length u32, num_annotations u16, type_index u16, num_pairs u16, name_index u16, tag '[', num_values u16
	let (attr_len_at, tag_at, num_values_at) = (span.start + 2, span.start + 14, span.start + 15);
	if template.get(tag_at) != Some(&b'[') || template.get(num_values_at..num_values_at + 2) != Some(&[0, 0]) {
		fail("the filler array is not where it is expected");
	}
	Family { tail: tail.clone(), mode, base: with_400 - 400, template, template_count: parsed.pool_count, pool_end, attr_len_at, num_values_at }
}

impl Family {
	pub fn label(&self, target: u32) -> String {
		format!("pool-limit/{}/needs{target}", self.tail.label())
	}
	/// the class whose renamed tree needs `target` slots
	pub fn class(&self, target: u32) -> SClass {
		self.tail.build((target - self.base) as usize)
	}
	/// The class file of `class(target)`: the template with the filler spliced in — `n` Integer entries appended to the
	/// constant pool, `n` elements put into the filler array (the reference assembler needs ~0.2 s for a pool of 65 000
	/// entries; the caller checks `parse(bytes).class == class(target)` as for every assembled class). `None`: no class
	/// file can hold that many entries.
	pub fn bytes(&self, target: u32) -> Option<Vec<u8>> {
		let n = (target - self.base) as usize;
		if self.template_count as usize + n > 65_535 || n > 65_535 {
			return None;
		}
		let t = &self.template;
		let mut out = Vec::with_capacity(t.len() + 8 * n);
		out.extend_from_slice(&t[..self.pool_end]);
		for j in 0..n {
			out.push(3);
			out.extend_from_slice(&(FILL_BASE + j as i32).to_be_bytes());
		}
		let elements_at = self.num_values_at + 2;
		out.extend_from_slice(&t[self.pool_end..elements_at]);
		for j in 0..n {
			out.push(b'I');
			out.extend_from_slice(&(self.template_count + j as u16).to_be_bytes());
		}
		out.extend_from_slice(&t[elements_at..]);
		out[8..10].copy_from_slice(&(self.template_count + n as u16).to_be_bytes());
		let shift = 5 * n;
		let old_len = u32::from_be_bytes([t[self.attr_len_at], t[self.attr_len_at + 1], t[self.attr_len_at + 2], t[self.attr_len_at + 3]]);
		out[self.attr_len_at + shift..self.attr_len_at + shift + 4].copy_from_slice(&(old_len + 3 * n as u32).to_be_bytes());
		out[self.num_values_at + shift..self.num_values_at + shift + 2].copy_from_slice(&(n as u16).to_be_bytes());
		Some(out)
	}
}
