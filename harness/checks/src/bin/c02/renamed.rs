//! "… and every such description after renaming": two total, deterministic remappers written here against quill's
//! public traits; the REAL `dukebox::remap::remap_class` applies them to the tree the reader built, and the renamed
//! tree is what the writer is given. Whether the renaming itself is right is C07's business — C02 compares the written
//! file with the projection of the *renamed* tree, so nothing about the remapper enters the verdict.
//!
//! * `Grow`   — every class `x/Y` becomes `renamed/and/longer/x/Y_R`, every field `f` becomes `f_renamed`, every method
//!   `m` (not `<init>`/`<clinit>`) becomes `m_renamed`: every name and descriptor that mentions a class gets longer.
//! * `Letters` — every class becomes `J<hex>` or `D<hex>` (hex = FNV-1a of the old name, so distinct names stay distinct
//!   for every class set explored), fields `D<hex>`, methods `J<hex>`: names get short and every descriptor is full of
//!   the letters that mean "two slots" when they stand alone (`LJ1f…;`, `[LD07…;`).
//! * `Owner` (only in the pool-limit space, c02/poollimit.rs) — every class `x/Y` becomes `x/Y_O`, a field or method `m` of
//!   owner `o` becomes `m_<hex of o>`: references to members of different owners that shared one name (and one
//!   NameAndType entry) no longer do, so the renamed tree needs more Utf8 *and* NameAndType entries than the file it
//!   was read from.

use anyhow::Result;
use duke::tree::class::{ObjClassName, ObjClassNameSlice};
use duke::tree::field::{FieldDescriptorSlice, FieldName, FieldNameAndDesc, FieldNameSlice};
use duke::tree::method::{MethodDescriptorSlice, MethodName, MethodNameAndDesc, MethodNameSlice};
use java_string::{JavaStr, JavaString};
use quill::remapper::{ARemapper, BRemapper};

#[derive(Clone, Copy, Debug, PartialEq, Eq)]
pub enum Mode {
	Grow,
	Letters,
	Owner,
}

/// the renamings applied to every queued case (`Owner` is applied by the pool-limit space only)
pub const MODES: [Mode; 2] = [Mode::Grow, Mode::Letters];

impl Mode {
	pub fn name(self) -> &'static str {
		match self {
			Mode::Grow => "grow",
			Mode::Letters => "letters",
			Mode::Owner => "owner",
		}
	}
	pub fn from_name(s: &str) -> Option<Mode> {
		[Mode::Grow, Mode::Letters, Mode::Owner].into_iter().find(|m| m.name() == s)
	}
}

pub struct Renamer(pub Mode);

fn fnv(s: &JavaStr) -> u64 {
	let mut h: u64 = 0xcbf2_9ce4_8422_2325;
	for b in s.as_bytes() {
		h ^= *b as u64;
		h = h.wrapping_mul(0x0000_0100_0000_01b3);
	}
	h
}

fn joined(parts: &[&JavaStr]) -> JavaString {
	let mut out = JavaString::new();
	for p in parts {
		out.push_java_str(p);
	}
	out
}

impl ARemapper for Renamer {
	fn map_class_fail(&self, class: &ObjClassNameSlice) -> Result<Option<ObjClassName>> {
		let old = class.as_inner();
		let new = match self.0 {
			Mode::Grow => joined(&[JavaStr::from_str("renamed/and/longer/"), old, JavaStr::from_str("_R")]),
			Mode::Letters => {
				let h = fnv(old);
				JavaString::from(format!("{}{:x}", if h & 1 == 0 { 'J' } else { 'D' }, h >> 1))
			},
			Mode::Owner => joined(&[old, JavaStr::from_str("_O")]),
		};
		// a name the tree type refuses stays as it is
		Ok(ObjClassName::try_from(new).ok())
	}
}

impl BRemapper for Renamer {
	fn map_field_fail(&self, owner: &ObjClassNameSlice, name: &FieldNameSlice, desc: &FieldDescriptorSlice) -> Result<Option<FieldNameAndDesc>> {
		let new = match self.0 {
			Mode::Grow => joined(&[name.as_inner(), JavaStr::from_str("_renamed")]),
			Mode::Letters => JavaString::from(format!("D{:x}", fnv(name.as_inner()))),
			Mode::Owner => joined(&[name.as_inner(), JavaStr::from_str(&format!("_{:x}", fnv(owner.as_inner()) & 0xffff))]),
		};
		match FieldName::try_from(new) {
			Ok(name) => Ok(Some(FieldNameAndDesc { name, desc: self.map_field_desc(desc)? })),
			Err(_) => Ok(None),
		}
	}
	fn map_method_fail(&self, owner: &ObjClassNameSlice, name: &MethodNameSlice, desc: &MethodDescriptorSlice) -> Result<Option<MethodNameAndDesc>> {
		if name.as_inner().as_bytes().first() == Some(&b'<') {
			return Ok(None);
		}
		let new = match self.0 {
			Mode::Grow => joined(&[name.as_inner(), JavaStr::from_str("_renamed")]),
			Mode::Letters => JavaString::from(format!("J{:x}", fnv(name.as_inner()))),
			Mode::Owner => joined(&[name.as_inner(), JavaStr::from_str(&format!("_{:x}", fnv(owner.as_inner()) & 0xffff))]),
		};
		match MethodName::try_from(new) {
			Ok(name) => Ok(Some(MethodNameAndDesc { name, desc: self.map_method_desc(desc)? })),
			Err(_) => Ok(None),
		}
	}
}
