//! Small-class spaces of C02 that force *collisions* in the writer's tables and the descriptor-dependent
//! encodings (each complete within its stated bound; all cases are (label, model, encoding) triples judged
//! like every other class: real reader, real writer, independent parser, fact-by-fact comparison).
//!
//! * `descriptor_cases` — `invokeinterface` on every parameter list of length ≤ L over an alphabet of parameter types
//!   chosen so that every way of mis-counting argument slots shows (two-slot primitives, arrays of them, arrays of
//!   objects, class names that start with or consist of `J`/`D`) × four return types: the `count` operand is not part
//!   of the description, the writer derives it from the descriptor and the parser checks it against its own count.
//! * `condy_cases` — `ldc` of dynamic constants of every field-descriptor shape (two-slot ⇒ `ldc2_w`, everything else
//!   incl. `[J`, `LJ;`, `Ljava/lang/Double;` ⇒ `ldc`/`ldc_w`) × names that start with `J`/`D` × pool index below/above 255.
//! * `bootstrap_cases` — one class whose call sites and dynamic constants use every pair of 3 method handles × 6
//!   argument lists (equal arguments under different handles, equal handles with different / permuted / repeated
//!   arguments, the same pair from an invokedynamic and from a dynamic constant, nesting), in every rotation of the sites.
//! * `collision_cases` — one class in which the same text and the same bit pattern occur in every constant kind that
//!   can hold it (Utf8 shared by Class/String/MethodType/NameAndType/attribute names, Integer/Float and Long/Double
//!   with equal bits, Methodref/InterfaceMethodref and the method-handle kinds on one member, element values that
//!   all mean `1`), instructions in both orders, three pool orders.
//! * `tail_cases` — methods whose *last* instruction is a multi-byte one (so the end-of-code label is not "last
//!   opcode + 1") with exception, line-number, local-variable and type-annotation entries that end at the end of the code.

//! * `patched_code_cases`, `split_table_cases`, `merged_table_cases` — descriptions that exist only because the reader
//!   accepts more than a class file may state (equal lookupswitch keys, zero dimensions) or merges several attributes
//!   into one list (line numbers, local variables with a descriptor / with a signature, annotations and type annotations
//!   of every element: 65534 … 65538 entries): see the functions.

use cfmodel::asm::{Encoding, PoolOrder};
use cfmodel::gen::*;
use cfmodel::model::*;

pub type Case = (String, SClass, Encoding);

/// parameter types of the descriptor space
pub const PARAM_TYPES: [&str; 12] = ["I", "J", "D", "F", "[I", "[J", "[[D", "LJ;", "Lp/D;", "[LJ;", "[[Lp/Dx;", "Ljava/lang/Double;"];
pub const RETURN_TYPES: [&str; 4] = ["V", "J", "[D", "LJ;"];

pub fn descriptor_max_len(quick: bool) -> usize {
	if quick { 3 } else { 5 }
}

/// number of parameter lists of length 0..=max_len
pub fn descriptor_lists(max_len: usize) -> u64 {
	(0..=max_len as u32).map(|l| (PARAM_TYPES.len() as u64).pow(l)).sum()
}

/// the `idx`-th parameter list (shorter lists first, then lexicographic in `PARAM_TYPES` order)
pub fn descriptor_nth(mut idx: u64, max_len: usize) -> Vec<&'static str> {
	let k = PARAM_TYPES.len() as u64;
	let mut len = 0usize;
	while len <= max_len && idx >= k.pow(len as u32) {
		idx -= k.pow(len as u32);
		len += 1;
	}
	let mut out = vec![""; len];
	for i in (0..len).rev() {
		out[i] = PARAM_TYPES[(idx % k) as usize];
		idx /= k;
	}
	out
}

/// the class of one parameter list: four invokeinterface instructions (one per return type), alone in their method
pub fn descriptor_class(params: &[&str]) -> SClass {
	let p: String = params.concat();
	let mut insns: Vec<SInsn> = RETURN_TYPES.iter().map(|r| SInsn::Invoke(op::INVOKEINTERFACE, mref("p/Itf", "call", &format!("({p}){r}")), true)).collect();
	insns.push(RETURN);
	class_with_method("p/Desc", insns)
}

/// slots the arguments of the list need, counted here from the table of types (1 for the receiver)
pub fn descriptor_slots(params: &[&str]) -> u32 {
	1 + params.iter().map(|p| if *p == "J" || *p == "D" { 2 } else { 1 }).sum::<u32>()
}

const CONDY_DESCS: [&str; 19] = ["I", "J", "D", "F", "Z", "B", "C", "S", "[J", "[D", "[[J", "[I", "LJ;", "LD;", "Lp/Double;", "Ljava/lang/Long;", "[LJ;", "[LD;", "Ljava/lang/Object;"];

fn condy(name: &str, desc: &str, depth: usize) -> SConst {
	SConst::Dynamic(Box::new(SDynamic { bootstrap: bootstrap(depth), name: js(name), desc: js(desc) }))
}

pub fn condy_cases() -> Vec<Case> {
	let mut v = Vec::new();
	for desc in CONDY_DESCS {
		for name in ["k", "J", "D", "Dx"] {
			for form in 0..3u8 {
				for (pi, pool) in [PoolOrder::FirstUse, PoolOrder::Reversed].into_iter().enumerate() {
					let c = class_with_method("p/Condy", vec![SInsn::Ldc(condy(name, desc, 0)), RETURN]);
					v.push((format!("condy/{desc}/{name}/form{form}/pool{pi}"), c, Encoding { default_form: form, pool, ..Default::default() }));
				}
			}
		}
	}
	// every descriptor in one method, after `fill` one-slot constants: the dynamic constants sit below / across / above index 255
	for fill in [0usize, 150, 200, 230, 260] {
		for (pi, pool) in [PoolOrder::FirstUse, PoolOrder::Reversed].into_iter().enumerate() {
			let mut c = skeleton("p/Condy");
			c.methods.push(method_with("fill", "()V", (0..fill).map(|j| SInsn::Ldc(SConst::Int(1_000_000 + j as i32))).chain([RETURN]).collect()));
			let mut insns: Vec<SInsn> = Vec::new();
			for (i, desc) in CONDY_DESCS.iter().enumerate() {
				insns.push(SInsn::Ldc(condy(["k", "J", "D"][i % 3], desc, i % 2)));
			}
			insns.push(RETURN);
			c.methods.push(method_with("m", "()V", insns));
			v.push((format!("condy/all/fill{fill}/pool{pi}"), c, Encoding { pool, ..Default::default() }));
		}
	}
	v
}

pub fn bootstrap_cases() -> Vec<Case> {
	let hs = handles();
	let handles3 = [hs[5].clone(), hs[6].clone(), hs[9].clone()];
	let arg_lists: Vec<Vec<SConst>> = vec![
		vec![],
		vec![SConst::Int(7)],
		vec![SConst::Int(7), SConst::Str(js("x"))],
		vec![SConst::Str(js("x")), SConst::Int(7)],
		vec![SConst::Long(7)],
		vec![SConst::Int(7), SConst::Int(7)],
	];
	let mut sites: Vec<SInsn> = Vec::new();
	for (hi, h) in handles3.iter().enumerate() {
		for (ai, args) in arg_lists.iter().enumerate() {
			let b = SBootstrap { handle: h.clone(), args: args.clone() };
			// the same name and type everywhere: only the bootstrap method tells the constants apart
			sites.push(SInsn::Ldc(SConst::Dynamic(Box::new(SDynamic { bootstrap: b.clone(), name: js("c"), desc: js("I") }))));
			sites.push(SInsn::InvokeDynamic(SDynamic { bootstrap: b.clone(), name: js("call"), desc: js("()V") }));
			if (hi + ai) % 3 == 0 {
				// a dynamic constant as an argument of a bootstrap method that has the same handle and otherwise equal arguments
				let nested = SConst::Dynamic(Box::new(SDynamic { bootstrap: b.clone(), name: js("c"), desc: js("I") }));
				let mut a2 = args.clone();
				a2.push(nested);
				sites.push(SInsn::Ldc(SConst::Dynamic(Box::new(SDynamic { bootstrap: SBootstrap { handle: h.clone(), args: a2 }, name: js("c"), desc: js("I") }))));
			}
		}
	}
	let n = sites.len();
	let mut v = Vec::new();
	for rot in 0..=n {
		let mut insns: Vec<SInsn> = if rot == n { sites.iter().rev().cloned().collect() } else { sites[rot..].iter().chain(&sites[..rot]).cloned().collect() };
		// every site once more: the second use must find the entry of the first
		let again: Vec<SInsn> = insns.iter().step_by(2).cloned().collect();
		insns.extend(again);
		insns.push(RETURN);
		for (pi, pool) in [PoolOrder::FirstUse, PoolOrder::Reversed].into_iter().enumerate() {
			v.push((format!("bootstrap-table/rot{rot}/pool{pi}"), class_with_method("p/Bsm", insns.clone()), Encoding { pool, ..Default::default() }));
		}
	}
	v
}

pub fn collision_cases() -> Vec<Case> {
	let hs = handles();
	let mut insns: Vec<SInsn> = Vec::new();
	for t in ["p/T", "()V", "I", "Code", "java/lang/Object", "p/Same", "m", "ConstantValue", "(I)I", "s"] {
		insns.push(SInsn::Ldc(SConst::Str(js(t))));
	}
	for t in ["p/T", "java/lang/Object", "p/Same", "[I", "I"] {
		insns.push(SInsn::Ldc(SConst::Class(js(t))));
	}
	for t in ["()V", "(I)I"] {
		insns.push(SInsn::Ldc(SConst::MethodType(js(t))));
	}
	for bits in [0u32, 1, 0x3f80_0000, 0xffff_ffff, 0x7fc0_0000, 0x8000_0000] {
		insns.push(SInsn::Ldc(SConst::Int(bits as i32)));
		insns.push(SInsn::Ldc(SConst::Float(bits)));
	}
	for bits in [0u64, 1, 0x3ff0_0000_0000_0000, u64::MAX, 0x7ff8_0000_0000_0000, 0x8000_0000_0000_0000] {
		insns.push(SInsn::Ldc(SConst::Long(bits as i64)));
		insns.push(SInsn::Ldc(SConst::Double(bits)));
	}
	// one member, every way of referring to it
	insns.push(SInsn::Field(op::GETSTATIC, mref("p/T", "s", "I")));
	insns.push(SInsn::Field(op::GETFIELD, mref("p/T", "s", "I")));
	insns.push(SInsn::Field(op::GETSTATIC, mref("p/T", "I", "I")));
	for itf in [false, true] {
		insns.push(SInsn::Invoke(op::INVOKESTATIC, mref("p/T", "s", "(I)I"), itf));
		insns.push(SInsn::Invoke(op::INVOKESPECIAL, mref("p/T", "s", "(I)I"), itf));
	}
	insns.push(SInsn::Invoke(op::INVOKEVIRTUAL, mref("p/T", "s", "(I)I"), false));
	insns.push(SInsn::Invoke(op::INVOKEINTERFACE, mref("p/T", "s", "(I)I"), true));
	for kind in 1..=4u8 {
		insns.push(SInsn::Ldc(SConst::Handle(SHandle { kind, member: mref("p/T", "s", "I"), interface: false })));
	}
	for (kind, interface) in [(5u8, false), (6, false), (6, true), (7, false), (7, true), (9, true)] {
		insns.push(SInsn::Ldc(SConst::Handle(SHandle { kind, member: mref("p/T", "s", "(I)I"), interface })));
	}
	insns.push(SInsn::Ldc(SConst::Handle(hs[9].clone())));
	for t in ["p/T", "I", "[I"] {
		insns.push(SInsn::New(js(if t.starts_with('[') { "p/T" } else { t })));
		insns.push(SInsn::ANewArray(js(t)));
		insns.push(SInsn::CheckCast(js(t)));
	}
	let n = insns.len();
	let mut v = Vec::new();
	for order in 0..3usize {
		let mut body: Vec<SInsn> = match order {
			0 => insns.clone(),
			1 => insns.iter().rev().cloned().collect(),
			_ => insns[n / 2..].iter().chain(&insns[..n / 2]).cloned().collect(),
		};
		body.push(RETURN);
		let mut c = skeleton("p/Same");
		c.source_file = Some(js("p/Same"));
		c.signature = Some(js("Ljava/lang/Object;"));
		c.interfaces = vec![js("p/T")];
		c.fields.push(SField { access: 0x0018, name: js("I"), desc: js("I"), constant_value: Some(SConst::Int(0)), ..Default::default() });
		c.fields.push(SField { access: 0x0018, name: js("F"), desc: js("F"), constant_value: Some(SConst::Float(0)), ..Default::default() });
		c.fields.push(SField { access: 0x0018, name: js("J"), desc: js("J"), constant_value: Some(SConst::Long(0)), ..Default::default() });
		c.fields.push(SField { access: 0x0018, name: js("D"), desc: js("D"), constant_value: Some(SConst::Double(0)), ..Default::default() });
		c.fields.push(SField { access: 0x0018, name: js("s"), desc: js("Ljava/lang/String;"), constant_value: Some(SConst::Str(js("p/T"))), signature: Some(js("I")), ..Default::default() });
		c.annotations.visible = vec![SAnnotation { type_name: js("Lp/T;"), pairs: vec![
			(js("I"), SElementValue::Const(b'I', SConst::Int(1))), (js("B"), SElementValue::Const(b'B', SConst::Int(1))), (js("C"), SElementValue::Const(b'C', SConst::Int(1))),
			(js("S"), SElementValue::Const(b'S', SConst::Int(1))), (js("Z"), SElementValue::Const(b'Z', SConst::Int(1))), (js("F"), SElementValue::Const(b'F', SConst::Float(1))),
			(js("J"), SElementValue::Const(b'J', SConst::Long(1))), (js("D"), SElementValue::Const(b'D', SConst::Double(1))), (js("s"), SElementValue::Str(js("I"))),
			(js("c"), SElementValue::Class(js("I"))), (js("e"), SElementValue::Enum { type_name: js("Lp/T;"), const_name: js("I") }),
		] }];
		c.methods.push(method_with("m", "()V", body));
		c.methods.push(method_with("s", "(I)I", vec![SInsn::Load(LvKind::I, 0), SInsn::Simple(op::IRETURN)]));
		c.unknown.push(SUnknown { name: js("p/T"), bytes: vec![1] });
		normalize(&mut c);
		for (pi, pool) in [PoolOrder::FirstUse, PoolOrder::Reversed, PoolOrder::Utf8Last].into_iter().enumerate() {
			for form in [0u8, 2] {
				v.push((format!("pool-collisions/order{order}/pool{pi}/form{form}"), c.clone(), Encoding { pool: pool.clone(), default_form: form, ..Default::default() }));
			}
		}
	}
	v
}

pub fn tail_cases() -> Vec<Case> {
	let tails: Vec<SInsn> = vec![
		SInsn::Ldc(SConst::Int(77_777)),
		SInsn::Ldc(SConst::Long(77_777)),
		SInsn::IInc(300, 300),
		SInsn::IInc(1, 1),
		SInsn::Branch(op::GOTO, 0),
		SInsn::Branch(op::JSR, 1),
		SInsn::Branch(op::IFEQ, 0),
		SInsn::TableSwitch { default: 0, low: 0, targets: vec![0, 1] },
		SInsn::LookupSwitch { default: 1, pairs: vec![(3, 0)] },
		SInsn::Invoke(op::INVOKEINTERFACE, mref("p/Itf", "i", "(J)V"), true),
		SInsn::InvokeDynamic(SDynamic { bootstrap: bootstrap(0), name: js("run"), desc: js("()V") }),
		SInsn::MultiANewArray(js("[[I"), 2),
		SInsn::Ret(300),
		SInsn::Load(LvKind::I, 300),
		SInsn::Store(LvKind::A, 4),
		SInsn::SiPush(300),
		SInsn::BiPush(3),
		SInsn::Field(op::PUTFIELD, mref("p/Own", "f", "I")),
		SInsn::Simple(op::ATHROW),
	];
	let mut v = Vec::new();
	for (ti, tail) in tails.iter().enumerate() {
		for pad in 0..4usize {
			let mut insns: Vec<SInsn> = (0..=pad).map(|_| SInsn::Simple(op::NOP)).collect();
			insns.push(tail.clone());
			let n = insns.len() as Idx;
			let last = n - 1;
			let a = SAnnotation { type_name: js("Lp/TA;"), pairs: vec![] };
			let code = SCode {
				max_stack: 3,
				max_locals: 301,
				insns,
				exceptions: vec![
					SExceptionEntry { start: 0, end: n, handler: last, catch: None },
					SExceptionEntry { start: last, end: n, handler: 0, catch: Some(js("java/lang/Exception")) },
				],
				line_numbers: vec![(0, 1), (last, 2)],
				local_vars: vec![
					SLocalVar { start: 0, end: n, name: js("a"), ty: js("I"), index: 0 },
					SLocalVar { start: last, end: n, name: js("b"), ty: js("J"), index: 1 },
					SLocalVar { start: last, end: last, name: js("c"), ty: js("I"), index: 3 },
				],
				local_var_types: vec![SLocalVar { start: last, end: n, name: js("g"), ty: js("TT;"), index: 4 }],
				visible_type: vec![
					STypeAnnotation { target: STarget::LocalVar { target_type: 0x40, table: vec![(0, n, 0), (last, n, 1)] }, path: vec![], annotation: a.clone() },
					STypeAnnotation { target: STarget::Offset { target_type: 0x44, at: last }, path: vec![], annotation: a.clone() },
				],
				invisible_type: vec![STypeAnnotation { target: STarget::LocalVar { target_type: 0x41, table: vec![(last, n, 2)] }, path: vec![(0, 0)], annotation: a }],
				..Default::default()
			};
			let mut c = skeleton("p/Tail");
			let mut m = method_with("m", "()V", vec![]);
			m.code = Some(code);
			c.methods.push(m);
			normalize(&mut c);
			for form in 0..3u8 {
				v.push((format!("tail/{ti}/pad{pad}/form{form}"), c.clone(), Encoding { default_form: form, ..Default::default() }));
			}
		}
	}
	v
}

/// Descriptions only a reader that does not check them can produce (no valid class file states them): a lookupswitch
/// whose keys are equal or descending, a multianewarray with zero dimensions. The writer may refuse them; if it
/// succeeds the output must still be a well-formed file. Built by assembling a valid class and rewriting operand bytes.
pub fn patched_code_cases() -> Vec<(String, Vec<u8>)> {
	use cfmodel::parse::Role;
	let mut v = Vec::new();
	for pad in 0..4usize {
		let mut insns: Vec<SInsn> = (0..pad).map(|_| SInsn::Simple(op::NOP)).collect();
		let here = pad as Idx;
		insns.push(SInsn::LookupSwitch { default: here + 1, pairs: vec![(-7, 0), (5, here + 1), (9, here)] });
		insns.push(RETURN);
		let c = class_with_method("p/Sw", insns);
		let Ok(bytes) = cfmodel::asm::assemble(&c, &Encoding::default()) else { continue };
		let Ok(p) = cfmodel::parse(&bytes) else { continue };
		let Some(at) = p.map.iter().position(|e| e.role == Role::Opcode && bytes[e.offset] == op::LOOKUPSWITCH) else { continue };
		// after the opcode: default (BranchOffset), npairs (Count), then (key, offset) pairs
		let keys: Vec<usize> = p.map[at + 1..].iter().filter(|e| e.role == Role::Other && e.width == 4).take(3).map(|e| e.offset).collect();
		if keys.len() != 3 {
			continue;
		}
		for (name, new_keys) in [("equal-first-two", [-7i32, -7, 9]), ("equal-last-two", [-7, 9, 9]), ("all-equal", [5, 5, 5]), ("descending", [9, 5, -7]), ("middle-out-of-order", [-7, 10, 9])] {
			let mut b = bytes.clone();
			for (off, k) in keys.iter().zip(new_keys) {
				b[*off..*off + 4].copy_from_slice(&k.to_be_bytes());
			}
			v.push((format!("unrepresentable-code/lookupswitch-{name}/pad{pad}"), b));
		}
	}
	{
		let c = class_with_method("p/Multi", vec![SInsn::MultiANewArray(js("[[I"), 1), RETURN]);
		if let Ok(mut bytes) = cfmodel::asm::assemble(&c, &Encoding::default()) {
			if let Ok(p) = cfmodel::parse(&bytes) {
				if let Some(e) = p.map.iter().find(|e| e.role == Role::Opcode && bytes[e.offset] == op::MULTIANEWARRAY) {
					bytes[e.offset + 3] = 0;
					v.push(("unrepresentable-code/multianewarray-zero-dimensions".to_owned(), bytes));
				}
			}
		}
	}
	v
}

/// A LineNumberTable spread over `parts` attributes of `per_part` entries each (JVMS 4.7.12 allows several per Code
/// attribute): the reader merges them into one list of `parts * per_part` entries, 65534 / 65535 / 65536 / 65538 of them.
/// Up to 65535 the writer can state the list in one attribute; beyond that it has to refuse (or split). Built by
/// assembling the class with one table and repeating the bytes of that attribute.
/// Returns (label, bytes, total entries).
pub fn split_table_cases() -> Vec<(String, Vec<u8>, usize)> {
	let mut v = Vec::new();
	for (parts, per_part) in [(2usize, 32_767usize), (2, 32_768), (3, 21_845), (3, 21_846)] {
		let mut insns: Vec<SInsn> = (0..per_part).map(|_| SInsn::Simple(op::NOP)).collect();
		insns.push(RETURN);
		let mut c = class_with_method("p/Lines", insns);
		if let Some(code) = &mut c.methods[0].code {
			code.line_numbers = (0..per_part).map(|i| (i as Idx, (i % 60_000) as u16)).collect();
		}
		normalize(&mut c);
		let Ok(bytes) = cfmodel::asm::assemble(&c, &Encoding::default()) else { continue };
		let Ok(p) = cfmodel::parse(&bytes) else { continue };
		let Some(code) = p.attribute_spans.iter().find(|a| a.name == "Code") else { continue };
		let Some(lnt) = p.attribute_spans.iter().find(|a| a.name == "LineNumberTable") else { continue };
		// Code: name(2) length(4) max_stack(2) max_locals(2) code_length(4) code exception_table_length(2) [no entries] attributes_count(2)
		let code_length = per_part + 1;
		let count_at = code.start + 6 + 4 + 4 + code_length + 2;
		let attr = bytes[lnt.start..lnt.start + lnt.len].to_vec();
		let mut out = bytes[..lnt.start + lnt.len].to_vec();
		for _ in 1..parts {
			out.extend_from_slice(&attr);
		}
		out.extend_from_slice(&bytes[lnt.start + lnt.len..]);
		let extra = (parts - 1) * attr.len();
		let old_count = u16::from_be_bytes([out[count_at], out[count_at + 1]]);
		out[count_at..count_at + 2].copy_from_slice(&(old_count + parts as u16 - 1).to_be_bytes());
		let old_len = u32::from_be_bytes([out[code.start + 2], out[code.start + 3], out[code.start + 4], out[code.start + 5]]);
		out[code.start + 2..code.start + 6].copy_from_slice(&(old_len + extra as u32).to_be_bytes());
		let total = parts * per_part;
		v.push((format!("split-tables/line-numbers/{parts}x{per_part}/{}", if total > 65_535 { "entries-over-65535" } else { "entries-fit" }), out, total));
	}
	v
}

/// `bytes` with each named attribute (the first one of that name; together they must be *all* attributes of their
/// container, in this order) repeated `parts` times: the container's attributes_count and the attribute_length of every
/// enclosing attribute are adjusted.
fn replicate(bytes: &[u8], p: &cfmodel::Parsed, names: &[(&str, usize)]) -> Option<Vec<u8>> {
	let spans: Vec<&cfmodel::parse::AttrSpan> = names.iter().map(|(n, _)| p.attribute_spans.iter().find(|s| s.name == *n)).collect::<Option<_>>()?;
	let first = spans.first()?.start;
	let count_at = first.checked_sub(2)?;
	if u16::from_be_bytes([bytes[count_at], bytes[count_at + 1]]) as usize != names.len() || spans.windows(2).any(|w| w[0].start + w[0].len != w[1].start) {
		return None;
	}
	let mut out = bytes[..first].to_vec();
	let mut extra = 0usize;
	for (s, (_, parts)) in spans.iter().zip(names) {
		for _ in 0..*parts {
			out.extend_from_slice(&bytes[s.start..s.start + s.len]);
		}
		extra += (parts - 1) * s.len;
	}
	let end = spans.last().map(|s| s.start + s.len)?;
	out.extend_from_slice(&bytes[end..]);
	out[count_at..count_at + 2].copy_from_slice(&(names.iter().map(|(_, k)| *k).sum::<usize>() as u16).to_be_bytes());
	for e in p.attribute_spans.iter().filter(|e| e.start < first && first < e.start + e.len) {
		let at = e.start + 2;
		let old = u32::from_be_bytes([out[at], out[at + 1], out[at + 2], out[at + 3]]);
		out[at..at + 4].copy_from_slice(&(old + extra as u32).to_be_bytes());
	}
	Some(out)
}

/// Every list the reader accumulates over repeated attributes — so that a tree it produces can hold more entries than the
/// u16 count of the one attribute the writer states the list in:
///
/// * LocalVariableTable, LocalVariableTypeTable (several per Code attribute are legal, JVMS 4.7.13/14): each alone and
///   both in one method (the reader keeps ONE list of variables, entries with a descriptor and entries with a signature
///   are counted separately by a writer);
/// * Runtime(In)VisibleAnnotations on a class, a field, a method, a record component and Runtime(In)VisibleTypeAnnotations
///   on these and on a Code attribute: a class file may have only one of each per element, but the reader accepts several
///   and appends — descriptions only a lenient reader produces (`strict` = false: the reference parser need not accept
///   the input; the output is judged as always).
///
/// Totals 65534, 65535 (written whole or refused cleanly), 65536, 65538 (no file can state them in one attribute). Built as
/// `split_table_cases`: the class with one attribute of `per_part` entries is assembled, the attribute bytes are repeated.
/// Returns (label, bytes, largest total of one list, strict).
pub fn merged_table_cases() -> Vec<(String, Vec<u8>, usize, bool)> {
	let mut v = Vec::new();
	let lv = |n: usize, ty: &str| -> Vec<SLocalVar> {
		let mut t: Vec<SLocalVar> = (0..n).map(|i| SLocalVar { start: (i % 8) as Idx, end: (i % 8 + 1) as Idx, name: js(["a", "b", "c"][i % 3]), ty: js(ty), index: (i % 5) as u16 }).collect();
		t.sort();
		t
	};
	let code_class = |f: &dyn Fn(&mut SCode)| -> SClass {
		let mut c = class_with_method("p/Merged", (0..8).map(|_| SInsn::Simple(op::NOP)).chain([RETURN]).collect());
		if let Some(code) = &mut c.methods[0].code {
			f(code);
		}
		c
	};
	// `split`: per attribute name (parts, entries per part); the model is built with the per-part size (one size per case)
	let mut push = |kind: &str, strict: bool, model: &dyn Fn(usize) -> SClass, names: &[&str], splits: &[Vec<(usize, usize)>]| {
		for split in splits {
			let c = model(split[0].1);
			let Ok(bytes) = cfmodel::asm::assemble(&c, &Encoding::default()) else { continue };
			let Ok(p) = cfmodel::parse(&bytes) else { continue };
			let spec: Vec<(&str, usize)> = names.iter().copied().zip(split.iter().map(|(parts, _)| *parts)).collect();
			let Some(out) = replicate(&bytes, &p, &spec) else { continue };
			let total = split.iter().map(|(parts, per)| parts * per).max().unwrap_or(0);
			let shape: Vec<String> = split.iter().map(|(parts, per)| format!("{parts}x{per}")).collect();
			v.push((format!("split-tables/{kind}/{}/{}", shape.join("+"), if total > 65_535 { "entries-over-65535" } else { "entries-fit" }), out, total, strict));
		}
	};
	let one = |list: &[(usize, usize)]| -> Vec<Vec<(usize, usize)>> { list.iter().map(|x| vec![*x]).collect() };
	let standard = one(&[(2, 32_767), (3, 21_845), (2, 32_768), (3, 21_846)]);
	push("local-variables", true, &|n| code_class(&|c| c.local_vars = lv(n, "I")), &["LocalVariableTable"], &standard);
	push("local-variable-types", true, &|n| code_class(&|c| c.local_var_types = lv(n, "TT;")), &["LocalVariableTypeTable"], &standard);
	// both kinds in one method: 65535 of each fits; 65536 of one kind does not, however few the other has
	let both = |n: usize| code_class(&|c| {
		c.local_vars = lv(n, "I");
		c.local_var_types = lv(n, "TT;");
	});
	push("local-variables+types", true, &both, &["LocalVariableTable", "LocalVariableTypeTable"], &[
		vec![(3, 21_845), (3, 21_845)], vec![(4, 16_384), (1, 16_384)], vec![(1, 16_384), (4, 16_384)], vec![(3, 21_846), (3, 21_846)],
	]);
	let an = |n: usize| -> Vec<SAnnotation> { (0..n).map(|i| SAnnotation { type_name: js(["Lp/A;", "Lp/B;"][i % 2]), pairs: Vec::new() }).collect() };
	let tan = |n: usize, target: STarget| -> Vec<STypeAnnotation> { (0..n).map(|i| STypeAnnotation { target: target.clone(), path: if i % 2 == 0 { vec![] } else { vec![(0, 0)] }, annotation: SAnnotation { type_name: js("Lp/TA;"), pairs: Vec::new() } }).collect() };
	let edge = one(&[(3, 21_845), (2, 32_768)]);
	for visible in [true, false] {
		let (a_name, t_name) = if visible { ("RuntimeVisibleAnnotations", "RuntimeVisibleTypeAnnotations") } else { ("RuntimeInvisibleAnnotations", "RuntimeInvisibleTypeAnnotations") };
		let put = move |a: &mut SAnnotations, anns: Vec<SAnnotation>, tanns: Vec<STypeAnnotation>| {
			if visible {
				a.visible = anns;
				a.visible_type = tanns;
			} else {
				a.invisible = anns;
				a.invisible_type = tanns;
			}
		};
		let holder = |place: &str, anns: Vec<SAnnotation>, tanns: Vec<STypeAnnotation>| -> SClass {
			let mut c = skeleton("p/Merged");
			match place {
				"class" => put(&mut c.annotations, anns, tanns),
				"field" => {
					let mut f = SField { access: 0x0001, name: js("f"), desc: js("I"), ..Default::default() };
					put(&mut f.annotations, anns, tanns);
					c.fields.push(f);
				},
				"method" => {
					c.access = 0x0421;
					let mut m = SMethod { access: 0x0401, name: js("m"), desc: js("()V"), ..Default::default() };
					put(&mut m.annotations, anns, tanns);
					c.methods.push(m);
				},
				_ => {
					let mut rc = SRecordComponent { name: js("rc"), desc: js("I"), ..Default::default() };
					put(&mut rc.annotations, anns, tanns);
					c.record = Some(vec![rc]);
				},
			}
			c
		};
		for (place, target) in [("class", STarget::Supertype(65_535)), ("field", STarget::Empty(0x13)), ("method", STarget::Empty(0x14)), ("record-component", STarget::Empty(0x13))] {
			push(&format!("{place}-{a_name}"), false, &|n| holder(place, an(n), Vec::new()), &[a_name], &edge);
			push(&format!("{place}-{t_name}"), false, &|n| holder(place, Vec::new(), tan(n, target.clone())), &[t_name], &edge);
		}
		push(&format!("code-{t_name}"), false, &|n| code_class(&|c| {
			let t = tan(n, STarget::Offset { target_type: 0x44, at: 0 });
			if visible { c.visible_type = t } else { c.invisible_type = t }
		}), &[t_name], &edge);
	}
	v
}

/// Tables that reach the limit of their count field through reading alone: one table of exactly 65535 entries (255 for the
/// u8 count of a type path) — a writer must state them whole or refuse, never truncate or wrap. The entries repeat one
/// value wherever the format allows it, so that the constant pool stays small. A model the reference assembler and the
/// strict parser do not agree on (the format forbids the repetition) is left out; the caller states how many remain.
pub fn limit_table_cases() -> Vec<(String, Vec<u8>, cfmodel::Parsed)> {
	const N: usize = 65_535;
	let mut models: Vec<(&str, SClass)> = Vec::new();
	let mut c = skeleton("p/Limit");
	c.interfaces = vec![js("p/I"); N];
	models.push(("interfaces", c));
	let mut c = skeleton("p/Limit");
	c.fields = (0..N).map(|_| SField { access: 0x0001, name: js("f"), desc: js("I"), ..Default::default() }).collect();
	models.push(("fields", c));
	let mut c = skeleton("p/Limit");
	c.access = 0x0421;
	c.methods = (0..N).map(|_| SMethod { access: 0x0401, name: js("m"), desc: js("()V"), ..Default::default() }).collect();
	models.push(("methods", c));
	let mut c = class_with_method("p/Limit", vec![RETURN]);
	c.methods[0].exceptions = Some(vec![js("p/E"); N]);
	models.push(("method-exceptions", c));
	let mut c = class_with_method("p/Limit", vec![SInsn::Simple(op::NOP), RETURN]);
	if let Some(code) = &mut c.methods[0].code {
		code.exceptions = (0..N).map(|i| SExceptionEntry { start: 0, end: 1, handler: (i % 2) as Idx, catch: if i % 3 == 0 { None } else { Some(js("p/E")) } }).collect();
	}
	models.push(("exception-table", c));
	let mut c = skeleton("p/Limit");
	c.inner_classes = Some((0..N).map(|i| SInnerClass { inner: js("p/Limit$In"), outer: if i % 2 == 0 { Some(js("p/Limit")) } else { None }, name: Some(js("In")), flags: 0x0009 }).collect());
	models.push(("inner-classes", c));
	let mut c = skeleton("p/Limit");
	c.nest_members = Some(vec![js("p/Limit$N"); N]);
	models.push(("nest-members", c));
	let mut c = skeleton("p/Limit");
	c.permitted_subclasses = Some(vec![js("p/Sub"); N]);
	models.push(("permitted-subclasses", c));
	let mut c = skeleton("p/Limit");
	c.annotations.visible = vec![SAnnotation { type_name: js("Lp/A;"), pairs: (0..N).map(|i| (js("v"), SElementValue::Const(b'I', SConst::Int((i % 3) as i32)))).collect() }];
	models.push(("element-value-pairs", c));
	let mut c = skeleton("p/Limit");
	c.annotations.invisible = vec![SAnnotation { type_name: js("Lp/A;"), pairs: vec![(js("v"), SElementValue::Array((0..N).map(|i| SElementValue::Str(js(["x", "y"][i % 2]))).collect()))] }];
	models.push(("array-values", c));
	let boot = SBootstrap { handle: handles()[5].clone(), args: (0..N).map(|i| SConst::Int((i % 4) as i32)).collect() };
	let c = class_with_method("p/Limit", vec![SInsn::InvokeDynamic(SDynamic { bootstrap: boot, name: js("run"), desc: js("()V") }), RETURN]);
	models.push(("bootstrap-arguments", c));
	let mut c = class_with_method("p/Limit", vec![RETURN]);
	c.methods[0].unknown = (0..N - 1).map(|_| SUnknown { name: js("x.Custom"), bytes: Vec::new() }).collect();
	models.push(("method-attributes", c));
	let mut c = skeleton("p/Limit");
	c.fields.push(SField { access: 0x0001, name: js("f"), desc: js("I"), annotations: SAnnotations { visible_type: vec![STypeAnnotation { target: STarget::Empty(0x13), path: (0..255).map(|i| ((i % 2) as u8 * 3, if i % 2 == 1 { (i % 7) as u8 } else { 0 })).collect(), annotation: SAnnotation { type_name: js("Lp/TA;"), pairs: Vec::new() } }], ..Default::default() }, ..Default::default() });
	models.push(("type-path", c));
	let mut v = Vec::new();
	for (name, m) in models {
		let Ok(bytes) = cfmodel::asm::assemble(&m, &Encoding::default()) else { continue };
		let Ok(p) = cfmodel::parse(&bytes) else { continue };
		if p.class != m {
			continue;
		}
		v.push((format!("tables-at-limit/{name}"), bytes, p));
	}
	v
}
