//! Threshold windows: classes built with the assembler whose methods put jumps, switches, code
//! length and operands right at the limits of their encodings *in the file the writer will produce*.
//!
//! A conditional jump in a valid class file is always within ±32 KiB, so the writer only has to
//! rewrite one when its own layout is longer than the layout of the file the class was read from.
//! Two things make it longer, and the scenes below use both to aim at a distance in the output:
//!
//! * **growers** — `ldc` of a constant that sits at a pool index ≤ 255 in the input (reversed pool
//!   order) but is preceded by more than 255 pool *slots* (a first method loading 135 distinct
//!   longs, two slots each) in any first-use pool: 2 bytes in, 3 bytes (`ldc_w`) out. (Longs, because
//!   the assembler sizes its discovery pass by the position in first-use order, where a long counts once.)
//! * **shrinkers in front of a switch** — `iload 1` / `wide iload 5` in the input, which any writer
//!   using the short forms emits shorter: the switch opcode moves down, its padding absorbs the
//!   difference, and a jump that starts between the shrinker and the switch gets longer.
//!
//! Beyond one, two and three far jumps the scenes build **chains** (k jumps, every rewriting pushes exactly one more
//! jump over the limit: k + 1 layouts), **fans** (k jumps that are all too far at once: a writer that finds one per
//! attempt needs k + 1 attempts, k up to 260 / 1000) and **mixed chains** (forward and backward jumps rewritten
//! alternately, the backward ones in line), optionally with a switch inside every span (its padding changes with
//! every rewriting), with the same body as a second method, and with a far `goto` back to a rewritten jump.
//!
//! The aiming assumes how a writer lays code out (short forms, first-use pool); nothing here decides a
//! verdict — if the assumptions stop holding the vacuity floors of the check fail (exit 2).

use cfmodel::asm::{Encoding, PoolOrder};
use cfmodel::gen::*;
use cfmodel::model::*;

/// number of distinct long constants loaded by the first method
pub const FILL: usize = 135;
const GROW_CONST: i32 = 424_242;
const IFNE: u8 = 0x9a;
const IFLT: u8 = 0x9b;
const IF_ICMPGE: u8 = 0xa2;

#[derive(Clone, Debug)]
pub enum El {
	Jump { op: u8, to: usize },
	Mark(usize),
	/// fixed-size filler: exactly `n` bytes in the input and in the output
	Pad { n: u32, style: u8 },
	Grow(u32),
	/// `iload 1` in the input (2 bytes), `iload_1` in the short form (1 byte)
	Shrink1(u32),
	/// `wide iload 5` in the input (4 bytes), `iload 5` in the short form (2 bytes)
	Shrink2(u32),
	Table { default: usize, arms: Vec<usize> },
	Lookup { default: usize, arms: Vec<usize> },
}

#[derive(Clone, Copy, PartialEq, Eq, Debug)]
pub enum Model {
	/// the file given to the reader
	In,
	/// a writer using the shortest forms and a first-use pool
	Out,
}

#[derive(Clone, Debug)]
pub struct Layout {
	pub pos: Vec<u32>,
	/// size of the code including the final `return`
	pub total: u32,
	pub wide: Vec<bool>,
}

#[derive(Clone, Debug, Default)]
pub struct Scene {
	pub els: Vec<El>,
}

fn is_uncond(op: u8) -> bool {
	op == op::GOTO || op == op::JSR
}

impl Scene {
	pub fn push(&mut self, e: El) -> usize {
		self.els.push(e);
		self.els.len() - 1
	}
	pub fn jump(&mut self, op: u8, to: usize) -> usize {
		self.push(El::Jump { op, to })
	}
	pub fn mark(&mut self, id: usize) {
		self.push(El::Mark(id));
	}
	/// a mark followed by a `nop` that carries it
	pub fn target(&mut self, id: usize) {
		self.push(El::Mark(id));
		self.push(El::Pad { n: 1, style: 2 });
	}
	pub fn pad(&mut self, n: u32) -> usize {
		self.push(El::Pad { n, style: 0 })
	}
	pub fn pad_style(&mut self, n: u32, style: u8) -> usize {
		self.push(El::Pad { n, style })
	}
	pub fn grow(&mut self, n: u32) {
		if n > 0 {
			self.push(El::Grow(n));
		}
	}

	pub fn layout_with(&self, model: Model, wide: &[bool]) -> Layout {
		let mut pos = Vec::with_capacity(self.els.len());
		let mut p: u32 = 0;
		for (k, e) in self.els.iter().enumerate() {
			pos.push(p);
			p += match e {
				El::Jump { op, .. } => match (wide[k], is_uncond(*op)) {
					(false, _) => 3,
					(true, true) => 5,
					(true, false) => 8,
				},
				El::Mark(_) => 0,
				El::Pad { n, .. } => *n,
				El::Grow(n) => if model == Model::In { 2 * n } else { 3 * n },
				El::Shrink1(n) => if model == Model::In { 2 * n } else { *n },
				El::Shrink2(n) => if model == Model::In { 4 * n } else { 2 * n },
				El::Table { arms, .. } => 1 + (4 - (p + 1) % 4) % 4 + 12 + 4 * arms.len() as u32,
				El::Lookup { arms, .. } => 1 + (4 - (p + 1) % 4) % 4 + 8 + 8 * arms.len() as u32,
			};
		}
		Layout { pos, total: p + 1, wide: wide.to_vec() }
	}

	pub fn narrow(&self, model: Model) -> Layout {
		self.layout_with(model, &vec![false; self.els.len()])
	}

	fn mark_pos(&self, l: &Layout, id: usize) -> i64 {
		for (k, e) in self.els.iter().enumerate() {
			if matches!(e, El::Mark(m) if *m == id) {
				return l.pos[k] as i64;
			}
		}
		l.total as i64 - 1
	}

	/// signed distance from the jump element `k` to its target
	pub fn dist(&self, l: &Layout, k: usize) -> i64 {
		match &self.els[k] {
			El::Jump { to, .. } => self.mark_pos(l, *to) - l.pos[k] as i64,
			_ => 0,
		}
	}

	/// The layout after widening every jump that does not fit, repeated until nothing changes.
	/// For the input model a conditional jump out of range means the scene cannot be a class file.
	pub fn settled(&self, model: Model) -> Option<Layout> {
		let mut wide = vec![false; self.els.len()];
		loop {
			let l = self.layout_with(model, &wide);
			let mut changed = false;
			for (k, e) in self.els.iter().enumerate() {
				if let El::Jump { op, .. } = e {
					let d = self.dist(&l, k);
					if !wide[k] && !(-32768..=32767).contains(&d) {
						if model == Model::In && !is_uncond(*op) {
							return None;
						}
						wide[k] = true;
						changed = true;
					}
				}
			}
			if !changed {
				return Some(l);
			}
		}
	}

	/// Resizes the filler `pad` until the jump `jump` spans exactly `want` bytes in the all-narrow
	/// output layout. False if that is impossible.
	pub fn fit(&mut self, pad: usize, jump: usize, want: i64) -> bool {
		for _ in 0..8 {
			let l = self.narrow(Model::Out);
			let d = self.dist(&l, jump);
			if d == want {
				return true;
			}
			if (d < 0) != (want < 0) && d != 0 {
				return false;
			}
			let delta = want.abs() - d.abs();
			if let El::Pad { n, .. } = &mut self.els[pad] {
				let nn = *n as i64 + delta;
				if !(0..=70_000).contains(&nn) {
					return false;
				}
				*n = nn as u32;
			} else {
				return false;
			}
		}
		false
	}

	/// grows or shrinks `pad` until the settled output layout has exactly `total` bytes
	pub fn fit_total(&mut self, pad: usize, total: u32) -> bool {
		for _ in 0..8 {
			let Some(l) = self.settled(Model::Out) else { return false };
			if l.total == total {
				return true;
			}
			if let El::Pad { n, .. } = &mut self.els[pad] {
				let nn = *n as i64 + total as i64 - l.total as i64;
				if !(0..=70_000).contains(&nn) {
					return false;
				}
				*n = nn as u32;
			}
		}
		false
	}

	/// What the scene is meant to exercise, derived from the settled output layout (bookkeeping for
	/// the vacuity floors only).
	pub fn intent(&self) -> Intent {
		let narrow = self.narrow(Model::Out);
		let Some(settled) = self.settled(Model::Out) else { return Intent::default() };
		let mut widened = 0;
		let mut cascade = false;
		for (k, e) in self.els.iter().enumerate() {
			if matches!(e, El::Jump { .. }) && settled.wide[k] {
				widened += 1;
				if (-32768..=32767).contains(&self.dist(&narrow, k)) {
					cascade = true;
				}
			}
		}
		Intent { widened, cascade, overflow: settled.total > 65535, strict: true, invalid_code: false, table_overflow: false }
	}

	/// The class: method `fill` (135 distinct `ldc2_w`), then method `m` with the scene; reversed pool order.
	/// `decor`: 0 = bare code, 1 = exception table, line numbers, local variables and type annotations
	/// anchored on the jumps and their neighbours, 2 = additionally stack map frames.
	pub fn build(&self, decor: u8) -> (SClass, Encoding) {
		let mut insns: Vec<SInsn> = Vec::new();
		let mut forms: Vec<u8> = vec![0; FILL];
		let mut marks: Vec<(usize, Idx)> = Vec::new();
		let mut jumps: Vec<usize> = Vec::new();
		let mut switches: Vec<usize> = Vec::new();
		for e in &self.els {
			match e {
				El::Jump { op, to } => {
					jumps.push(insns.len());
					insns.push(SInsn::Branch(*op, *to as Idx));
					if is_uncond(*op) {
						forms.push(0);
					}
				},
				El::Mark(id) => marks.push((*id, insns.len() as Idx)),
				El::Pad { n, style } => {
					let mut n = *n;
					let unit = match style {
						0 => 3,
						1 => 2,
						_ => 1,
					};
					while n >= unit && unit > 1 {
						insns.push(if unit == 3 { SInsn::SiPush(1234) } else { SInsn::BiPush(56) });
						n -= unit;
					}
					if n == 2 {
						insns.push(SInsn::BiPush(7));
						n = 0;
					}
					for _ in 0..n {
						insns.push(SInsn::Simple(op::NOP));
					}
				},
				El::Grow(n) => {
					for _ in 0..*n {
						insns.push(SInsn::Ldc(SConst::Int(GROW_CONST)));
						forms.push(0);
					}
				},
				El::Shrink1(n) => {
					for _ in 0..*n {
						insns.push(SInsn::Load(LvKind::I, 1));
						forms.push(1);
					}
				},
				El::Shrink2(n) => {
					for _ in 0..*n {
						insns.push(SInsn::Load(LvKind::I, 5));
						forms.push(2);
					}
				},
				El::Table { default, arms } => {
					switches.push(insns.len());
					insns.push(SInsn::TableSwitch { default: *default as Idx, low: -1, targets: arms.iter().map(|a| *a as Idx).collect() });
				},
				El::Lookup { default, arms } => {
					switches.push(insns.len());
					insns.push(SInsn::LookupSwitch { default: *default as Idx, pairs: arms.iter().enumerate().map(|(i, a)| (i as i32 * 1000 - 7, *a as Idx)).collect() });
				},
			}
		}
		insns.push(RETURN);
		let n = insns.len() as Idx;
		let resolve = |id: Idx| -> Idx { marks.iter().find(|(m, _)| *m == id as usize).map(|(_, i)| (*i).min(n - 1)).unwrap_or(n - 1) };
		for i in insns.iter_mut() {
			match i {
				SInsn::Branch(_, t) => *t = resolve(*t),
				SInsn::TableSwitch { default, targets, .. } => {
					*default = resolve(*default);
					for t in targets.iter_mut() {
						*t = resolve(*t);
					}
				},
				SInsn::LookupSwitch { default, pairs } => {
					*default = resolve(*default);
					for (_, t) in pairs.iter_mut() {
						*t = resolve(*t);
					}
				},
				_ => {},
			}
		}
		let mut code = SCode { max_stack: 4, max_locals: 8, insns, ..Default::default() };
		if decor >= 1 {
			let mut frame_at: Vec<Idx> = Vec::new();
			for (k, &j) in jumps.iter().enumerate() {
				let j = j as Idx;
				let t = match &code.insns[j as usize] {
					SInsn::Branch(_, t) => *t,
					_ => 0,
				};
				let k16 = k as u16;
				if k == 0 && j != t {
					let (lo, hi) = (j.min(t), j.max(t));
					code.exceptions.push(SExceptionEntry { start: lo, end: hi, handler: hi, catch: None });
					code.exceptions.push(SExceptionEntry { start: j + 1, end: n, handler: j, catch: Some(js("java/lang/Exception")) });
				}
				code.line_numbers.extend([(j, 100 + k16), (j + 1, 200 + k16), (t, 300 + k16)]);
				let (s, e) = if t > j { (j + 1, t) } else { (t, j + 1) };
				code.local_vars.push(SLocalVar { start: s, end: e, name: js(&format!("v{k}")), ty: js("I"), index: k16 });
				code.local_var_types.push(SLocalVar { start: j, end: n, name: js(&format!("g{k}")), ty: js("TT;"), index: 10 + k16 });
				let a = SAnnotation { type_name: js("Lp/TA;"), pairs: vec![] };
				code.visible_type.push(STypeAnnotation { target: STarget::Offset { target_type: 0x44, at: j + 1 }, path: vec![], annotation: a.clone() });
				code.visible_type.push(STypeAnnotation { target: STarget::LocalVar { target_type: 0x40, table: vec![(j + 1, n, 3), (t, t, 4)] }, path: vec![(3, 1)], annotation: a.clone() });
				code.invisible_type.push(STypeAnnotation { target: STarget::TypeArgument { target_type: 0x47, at: t, index: 0 }, path: vec![], annotation: a });
				frame_at.extend([j + 1, t]);
			}
			for &s in &switches {
				code.line_numbers.extend([(s as Idx, 400), (s as Idx + 1, 401)]);
				frame_at.push(s as Idx + 1);
			}
			code.line_numbers.push((0, 1));
			code.line_numbers.sort();
			code.line_numbers.dedup();
			if decor >= 2 {
				frame_at.retain(|i| *i < n);
				frame_at.sort();
				frame_at.dedup();
				code.frames = frame_at.into_iter().enumerate().map(|(k, i)| (i, if k % 2 == 0 { SFrame::Same } else { SFrame::SameLocals1(SVType::Integer) })).collect();
			}
		}
		let mut c = skeleton("p/W");
		c.methods.push(method_with("fill", "()V", (0..FILL).map(|j| SInsn::Ldc(SConst::Long(5_000_000_000 + j as i64))).chain([RETURN]).collect()));
		let mut m = method_with("m", "()V", vec![]);
		m.code = Some(code);
		c.methods.push(m);
		normalize(&mut c);
		(c, Encoding { pool: PoolOrder::Reversed, forms, ..Default::default() })
	}
}

#[derive(Clone, Copy, Debug, Default)]
pub struct Intent {
	/// jumps the settled output layout needs in their long form
	pub widened: u32,
	/// some jump fits in the all-narrow layout and is pushed over the limit by another widening
	pub cascade: bool,
	/// the settled output layout is longer than 65535 bytes
	pub overflow: bool,
	/// the input must be accepted by the strict parser
	pub strict: bool,
	/// the input is deliberately not a valid class file (a code constraint of JVMS 4.9.1 is broken that the reader does
	/// not check): an output that the strict parser rejects for the very same reason states the given description
	/// faithfully and is not charged to the writer
	pub invalid_code: bool,
	/// a table of the description has more than 65535 entries (the input spreads it over several attributes): a writer
	/// that emits one attribute per table has to refuse; a clean error is accepted
	pub table_overflow: bool,
}

pub const COND_OPS: [u8; 16] = [0x99, 0x9a, 0x9b, 0x9c, 0x9d, 0x9e, 0x9f, 0xa0, 0xa1, 0xa2, 0xa3, 0xa4, 0xa5, 0xa6, op::IFNULL, op::IFNONNULL];

#[derive(Clone, Debug)]
pub enum Spec {
	/// one jump over `d` bytes (all-narrow output layout)
	Single { op: u8, d: i32, g: u32, decor: u8, style: u8 },
	/// two jumps, arrangement `arr` (see `pair`)
	Pair { arr: u8, op1: u8, op2: u8, d1: i32, d2: i32, a: u32, g: u32, decor: u8 },
	/// three forward jumps crossing each other
	Triple { ops: [u8; 3], d: [i32; 3], a: u32, b: u32, g: u32 },
	/// a switch next to a jump at the threshold, see `switch_scene`
	Switch { kind: u8, lookup: bool, op: u8, r: u32, pre: i32, d: i32, g: u32, decor: u8 },
	/// a method of exactly `total` bytes of fixed-size instructions
	Plain { total: u32, style: u8 },
	/// a far jump plus a tail so that the settled output is `total` bytes long
	Length { op: u8, total: u32, g: u32, decor: u8 },
	/// a backward conditional jump over `d` bytes whose opcode sits at `p` in the output
	HighBackward { op: u8, p: u32, d: i32 },
	/// `k` forward jumps crossing each other, each one pushed over the limit by the rewriting of the next (see `chain`)
	/// `sw`: 0 = no switch; 1..=4 a tableswitch, 5..=8 a lookupswitch `(sw - 1) % 4` bytes after the last jump, inside every
	/// span: each rewriting moves it and changes its padding, so a span grows by anything between 2 - 3 and 5 + 3 bytes
	Chain { k: u32, pattern: u8, tight: bool, g: u32, decor: u8, twin: bool, sw: u8 },
	/// `k` forward jumps side by side that all need the long form at once (one more attempt per jump)
	/// `loopback`: the code ends in a `goto` back to the first jump (a far backward jump whose target is a rewritten jump)
	Fan { k: u32, pattern: u8, same_target: bool, decor: u8, loopback: bool },
	/// `m` forward and `m` backward jumps crossing each other, rewritten alternately (see `mixed_chain`)
	Mixed { m: u32, pattern: u8, tight: bool, gap: u32, g: u32, decor: u8 },
}

/// opcodes of the jumps of a chain, by position
fn pattern_op(pattern: u8, i: usize) -> u8 {
	match pattern {
		0 => COND_OPS[i % COND_OPS.len()],
		1 => op::GOTO,
		2 => [op::IFEQ, op::GOTO, op::IFNONNULL, op::JSR][i % 4],
		3 => [op::GOTO, IF_ICMPGE, op::JSR, op::IFNULL, 0xa5][i % 5],
		_ => op::JSR,
	}
}

/// bytes a jump grows by when it is rewritten in its long form
fn growth(op: u8) -> i64 {
	if is_uncond(op) { 2 } else { 5 }
}

pub struct Case {
	pub label: String,
	pub class: SClass,
	pub enc: Encoding,
	pub intent: Intent,
}

fn single(op: u8, d: i32, g: u32, style: u8) -> Option<Scene> {
	let mut s = Scene::default();
	if d > 0 {
		let j = s.jump(op, 1);
		s.grow(g);
		let p = s.pad_style(0, style);
		s.target(1);
		s.fit(p, j, d as i64).then_some(s)
	} else {
		s.target(1);
		s.grow(g);
		let p = s.pad_style(0, style);
		let j = s.jump(op, 1);
		s.fit(p, j, d as i64).then_some(s)
	}
}

/// arrangements of two jumps J1→T1 (distance d1) and J2→T2 (distance d2), `g` growers in the part
/// both spans share:
/// 0 crossing, both forward: J1 J2 T1 T2 — 1 J2 backward from inside the forward span: T2 J1 J2 T1 —
/// 2 both backward, J2 inside span 1: T2 T1 J2 J1 — 3 J2 forward out of the backward span: T1 J2 J1 T2 —
/// 4 disjoint: J1 T1 J2 T2 — 5 nested forward: J1 J2 T2 T1
fn pair(arr: u8, op1: u8, op2: u8, d1: i32, d2: i32, a: u32, g: u32) -> Option<Scene> {
	let (d1, d2) = (d1 as i64, d2 as i64);
	let mut s = Scene::default();
	let base = 32_700 - 3 * g;
	let ok = match arr {
		0 => {
			let j1 = s.jump(op1, 1);
			s.pad(a);
			let j2 = s.jump(op2, 2);
			s.grow(g);
			let b = s.pad(0);
			s.target(1);
			let c = s.pad(0);
			s.target(2);
			d1 > 0 && d2 > 0 && s.fit(b, j1, d1) && s.fit(c, j2, d2)
		},
		1 => {
			s.target(2);
			let x = s.pad(0);
			let j1 = s.jump(op1, 1);
			s.grow(g);
			s.pad(a);
			let j2 = s.jump(op2, 2);
			let b = s.pad(0);
			s.target(1);
			d1 > 0 && d2 < 0 && s.fit(x, j2, d2) && s.fit(b, j1, d1)
		},
		2 => {
			s.target(2);
			let x = s.pad(0);
			s.target(1);
			s.grow(g);
			s.pad(base + a);
			let j2 = s.jump(op2, 2);
			let b = s.pad(0);
			let j1 = s.jump(op1, 1);
			d1 < 0 && d2 < 0 && s.fit(x, j2, d2) && s.fit(b, j1, d1)
		},
		3 => {
			s.target(1);
			let x = s.pad(0);
			let j2 = s.jump(op2, 2);
			s.grow(g);
			s.pad(base + a);
			let j1 = s.jump(op1, 1);
			let c = s.pad(0);
			s.target(2);
			d1 < 0 && d2 > 0 && s.fit(x, j1, d1) && s.fit(c, j2, d2)
		},
		4 => {
			let j1 = s.jump(op1, 1);
			s.grow(g);
			let x = s.pad(0);
			s.target(1);
			s.pad(a);
			let j2 = s.jump(op2, 2);
			s.grow(g);
			let y = s.pad(0);
			s.target(2);
			d1 > 0 && d2 > 0 && s.fit(x, j1, d1) && s.fit(y, j2, d2)
		},
		_ => {
			let j1 = s.jump(op1, 1);
			s.pad(a);
			let j2 = s.jump(op2, 2);
			s.grow(g);
			let b = s.pad(0);
			s.target(2);
			let c = s.pad(0);
			s.target(1);
			d1 > 0 && d2 > 0 && s.fit(b, j2, d2) && s.fit(c, j1, d1)
		},
	};
	ok.then_some(s)
}

fn triple(ops: [u8; 3], d: [i32; 3], a: u32, b: u32, g: u32) -> Option<Scene> {
	let mut s = Scene::default();
	let j1 = s.jump(ops[0], 1);
	s.pad(a);
	let j2 = s.jump(ops[1], 2);
	s.pad(b);
	let j3 = s.jump(ops[2], 3);
	s.grow(g);
	let c = s.pad(0);
	s.target(1);
	let dd = s.pad(0);
	s.target(2);
	let e = s.pad(0);
	s.target(3);
	(s.fit(c, j1, d[0] as i64) && s.fit(dd, j2, d[1] as i64) && s.fit(e, j3, d[2] as i64)).then_some(s)
}

/// kind 0: jump, then switch (arms far forward), target far — the switch moves when the jump is rewritten
/// kind 1: switch (arms far forward), then jump
/// kind 2: backward jump, then switch with far backward arms
/// kind 3: `pre` growers (>0) or shrinkers (<0), jump, `r` bytes, switch, filler, target: the padding of the
///         switch differs between input and output and lengthens or shortens the jump
/// kind 4: the same with a backward jump: `pre` growers/shrinkers, target, `r` bytes, switch, filler, jump
fn switch_scene(kind: u8, lookup: bool, op: u8, r: u32, pre: i32, d: i32, g: u32) -> Option<Scene> {
	let mut s = Scene::default();
	let sw = |default: usize, arms: Vec<usize>| if lookup { El::Lookup { default, arms } } else { El::Table { default, arms } };
	let d = d as i64;
	let ok = match kind {
		0 => {
			s.target(0);
			s.pad(r);
			let j = s.jump(op, 1);
			s.push(sw(1, vec![0, 1, 2]));
			s.mark(2);
			s.grow(g);
			let x = s.pad(0);
			s.target(1);
			d > 0 && s.fit(x, j, d)
		},
		1 => {
			s.target(0);
			s.pad(r);
			s.push(sw(1, vec![1, 0]));
			let j = s.jump(op, 1);
			s.grow(g);
			let x = s.pad(0);
			s.target(1);
			d > 0 && s.fit(x, j, d)
		},
		2 => {
			s.target(0);
			s.grow(g);
			let x = s.pad(0);
			let j = s.jump(op, 0);
			s.pad(r);
			s.push(sw(0, vec![0, 3]));
			s.target(3);
			d < 0 && s.fit(x, j, d)
		},
		4 => {
			// `pre` growers or shrinkers, target, `r` bytes, switch, filler, backward jump: the padding of the switch
			// differs between input and output and lengthens or shortens the backward jump
			if pre > 0 {
				s.grow(pre as u32);
			} else if pre < 0 {
				s.push(El::Shrink1((-pre) as u32 % 4));
				if -pre >= 4 {
					s.push(El::Shrink2((-pre) as u32 / 4));
				}
			}
			s.target(0);
			s.pad(r);
			s.push(sw(2, vec![0, 2]));
			s.mark(2);
			let x = s.pad(0);
			let j = s.jump(op, 0);
			d < 0 && s.fit(x, j, d)
		},
		_ => {
			s.mark(0);
			if pre > 0 {
				s.grow(pre as u32);
			} else if pre < 0 {
				s.push(El::Shrink1((-pre) as u32 % 4));
				if -pre >= 4 {
					s.push(El::Shrink2((-pre) as u32 / 4));
				}
			}
			let j = s.jump(op, 1);
			s.pad(r);
			s.push(sw(2, vec![0, 2]));
			s.mark(2);
			let x = s.pad(0);
			s.target(1);
			d > 0 && s.fit(x, j, d)
		},
	};
	ok.then_some(s)
}

fn length_scene(op: u8, total: u32, g: u32) -> Option<Scene> {
	let mut s = Scene::default();
	let j = s.jump(op, 1);
	s.grow(g);
	let x = s.pad(0);
	s.target(1);
	let y = s.pad(0);
	(s.fit(x, j, 32_770) && s.fit_total(y, total)).then_some(s)
}

fn high_backward(op: u8, p: u32, d: i32) -> Option<Scene> {
	// growers: enough to bring the input distance back into range and the input length under the limit
	let g = ((-d) as i64 - 32_768).max(p as i64 - 65_531).max(0) as u32 + 1;
	let mut s = Scene::default();
	let a = s.pad(0);
	s.target(1);
	s.grow(g);
	let x = s.pad(0);
	let j = s.jump(op, 1);
	if !s.fit(x, j, d as i64) {
		return None;
	}
	let at = s.narrow(Model::Out).pos[j] as i64;
	let na = p as i64 - at;
	if na < 0 {
		return None;
	}
	if let El::Pad { n, .. } = &mut s.els[a] {
		*n = na as u32;
	}
	Some(s)
}

/// J1 … Jk, growers, filler, T1 … Tk (all forward, crossing). J_{i+1} lies inside the span of J_i, so rewriting it
/// lengthens J_i. The distances (all-narrow output layout) are chosen so that only Jk is too far at first and every
/// rewriting pushes exactly the next jump over the limit: k + 1 layouts. `tight`: each pushed jump ends up over
/// exactly +32768; otherwise it sat at exactly +32767 before it was pushed.
fn chain(ops: &[u8], tight: bool, g: u32, sw: u8) -> Option<Scene> {
	let k = ops.len();
	let mut s = Scene::default();
	let js: Vec<usize> = ops.iter().enumerate().map(|(i, o)| s.jump(*o, i + 1)).collect();
	if sw > 0 {
		s.pad_style((sw as u32 - 1) % 4, 2);
		let (default, arms) = (1, vec![k, 1, (k + 1) / 2]);
		s.push(if sw > 4 { El::Lookup { default, arms } } else { El::Table { default, arms } });
	}
	s.grow(g);
	let mut pads = Vec::new();
	for i in 0..k {
		pads.push(s.pad(0));
		s.target(i + 1);
	}
	for i in 0..k {
		let want = if i + 1 == k {
			32_768
		} else {
			let later: i64 = ops[i + 2..].iter().map(|o| growth(*o)).sum();
			32_767 - later - if tight { growth(ops[i + 1]) - 1 } else { 0 }
		};
		if !s.fit(pads[i], js[i], want) {
			return None;
		}
	}
	Some(s)
}

/// J1 … Jk, growers, filler, target(s): every jump is too far in the all-narrow layout
fn fan(ops: &[u8], same_target: bool, loopback: bool) -> Option<Scene> {
	let k = ops.len();
	let mut s = Scene::default();
	s.mark(1000);
	let js: Vec<usize> = ops.iter().enumerate().map(|(i, o)| s.jump(*o, if same_target { 1 } else { i + 1 })).collect();
	s.grow(4 * k as u32 + 2);
	let p = s.pad(0);
	if same_target {
		s.target(1);
	} else {
		for i in (0..k).rev() {
			s.target(i + 1);
		}
	}
	if loopback {
		s.jump(op::GOTO, 1000);
	}
	s.fit(p, js[k - 1], 32_768).then_some(s)
}

/// T_B0 J_F0 T_B1 J_F1 … | growers, filler | J_B0 T_F0 J_B1 T_F1 … — forward jumps F_i and backward jumps B_i whose
/// spans (all about 32 KiB) slide to the right with i. Only F_0 is too far at first. Rewriting F_i lengthens B_i alone
/// (the only span that holds J_Fi) and pushes it under −32768; the trampoline of B_i, written in line in the same
/// attempt, lengthens every later span and pushes exactly F_{i+1} over +32767: one attempt per forward jump,
/// m + 1 layouts, 2m long sites. `tight`: every pushed jump ends up exactly one byte beyond its limit; otherwise it
/// sat exactly at its limit before it was pushed.
fn mixed_chain(m: usize, pattern: u8, tight: bool, gap: u32, g: u32) -> Option<Scene> {
	let fop = |i: usize| pattern_op(pattern, 2 * i);
	let bop = |i: usize| pattern_op(pattern, 2 * i + 1);
	let (fid, bid) = (|i: usize| 2 * i + 1, |i: usize| 2 * i + 2);
	let mut s = Scene::default();
	let mut jf = vec![0usize; m];
	let mut jb = vec![0usize; m];
	let mut pa = vec![0usize; m];
	let mut pb = vec![0usize; m];
	for i in 0..m {
		s.target(bid(i));
		s.pad(6 + gap);
		jf[i] = s.jump(fop(i), fid(i));
		s.pad(18 + gap);
	}
	s.grow(g);
	let x = s.pad(32_000);
	for i in 0..m {
		pb[i] = s.pad(0);
		jb[i] = s.jump(bop(i), bid(i));
		pa[i] = s.pad(0);
		s.target(fid(i));
	}
	let slack = |w: i64| if tight { 0 } else { w - 1 };
	// in the order of the right-hand cluster: every filler lies outside all spans fitted before it
	for i in 0..m {
		let earlier: i64 = (0..i).map(|j| growth(bop(j))).sum();
		let want_b = -(32_769 - growth(fop(i)) - earlier + slack(growth(fop(i))));
		if !s.fit(if i == 0 { x } else { pb[i] }, jb[i], want_b) {
			return None;
		}
		let want_f = 32_768 - earlier + if i == 0 { 0 } else { slack(growth(bop(i - 1))) };
		if !s.fit(pa[i], jf[i], want_f) {
			return None;
		}
	}
	Some(s)
}

impl Spec {
	pub fn label(&self) -> String {
		format!("{self:?}").replace(' ', "")
	}

	pub fn realise(&self) -> Option<Case> {
		let (scene, decor) = match self {
			Spec::Single { op, d, g, decor, style } => (single(*op, *d, *g, *style)?, *decor),
			Spec::Pair { arr, op1, op2, d1, d2, a, g, decor } => (pair(*arr, *op1, *op2, *d1, *d2, *a, *g)?, *decor),
			Spec::Triple { ops, d, a, b, g } => (triple(*ops, *d, *a, *b, *g)?, 0),
			Spec::Switch { kind, lookup, op, r, pre, d, g, decor } => (switch_scene(*kind, *lookup, *op, *r, *pre, *d, *g)?, *decor),
			Spec::Plain { total, style } => {
				let mut s = Scene::default();
				s.pad_style(*total - 1, *style);
				(s, 0)
			},
			Spec::Length { op, total, g, decor } => (length_scene(*op, *total, *g)?, *decor),
			Spec::HighBackward { op, p, d } => (high_backward(*op, *p, *d)?, 0),
			Spec::Chain { k, pattern, tight, g, decor, sw, .. } => (chain(&(0..*k as usize).map(|i| pattern_op(*pattern, i)).collect::<Vec<u8>>(), *tight, *g, *sw)?, *decor),
			Spec::Fan { k, pattern, same_target, decor, loopback } => (fan(&(0..*k as usize).map(|i| pattern_op(*pattern, i)).collect::<Vec<u8>>(), *same_target, *loopback)?, *decor),
			Spec::Mixed { m, pattern, tight, gap, g, decor } => (mixed_chain(*m as usize, *pattern, *tight, *gap, *g)?, *decor),
		};
		// the scene must be a class file: conditional jumps in range, at most 65535 bytes
		let input = scene.settled(Model::In)?;
		if input.total > 65535 {
			return None;
		}
		let intent = scene.intent();
		let (mut class, mut enc) = scene.build(decor);
		if let Spec::Chain { twin: true, .. } = self {
			// the same body once more as a second method of the class: the writer's per-method state starts afresh
			let mut m2 = class.methods[1].clone();
			m2.name = js("m2");
			class.methods.push(m2);
			let scene_forms = enc.forms[FILL..].to_vec();
			enc.forms.extend(scene_forms);
		}
		Some(Case { label: self.label(), class, enc, intent })
	}
}

fn window(center: i32, below: i32, above: i32) -> impl Iterator<Item = i32> + Clone {
	(center - below)..=(center + above)
}

/// All threshold-window specifications of a tier, in a fixed order.
pub fn specs(quick: bool) -> Vec<(&'static str, Vec<Spec>)> {
	let w = if quick { 8 } else { 20 };
	let mut groups = Vec::new();

	// A. one far jump: every jump opcode × direction × distance around the limit
	let mut v = Vec::new();
	let styles: &[u8] = if quick { &[0] } else { &[0, 1, 2] };
	for op in COND_OPS.iter().copied().chain([op::GOTO, op::JSR]) {
		for &style in styles {
			for decor in [0u8, 1] {
				for d in window(32_767, w, w).chain(window(-32_768, w, w)) {
					v.push(Spec::Single { op, d, g: w as u32 + 1, decor, style });
					if is_uncond(op) {
						v.push(Spec::Single { op, d, g: 0, decor, style });
					}
				}
			}
		}
	}
	for d in window(32_767, 2, 2).chain(window(-32_768, 2, 2)) {
		v.push(Spec::Single { op: op::IFEQ, d, g: 3, decor: 2, style: 0 });
	}
	groups.push(("single-far-jump", v));

	// B. cascades of two jumps
	let mut v = Vec::new();
	let cond = [op::IFEQ, op::IF_ACMPNE, op::IFNONNULL, 0xa1];
	let mut n = 0usize;
	let pairs: Vec<(u8, u8)> = vec![(0, 0), (0, op::GOTO), (op::GOTO, 0), (op::GOTO, op::GOTO), (op::JSR, 0), (0, op::JSR)];
	for arr in 0..6u8 {
		for &(p1, p2) in &pairs {
			for a in if quick { vec![0u32, 1] } else { vec![0u32, 1, 2] } {
				let (w1, w2): (Vec<i32>, Vec<i32>) = {
					let far1 = if quick { 1 } else { 3 };
					let near2 = if quick { 1 } else { 3 };
					let s1 = if matches!(arr, 2 | 3) { -1 } else { 1 };
					let s2 = if matches!(arr, 1 | 2) { -1 } else { 1 };
					let c1 = if s1 > 0 { 32_767 } else { -32_768 };
					let c2 = if s2 > 0 { 32_767 } else { -32_768 };
					// distances are ordered "towards far": for backward jumps the far side is more negative
					(
						(-6..=far1).map(|k| c1 + s1 * k).collect(),
						(-near2..=(if quick { 3 } else { 6 })).map(|k| c2 + s2 * k).collect(),
					)
				};
				for &d1 in &w1 {
					for &d2 in &w2 {
						let op1 = if p1 == 0 { cond[n % 4] } else { p1 };
						let op2 = if p2 == 0 { cond[(n / 4) % 4] } else { p2 };
						n += 1;
						v.push(Spec::Pair { arr, op1, op2, d1, d2, a, g: 9, decor: (n % 2) as u8, });
					}
				}
			}
		}
	}
	groups.push(("cascade-of-two", v));

	{
		// three forward jumps crossing each other (quick: the first two opcode triples, no gaps, narrower windows)
		let mut v = Vec::new();
		let triples: Vec<[u8; 3]> = vec![[op::IFEQ, IFNE, op::IFNULL], [op::GOTO, op::IFEQ, op::IFEQ], [op::IFEQ, op::GOTO, op::IFEQ], [op::IFEQ, op::IFEQ, op::GOTO], [op::JSR, op::GOTO, op::IF_ACMPNE]];
		let (gaps, lo) = if quick { (1u32, 5) } else { (2u32, 6) };
		for ops in triples.into_iter().take(if quick { 2 } else { 5 }) {
			for a in 0..gaps {
				for b in 0..gaps {
					for d1 in window(32_767, lo, 1) {
						for d2 in window(32_767, lo, 1) {
							for d3 in window(32_767, 1, 2) {
								v.push(Spec::Triple { ops, d: [d1, d2, d3], a, b, g: 9 });
							}
						}
					}
				}
			}
		}
		groups.push(("cascade-of-three", v));
	}

	// B'. chains: every rewriting pushes exactly one more jump over the limit (k + 1 layouts for k jumps), fans: k jumps
	// that are all too far at once (one is found per attempt), mixed chains of forward and backward jumps
	{
		let mut v = Vec::new();
		let ks: Vec<u32> = if quick { vec![3, 4, 5, 6, 7, 8, 10, 12, 17, 24, 33] } else { (3..=40).chain([48, 64, 96]).collect() };
		for &k in &ks {
			for pattern in 0..5u8 {
				for tight in [true, false] {
					let n = k as usize + pattern as usize;
					v.push(Spec::Chain { k, pattern, tight, g: 1 + (n % 7) as u32, decor: (n % 2) as u8, twin: n % 3 == 0, sw: 0 });
				}
			}
		}
		// the same with a switch inside every span, at every alignment
		for &k in ks.iter().filter(|k| quick.then_some(**k <= 12).unwrap_or(**k <= 40)) {
			for pattern in [0u8, 2, 3] {
				for sw in 1..=8u8 {
					let n = k as usize + pattern as usize + sw as usize;
					v.push(Spec::Chain { k, pattern, tight: n % 2 == 0, g: 4 + (n % 5) as u32, decor: (n % 2) as u8, twin: false, sw });
				}
			}
		}
		groups.push(("chain-of-k", v));
		let mut v = Vec::new();
		let ks: Vec<u32> = if quick { vec![3, 5, 9, 17, 33, 64, 130, 260] } else { (3..=40).chain([64, 100, 200, 260, 400, 700, 1000]).collect() };
		for &k in &ks {
			for pattern in 0..5u8 {
				for same_target in [true, false] {
					if k > 100 && (pattern > 1 || !same_target) {
						continue; // the long fans: all-conditional and all-goto, one target
					}
					v.push(Spec::Fan { k, pattern, same_target, decor: ((k + pattern as u32) % 2) as u8, loopback: (k + pattern as u32) % 3 != 0 });
				}
			}
		}
		groups.push(("fan-of-k", v));
		let mut v = Vec::new();
		let ms: Vec<u32> = if quick { vec![1, 2, 3, 4, 5, 6, 9, 13] } else { (1..=32).collect() };
		for &m in &ms {
			for pattern in [0u8, 2, 3, 1] {
				for tight in [true, false] {
					for gap in if quick { vec![0u32, 1] } else { vec![0u32, 1, 2, 3] } {
						let n = (m + pattern as u32 + gap) as usize;
						v.push(Spec::Mixed { m, pattern, tight, gap, g: 2 + (n % 5) as u32, decor: (n % 2) as u8 });
					}
				}
			}
		}
		groups.push(("mixed-chain", v));
	}

	// C. switches at every alignment next to a jump at the threshold
	let mut v = Vec::new();
	let mut n = 0usize;
	for kind in 0..3u8 {
		for lookup in [false, true] {
			for r in 0..(if quick { 4 } else { 8 }) {
				for op in [op::IFEQ, op::GOTO] {
					let c = if kind == 2 { -32_768 } else { 32_767 };
					for d in window(c, if quick { 2 } else { 5 }, if quick { 2 } else { 5 }) {
						n += 1;
						v.push(Spec::Switch { kind, lookup, op, r, pre: 0, d, g: 7, decor: (n % 3) as u8 % 2, });
					}
				}
			}
		}
	}
	for lookup in [false, true] {
		for r in 0..4 {
			for pre in if quick { vec![-3, -2, -1, 1, 2, 3] } else { (-9..=6).filter(|p| *p != 0).collect::<Vec<i32>>() } {
				for op in [IFLT, op::GOTO] {
					for d in window(32_767, if quick { 3 } else { 6 }, if quick { 3 } else { 6 }) {
						v.push(Spec::Switch { kind: 3, lookup, op, r, pre, d, g: 0, decor: 0 });
					}
				}
			}
		}
	}
	for lookup in [false, true] {
		for r in 0..4 {
			for pre in if quick { vec![-3, -2, -1, 1, 2, 3] } else { (-9..=6).filter(|p| *p != 0).collect::<Vec<i32>>() } {
				for op in [IFLT, op::GOTO] {
					for d in window(-32_768, if quick { 3 } else { 6 }, if quick { 3 } else { 6 }) {
						v.push(Spec::Switch { kind: 4, lookup, op, r, pre, d, g: 0, decor: 0 });
					}
				}
			}
		}
	}
	groups.push(("switch-alignment", v));

	// D. code length at the limit
	let mut v = Vec::new();
	for total in 65_532..=65_535u32 {
		for style in 0..3u8 {
			v.push(Spec::Plain { total, style });
		}
	}
	for op in [op::IFEQ, IF_ICMPGE, op::IFNULL, op::GOTO, op::JSR] {
		for total in 65_528..=65_541u32 {
			for g in [4u32, 7] {
				// decor 1: exception, line-number, local-variable and type-annotation entries that end at the end of the code
				v.push(Spec::Length { op, total, g: if is_uncond(op) && g == 4 { 0 } else { g }, decor: (g == 7) as u8 });
			}
		}
	}
	for op in [op::IFEQ, op::IFNONNULL] {
		for p in (65_515..=65_535u32).filter(|p| quick.then_some(*p >= 65_521).unwrap_or(true)) {
			for d in [-32_769, -32_772] {
				v.push(Spec::HighBackward { op, p, d });
			}
			// in range: nothing to rewrite, however high the opcode sits
			v.push(Spec::HighBackward { op, p, d: -32_768 });
		}
	}
	groups.push(("code-length-limit", v));
	groups
}


// ---------------------------------------------------------------------------------------------
// operand thresholds (small classes)

pub fn operand_cases(quick: bool) -> Vec<(String, SClass, Encoding)> {
	let mut v: Vec<(String, SClass, Encoding)> = Vec::new();
	// ldc of the pool entries around index 255: `fill` distinct one-slot (and optionally two-slot) constants first
	let (lo, hi) = if quick { (236usize, 262usize) } else { (150, 300) };
	for fill in lo..=hi {
		// two_slot 7: one long and, first of all, the string "p/L" — it shares its Utf8 entry with the name of the class, so
		// renaming the class splits the entry and every later constant moves up by one index
		for two_slot in [0usize, 1, 3, 7] {
			for (pi, pool) in [PoolOrder::FirstUse, PoolOrder::Reversed].into_iter().enumerate() {
				let mut c = skeleton("p/L");
				let shared = two_slot == 7;
				let mut first: Vec<SInsn> = (0..two_slot % 6).map(|j| SInsn::Ldc(SConst::Long(5_000_000_000 + j as i64))).collect();
				if shared {
					first.insert(0, SInsn::Ldc(SConst::Str(js("p/L"))));
				}
				first.extend((0..fill).map(|j| SInsn::Ldc(SConst::Int(1_000_000 + j as i32))));
				first.push(RETURN);
				c.methods.push(method_with("fill", "()V", first));
				c.methods.push(method_with("m", "()V", vec![
					SInsn::Ldc(SConst::Int(GROW_CONST)), SInsn::Ldc(SConst::Str(js("s"))), SInsn::Ldc(SConst::Float(1.5f32.to_bits())), SInsn::Ldc(SConst::Class(js("p/T"))),
					SInsn::Ldc(SConst::Double(2.5f64.to_bits())), SInsn::Ldc(SConst::MethodType(js("()V"))), SInsn::Ldc(SConst::Handle(handles()[5].clone())), RETURN,
				]));
				v.push((format!("ldc/fill{fill}/two{two_slot}/pool{pi}"), c, Encoding { pool, ..Default::default() }));
			}
		}
	}
	// locals, iinc, ret around their limits, each alone and in every input form
	let mut one = |name: String, i: SInsn| {
		for form in 0..3u8 {
			let mut c = class_with_method("p/O", vec![i.clone(), RETURN]);
			normalize(&mut c);
			v.push((format!("{name}/form{form}"), c, Encoding { default_form: form, ..Default::default() }));
		}
	};
	for k in [LvKind::I, LvKind::L, LvKind::F, LvKind::D, LvKind::A] {
		for x in [0u16, 3, 4, 5, 254, 255, 256, 257, 65_534, 65_535] {
			one(format!("load/{k:?}/{x}"), SInsn::Load(k, x));
			one(format!("store/{k:?}/{x}"), SInsn::Store(k, x));
		}
	}
	for x in [0u16, 254, 255, 256, 257, 65_535] {
		for d in [i16::MIN, -130, -129, -128, -127, -1, 0, 1, 126, 127, 128, 129, 130, i16::MAX] {
			one(format!("iinc/{x}/{d}"), SInsn::IInc(x, d));
		}
		one(format!("ret/{x}"), SInsn::Ret(x));
	}
	// invokeinterface: argument slots 0, 1, 2, 253, 254 (count byte 1 … 255), with one- and two-slot arguments
	for slots in [252usize, 253, 254] {
		for w in ["J", "D"] {
			for desc in [format!("({}{w})V", "I".repeat(slots - 2)), format!("({w}{})V", "I".repeat(slots - 2)), format!("({}{w})V", "[J".repeat(slots - 2)), format!("({}{})V", "I".repeat(slots % 2), w.repeat(slots / 2))] {
				let c = class_with_method("p/I", vec![SInsn::Invoke(op::INVOKEINTERFACE, mref("p/Itf", "big", &desc), true), RETURN]);
				v.push((format!("invokeinterface/slots{slots}/{}", &desc[..6]), c, Encoding::default()));
			}
		}
	}
	for slots in [0usize, 1, 2, 3, 127, 128, 253, 254] {
		for wide_args in [false, true] {
			let desc = if wide_args { format!("({}{})V", "J".repeat(slots / 2), "I".repeat(slots % 2)) } else { format!("({})V", "I".repeat(slots)) };
			let c = class_with_method("p/I", vec![SInsn::Invoke(op::INVOKEINTERFACE, mref("p/Itf", "big", &desc), true), RETURN]);
			v.push((format!("invokeinterface/slots{slots}/wide{wide_args}"), c, Encoding::default()));
		}
	}
	// MethodParameters with 0, 1, 254, 255 entries
	for n in [0usize, 1, 254, 255] {
		let mut c = class_with_method("p/P", vec![RETURN]);
		c.methods[0].parameters = Some((0..n).map(|i| (if i % 3 == 2 { None } else { Some(js(&format!("p{i}"))) }, [0u16, 0x0010, 0x9010][i % 3])).collect());
		v.push((format!("method-parameters/{n}"), c, Encoding::default()));
	}
	v
}

/// invokeinterface on a descriptor whose arguments need 255 or 256 slots (count byte would be 256 / 257):
/// no class file can state that call, but a reader that does not check the count byte produces the description.
/// Built by assembling `invokespecial <InterfaceMethodref>; nop; nop` and rewriting the five bytes.
pub fn patched_invokeinterface() -> Vec<(String, Vec<u8>)> {
	let mut v = Vec::new();
	// argument lists around the 255-slot limit in every composition that reaches it differently: one-slot arguments
	// only, a two-slot argument straddling the limit (starting at slot 253/254/255, counting `this`), two-slot arguments
	// first, objects and arrays before a double
	let mut descs: Vec<(usize, String)> = Vec::new();
	for slots in [255usize, 256, 257, 300] {
		descs.push((slots, format!("({})V", "I".repeat(slots))));
		for w in ["J", "D"] {
			descs.push((slots, format!("({}{w})V", "I".repeat(slots - 2))));
			descs.push((slots, format!("({w}{})V", "I".repeat(slots - 2))));
			descs.push((slots, format!("({}{w})V", "Lp/T;".repeat(slots - 2))));
			descs.push((slots, format!("({}{w})V", "[J".repeat(slots - 2))));
			descs.push((slots, format!("({}{})V", "I".repeat(slots % 2), w.repeat(slots / 2))));
			descs.push((slots, format!("({}{})V", w.repeat(slots / 2), "I".repeat(slots % 2))));
		}
	}
	for (slots, desc) in descs {
		for count_byte in [0u8, 1, 255] {
			let tag = desc.chars().filter(|c| *c == 'J' || *c == 'D').count();
			let slots_tag = format!("{slots}/{}two-slot/{}", tag, &desc[..desc.len().min(6)]);
			let c = class_with_method("p/I", vec![SInsn::Invoke(op::INVOKESPECIAL, mref("p/Itf", "big", &desc), true), SInsn::Simple(0), SInsn::Simple(0), RETURN]);
			let Ok(mut bytes) = cfmodel::asm::assemble(&c, &Encoding::default()) else { continue };
			let Ok(p) = cfmodel::parse(&bytes) else { continue };
			let Some(at) = p.map.iter().find(|e| e.role == cfmodel::parse::Role::Opcode && bytes[e.offset] == op::INVOKESPECIAL).map(|e| e.offset) else { continue };
			bytes[at] = op::INVOKEINTERFACE;
			bytes[at + 3] = count_byte;
			bytes[at + 4] = 0;
			v.push((format!("invokeinterface-unrepresentable/slots{slots_tag}/count{count_byte}"), bytes));
		}
	}
	v
}

/// Classes whose constant pool is (nearly) full: distinct integers loaded by several methods until
/// `constant_pool_count` is exactly `count`, optionally a long as the very last constant.
/// `shared`: the class also loads the strings "p/Full" and "m0", whose Utf8 entries it shares with its own name and
/// the name of its first method — renaming the class and the method splits them, so the renamed tree needs two
/// entries more than the file it was read from (the only way read-then-write reaches the pool overflow check).
pub fn full_pool_cases(quick: bool) -> Vec<(String, SClass, Encoding)> {
	let _ = quick;
	let mut v = Vec::new();
	let per_method = 21_000usize;
	let mut shapes: Vec<(u16, bool, bool)> = vec![(65_533, false, false), (65_534, false, false), (65_535, false, false), (65_534, true, false), (65_535, true, false)];
	for count in 65_531..=65_535u16 {
		shapes.push((count, false, true));
	}
	shapes.push((65_533, true, true));
	let build = |n: usize, long_last: bool, shared: bool| -> SClass {
		let mut c = skeleton("p/Full");
		let mut k = 0usize;
		let mut mi = 0;
		while k < n {
			let take = per_method.min(n - k);
			let mut insns: Vec<SInsn> = (k..k + take).map(|j| SInsn::Ldc(SConst::Int(j as i32))).collect();
			k += take;
			if mi == 0 && shared {
				insns.push(SInsn::Ldc(SConst::Str(js("p/Full"))));
				insns.push(SInsn::Ldc(SConst::Str(js("m0"))));
			}
			if k == n && long_last {
				insns.push(SInsn::Ldc(SConst::Long(1 << 40)));
			}
			insns.push(RETURN);
			c.methods.push(method_with(&format!("m{mi}"), "()V", insns));
			mi += 1;
		}
		c
	};
	let enc = Encoding { default_form: 2, ..Default::default() };
	for (count, long_last, shared) in shapes {
		let mut n = count as usize - 12 - if long_last { 2 } else { 0 } - if shared { 2 } else { 0 };
		for _ in 0..3 {
			let c = build(n, long_last, shared);
			let got = cfmodel::asm::assemble(&c, &enc).ok().and_then(|b| cfmodel::parse(&b).ok()).map(|p| p.pool_count);
			match got {
				Some(g) if g == count => {
					v.push((format!("full-pool/count{count}/long{long_last}/shared{shared}"), c, enc.clone()));
					break;
				},
				Some(g) => n = (n as i64 + count as i64 - g as i64) as usize,
				None => n -= 1,
			}
		}
	}
	v
}
