//! C03 — Tiny v2 files round-trip and are written canonically.
//!
//! Engine H (this file): explicit-state exploration (stateright BFS) of *insertion histories*. A state is the
//! sequence of elements inserted so far into a real `quill::tree::mappings::Mappings`; an action inserts one more
//! element whose parent is already present. Histories with the same content are deliberately different states:
//! insertion order is the thing explored. On every state the real writer and reader are run and compared with the
//! reference model (mapmodel).
//! Engines in `c03/sweeps.rs` (exhaustive input-shape sweeps sharing one judge with the same oracles):
//!   S1 content sweep — every mapping set of a generated space (mapmodel::gen) × all 6 arrangements of the
//!      siblings of every level, plus two reference-printed files of the same content with other line orders
//!      through the real reader; S2 comment sweep — every comment of ≤ L characters over {backslash, line break,
//!      n, ü, 😀, space} on every level; S3 bulk — sets whose text is several times the 8 KiB buffers.
//! Engines in `c03/lines.rs` (texts no writer produced, through the real reader):
//!   L1 every sequence of ≤ L lines over an 18-line (N=2) and a 10-line (N=3) alphabet, with and without the final
//!      line break; L2 every comment cell of ≤ L characters over {backslash, n, x, ü}; L3 probes outside the
//!      domain (no panic; outcomes recorded); L4 every sequence of ≤ L lines over a 12-line alphabet of odd values
//!      (names that are tag letters of the format, names equal in both namespaces, the empty comment cell).
//! Engines in `c03/extra.rs` (second extension pass, one per gap pattern of tools/PATTERNS.md; contents through the
//! judge of S, texts through the judge of L):
//!   F feature placement — a skeleton of three classes (the middle one with 3 fields, 3 methods × 2 parameters) in
//!      which one feature (present / commented / named / named like the source) is switched per entry by every mask
//!      of 15 bits, every entry with its own comment and names (what leaks to a neighbour is seen);
//!   T long texts — each of 16 text slots (namespaces, names of every level in the first and last namespace, class
//!      names in descriptors, comments of every level) filled with k1 ASCII characters + one character of 1/2/3/4
//!      bytes + k2 ASCII characters: last at every length ≤ 140, first and second before the usual cut lengths; lines
//!      around 8 KiB and 64 KiB; R the same texts in 24 refusing situations of the reader (the message quotes them);
//!   O odd-but-legal values in pairs of siblings (tag letters, `$` at the end, blanks at the ends, backslashes,
//!      `(`, `<init>`, equal target names, names equal to the source name, odd / equal namespace names, parameter
//!      indices around every integer width); W levels with several hundred siblings;
//!   E environment — `read` through scripted `Read`s (c20/io.rs: short serves, BufReaders, one boundary at every byte
//!      offset, periodic boundaries, Interrupted, an I/O error after every prefix), `write` through scripted `Write`s
//!      (partial accepts, Interrupted, exact slice; failing writers recorded only).
//!
//! Clause table (statement / quantifier → where decided, over which space)
//!
//! | clause | oracle (difference key) | space |
//! |---|---|---|
//! | read(write(M)) has the same namespaces | H `check_state` (1), S `judge` "read(write(M)) == M" (`roundtrip:namespaces`) | H all universes (ASCII namespaces, N=2,3,4); S1 namespaces with a non-ASCII name |
//! | same classes / fields / methods / parameters (nothing lost or invented) | same (`roundtrip:<level>:missing/extra`), and the reference reader on the written text (`text:…`) | H, S1 (every subset of a 3-class/3-field/3-method/2-parameter universe), S3; F every subset of the skeleton's entries present; O parameter indices in pairs around 2^8, 2^15, 2^16, 2^31, 2^32, 2^53, 2^63, 2^64; W 300 (thorough 1000) fields / methods / parameters on one level |
//! | same names per namespace | same (`roundtrip:<level>.names`) | H missing-name patterns × N; S1 every subset of non-source names missing (N=2,3), 3–4 patterns (N=4), on classes, members, parameters independently; F every subset of the 15 entries named / named like the source; O odd names in pairs of siblings (equal target names, tag letters, blanks at the ends, backslashes); T names of 1..141 characters with one multi-byte character |
//! | same descriptors | same (member keys carry the descriptor) + `KeyMismatch` of `from_quill` (`roundtrip:key-invariant`) | H shapes b, c, d, u (overloads, object/array descriptors with non-ASCII class names); S1 |
//! | same comments | same (`roundtrip:<level>.comment`) | H comment alphabet (14 texts) in every slot; S2 all texts ≤ L over 9 characters × 5 placements; S1 comments × missing names; F every subset of the 15 entries commented, each with its own text (a comment that leaks to the next sibling or level is seen); T comments of 1..141 characters and around 8 KiB / 64 KiB on every level |
//! | reading never merges, loses or re-parents an entry | L1 `judge_text`: accepted ⇒ structure equals the reference reading (`lines:<level>…`), accepted although a line has no parent (`lines:accepted-orphan`) or an entry is stated twice (`lines:accepted-duplicate`); S `file-order:read:…` (a valid file in another line order is read as the same set); L2 `cell:…` | L1 two alphabets (second field/method/parameter so that a child can be attached to the wrong sibling; unknown sections; short rows), L2 |
//! | the text depends only on the content, never on insertion order | H (3) confluence over *all* histories of a content (`order:text-depends-on-insertion-order`); S1/S3 all 6 arrangements / 6 arrangement families give the same bytes; S `order:text-depends-on-file-order` (content read from a differently ordered file is written as the same bytes) | H: shape d has members whose names and descriptors order in opposite directions and members sharing a descriptor; S1: the same, plus members with equal non-source names, two nameless parameters |
//! | write(read(write(M))) is byte-identical to write(M) | H (4), S `judge` (`fixpoint:…`) | every state / content of H, S1, S2, S3 |
//! | observe_at: write_string | H (0), S `judge` (`write_string:differs-from-write_vec`) | every state / content |
//! | observe_at: read takes any `Read` | E: the set read through every scripted reader equals the set written (`env:read:<reader family>:differs/refused/panic`); an I/O error after a prefix never yields a set that lacks entries (`env:read:failing-reader:error-swallowed`) | E: 4 sets (5 thorough; two with texts of several 8 KiB buffers, one with a line > 8 KiB) × ~50 reader kinds + one boundary at every byte offset (small texts) / on a grid and around every 4 KiB (large texts) |
//! | anchor: write (what write_vec wraps) takes any `Write` | E: the bytes that arrive are those of write_vec (`env:write:<writer family>:text-depends-on-writer/refused/panic`) | E: the same sets × partial accepts, Interrupted, BufWriters, exact slice, one boundary at every byte offset |
//! | no panic while refusing | R `lines:panic@…` (and the structure oracles of L1 on every text) | R 24 situations × 676 offending texts with a 1/2/3/4-byte character at every offset ≤ 140 |
//! | quantifier: 2..4 namespaces | H: every shape × every pattern for N=2,3,4 (quick too); S1 N=2,3,4 | |
//! | quantifier: arbitrary missing names in non-source namespaces | H 4 patterns (+ all 2^7 masks of shape a, thorough); S1 see "names" | |
//! | quantifier: nested/inner class names | H `A$B`, `p/C`, `Ü/É$ñ`; S1 `p/A$B` with targets `q/X$Y`, `𝒳/z` | |
//! | quantifier: unicode names | H shape u (2-, 3-, 4-byte characters in class, field, method names, descriptors and all non-source names); S1, S3 | |
//! | quantifier: multi-line comments | H, S2 (every mix of line breaks, backslashes, `n`, non-ASCII, spaces) | |
//! | quantifier: parameters without source names | H shapes a, c, u; S1 (also nameless in every namespace, index 300) | |
//! | quantifier: any insertion order of the same content | H: all histories (cross-level interleavings too); S1: all permutations per level | |
//!
//! Not decided: whether `write` reports the error of a writer that fails (recorded as an outcome of E: the BufWriter inside
//! `write` is dropped without a flush, so an error at the last flush is lost; the statement says nothing about devices
//! that fail), the top-level `Mappings.javadoc` (the writer emits a line the reader refuses; excluded by the
//! quantifier's list and documented in DESIGN §2), comments with TAB/CR (outside the quantifier; probed only),
//! `read_file` (a wrapper, not in observe_at).

#[path = "c03/sweeps.rs"]
mod sweeps;
#[path = "c03/lines.rs"]
mod lines;
#[path = "c03/extra.rs"]
mod extra;
#[allow(dead_code)]
#[path = "c20/io.rs"]
mod io;

use std::collections::{BTreeMap, HashMap};
use std::sync::atomic::{AtomicU64, Ordering};
use std::sync::Mutex;
use mapmodel::{tiny, MClass, MField, MMethod, MParam, MSet, Row};
use quill::tree::mappings::{
	ClassMapping, ClassNowodeMapping, FieldMapping, FieldNowodeMapping, JavadocMapping, Mappings, MethodMapping,
	MethodNowodeMapping, ParameterKey, ParameterMapping, ParameterNowodeMapping,
};
use quill::tree::NodeInfo;
use quill::tree::names::Names;
use stateright::{Checker, Model, Property};
use vcore::{json, Ctx, Stats, Value};

#[derive(Clone, Debug)]
enum Kind {
	Class { key: String },
	Field { name: String, desc: String },
	Method { name: String, desc: String },
	Param { index: usize, has_src: bool },
	Comment { text: String },
}

#[derive(Clone, Debug)]
struct Elem {
	kind: Kind,
	parent: Option<usize>,
	/// non-source names, one per namespace 1..n; `None` = absent (ignored for comments)
	tail: Row,
}

#[derive(Clone, Debug)]
struct Universe {
	label: String,
	ns: Vec<String>,
	elems: Vec<Elem>,
}

impl Universe {
	fn n(&self) -> usize {
		self.ns.len()
	}

	fn row_of(&self, e: &Elem) -> Row {
		let first = match &e.kind {
			Kind::Class { key } => Some(key.clone()),
			Kind::Field { name, .. } | Kind::Method { name, .. } => Some(name.clone()),
			Kind::Param { index, has_src } => if *has_src { Some(format!("s{index}")) } else { None },
			Kind::Comment { .. } => None,
		};
		let mut r = vec![first];
		r.extend(e.tail.iter().cloned());
		r
	}

	/// the content (reference model) of a set of elements
	fn content(&self, mask: u32) -> MSet {
		let mut set = MSet { ns: self.ns.clone(), doc: None, classes: BTreeMap::new() };
		let present = |i: usize| mask & (1 << i) != 0;
		for (ci, ce) in self.elems.iter().enumerate() {
			let Kind::Class { key } = &ce.kind else { continue };
			if !present(ci) {
				continue;
			}
			let mut c = MClass { names: self.row_of(ce), ..Default::default() };
			for (mi, me) in self.elems.iter().enumerate() {
				if me.parent != Some(ci) || !present(mi) {
					continue;
				}
				match &me.kind {
					Kind::Comment { text } => c.doc = Some(text.clone()),
					Kind::Field { name, desc } => {
						let mut f = MField { names: self.row_of(me), doc: None };
						for (di, de) in self.elems.iter().enumerate() {
							if de.parent == Some(mi) && present(di) {
								if let Kind::Comment { text } = &de.kind {
									f.doc = Some(text.clone());
								}
							}
						}
						c.fields.insert((name.clone(), desc.clone()), f);
					},
					Kind::Method { name, desc } => {
						let mut m = MMethod { names: self.row_of(me), doc: None, params: BTreeMap::new() };
						for (pi, pe) in self.elems.iter().enumerate() {
							if pe.parent != Some(mi) || !present(pi) {
								continue;
							}
							match &pe.kind {
								Kind::Comment { text } => m.doc = Some(text.clone()),
								Kind::Param { index, .. } => {
									let mut p = MParam { names: self.row_of(pe), doc: None };
									for (di, de) in self.elems.iter().enumerate() {
										if de.parent == Some(pi) && present(di) {
											if let Kind::Comment { text } = &de.kind {
												p.doc = Some(text.clone());
											}
										}
									}
									m.params.insert(*index, p);
								},
								_ => {},
							}
						}
						c.methods.insert((name.clone(), desc.clone()), m);
					},
					_ => {},
				}
			}
			set.classes.insert(key.clone(), c);
		}
		set
	}
}

fn names<const N: usize, T>(row: &Row, f: impl Fn(&str) -> anyhow::Result<T>) -> Names<N, T>
where
	T: AsRef<java_string::JavaStr> + std::fmt::Debug,
{
	let v: Vec<Option<T>> = row.iter().map(|c| c.as_deref().map(|s| f(s).unwrap_or_else(|e| vcore::machinery_fail(&format!("generator produced invalid name {s:?}: {e}"))))).collect();
	let arr: [Option<T>; N] = v.try_into().unwrap_or_else(|_| vcore::machinery_fail("row length"));
	Names::try_from(arr).unwrap_or_else(|e| vcore::machinery_fail(&format!("names: {e}")))
}

/// Replays an insertion history into a real quill object, using the public IndexMaps only.
fn build<const N: usize>(u: &Universe, history: &[u8]) -> Mappings<N, ()> {
	let ns: Vec<&str> = u.ns.iter().map(|s| s.as_str()).collect();
	let ns: [&str; N] = ns.try_into().unwrap_or_else(|_| vcore::machinery_fail("ns length"));
	let mut q: Mappings<N, ()> = Mappings::from_namespaces(ns).unwrap_or_else(|e| vcore::machinery_fail(&format!("{e}")));
	for &h in history {
		let e = &u.elems[h as usize];
		let row = u.row_of(e);
		// path from the root to the parent
		let mut path = Vec::new();
		let mut p = e.parent;
		while let Some(i) = p {
			path.push(i);
			p = u.elems[i].parent;
		}
		path.reverse();
		let ckey = |i: usize| match &u.elems[i].kind {
			Kind::Class { key } => mapmodel::cls(key).unwrap(),
			_ => vcore::machinery_fail("path"),
		};
		match &e.kind {
			Kind::Class { key } => {
				let c: ClassNowodeMapping<N> = ClassNowodeMapping::new(ClassMapping { names: names(&row, mapmodel::cls) });
				q.classes.insert(mapmodel::cls(key).unwrap(), c);
			},
			Kind::Field { name, desc } => {
				let c = q.classes.get_mut(&ckey(path[0])).unwrap();
				let f: FieldNowodeMapping<N> = FieldNowodeMapping::new(FieldMapping { desc: mapmodel::fdesc(desc).unwrap(), names: names(&row, mapmodel::fname) });
				c.fields.insert(duke::tree::field::FieldNameAndDesc { name: mapmodel::fname(name).unwrap(), desc: mapmodel::fdesc(desc).unwrap() }, f);
			},
			Kind::Method { name, desc } => {
				let c = q.classes.get_mut(&ckey(path[0])).unwrap();
				let m: MethodNowodeMapping<N> = MethodNowodeMapping::new(MethodMapping { desc: mapmodel::mdesc(desc).unwrap(), names: names(&row, mapmodel::mname) });
				c.methods.insert(duke::tree::method::MethodNameAndDesc { name: mapmodel::mname(name).unwrap(), desc: mapmodel::mdesc(desc).unwrap() }, m);
			},
			Kind::Param { index, .. } => {
				let c = q.classes.get_mut(&ckey(path[0])).unwrap();
				let m = method_of(u, c, path[1]);
				let p: ParameterNowodeMapping<N> = ParameterNowodeMapping::new(ParameterMapping { index: *index, names: names(&row, mapmodel::pname) });
				m.parameters.insert(ParameterKey { index: *index }, p);
			},
			Kind::Comment { text } => {
				let doc = Some(JavadocMapping(text.clone()));
				let c = q.classes.get_mut(&ckey(path[0])).unwrap();
				match path.len() {
					1 => c.javadoc = doc,
					2 => match &u.elems[path[1]].kind {
						Kind::Field { name, desc } => {
							c.fields.get_mut(&duke::tree::field::FieldNameAndDesc { name: mapmodel::fname(name).unwrap(), desc: mapmodel::fdesc(desc).unwrap() }).unwrap().javadoc = doc;
						},
						Kind::Method { .. } => method_of(u, c, path[1]).javadoc = doc,
						_ => vcore::machinery_fail("comment parent"),
					},
					3 => {
						let Kind::Param { index, .. } = &u.elems[path[2]].kind else { vcore::machinery_fail("comment parent") };
						method_of(u, c, path[1]).parameters.get_mut(&ParameterKey { index: *index }).unwrap().javadoc = doc;
					},
					_ => vcore::machinery_fail("comment depth"),
				}
			},
		}
	}
	q
}

fn method_of<'a, const N: usize>(u: &Universe, c: &'a mut ClassNowodeMapping<N>, mi: usize) -> &'a mut MethodNowodeMapping<N> {
	let Kind::Method { name, desc } = &u.elems[mi].kind else { vcore::machinery_fail("not a method") };
	c.methods.get_mut(&duke::tree::method::MethodNameAndDesc { name: mapmodel::mname(name).unwrap(), desc: mapmodel::mdesc(desc).unwrap() }).unwrap()
}

/// One observation of the real code on one history.
struct Obs {
	text: Result<Vec<u8>, String>,
	/// the same object through `write_string`
	string: Result<String, String>,
	reread: Option<Result<MSet, String>>,
	rewritten: Option<Result<Vec<u8>, String>>,
}

fn observe_n<const N: usize>(u: &Universe, history: &[u8]) -> Obs {
	let q = build::<N>(u, history);
	let text = quill::tiny_v2::write_vec(&q).map_err(|e| format!("{e:#}"));
	let string = quill::tiny_v2::write_string(&q).map_err(|e| format!("{e:#}"));
	let mut reread = None;
	let mut rewritten = None;
	if let Ok(t) = &text {
		let r: anyhow::Result<Mappings<N, ()>> = quill::tiny_v2::read(&mut &t[..]);
		match r {
			Ok(back) => {
				rewritten = Some(quill::tiny_v2::write_vec(&back).map_err(|e| format!("{e:#}")));
				reread = Some(mapmodel::from_quill(&back).map_err(|e| format!("key invariant broken after read: {}", e.0)));
			},
			Err(e) => reread = Some(Err(format!("{e:#}"))),
		}
	}
	Obs { text, string, reread, rewritten }
}

fn observe(u: &Universe, history: &[u8]) -> Obs {
	match u.n() {
		2 => observe_n::<2>(u, history),
		3 => observe_n::<3>(u, history),
		4 => observe_n::<4>(u, history),
		n => vcore::machinery_fail(&format!("unsupported namespace count {n}")),
	}
}

struct HistModel {
	u: Universe,
	ctx: &'static Ctx,
	evals: &'static AtomicU64,
	/// content mask → hash of the text its first-seen history produced (+ that history)
	canon: &'static Mutex<HashMap<u32, (u64, Vec<u8>)>>,
	multi_history_contents: &'static Mutex<HashMap<u32, u64>>,
	/// states whose text lists the members of a class in another order than that of their source names
	reordered: &'static AtomicU64,
}

/// true if the `f` lines or the `m` lines of some class are not in ascending order of (source name, descriptor),
/// i.e. the writer's order is observably not the key order of the maps
fn member_lines_not_in_key_order(text: &[u8]) -> bool {
	let Ok(text) = std::str::from_utf8(text) else { return false };
	let mut last: [Option<(&str, &str)>; 2] = [None, None];
	for l in text.lines() {
		if l.starts_with("c\t") {
			last = [None, None];
		}
		let slot = if l.starts_with("\tf\t") { 0 } else if l.starts_with("\tm\t") { 1 } else { continue };
		let cells: Vec<&str> = l[1..].split('\t').collect();
		if cells.len() < 3 {
			continue;
		}
		let key = (cells[2], cells[1]);
		if last[slot].is_some_and(|prev| prev > key) {
			return true;
		}
		last[slot] = Some(key);
	}
	false
}

fn mask_of(h: &[u8]) -> u32 {
	h.iter().fold(0, |m, e| m | (1 << e))
}

impl HistModel {
	fn replay_text(&self, history: &[u8]) -> String {
		let names: Vec<String> = history.iter().map(|&h| format!("{}:{:?}", h, self.u.elems[h as usize].kind)).collect();
		format!(
			"universe={}\nnamespaces={:?}\nhistory={:?}\nelements inserted, in order:\n  {}\nexpected content:\n{}",
			self.u.label, self.u.ns, history, names.join("\n  "), tiny::print_with(&self.u.content(mask_of(history)), &tiny::escape)
		)
	}

	fn check_state(&self, history: &[u8]) {
		self.evals.fetch_add(1, Ordering::Relaxed);
		let mask = mask_of(history);
		let expected = self.u.content(mask);
		let has_backslash = comments_of(&expected).iter().any(|c| c.contains('\\'));
		let obs = match vcore::guard(|| observe(&self.u, history)) {
			Ok(o) => o,
			Err(p) => {
				self.ctx.diff(&format!("panic@{}", p.file()), &format!("panic at {}: {}", p.site, p.msg), || self.replay_text(history));
				return;
			},
		};
		let text = match &obs.text {
			Ok(t) => t,
			Err(e) => {
				self.ctx.diff("write:refused", &format!("writing a valid mapping set failed: {e}"), || self.replay_text(history));
				return;
			},
		};
		// (0) write_string is write_vec as a String
		match &obs.string {
			Ok(s) if s.as_bytes() == &text[..] => {},
			Ok(s) => self.ctx.diff("write_string:differs-from-write_vec", "write_string and write_vec give different texts for the same object", || format!("{}\nwrite_vec:\n{}\nwrite_string:\n{s}", self.replay_text(history), String::from_utf8_lossy(text))),
			Err(e) => self.ctx.diff("write_string:refused", &format!("write_string failed where write_vec succeeded: {e}"), || self.replay_text(history)),
		}
		if member_lines_not_in_key_order(text) {
			self.reordered.fetch_add(1, Ordering::Relaxed);
		}
		// (1) read(write(M)) == M
		match &obs.reread {
			Some(Ok(back)) => {
				if back != &expected {
					let (k, what) = mapmodel::first_difference(&expected, back).unwrap_or(("other".into(), "differ".into()));
					let key = if has_backslash && k.ends_with("comment") { "roundtrip:comment-backslash".to_owned() } else { format!("roundtrip:{k}") };
					self.ctx.diff(&key, &format!("read(write(M)) != M: {what}"), || format!("{}\nwritten text:\n{}", self.replay_text(history), String::from_utf8_lossy(text)));
				}
			},
			Some(Err(e)) => self.ctx.diff("roundtrip:read-refused", &format!("reading back the written text failed: {e}"), || format!("{}\nwritten text:\n{}", self.replay_text(history), String::from_utf8_lossy(text))),
			None => {},
		}
		// (2) the text is Tiny v2 for exactly this content, by the independent reference reader
		match std::str::from_utf8(text).map_err(|e| e.to_string()).and_then(|t| tiny::parse(t).map_err(|e| format!("{e:?}"))) {
			Ok(seen) => {
				if seen != expected {
					let (k, what) = mapmodel::first_difference(&expected, &seen).unwrap_or(("other".into(), "differ".into()));
					let key = if has_backslash && k.ends_with("comment") { "text:comment-backslash".to_owned() } else { format!("text:{k}") };
					self.ctx.diff(&key, &format!("written text does not state the content: {what}"), || format!("{}\nwritten text:\n{}", self.replay_text(history), String::from_utf8_lossy(text)));
				}
			},
			Err(e) => self.ctx.diff("text:not-tiny-v2", &format!("reference reader cannot read the written text: {e}"), || format!("{}\nwritten text:\n{}", self.replay_text(history), String::from_utf8_lossy(text))),
		}
		// (3) confluence: every history of the same content writes the same bytes
		let h = vcore::hash64(&text[..]);
		let first = {
			let mut canon = self.canon.lock().unwrap();
			match canon.get(&mask) {
				Some((fh, fhist)) => Some((*fh, fhist.clone())),
				None => {
					canon.insert(mask, (h, history.to_vec()));
					None
				},
			}
		};
		if let Some((fh, fhist)) = first {
			*self.multi_history_contents.lock().unwrap().entry(mask).or_insert(1) += 1;
			if fh != h {
				self.ctx.diff("order:text-depends-on-insertion-order", "two insertion orders of the same content are written differently", || {
					let other = observe(&self.u, &fhist);
					format!("{}\nwritten text:\n{}\nother history={:?}\nits text:\n{}", self.replay_text(history), String::from_utf8_lossy(text), fhist, String::from_utf8_lossy(other.text.as_deref().unwrap_or(b"<error>")))
				});
			}
		}
		// (4) fixed point
		match &obs.rewritten {
			Some(Ok(t2)) => {
				if t2 != text {
					let key = if has_backslash { "fixpoint:comment-backslash" } else { "fixpoint:write-read-write-differs" };
					self.ctx.diff(key, "write(read(write(M))) is not byte-identical to write(M)", || format!("{}\nfirst text:\n{}\nsecond text:\n{}", self.replay_text(history), String::from_utf8_lossy(text), String::from_utf8_lossy(t2)));
				}
			},
			Some(Err(e)) => self.ctx.diff("fixpoint:rewrite-refused", &format!("writing the re-read set failed: {e}"), || self.replay_text(history)),
			None => {},
		}
	}
}

fn comments_of(m: &MSet) -> Vec<&str> {
	let mut v = Vec::new();
	for c in m.classes.values() {
		v.extend(c.doc.as_deref());
		for f in c.fields.values() {
			v.extend(f.doc.as_deref());
		}
		for me in c.methods.values() {
			v.extend(me.doc.as_deref());
			for p in me.params.values() {
				v.extend(p.doc.as_deref());
			}
		}
	}
	v
}

impl Model for HistModel {
	type State = Vec<u8>;
	type Action = u8;

	fn init_states(&self) -> Vec<Vec<u8>> {
		vec![Vec::new()]
	}

	fn actions(&self, state: &Vec<u8>, actions: &mut Vec<u8>) {
		for (i, e) in self.u.elems.iter().enumerate() {
			let i8 = i as u8;
			if state.contains(&i8) {
				continue;
			}
			if e.parent.is_none_or(|p| state.contains(&(p as u8))) {
				actions.push(i8);
			}
		}
	}

	fn next_state(&self, last: &Vec<u8>, action: u8) -> Option<Vec<u8>> {
		let mut s = last.clone();
		s.push(action);
		Some(s)
	}

	fn properties(&self) -> Vec<Property<Self>> {
		// The oracle runs as a side effect of evaluating the invariant on every state and reports
		// every difference through the Ctx (so that all distinct differences are collected, not only
		// the first); the invariant itself therefore never stops the exploration.
		vec![Property::always("oracles evaluated", |m: &HistModel, s: &Vec<u8>| {
			m.check_state(s);
			true
		})]
	}
}

fn universe(label: &str, ns: &[&str], classes: &[(&str, &[(&str, &str)], &[(&str, &str, &[(usize, bool)])])], absent: &dyn Fn(usize, usize) -> bool, comment: &dyn Fn(usize) -> Option<String>) -> Universe {
	// classes: (key, fields (name, desc), methods (name, desc, params (index, has_src)))
	let n = ns.len();
	let mut elems: Vec<Elem> = Vec::new();
	let mk_tail = |idx: usize, base: &str| -> Row { (1..n).map(|j| if absent(idx, j) { None } else { Some(format!("{base}{j}")) }).collect() };
	let mut comment_slots = 0usize;
	let mut add_comment = |elems: &mut Vec<Elem>, parent: usize| {
		if let Some(text) = comment(comment_slots) {
			elems.push(Elem { kind: Kind::Comment { text }, parent: Some(parent), tail: vec![] });
		}
		comment_slots += 1;
	};
	for (key, fields, methods) in classes {
		let ci = elems.len();
		let base = key.replace('/', "_");
		// nested targets look nested too; a package moves
		let tail: Row = (1..n).map(|j| if absent(ci, j) { None } else { Some(if key.contains('/') { format!("q{j}/{}", base) } else { format!("{base}{j}") }) }).collect();
		elems.push(Elem { kind: Kind::Class { key: key.to_string() }, parent: None, tail });
		add_comment(&mut elems, ci);
		for (name, desc) in fields.iter() {
			let fi = elems.len();
			elems.push(Elem { kind: Kind::Field { name: name.to_string(), desc: desc.to_string() }, parent: Some(ci), tail: mk_tail(fi, name) });
			add_comment(&mut elems, fi);
		}
		for (name, desc, params) in methods.iter() {
			let mi = elems.len();
			let base = if name.starts_with('<') { "init".to_owned() } else { name.to_string() };
			elems.push(Elem { kind: Kind::Method { name: name.to_string(), desc: desc.to_string() }, parent: Some(ci), tail: mk_tail(mi, &base) });
			add_comment(&mut elems, mi);
			for (index, has_src) in params.iter() {
				let pi = elems.len();
				elems.push(Elem { kind: Kind::Param { index: *index, has_src: *has_src }, parent: Some(mi), tail: mk_tail(pi, &format!("p{index}_")) });
				add_comment(&mut elems, pi);
			}
		}
	}
	if elems.len() > 30 {
		vcore::machinery_fail("universe too large for the mask");
	}
	Universe { label: label.to_owned(), ns: ns.iter().map(|s| s.to_string()).collect(), elems }
}

const COMMENTS: &[&str] = &["x", "a b", "l1\nl2", "l1\n\nl3", "ü☃ É", "", "back\\nslash", "tail\\", "é\\ü\n😀", " x ", "tab\there", "cr\r", "a\r\nb\0", "\\t\\r\\0 literal"];

type ClassSpec<'a> = (&'a str, &'a [(&'a str, &'a str)], &'a [(&'a str, &'a str, &'a [(usize, bool)])]);

fn universes(tier: vcore::Tier) -> Vec<Universe> {
	let mut out = Vec::new();
	// shapes: which classes/members exist
	let shape_a: Vec<ClassSpec> = vec![
		("A$B", &[("f", "I")], &[("m", "(I)V", &[(0, false)])]),
		("A", &[], &[]),
	];
	let shape_b: Vec<ClassSpec> = vec![
		("p/C", &[("f", "LA;"), ("f", "I")], &[]),
		("É", &[], &[("<init>", "()V", &[])]),
	];
	let shape_c: Vec<ClassSpec> = vec![
		("x", &[], &[("m", "(II)V", &[(1, true), (0, false)]), ("m", "()V", &[])]),
	];
	let shape_t: Vec<ClassSpec> = vec![
		("A$B", &[("f", "I")], &[("m", "(I)V", &[(0, false)])]),
		("A", &[("É", "[LA;")], &[]),
		("p/C", &[], &[]),
	];
	// names and descriptors of the members order in opposite directions (a/J, b/I), two members share a
	// descriptor (b/I, c/I): the writer's order (descriptor, names) is not the key order (name, descriptor)
	let shape_d: Vec<ClassSpec> = vec![
		("x", &[("a", "J"), ("b", "I"), ("c", "I")], &[("a", "(J)V", &[]), ("b", "(I)V", &[]), ("c", "(I)V", &[])]),
	];
	// multi-byte characters (2, 3 and 4 bytes) in every kind of name and, through the tails, in every namespace;
	// two parameters without source names, one with an index beyond two bytes
	let shape_u: Vec<ClassSpec> = vec![
		("Ü/É$ñ", &[("ü", "LÜ/É$ñ;")], &[("λ", "(L𝒳;I)V", &[(65536, false), (0, false)])]),
		("𝒳", &[("☃", "I")], &[]),
	];
	let ns_sets: Vec<Vec<&str>> = vec![vec!["official", "named"], vec!["a", "b", "c"], vec!["a", "b", "c", "d"]];
	let no_comment = |_: usize| None;
	// missing-name patterns over (element index, namespace index)
	let patterns: Vec<(&str, Box<dyn Fn(usize, usize) -> bool>)> = vec![
		("all-named", Box::new(|_, _| false)),
		("none-named", Box::new(|_, _| true)),
		("alternating", Box::new(|e, j| (e + j) % 2 == 0)),
		("last-ns-only", Box::new(|_, j| j == 1)),
	];
	for ns in &ns_sets {
		for (pname, pat) in &patterns {
			for (sname, shape) in [("a", &shape_a), ("b", &shape_b), ("c", &shape_c), ("d", &shape_d), ("u", &shape_u)] {
				out.push(universe(&format!("shape-{sname}/N={}/{pname}", ns.len()), ns, shape, pat.as_ref(), &no_comment));
			}
		}
	}
	// comments: each comment text in each slot position of shape a (2 namespaces), one slot at a time and all slots at once
	for (k, text) in COMMENTS.iter().enumerate() {
		out.push(universe(&format!("shape-a/N=2/comments-all={k}"), &["o", "n"], &shape_a, &|_, _| false, &|_| Some(text.to_string())));
		out.push(universe(&format!("shape-c/N=3/comments-rot={k}"), &["a", "b", "c"], &shape_c, &|e, j| (e + j) % 3 == 0, &|slot| if slot % 2 == 0 { Some(COMMENTS[(k + slot) % COMMENTS.len()].to_string()) } else { None }));
	}
	if tier == vcore::Tier::Thorough {
		for ns in &ns_sets {
			for (pname, pat) in &patterns {
				out.push(universe(&format!("shape-t/N={}/{pname}", ns.len()), ns, &shape_t, pat.as_ref(), &no_comment));
			}
		}
		// exhaustive missing-name subsets for shape a with two namespaces (one bit per element)
		let elems_a = universe("probe", &["o", "n"], &shape_a, &|_, _| false, &no_comment).elems.len();
		for bits in 0u32..(1 << elems_a) {
			out.push(universe(&format!("shape-a/N=2/missing-mask={bits:b}"), &["o", "n"], &shape_a, &move |e, _| bits & (1 << e) != 0, &no_comment));
		}
		for (k, text) in COMMENTS.iter().enumerate() {
			out.push(universe(&format!("shape-b/N=2/comments-all={k}"), &["o", "n"], &shape_b, &|_, _| false, &|_| Some(text.to_string())));
		}
	}
	out
}

fn main() {
	let ctx: &'static Ctx = Box::leak(Box::new(Ctx::new("C03", "model_checking")));
	if let Some(path) = ctx.replay.clone() {
		replay(ctx, &path);
	}
	let unis = universes(ctx.tier);
	let evals: &'static AtomicU64 = Box::leak(Box::new(AtomicU64::new(0)));
	let reordered: &'static AtomicU64 = Box::leak(Box::new(AtomicU64::new(0)));
	let mut states = 0u64;
	let mut transitions = 0u64;
	let mut max_depth = 0usize;
	let mut contents = 0u64;
	let mut multi = 0u64;
	let mut distinct_texts = vcore::Distinct::new();
	let mut samples: Vec<Value> = Vec::new();
	let n_universes = unis.len();
	let t0 = ctx.elapsed_s();
	for u in unis {
		let canon: &'static Mutex<HashMap<u32, (u64, Vec<u8>)>> = Box::leak(Box::new(Mutex::new(HashMap::new())));
		let multi_map: &'static Mutex<HashMap<u32, u64>> = Box::leak(Box::new(Mutex::new(HashMap::new())));
		let depth = u.elems.len();
		if samples.len() < 4 {
			let full: Vec<u8> = {
				// one complete history: parents first, reverse sibling order
				let mut h: Vec<u8> = Vec::new();
				while h.len() < depth {
					for i in (0..depth).rev() {
						if !h.contains(&(i as u8)) && u.elems[i].parent.is_none_or(|p| h.contains(&(p as u8))) {
							h.push(i as u8);
							break;
						}
					}
				}
				h
			};
			let obs = observe(&u, &full);
			samples.push(json!({"kind": "insertion-history", "universe": u.label, "history": full, "written": String::from_utf8_lossy(obs.text.as_deref().unwrap_or(b"")).to_string()}));
		}
		let model = HistModel { u, ctx, evals, canon, multi_history_contents: multi_map, reordered };
		let checker = model.checker().threads(rayon::current_num_threads().max(1)).spawn_bfs().join();
		if !checker.is_done() {
			vcore::machinery_fail("stateright did not finish the state space");
		}
		states += checker.unique_state_count() as u64;
		transitions += checker.state_count() as u64 - 1;
		max_depth = max_depth.max(checker.max_depth());
		let canon = canon.lock().unwrap();
		contents += canon.len() as u64;
		for (h, _) in canon.values() {
			distinct_texts.add_hash(*h);
		}
		multi += multi_map.lock().unwrap().len() as u64;
	}
	let t_hist = ctx.elapsed_s();
	let evaluated = evals.load(Ordering::Relaxed);

	// exhaustive sweeps (c03/sweeps.rs, c03/lines.rs)
	let spaces = sweeps::content_spaces(ctx.tier);
	let (content, space_sizes) = sweeps::content_sweep(ctx, &spaces);
	let t_content = ctx.elapsed_s();
	let comment_len = ctx.tier.pick(4, 6);
	let (comment, comment_mixed, comment_edge) = sweeps::comment_sweep(ctx, comment_len);
	let t_comment = ctx.elapsed_s();
	let bulk_sizes: Vec<(usize, usize)> = ctx.tier.pick(vec![(300, 2), (300, 3)], vec![(300, 2), (300, 3), (1500, 2), (1500, 4)]);
	let bulk = sweeps::bulk(ctx, &bulk_sizes);
	let t_bulk = ctx.elapsed_s();
	let line_len = ctx.tier.pick(4, 5);
	let line_len_3 = ctx.tier.pick(5, 6);
	let lines2 = lines::run_lines(ctx, &lines::LINES_2, line_len);
	let lines3 = lines::run_lines(ctx, &lines::LINES_3, line_len_3);
	let line_len_odd = ctx.tier.pick(4, 5);
	let lines_odd = lines::run_lines(ctx, &lines::LINES_ODD, line_len_odd);
	let odd_lines_accepted = lines_odd.get("both-accept");
	let line_evals = lines2.evaluations + lines3.evaluations + lines_odd.evaluations;
	let lines = lines2.merge(lines3).merge(lines_odd);
	let cell_len = ctx.tier.pick(6, 8);
	let cells = lines::run_cells(ctx, cell_len);
	let probes = lines::run_probes(ctx);
	let t_lines = ctx.elapsed_s();

	// spaces of the second extension pass (c03/extra.rs)
	let feature_ns: Vec<usize> = ctx.tier.pick(vec![3], vec![2, 3, 4]);
	let (feature, feature_counts) = extra::feature_sweep(ctx, &feature_ns);
	let t_feature = ctx.elapsed_s();
	let (text, text_multibyte, text_big) = extra::text_sweep(ctx, ctx.tier);
	let refusals = extra::refusal_sweep(ctx);
	let t_text = ctx.elapsed_s();
	let odd = extra::odd_sweep(ctx);
	let wide_sizes: Vec<(usize, usize)> = ctx.tier.pick(vec![(300, 2)], vec![(300, 2), (300, 3), (1000, 4)]);
	let wide = extra::wide(ctx, &wide_sizes);
	let t_odd = ctx.elapsed_s();
	let (env, env_tot) = extra::env_sweep(ctx, ctx.tier);
	let t_env = ctx.elapsed_s();

	ctx.floor("universes explored", 20, n_universes as u64);
	ctx.floor("contents reached through more than one insertion order", 100, multi);
	ctx.floor("every state evaluated by the oracle", states, evaluated);
	ctx.floor("history states whose text lists members in another order than their source names", 100, reordered.load(Ordering::Relaxed));
	ctx.floor("line sequences accepted by both readers", 50, lines.get("both-accept"));
	ctx.floor("line sequences refused", 50, lines.get("both-refuse"));
	ctx.floor("line sequences refused for a line without parent", 50, lines.get("both-refuse:orphan"));
	ctx.floor("line sequences refused for an entry stated twice", 50, lines.get("both-refuse:duplicate"));
	ctx.floor("line sequences accepted with an entry below the second method of a class", 10, lines.get("accepted-with-entry-below-second-method"));
	ctx.floor("line sequences accepted while skipping an unknown section", 10, lines.get("both-accept-skipping-unknown-section"));
	ctx.floor("line sequences read without a final line break", 1000, lines.get("texts-without-final-newline"));
	ctx.floor("content sweep: contents judged", 100_000, content.cases);
	ctx.floor("content sweep: builds in an insertion order other than key order", 100_000, content.reordered_builds);
	ctx.floor("content sweep: contents whose text lists members in another order than their source names", 10_000, content.texts_not_in_key_order);
	ctx.floor("content sweep: round trips judged equal", content.cases, content.stats.get("roundtrip-ok"));
	ctx.floor("content sweep: reference-printed files read by the real reader", content.cases, content.stats.get("reference-file-read"));
	ctx.floor("comment sweep: comments with a non-ASCII character and an escape", 100, comment_mixed);
	ctx.floor("comment sweep: comments beginning or ending with a space or ending with a backslash", 100, comment_edge);
	ctx.floor("comment sweep: round trips judged equal", comment.cases, comment.stats.get("roundtrip-ok"));
	ctx.floor("bulk: largest text in bytes (the writer's and reader's buffers are 8 KiB)", 32 * 1024, bulk.max_text_len as u64);
	ctx.floor("bulk: round trips judged equal", bulk.cases, bulk.stats.get("roundtrip-ok"));
	ctx.floor("comment cells with a backslash that starts no escape, read", 100, cells.get("cell:lone-backslash-read"));
	ctx.floor("comment cells well escaped, read", 100, cells.get("cell:well-escaped-read"));
	ctx.floor("probes outside the domain", 10, probes.evaluations);
	ctx.floor("line sequences over the odd-value alphabet accepted by both readers", 100, odd_lines_accepted);
	let masks = (1u64 << extra::FEATURE_BITS) * feature_ns.len() as u64;
	ctx.floor("feature sweep: masks of present entries judged (children only below present parents)", 1000 * feature_ns.len() as u64, feature_counts[0]);
	ctx.floor("feature sweep: every mask of commented entries judged", masks, feature_counts[1]);
	ctx.floor("feature sweep: every mask of named entries judged", masks, feature_counts[2]);
	ctx.floor("feature sweep: every mask of entries named like their source judged", masks, feature_counts[3]);
	ctx.floor("feature sweep: round trips judged equal", feature.cases, feature.stats.get("roundtrip-ok"));
	ctx.floor("text sweep: contents judged", 10_000, text.cases);
	ctx.floor("text sweep: contents with a multi-byte character in the slot", 7_500, text_multibyte);
	ctx.floor("text sweep: contents with a line around 8 KiB or 64 KiB", 300, text_big);
	ctx.floor("text sweep: longest text in bytes", 65_536, text.max_text_len as u64);
	ctx.floor("text sweep: round trips judged equal", text.cases, text.stats.get("roundtrip-ok"));
	for (i, sit) in extra::REFUSALS.iter().enumerate() {
		// 18: /repo does not validate field descriptors (the row is accepted); 23: unknown sections may be skipped or refused
		if i != 18 && i != 23 {
			ctx.floor(&format!("refusal sweep: texts refused: {sit}"), 600, refusals.get(&format!("refused: {sit}")));
		}
	}
	ctx.floor("refusal sweep: texts refused with a multi-byte character in the offending text", 10_000, refusals.get("refused with a multi-byte character in the offending text"));
	ctx.floor("odd values: contents judged", 3_000, odd.cases);
	ctx.floor("odd values: round trips judged equal", odd.cases, odd.stats.get("roundtrip-ok"));
	ctx.floor("wide levels: round trips judged equal", wide.cases, wide.stats.get("roundtrip-ok"));
	ctx.floor("environment: reads through scripted readers", 1_000, env.get("env: reads"));
	ctx.floor("environment: every read gives the set", env.get("env: reads"), env.get("env: read gives the set"));
	ctx.floor("environment: requests served short", 10_000, env_tot.short_serves);
	ctx.floor("environment: requests and offers answered with Interrupted", 1_000, env_tot.interrupts);
	ctx.floor("environment: reads with the one boundary inside a multi-byte character", 50, env_tot.split_inside_character);
	ctx.floor("environment: failing readers whose error was reported", 500, env.get("env: failing reader: error reported"));
	ctx.floor("environment: writes through scripted writers", 500, env.get("env: writes"));
	ctx.floor("environment: every write delivers the bytes of write_vec", env.get("env: writes"), env.get("env: write delivers the bytes of write_vec"));
	ctx.floor("environment: offers accepted in part", 1_000, env_tot.short_accepts);
	ctx.floor("environment: texts larger than 8 KiB", 2, env.get("env: texts larger than 8 KiB"));

	samples.extend(lines.samples.iter().cloned());
	samples.extend(content.stats.samples.iter().cloned());
	samples.extend(comment.stats.samples.iter().cloned());
	for s in [&feature.stats, &text.stats, &odd.stats, &env] {
		samples.extend(s.samples.iter().take(2).cloned());
	}
	distinct_texts.merge(content.stats.distinct.clone());
	distinct_texts.merge(comment.stats.distinct.clone());
	distinct_texts.merge(bulk.stats.distinct.clone());
	for s in [&feature.stats, &text.stats, &odd.stats, &wide.stats] {
		distinct_texts.merge(s.distinct.clone());
	}
	let sweep_evals = content.stats.evaluations + comment.stats.evaluations + bulk.stats.evaluations
		+ feature.stats.evaluations + text.stats.evaluations + odd.stats.evaluations + wide.stats.evaluations + refusals.evaluations
		+ env.get("env: reads") + env.get("env: reads from a failing reader") + env.get("env: writes") + env.get("env: writes into a writer that fails");
	let coverage = json!({
		"states": states,
		"transitions": transitions,
		"traces_validated_against_impl": evaluated,
		"max_depth": max_depth,
		"evaluations": evaluated + sweep_evals + line_evals + cells.evaluations + probes.evaluations,
		"distinct_nontrivial": distinct_texts.len(),
		"rule": "a state is one insertion history (sequence of class/field/method/parameter/comment insertions, parent before child) replayed into a real quill Mappings; every state runs write_vec, write_string, read, write_vec on the real code and the reference reader on the text. Sweeps: every content of a generated space x every permutation of the siblings of every level (6 builds, 2 reference-printed files through the real reader per content); every comment text of <= L characters on every level; large sets; every sequence of <= L lines over two line alphabets, with and without the final line break, through the real reader; every comment cell of <= L characters. distinct_nontrivial = distinct written texts over all contents of all engines",
		"exhaustive": true,
		"samples": samples,
		"bounds": {
			"universes": n_universes,
			"namespaces": [2, 3, 4],
			"comment_alphabet": COMMENTS,
			"content_spaces": space_sizes.iter().map(|(l, n)| json!({"space": l, "contents": n, "insertion_arrangements_per_content": sweeps::CONTENT_ORDERS.len(), "reference_files_per_content": sweeps::CONTENT_REF_ORDERS.len()})).collect::<Vec<_>>(),
			"comment_sweep": {"characters": sweeps::COMMENT_CHARS.iter().map(|c| c.to_string()).collect::<Vec<_>>(), "max_len": comment_len, "placements": ["class", "field", "method", "parameter", "all four"]},
			"bulk_sets": bulk_sizes.iter().map(|(k, n)| json!({"classes": k, "namespaces": n})).collect::<Vec<_>>(),
			"line_alphabets": [
				{"namespaces": 2, "lines": lines::LINES_2.lines, "max_len": line_len},
				{"namespaces": 3, "lines": lines::LINES_3.lines, "max_len": line_len_3},
			],
			"line_alphabet": lines::LINES_2.lines,
			"line_sequence_max_len": line_len,
			"comment_cells": {"characters": lines::CELL_CHARS.iter().map(|c| c.to_string()).collect::<Vec<_>>(), "max_len": cell_len},
			"odd_line_alphabet": {"namespaces": 2, "lines": lines::LINES_ODD.lines, "max_len": line_len_odd},
			"feature_sweep": {"features": extra::FEATURES, "mask_bits": extra::FEATURE_BITS, "namespaces": feature_ns, "insertion_arrangements_per_content": 2, "reference_files_per_content": 1, "contents_per_feature": feature_counts},
			"text_sweep": {"slots": extra::TEXT_SLOTS, "characters": extra::WIDTH_CHARS.iter().map(|c| c.to_string()).collect::<Vec<_>>(), "ascii_before_and_after": extra::text_grid(), "big_lines": extra::big_text_grid(ctx.tier).len()},
			"refusal_sweep": {"situations": extra::REFUSALS, "texts_per_situation": extra::text_grid().len() * 4},
			"odd_values": extra::odd_alphabets(),
			"wide_sets": wide_sizes.iter().map(|(k, n)| json!({"fields_methods_parameters": k, "namespaces": n})).collect::<Vec<_>>(),
			"environment_sets": extra::env_contents(ctx.tier).iter().map(|(l, _)| l.clone()).collect::<Vec<_>>(),
		},
		"contents": contents,
		"contents_with_more_than_one_history": multi,
		"outcomes": {
			"content_sweep": content.stats.outcomes,
			"comment_sweep": comment.stats.outcomes,
			"bulk": bulk.stats.outcomes,
			"line_sweep": lines.outcomes,
			"comment_cells": cells.outcomes,
			"probes_outside_domain": probes.outcomes,
			"feature_sweep": feature.stats.outcomes,
			"text_sweep": text.stats.outcomes,
			"refusal_sweep": refusals.outcomes,
			"odd_values": odd.stats.outcomes,
			"wide": wide.stats.outcomes,
			"environment": env.outcomes,
		},
		"environment": {"requests_served_short": env_tot.short_serves, "interrupted": env_tot.interrupts, "offers_accepted_in_part": env_tot.short_accepts, "single_boundary_inside_a_character": env_tot.split_inside_character},
		"line_sweep": {"evaluations": line_evals, "outcomes": lines.outcomes, "distinct_accepted_structures": lines.distinct.len()},
		"content_sweep": {"evaluations": content.stats.evaluations, "reordered_builds": content.reordered_builds, "texts_not_in_key_order": content.texts_not_in_key_order},
		"comment_sweep": {"evaluations": comment.stats.evaluations, "mixed_non_ascii_and_escape": comment_mixed},
		"comment_cells": {"evaluations": cells.evaluations, "distinct_comments_read": cells.distinct.len()},
	});
	eprintln!("C03 phases (s): histories {:.1}, content {:.1}, comments {:.1}, bulk {:.1}, lines+cells+probes {:.1}, features {:.1}, texts+refusals {:.1}, odd+wide {:.1}, environment {:.1}", t_hist - t0, t_content - t_hist, t_comment - t_content, t_bulk - t_comment, t_lines - t_bulk, t_feature - t_lines, t_text - t_feature, t_odd - t_text, t_env - t_odd);
	ctx.finish(coverage, &[
		"names containing TAB or newline are outside the Tiny v2 format and outside the alphabet",
		"comments containing TAB, CR or NUL are in the alphabets since the writer escapes them (Tiny v2 escapes \\t \\r \\0; repaired in /repo this session)",
		"the top-level mappings comment is never produced by the reader and is not generated",
		"stateright's BFS visits every reachable state (its exhaustiveness is trusted)",
		"mapmodel's reference reader is the independent reading of the format",
		"a text the statement says nothing about (wrong cell counts, a backslash that starts no escape, unknown sections) may be accepted or refused; only panics and wrong structure are charged",
	]);
}

fn replay(ctx: &'static Ctx, path: &std::path::Path) -> ! {
	let body = vcore::replay_body(path);
	let field = |name: &str| -> Option<String> { body.lines().find_map(|l| l.strip_prefix(name).map(|v| v.to_owned())) };
	let num = |name: &str| -> u64 { field(name).and_then(|v| v.trim().parse().ok()).unwrap_or_else(|| vcore::machinery_fail(&format!("replay: no {name}"))) };
	if let Some(rest) = body.strip_prefix("universe=") {
		let label = rest.lines().next().unwrap_or("").to_owned();
		let hist_line = body.lines().find(|l| l.starts_with("history=")).unwrap_or_else(|| vcore::machinery_fail("no history in replay"));
		let history: Vec<u8> = hist_line["history=".len()..].trim_matches(|c| c == '[' || c == ']').split(',').filter(|s| !s.trim().is_empty()).map(|s| s.trim().parse().unwrap_or_else(|_| vcore::machinery_fail("bad history"))).collect();
		let u = [vcore::Tier::Quick, vcore::Tier::Thorough].into_iter().flat_map(universes).find(|u| u.label == label).unwrap_or_else(|| vcore::machinery_fail("unknown universe"));
		let model = HistModel {
			u,
			ctx,
			evals: Box::leak(Box::new(AtomicU64::new(0))),
			canon: Box::leak(Box::new(Mutex::new(HashMap::new()))),
			multi_history_contents: Box::leak(Box::new(Mutex::new(HashMap::new()))),
			reordered: Box::leak(Box::new(AtomicU64::new(0))),
		};
		// the confluence oracle needs the canonical history of the same content first
		let mut sorted = history.clone();
		sorted.sort();
		model.check_state(&sorted);
		model.check_state(&history);
		// determinism: the same history observed twice gives the same bytes
		let a = observe(&model.u, &history).text;
		let b = observe(&model.u, &history).text;
		if a != b {
			vcore::machinery_fail("replay is not deterministic");
		}
	} else if body.starts_with("sweep=content") {
		let label = field("space=").unwrap_or_else(|| vcore::machinery_fail("replay: no space"));
		let idx = num("index=");
		let space = [vcore::Tier::Quick, vcore::Tier::Thorough].into_iter().flat_map(sweeps::content_spaces).find(|s| s.label == label).unwrap_or_else(|| vcore::machinery_fail("unknown content space"));
		let space = mapmodel::gen::Space::new(&space.universe);
		if idx >= space.len() {
			vcore::machinery_fail("replay: index outside the space");
		}
		for _ in 0..2 {
			sweeps::content_case(ctx, &mut sweeps::SweepOut::default(), &label, &space, idx);
		}
	} else if body.starts_with("sweep=comment") {
		for _ in 0..2 {
			sweeps::comment_case(ctx, &mut sweeps::SweepOut::default(), num("max_len=") as usize, num("index="), num("level=") as usize);
		}
	} else if body.starts_with("sweep=bulk") {
		sweeps::bulk_case(ctx, &mut sweeps::SweepOut::default(), num("classes=") as usize, num("namespaces=") as usize);
	} else if body.starts_with("sweep=feature") {
		for _ in 0..2 {
			if !extra::feature_case(ctx, &mut sweeps::SweepOut::default(), num("namespaces=") as usize, num("feature=") as usize, num("mask=") as u32) {
				vcore::machinery_fail("replay: the mask asks for a child below an absent parent");
			}
		}
	} else if body.starts_with("sweep=text") {
		for _ in 0..2 {
			extra::text_case(ctx, &mut sweeps::SweepOut::default(), num("slot=") as usize, num("k1=") as usize, num("width=") as usize, num("k2=") as usize);
		}
	} else if body.starts_with("sweep=odd") {
		let all = extra::odd_contents();
		let idx = num("index=") as usize;
		if idx >= all.len() {
			vcore::machinery_fail("replay: index outside the odd-value contents");
		}
		for _ in 0..2 {
			extra::odd_case(ctx, &mut sweeps::SweepOut::default(), &all, idx);
		}
	} else if body.starts_with("sweep=wide") {
		extra::wide_case(ctx, &mut sweeps::SweepOut::default(), num("entries=") as usize, num("namespaces=") as usize);
	} else if body.starts_with("sweep=env") {
		let all = extra::env_contents(vcore::Tier::Thorough);
		let idx = num("case=") as usize;
		let (label, m) = all.get(idx).unwrap_or_else(|| vcore::machinery_fail("replay: unknown environment case"));
		extra::env_case(ctx, idx, label, m, &mut Stats::new(), &mut extra::EnvTotals::default());
	} else if body.starts_with("probe=") {
		lines::run_probes(ctx);
	} else {
		// a text for the reader (line sequence or comment cell)
		let (text, final_newline) = match body.strip_prefix(lines::NO_FINAL_NEWLINE) {
			Some(rest) => (rest.trim_start_matches('\n').to_owned(), false),
			None => (body.clone(), true),
		};
		let text = text.trim_end_matches('\n').to_owned() + if final_newline { "\n" } else { "" };
		let n = text.lines().next().map(|h| h.split('\t').count().saturating_sub(3)).unwrap_or(2).clamp(2, 4);
		let mut st = Stats::new();
		lines::judge_text(ctx, &mut st, n, &text);
		lines::judge_text(ctx, &mut st, n, &text);
		println!("outcomes: {:?}", st.outcomes);
	}
	ctx.finish(json!({"states": 1, "transitions": 1, "traces_validated_against_impl": 1, "samples": ["replay"]}), &[]);
}
