//! C03 — Tiny v2 files round-trip and are written canonically.
//!
//! Engine: explicit-state exploration (stateright BFS) of *insertion histories*. A state is the
//! sequence of elements inserted so far into a real `quill::tree::mappings::Mappings`; an action
//! inserts one more element whose parent is already present. Histories with the same content are
//! deliberately different states: insertion order is the thing explored. On every state the real
//! writer and reader are run and compared with the reference model (mapmodel).
//!
//! Second engine: exhaustive enumeration of short line sequences fed to the real reader
//! ("reading never merges, loses or re-parents").

use std::collections::{BTreeMap, HashMap};
use std::sync::atomic::{AtomicU64, Ordering};
use std::sync::Mutex;
use mapmodel::{tiny, MClass, MField, MMethod, MParam, MSet, Row};
use quill::tree::mappings::{
	ClassMapping, ClassNowodeMapping, FieldMapping, FieldNowodeMapping, JavadocMapping, Mappings, MethodMapping,
	MethodNowodeMapping, ParameterKey, ParameterMapping, ParameterNowodeMapping,
};
use quill::tree::NodeInfo;
use quill::tree::names::Names;
use rayon::prelude::*;
use stateright::{Checker, Model, Property};
use vcore::{json, Ctx, Stats, Value};

#[derive(Clone, Debug)]
enum Kind {
	Class { key: String },
	Field { name: String, desc: String },
	Method { name: String, desc: String },
	Param { index: usize, has_src: bool },
	Comment { text: String },
}

#[derive(Clone, Debug)]
struct Elem {
	kind: Kind,
	parent: Option<usize>,
	/// non-source names, one per namespace 1..n; `None` = absent (ignored for comments)
	tail: Row,
}

#[derive(Clone, Debug)]
struct Universe {
	label: String,
	ns: Vec<String>,
	elems: Vec<Elem>,
}

impl Universe {
	fn n(&self) -> usize {
		self.ns.len()
	}

	fn row_of(&self, e: &Elem) -> Row {
		let first = match &e.kind {
			Kind::Class { key } => Some(key.clone()),
			Kind::Field { name, .. } | Kind::Method { name, .. } => Some(name.clone()),
			Kind::Param { index, has_src } => if *has_src { Some(format!("s{index}")) } else { None },
			Kind::Comment { .. } => None,
		};
		let mut r = vec![first];
		r.extend(e.tail.iter().cloned());
		r
	}

	/// the content (reference model) of a set of elements
	fn content(&self, mask: u32) -> MSet {
		let mut set = MSet { ns: self.ns.clone(), doc: None, classes: BTreeMap::new() };
		let present = |i: usize| mask & (1 << i) != 0;
		for (ci, ce) in self.elems.iter().enumerate() {
			let Kind::Class { key } = &ce.kind else { continue };
			if !present(ci) {
				continue;
			}
			let mut c = MClass { names: self.row_of(ce), ..Default::default() };
			for (mi, me) in self.elems.iter().enumerate() {
				if me.parent != Some(ci) || !present(mi) {
					continue;
				}
				match &me.kind {
					Kind::Comment { text } => c.doc = Some(text.clone()),
					Kind::Field { name, desc } => {
						let mut f = MField { names: self.row_of(me), doc: None };
						for (di, de) in self.elems.iter().enumerate() {
							if de.parent == Some(mi) && present(di) {
								if let Kind::Comment { text } = &de.kind {
									f.doc = Some(text.clone());
								}
							}
						}
						c.fields.insert((name.clone(), desc.clone()), f);
					},
					Kind::Method { name, desc } => {
						let mut m = MMethod { names: self.row_of(me), doc: None, params: BTreeMap::new() };
						for (pi, pe) in self.elems.iter().enumerate() {
							if pe.parent != Some(mi) || !present(pi) {
								continue;
							}
							match &pe.kind {
								Kind::Comment { text } => m.doc = Some(text.clone()),
								Kind::Param { index, .. } => {
									let mut p = MParam { names: self.row_of(pe), doc: None };
									for (di, de) in self.elems.iter().enumerate() {
										if de.parent == Some(pi) && present(di) {
											if let Kind::Comment { text } = &de.kind {
												p.doc = Some(text.clone());
											}
										}
									}
									m.params.insert(*index, p);
								},
								_ => {},
							}
						}
						c.methods.insert((name.clone(), desc.clone()), m);
					},
					_ => {},
				}
			}
			set.classes.insert(key.clone(), c);
		}
		set
	}
}

fn names<const N: usize, T>(row: &Row, f: impl Fn(&str) -> anyhow::Result<T>) -> Names<N, T>
where
	T: AsRef<java_string::JavaStr> + std::fmt::Debug,
{
	let v: Vec<Option<T>> = row.iter().map(|c| c.as_deref().map(|s| f(s).unwrap_or_else(|e| vcore::machinery_fail(&format!("generator produced invalid name {s:?}: {e}"))))).collect();
	let arr: [Option<T>; N] = v.try_into().unwrap_or_else(|_| vcore::machinery_fail("row length"));
	Names::try_from(arr).unwrap_or_else(|e| vcore::machinery_fail(&format!("names: {e}")))
}

/// Replays an insertion history into a real quill object, using the public IndexMaps only.
fn build<const N: usize>(u: &Universe, history: &[u8]) -> Mappings<N, ()> {
	let ns: Vec<&str> = u.ns.iter().map(|s| s.as_str()).collect();
	let ns: [&str; N] = ns.try_into().unwrap_or_else(|_| vcore::machinery_fail("ns length"));
	let mut q: Mappings<N, ()> = Mappings::from_namespaces(ns).unwrap_or_else(|e| vcore::machinery_fail(&format!("{e}")));
	for &h in history {
		let e = &u.elems[h as usize];
		let row = u.row_of(e);
		// path from the root to the parent
		let mut path = Vec::new();
		let mut p = e.parent;
		while let Some(i) = p {
			path.push(i);
			p = u.elems[i].parent;
		}
		path.reverse();
		let ckey = |i: usize| match &u.elems[i].kind {
			Kind::Class { key } => mapmodel::cls(key).unwrap(),
			_ => vcore::machinery_fail("path"),
		};
		match &e.kind {
			Kind::Class { key } => {
				let c: ClassNowodeMapping<N> = ClassNowodeMapping::new(ClassMapping { names: names(&row, mapmodel::cls) });
				q.classes.insert(mapmodel::cls(key).unwrap(), c);
			},
			Kind::Field { name, desc } => {
				let c = q.classes.get_mut(&ckey(path[0])).unwrap();
				let f: FieldNowodeMapping<N> = FieldNowodeMapping::new(FieldMapping { desc: mapmodel::fdesc(desc).unwrap(), names: names(&row, mapmodel::fname) });
				c.fields.insert(duke::tree::field::FieldNameAndDesc { name: mapmodel::fname(name).unwrap(), desc: mapmodel::fdesc(desc).unwrap() }, f);
			},
			Kind::Method { name, desc } => {
				let c = q.classes.get_mut(&ckey(path[0])).unwrap();
				let m: MethodNowodeMapping<N> = MethodNowodeMapping::new(MethodMapping { desc: mapmodel::mdesc(desc).unwrap(), names: names(&row, mapmodel::mname) });
				c.methods.insert(duke::tree::method::MethodNameAndDesc { name: mapmodel::mname(name).unwrap(), desc: mapmodel::mdesc(desc).unwrap() }, m);
			},
			Kind::Param { index, .. } => {
				let c = q.classes.get_mut(&ckey(path[0])).unwrap();
				let m = method_of(u, c, path[1]);
				let p: ParameterNowodeMapping<N> = ParameterNowodeMapping::new(ParameterMapping { index: *index, names: names(&row, mapmodel::pname) });
				m.parameters.insert(ParameterKey { index: *index }, p);
			},
			Kind::Comment { text } => {
				let doc = Some(JavadocMapping(text.clone()));
				let c = q.classes.get_mut(&ckey(path[0])).unwrap();
				match path.len() {
					1 => c.javadoc = doc,
					2 => match &u.elems[path[1]].kind {
						Kind::Field { name, desc } => {
							c.fields.get_mut(&duke::tree::field::FieldNameAndDesc { name: mapmodel::fname(name).unwrap(), desc: mapmodel::fdesc(desc).unwrap() }).unwrap().javadoc = doc;
						},
						Kind::Method { .. } => method_of(u, c, path[1]).javadoc = doc,
						_ => vcore::machinery_fail("comment parent"),
					},
					3 => {
						let Kind::Param { index, .. } = &u.elems[path[2]].kind else { vcore::machinery_fail("comment parent") };
						method_of(u, c, path[1]).parameters.get_mut(&ParameterKey { index: *index }).unwrap().javadoc = doc;
					},
					_ => vcore::machinery_fail("comment depth"),
				}
			},
		}
	}
	q
}

fn method_of<'a, const N: usize>(u: &Universe, c: &'a mut ClassNowodeMapping<N>, mi: usize) -> &'a mut MethodNowodeMapping<N> {
	let Kind::Method { name, desc } = &u.elems[mi].kind else { vcore::machinery_fail("not a method") };
	c.methods.get_mut(&duke::tree::method::MethodNameAndDesc { name: mapmodel::mname(name).unwrap(), desc: mapmodel::mdesc(desc).unwrap() }).unwrap()
}

/// One observation of the real code on one history.
struct Obs {
	text: Result<Vec<u8>, String>,
	reread: Option<Result<MSet, String>>,
	rewritten: Option<Result<Vec<u8>, String>>,
}

fn observe_n<const N: usize>(u: &Universe, history: &[u8]) -> Obs {
	let q = build::<N>(u, history);
	let text = quill::tiny_v2::write_vec(&q).map_err(|e| format!("{e:#}"));
	let mut reread = None;
	let mut rewritten = None;
	if let Ok(t) = &text {
		let r: anyhow::Result<Mappings<N, ()>> = quill::tiny_v2::read(&mut &t[..]);
		match r {
			Ok(back) => {
				rewritten = Some(quill::tiny_v2::write_vec(&back).map_err(|e| format!("{e:#}")));
				reread = Some(mapmodel::from_quill(&back).map_err(|e| format!("key invariant broken after read: {}", e.0)));
			},
			Err(e) => reread = Some(Err(format!("{e:#}"))),
		}
	}
	Obs { text, reread, rewritten }
}

fn observe(u: &Universe, history: &[u8]) -> Obs {
	match u.n() {
		2 => observe_n::<2>(u, history),
		3 => observe_n::<3>(u, history),
		4 => observe_n::<4>(u, history),
		n => vcore::machinery_fail(&format!("unsupported namespace count {n}")),
	}
}

struct HistModel {
	u: Universe,
	ctx: &'static Ctx,
	evals: &'static AtomicU64,
	/// content mask → hash of the text its first-seen history produced (+ that history)
	canon: &'static Mutex<HashMap<u32, (u64, Vec<u8>)>>,
	multi_history_contents: &'static Mutex<HashMap<u32, u64>>,
}

fn mask_of(h: &[u8]) -> u32 {
	h.iter().fold(0, |m, e| m | (1 << e))
}

impl HistModel {
	fn replay_text(&self, history: &[u8]) -> String {
		let names: Vec<String> = history.iter().map(|&h| format!("{}:{:?}", h, self.u.elems[h as usize].kind)).collect();
		format!(
			"universe={}\nnamespaces={:?}\nhistory={:?}\nelements inserted, in order:\n  {}\nexpected content:\n{}",
			self.u.label, self.u.ns, history, names.join("\n  "), tiny::print_with(&self.u.content(mask_of(history)), &tiny::escape)
		)
	}

	fn check_state(&self, history: &[u8]) {
		self.evals.fetch_add(1, Ordering::Relaxed);
		let mask = mask_of(history);
		let expected = self.u.content(mask);
		let has_backslash = comments_of(&expected).iter().any(|c| c.contains('\\'));
		let obs = match vcore::guard(|| observe(&self.u, history)) {
			Ok(o) => o,
			Err(p) => {
				self.ctx.diff(&format!("panic@{}", p.file()), &format!("panic at {}: {}", p.site, p.msg), || self.replay_text(history));
				return;
			},
		};
		let text = match &obs.text {
			Ok(t) => t,
			Err(e) => {
				self.ctx.diff("write:refused", &format!("writing a valid mapping set failed: {e}"), || self.replay_text(history));
				return;
			},
		};
		// (1) read(write(M)) == M
		match &obs.reread {
			Some(Ok(back)) => {
				if back != &expected {
					let (k, what) = mapmodel::first_difference(&expected, back).unwrap_or(("other".into(), "differ".into()));
					let key = if has_backslash && k.ends_with("comment") { "roundtrip:comment-backslash".to_owned() } else { format!("roundtrip:{k}") };
					self.ctx.diff(&key, &format!("read(write(M)) != M: {what}"), || format!("{}\nwritten text:\n{}", self.replay_text(history), String::from_utf8_lossy(text)));
				}
			},
			Some(Err(e)) => self.ctx.diff("roundtrip:read-refused", &format!("reading back the written text failed: {e}"), || format!("{}\nwritten text:\n{}", self.replay_text(history), String::from_utf8_lossy(text))),
			None => {},
		}
		// (2) the text is Tiny v2 for exactly this content, by the independent reference reader
		match std::str::from_utf8(text).map_err(|e| e.to_string()).and_then(|t| tiny::parse(t).map_err(|e| format!("{e:?}"))) {
			Ok(seen) => {
				if seen != expected {
					let (k, what) = mapmodel::first_difference(&expected, &seen).unwrap_or(("other".into(), "differ".into()));
					let key = if has_backslash && k.ends_with("comment") { "text:comment-backslash".to_owned() } else { format!("text:{k}") };
					self.ctx.diff(&key, &format!("written text does not state the content: {what}"), || format!("{}\nwritten text:\n{}", self.replay_text(history), String::from_utf8_lossy(text)));
				}
			},
			Err(e) => self.ctx.diff("text:not-tiny-v2", &format!("reference reader cannot read the written text: {e}"), || format!("{}\nwritten text:\n{}", self.replay_text(history), String::from_utf8_lossy(text))),
		}
		// (3) confluence: every history of the same content writes the same bytes
		let h = vcore::hash64(&text[..]);
		let first = {
			let mut canon = self.canon.lock().unwrap();
			match canon.get(&mask) {
				Some((fh, fhist)) => Some((*fh, fhist.clone())),
				None => {
					canon.insert(mask, (h, history.to_vec()));
					None
				},
			}
		};
		if let Some((fh, fhist)) = first {
			*self.multi_history_contents.lock().unwrap().entry(mask).or_insert(1) += 1;
			if fh != h {
				self.ctx.diff("order:text-depends-on-insertion-order", "two insertion orders of the same content are written differently", || {
					let other = observe(&self.u, &fhist);
					format!("{}\nwritten text:\n{}\nother history={:?}\nits text:\n{}", self.replay_text(history), String::from_utf8_lossy(text), fhist, String::from_utf8_lossy(other.text.as_deref().unwrap_or(b"<error>")))
				});
			}
		}
		// (4) fixed point
		match &obs.rewritten {
			Some(Ok(t2)) => {
				if t2 != text {
					let key = if has_backslash { "fixpoint:comment-backslash" } else { "fixpoint:write-read-write-differs" };
					self.ctx.diff(key, "write(read(write(M))) is not byte-identical to write(M)", || format!("{}\nfirst text:\n{}\nsecond text:\n{}", self.replay_text(history), String::from_utf8_lossy(text), String::from_utf8_lossy(t2)));
				}
			},
			Some(Err(e)) => self.ctx.diff("fixpoint:rewrite-refused", &format!("writing the re-read set failed: {e}"), || self.replay_text(history)),
			None => {},
		}
	}
}

fn comments_of(m: &MSet) -> Vec<&str> {
	let mut v = Vec::new();
	for c in m.classes.values() {
		v.extend(c.doc.as_deref());
		for f in c.fields.values() {
			v.extend(f.doc.as_deref());
		}
		for me in c.methods.values() {
			v.extend(me.doc.as_deref());
			for p in me.params.values() {
				v.extend(p.doc.as_deref());
			}
		}
	}
	v
}

impl Model for HistModel {
	type State = Vec<u8>;
	type Action = u8;

	fn init_states(&self) -> Vec<Vec<u8>> {
		vec![Vec::new()]
	}

	fn actions(&self, state: &Vec<u8>, actions: &mut Vec<u8>) {
		for (i, e) in self.u.elems.iter().enumerate() {
			let i8 = i as u8;
			if state.contains(&i8) {
				continue;
			}
			if e.parent.is_none_or(|p| state.contains(&(p as u8))) {
				actions.push(i8);
			}
		}
	}

	fn next_state(&self, last: &Vec<u8>, action: u8) -> Option<Vec<u8>> {
		let mut s = last.clone();
		s.push(action);
		Some(s)
	}

	fn properties(&self) -> Vec<Property<Self>> {
		// The oracle runs as a side effect of evaluating the invariant on every state and reports
		// every difference through the Ctx (so that all distinct differences are collected, not only
		// the first); the invariant itself therefore never stops the exploration.
		vec![Property::always("oracles evaluated", |m: &HistModel, s: &Vec<u8>| {
			m.check_state(s);
			true
		})]
	}
}

fn universe(label: &str, ns: &[&str], classes: &[(&str, &[(&str, &str)], &[(&str, &str, &[(usize, bool)])])], absent: &dyn Fn(usize, usize) -> bool, comment: &dyn Fn(usize) -> Option<String>) -> Universe {
	// classes: (key, fields (name, desc), methods (name, desc, params (index, has_src)))
	let n = ns.len();
	let mut elems: Vec<Elem> = Vec::new();
	let mk_tail = |idx: usize, base: &str| -> Row { (1..n).map(|j| if absent(idx, j) { None } else { Some(format!("{base}{j}")) }).collect() };
	let mut comment_slots = 0usize;
	let mut add_comment = |elems: &mut Vec<Elem>, parent: usize| {
		if let Some(text) = comment(comment_slots) {
			elems.push(Elem { kind: Kind::Comment { text }, parent: Some(parent), tail: vec![] });
		}
		comment_slots += 1;
	};
	for (key, fields, methods) in classes {
		let ci = elems.len();
		let base = key.replace('/', "_");
		// nested targets look nested too; a package moves
		let tail: Row = (1..n).map(|j| if absent(ci, j) { None } else { Some(if key.contains('/') { format!("q{j}/{}", base) } else { format!("{base}{j}") }) }).collect();
		elems.push(Elem { kind: Kind::Class { key: key.to_string() }, parent: None, tail });
		add_comment(&mut elems, ci);
		for (name, desc) in fields.iter() {
			let fi = elems.len();
			elems.push(Elem { kind: Kind::Field { name: name.to_string(), desc: desc.to_string() }, parent: Some(ci), tail: mk_tail(fi, name) });
			add_comment(&mut elems, fi);
		}
		for (name, desc, params) in methods.iter() {
			let mi = elems.len();
			let base = if name.starts_with('<') { "init".to_owned() } else { name.to_string() };
			elems.push(Elem { kind: Kind::Method { name: name.to_string(), desc: desc.to_string() }, parent: Some(ci), tail: mk_tail(mi, &base) });
			add_comment(&mut elems, mi);
			for (index, has_src) in params.iter() {
				let pi = elems.len();
				elems.push(Elem { kind: Kind::Param { index: *index, has_src: *has_src }, parent: Some(mi), tail: mk_tail(pi, &format!("p{index}_")) });
				add_comment(&mut elems, pi);
			}
		}
	}
	if elems.len() > 30 {
		vcore::machinery_fail("universe too large for the mask");
	}
	Universe { label: label.to_owned(), ns: ns.iter().map(|s| s.to_string()).collect(), elems }
}

const COMMENTS: &[&str] = &["x", "a b", "l1\nl2", "l1\n\nl3", "ü☃ É", "", "back\\nslash", "tail\\"];

type ClassSpec<'a> = (&'a str, &'a [(&'a str, &'a str)], &'a [(&'a str, &'a str, &'a [(usize, bool)])]);

fn universes(tier: vcore::Tier) -> Vec<Universe> {
	let mut out = Vec::new();
	// shapes: which classes/members exist
	let shape_a: Vec<ClassSpec> = vec![
		("A$B", &[("f", "I")], &[("m", "(I)V", &[(0, false)])]),
		("A", &[], &[]),
	];
	let shape_b: Vec<ClassSpec> = vec![
		("p/C", &[("f", "LA;"), ("f", "I")], &[]),
		("É", &[], &[("<init>", "()V", &[])]),
	];
	let shape_c: Vec<ClassSpec> = vec![
		("x", &[], &[("m", "(II)V", &[(1, true), (0, false)]), ("m", "()V", &[])]),
	];
	let shape_t: Vec<ClassSpec> = vec![
		("A$B", &[("f", "I")], &[("m", "(I)V", &[(0, false)])]),
		("A", &[("É", "[LA;")], &[]),
		("p/C", &[], &[]),
	];
	let ns_sets: Vec<Vec<&str>> = vec![vec!["official", "named"], vec!["a", "b", "c"], vec!["a", "b", "c", "d"]];
	let no_comment = |_: usize| None;
	// missing-name patterns over (element index, namespace index)
	let patterns: Vec<(&str, Box<dyn Fn(usize, usize) -> bool>)> = vec![
		("all-named", Box::new(|_, _| false)),
		("none-named", Box::new(|_, _| true)),
		("alternating", Box::new(|e, j| (e + j) % 2 == 0)),
		("last-ns-only", Box::new(|_, j| j == 1)),
	];
	for ns in &ns_sets {
		for (pname, pat) in &patterns {
			if tier == vcore::Tier::Quick && ns.len() == 4 && *pname != "alternating" {
				continue;
			}
			for (sname, shape) in [("a", &shape_a), ("b", &shape_b), ("c", &shape_c)] {
				out.push(universe(&format!("shape-{sname}/N={}/{pname}", ns.len()), ns, shape, pat.as_ref(), &no_comment));
			}
		}
	}
	// comments: each comment text in each slot position of shape a (2 namespaces), one slot at a time and all slots at once
	for (k, text) in COMMENTS.iter().enumerate() {
		out.push(universe(&format!("shape-a/N=2/comments-all={k}"), &["o", "n"], &shape_a, &|_, _| false, &|_| Some(text.to_string())));
		out.push(universe(&format!("shape-c/N=3/comments-rot={k}"), &["a", "b", "c"], &shape_c, &|e, j| (e + j) % 3 == 0, &|slot| if slot % 2 == 0 { Some(COMMENTS[(k + slot) % COMMENTS.len()].to_string()) } else { None }));
	}
	if tier == vcore::Tier::Thorough {
		for ns in &ns_sets {
			for (pname, pat) in &patterns {
				out.push(universe(&format!("shape-t/N={}/{pname}", ns.len()), ns, &shape_t, pat.as_ref(), &no_comment));
			}
		}
		// exhaustive missing-name subsets for shape a with two namespaces (one bit per element)
		let elems_a = universe("probe", &["o", "n"], &shape_a, &|_, _| false, &no_comment).elems.len();
		for bits in 0u32..(1 << elems_a) {
			out.push(universe(&format!("shape-a/N=2/missing-mask={bits:b}"), &["o", "n"], &shape_a, &move |e, _| bits & (1 << e) != 0, &no_comment));
		}
		for (k, text) in COMMENTS.iter().enumerate() {
			out.push(universe(&format!("shape-b/N=2/comments-all={k}"), &["o", "n"], &shape_b, &|_, _| false, &|_| Some(text.to_string())));
		}
	}
	out
}

// ---------------------------------------------------------------------------------------------
// second engine: line sequences through the real reader

const LINE_ALPHABET: &[&str] = &[
	"c\tA\tX",
	"c\tB\tY",
	"\tf\tI\tf\tg",
	"\tm\t()V\tm\tn",
	"\t\tp\t0\t\tq",
	"\tc\tdoc1",
	"\t\tc\tdoc2",
	"\t\t\tc\tdoc3",
	"\t\t\t\tc\tdoc4",
];

fn run_lines(ctx: &Ctx, max_len: usize) -> Stats {
	let total = vcore::enumerate::strings_count(LINE_ALPHABET.len(), max_len);
	(0..total).into_par_iter().fold(Stats::new, |mut st, idx| {
		let lines = vcore::enumerate::string_nth(LINE_ALPHABET, max_len, idx);
		let mut text = String::from("tiny\t2\t0\ta\tb\n");
		for l in &lines {
			text.push_str(l);
			text.push('\n');
		}
		st.eval();
		let real = vcore::guard(|| {
			let r: anyhow::Result<Mappings<2, ()>> = quill::tiny_v2::read(&mut text.as_bytes());
			r.map(|q| mapmodel::from_quill(&q)).map_err(|e| format!("{e:#}"))
		});
		let reference = tiny::parse_lenient(&text);
		match (real, reference) {
			(Err(p), _) => ctx.diff(&format!("lines:panic@{}", p.file()), &format!("reader panicked at {}: {}", p.site, p.msg), || text.clone()),
			(Ok(Ok(Err(k))), _) => ctx.diff("lines:key-invariant", &k.0, || text.clone()),
			(Ok(Ok(Ok(seen))), Ok((want, unknown))) => {
				st.outcome(if unknown == 0 { "both-accept" } else { "both-accept-skipping-unknown-section" });
				st.distinct.add(&seen);
				if seen != want {
					let (k, what) = mapmodel::first_difference(&want, &seen).unwrap_or(("other".into(), "differ".into()));
					ctx.diff(&format!("lines:{k}"), &format!("accepted text read with a different structure: {what}"), || text.clone());
				}
				st.sample(if unknown == 0 { "lines" } else { "lines-unknown" }, || json!({"kind": "line-sequence", "text": text, "entries": seen.entries(), "unknown_sections_skipped": unknown}));
			},
			(Ok(Ok(Ok(_))), Err(_)) => {
				// The reference reader judges this text to be outside the format (a line without a
				// possible parent). Accepting it would mean an entry was attached somewhere it does not belong.
				ctx.diff("lines:accepted-orphan", "reader accepted a text in which a line has no parent one level up", || text.clone());
			},
			(Ok(Err(_)), Ok((_, 0))) => st.outcome("real-refuses-valid"),
			(Ok(Err(_)), Ok(_)) => st.outcome("real-refuses-unknown-section"),
			(Ok(Err(_)), Err(_)) => st.outcome("both-refuse"),
		}
		st
	}).reduce(Stats::new, Stats::merge)
}

fn main() {
	let ctx: &'static Ctx = Box::leak(Box::new(Ctx::new("C03", "model_checking")));
	if let Some(path) = ctx.replay.clone() {
		replay(ctx, &path);
	}
	let unis = universes(ctx.tier);
	let evals: &'static AtomicU64 = Box::leak(Box::new(AtomicU64::new(0)));
	let mut states = 0u64;
	let mut transitions = 0u64;
	let mut max_depth = 0usize;
	let mut contents = 0u64;
	let mut multi = 0u64;
	let mut distinct_texts = vcore::Distinct::new();
	let mut samples: Vec<Value> = Vec::new();
	let n_universes = unis.len();
	for u in unis {
		let canon: &'static Mutex<HashMap<u32, (u64, Vec<u8>)>> = Box::leak(Box::new(Mutex::new(HashMap::new())));
		let multi_map: &'static Mutex<HashMap<u32, u64>> = Box::leak(Box::new(Mutex::new(HashMap::new())));
		let depth = u.elems.len();
		if samples.len() < 4 {
			let full: Vec<u8> = {
				// one complete history: parents first, reverse sibling order
				let mut h: Vec<u8> = Vec::new();
				while h.len() < depth {
					for i in (0..depth).rev() {
						if !h.contains(&(i as u8)) && u.elems[i].parent.is_none_or(|p| h.contains(&(p as u8))) {
							h.push(i as u8);
							break;
						}
					}
				}
				h
			};
			let obs = observe(&u, &full);
			samples.push(json!({"kind": "insertion-history", "universe": u.label, "history": full, "written": String::from_utf8_lossy(obs.text.as_deref().unwrap_or(b"")).to_string()}));
		}
		let model = HistModel { u, ctx, evals, canon, multi_history_contents: multi_map };
		let checker = model.checker().threads(rayon::current_num_threads().max(1)).spawn_bfs().join();
		if !checker.is_done() {
			vcore::machinery_fail("stateright did not finish the state space");
		}
		states += checker.unique_state_count() as u64;
		transitions += checker.state_count() as u64 - 1;
		max_depth = max_depth.max(checker.max_depth());
		let canon = canon.lock().unwrap();
		contents += canon.len() as u64;
		for (h, _) in canon.values() {
			distinct_texts.add_hash(*h);
		}
		multi += multi_map.lock().unwrap().len() as u64;
	}
	let line_len = ctx.tier.pick(4, 5);
	let lines = run_lines(ctx, line_len);
	let evaluated = evals.load(Ordering::Relaxed);

	ctx.floor("universes explored", 20, n_universes as u64);
	ctx.floor("contents reached through more than one insertion order", 100, multi);
	ctx.floor("every state evaluated by the oracle", states, evaluated);
	ctx.floor("line sequences accepted by both readers", 50, lines.get("both-accept"));
	ctx.floor("line sequences refused", 50, lines.get("both-refuse"));

	samples.extend(lines.samples.iter().cloned());
	let coverage = json!({
		"states": states,
		"transitions": transitions,
		"traces_validated_against_impl": evaluated,
		"max_depth": max_depth,
		"evaluations": evaluated + lines.evaluations,
		"distinct_nontrivial": distinct_texts.len(),
		"rule": "a state is one insertion history (sequence of class/field/method/parameter/comment insertions, parent before child) replayed into a real quill Mappings; every state runs write→read→write on the real code and the reference reader on the text. distinct_nontrivial = distinct written texts over all contents; line sweep = every sequence of ≤L lines over a 9-line alphabet through the real reader",
		"exhaustive": true,
		"samples": samples,
		"bounds": {
			"universes": n_universes,
			"namespaces": [2, 3, 4],
			"comment_alphabet": COMMENTS,
			"line_alphabet": LINE_ALPHABET,
			"line_sequence_max_len": line_len,
		},
		"contents": contents,
		"contents_with_more_than_one_history": multi,
		"line_sweep": {"evaluations": lines.evaluations, "outcomes": lines.outcomes, "distinct_accepted_structures": lines.distinct.len()},
	});
	ctx.finish(coverage, &[
		"names containing TAB or newline are outside the Tiny v2 format and outside the alphabet",
		"the top-level mappings comment is never produced by the reader and is not generated",
		"stateright's BFS visits every reachable state (its exhaustiveness is trusted)",
		"mapmodel's reference reader is the independent reading of the format",
	]);
}

fn replay(ctx: &'static Ctx, path: &std::path::Path) -> ! {
	let body = vcore::replay_body(path);
	if let Some(rest) = body.strip_prefix("universe=") {
		let label = rest.lines().next().unwrap_or("").to_owned();
		let hist_line = body.lines().find(|l| l.starts_with("history=")).unwrap_or_else(|| vcore::machinery_fail("no history in replay"));
		let history: Vec<u8> = hist_line["history=".len()..].trim_matches(|c| c == '[' || c == ']').split(',').filter(|s| !s.trim().is_empty()).map(|s| s.trim().parse().unwrap_or_else(|_| vcore::machinery_fail("bad history"))).collect();
		let u = [vcore::Tier::Quick, vcore::Tier::Thorough].into_iter().flat_map(universes).find(|u| u.label == label).unwrap_or_else(|| vcore::machinery_fail("unknown universe"));
		let model = HistModel {
			u,
			ctx,
			evals: Box::leak(Box::new(AtomicU64::new(0))),
			canon: Box::leak(Box::new(Mutex::new(HashMap::new()))),
			multi_history_contents: Box::leak(Box::new(Mutex::new(HashMap::new()))),
		};
		// the confluence oracle needs the canonical history of the same content first
		let mut sorted = history.clone();
		sorted.sort();
		model.check_state(&sorted);
		model.check_state(&history);
		// determinism: the same history observed twice gives the same bytes
		let a = observe(&model.u, &history).text;
		let b = observe(&model.u, &history).text;
		if a != b {
			vcore::machinery_fail("replay is not deterministic");
		}
	} else {
		// a line-sequence case
		let text = body.trim_end_matches('\n').to_owned() + "\n";
		let real = vcore::guard(|| {
			let r: anyhow::Result<Mappings<2, ()>> = quill::tiny_v2::read(&mut text.as_bytes());
			r.map(|q| mapmodel::from_quill(&q)).map_err(|e| format!("{e:#}"))
		});
		let reference = tiny::parse(&text);
		println!("real: {real:?}\nreference: {reference:?}");
		match (real, reference) {
			(Ok(Ok(Ok(seen))), Ok(want)) if seen == want => {},
			(Ok(Err(_)), _) => {},
			_ => ctx.diff("lines:replay", "line-sequence replay disagrees", || text.clone()),
		}
	}
	ctx.finish(json!({"states": 1, "transitions": 1, "traces_validated_against_impl": 1, "samples": ["replay"]}), &[]);
}
