//! C03 — spaces of the second extension pass (the gap patterns of `tools/PATTERNS.md` applied to the Tiny v2
//! reader and writer). All contents go through the one judge of `sweeps.rs` (same oracles, same keys), all texts
//! for the reader through `lines::judge_text`.
//!
//! * F `feature_sweep`  second-order placement: a fixed skeleton (class W, class X with three fields and three
//!                      methods of two parameters each, class Z) in which one *feature* — being present, carrying a
//!                      comment, carrying non-source names, carrying names equal to the source name — is switched
//!                      per entry by every mask of 15 bits; every entry has its own comment text and names, so that
//!                      anything that leaks from an entry to a neighbour (a reused buffer, a fast path) is visible
//! * T `text_sweep`     text is bytes: every text slot of the format (namespace, class / field / method / parameter
//!                      name in the first and the last namespace, class names inside descriptors, comment of every
//!                      level) filled with k1 ASCII characters, one character of 1/2/3/4 UTF-8 bytes, k2 ASCII
//!                      characters — the character last at every length up to 140, first and second at the lengths
//!                      where messages are usually cut; lines around the 8 KiB and 64 KiB buffer sizes
//! * R `refusal_sweep`  the same texts in *refusing* situations of the reader (an entry stated twice on every level,
//!                      a second comment, rows with a cell too many / too few, a line without parent, header errors,
//!                      invalid descriptors / indices / names): the error message quotes the offending text
//! * O `odd_sweep`      odd-but-legal values, alone and in pairs of siblings: names that are tag letters of the
//!                      format, `$` at the end, blanks at either end, backslashes, parentheses, `<init>`; equal
//!                      target names of two siblings; names equal to the source name; odd and equal namespace names;
//!                      parameter indices around every integer width
//! * E `env_sweep`      the environment answers differently: `read` through scripted `Read`s (requests served
//!                      short: chunk sizes, `BufReader`s, one boundary at every byte offset, periodic boundaries,
//!                      `Interrupted`; an I/O error after every prefix), `write` through scripted `Write`s (partial
//!                      accepts, `Interrupted`, a slice of exactly the size; a writer failing after every prefix)
//! * W `wide`           one class with several hundred fields and methods, one method with several hundred parameters

use std::collections::BTreeMap;
use mapmodel::{MClass, MField, MMethod, MParam, MSet, Row};
use quill::tree::mappings::Mappings;
use rayon::prelude::*;
use super::io;
use super::lines;
use super::sweeps::{self, judge, SweepOut};
use vcore::{json, Ctx, Stats};

fn fail(what: &str) -> ! {
	vcore::machinery_fail(&format!("c03 extra generator: {what}"))
}

fn some(s: &str) -> Option<String> {
	Some(s.to_owned())
}

// ---------------------------------------------------------------------------------------------
// F: feature placement

pub const FEATURES: [&str; 4] = ["present", "commented", "named", "identity"];
pub const FEATURE_BITS: u32 = 15;

#[derive(Clone, Copy, PartialEq)]
enum NameState {
	/// no name besides the source name (a parameter: no name at all)
	Bare,
	/// a name in the last namespace, none in the middle ones
	Named,
	/// the source name in every namespace
	Identity,
}

struct EntryState {
	present: bool,
	commented: bool,
	names: NameState,
}

fn entry_state(feature: usize, mask: u32, bit: u32) -> EntryState {
	let on = mask & (1 << bit) != 0;
	match feature {
		0 => EntryState { present: on, commented: true, names: NameState::Named },
		1 => EntryState { present: true, commented: on, names: NameState::Named },
		2 => EntryState { present: true, commented: false, names: if on { NameState::Named } else { NameState::Bare } },
		3 => EntryState { present: true, commented: false, names: if on { NameState::Identity } else { NameState::Named } },
		_ => fail("feature"),
	}
}

/// row of a class / field / method (`src` given) or of a parameter (`src` = its source name if it has one)
fn feature_row(n: usize, src: Option<&str>, dst: &str, s: NameState, is_param: bool) -> Row {
	let mut r: Row = vec![None; n];
	match s {
		NameState::Bare => {
			if !is_param {
				r[0] = src.map(|x| x.to_owned());
			}
		},
		NameState::Named => {
			r[0] = src.map(|x| x.to_owned());
			r[n - 1] = some(dst);
		},
		NameState::Identity => {
			// a parameter without a source name gets one here: "equal to the source name" needs a source name
			let name = src.map(|x| x.to_owned()).unwrap_or_else(|| dst.to_owned());
			for c in r.iter_mut() {
				*c = Some(name.clone());
			}
		},
	}
	r
}

fn feature_doc(id: &str, s: &EntryState) -> Option<String> {
	// every entry its own text, with an escape and a non-ASCII character
	if s.commented { Some(format!("doc of {id}\nü\\{id}")) } else { None }
}

/// a class with `fields` and `methods` (each method with parameters 0 and 1); `bit_of(kind, i, j)` gives the mask bit
fn feature_class(n: usize, feature: usize, mask: u32, key: &str, fields: &[(&str, &str)], methods: &[(&str, &str)], bit_of: &dyn Fn(u8, usize, usize) -> u32) -> Option<Option<MClass>> {
	let tag = key.rsplit('/').next().unwrap_or(key);
	let cs = entry_state(feature, mask, bit_of(b'c', 0, 0));
	let mut c = MClass { names: feature_row(n, Some(key), &format!("q/N{tag}"), cs.names, false), doc: feature_doc(tag, &cs), ..Default::default() };
	let mut orphan = false;
	for (i, (name, desc)) in fields.iter().enumerate() {
		let s = entry_state(feature, mask, bit_of(b'f', i, 0));
		if !s.present {
			continue;
		}
		orphan |= !cs.present;
		let id = format!("{tag}.f{i}");
		c.fields.insert((name.to_string(), desc.to_string()), MField { names: feature_row(n, Some(name), &format!("n{tag}f{i}"), s.names, false), doc: feature_doc(&id, &s) });
	}
	for (i, (name, desc)) in methods.iter().enumerate() {
		let s = entry_state(feature, mask, bit_of(b'm', i, 0));
		let id = format!("{tag}.m{i}");
		let mut me = MMethod { names: feature_row(n, Some(name), &format!("n{tag}m{i}"), s.names, false), doc: feature_doc(&id, &s), params: BTreeMap::new() };
		for j in 0..2usize {
			let ps = entry_state(feature, mask, bit_of(b'p', i, j));
			if !ps.present {
				continue;
			}
			orphan |= !s.present || !cs.present;
			// parameter 0 has no source name, parameter 1 has one
			let src = if j == 1 { Some(format!("s{tag}{i}")) } else { None };
			let pid = format!("{id}.p{j}");
			me.params.insert(j, MParam { names: feature_row(n, src.as_deref(), &format!("q{tag}{i}{j}"), ps.names, true), doc: feature_doc(&pid, &ps) });
		}
		if !s.present {
			continue;
		}
		orphan |= !cs.present;
		c.methods.insert((name.to_string(), desc.to_string()), me);
	}
	if orphan {
		return None;
	}
	Some(if cs.present { Some(c) } else { None })
}

/// The content of one mask, or `None` if the mask asks for a child below an absent parent.
/// Bits: 0 class X; 1..=3 its fields a:J, b:I, c:I; 4..=6 its methods a:(J)V, b:(I)V, c:(I)V; 7..=12 their parameters
/// (method i: 7+2i, 8+2i); 13 everything of class W (written before X); 14 everything of class Z (written after X).
pub fn feature_content(n: usize, feature: usize, mask: u32) -> Option<MSet> {
	let ns: Vec<&str> = match n {
		2 => vec!["official", "named"],
		3 => vec!["official", "intermediär", "named"],
		4 => vec!["official", "intermediär", "x", "named"],
		_ => fail("namespace count"),
	};
	let mut m = MSet::new(&ns);
	let w = feature_class(n, feature, mask, "p/W", &[("w", "I")], &[("w", "(I)V")], &|_, _, _| 13)?;
	let x = feature_class(n, feature, mask, "p/X", &[("a", "J"), ("b", "I"), ("c", "I")], &[("a", "(J)V"), ("b", "(I)V"), ("c", "(I)V")], &|k, i, j| match k {
		b'c' => 0,
		b'f' => 1 + i as u32,
		b'm' => 4 + i as u32,
		_ => 7 + 2 * i as u32 + j as u32,
	})?;
	let z = feature_class(n, feature, mask, "p/Z", &[("z", "I")], &[("z", "(I)V")], &|_, _, _| 14)?;
	for (k, c) in [("p/W", w), ("p/X", x), ("p/Z", z)] {
		if let Some(c) = c {
			m.classes.insert(k.to_owned(), c);
		}
	}
	Some(m)
}

pub fn feature_case(ctx: &Ctx, out: &mut SweepOut, n: usize, feature: usize, mask: u32) -> bool {
	let Some(m) = feature_content(n, feature, mask) else { return false };
	let seen = judge(ctx, &mut out.stats, &m, &[0, 5], &[5], &|| format!("sweep=feature\nnamespaces={n}\nfeature={feature}\nmask={mask}\n({}; content by the reference printer:)\n{}", FEATURES[feature], sweeps::print_case(&m)));
	out.add(seen);
	if mask == 0b101_0101_0101_0101 {
		out.stats.sample(&format!("feature-{feature}-{n}"), || json!({"kind": "feature mask", "feature": FEATURES[feature], "namespaces": n, "mask": mask, "content": sweeps::print_case(&m)}));
	}
	true
}

/// returns (totals, contents judged per feature)
pub fn feature_sweep(ctx: &Ctx, namespaces: &[usize]) -> (SweepOut, Vec<u64>) {
	let mut total = SweepOut::default();
	let mut per_feature = vec![0u64; FEATURES.len()];
	for &n in namespaces {
		for feature in 0..FEATURES.len() {
			let chunk = 128u32;
			let masks = 1u32 << FEATURE_BITS;
			let (part, judged) = (0..masks / chunk).into_par_iter().fold(|| (SweepOut::default(), 0u64), |(mut out, mut judged), c| {
				vcore::watched(|| format!("sweep=feature\nnamespaces={n}\nfeature={feature}\nmask={}..", c * chunk), || {
					for mask in c * chunk..(c + 1) * chunk {
						judged += feature_case(ctx, &mut out, n, feature, mask) as u64;
					}
				});
				(out, judged)
			}).reduce(|| (SweepOut::default(), 0), |a, b| (a.0.merge(b.0), a.1 + b.1));
			total = total.merge(part);
			per_feature[feature] += judged;
		}
	}
	(total, per_feature)
}

// ---------------------------------------------------------------------------------------------
// T: long texts with one multi-byte character

pub const WIDTH_CHARS: [char; 4] = ['x', 'ü', '☃', '😀'];
pub const TEXT_SLOTS: [&str; 16] = [
	"first namespace", "last namespace", "class source name", "class target name", "field source name", "field target name",
	"class name in a field descriptor", "method source name", "method target name", "class name in a method descriptor",
	"parameter source name", "parameter target name", "class comment", "field comment", "method comment", "parameter comment",
];

fn filler(k: usize, from: usize) -> String {
	(0..k).map(|i| (b'a' + ((from + i) % 10) as u8) as char).collect()
}

pub fn long_text(k1: usize, width: usize, k2: usize) -> String {
	let mut s = filler(k1, 0);
	s.push(WIDTH_CHARS[width]);
	s.push_str(&filler(k2, k1 + 1));
	s
}

/// lengths at which messages and buffers are usually cut
const CUTS: [usize; 14] = [1, 2, 58, 59, 60, 78, 79, 80, 98, 99, 100, 118, 119, 120];

/// (k1, k2): the wide character last at every length up to 140; first and second before `CUTS` characters
pub fn text_grid() -> Vec<(usize, usize)> {
	let mut g: Vec<(usize, usize)> = (0..=140).map(|k| (k, 0)).collect();
	for k in CUTS {
		g.push((0, k));
		g.push((1, k));
	}
	g
}

/// lines around the sizes of the reader's and writer's buffers (8 KiB) and of a 16-bit length: (slot, k1, width)
pub fn big_text_grid(tier: vcore::Tier) -> Vec<(usize, usize, usize)> {
	let mut g = Vec::new();
	let slots: &[usize] = tier.pick(&[12, 15, 3], &[12, 13, 14, 15, 3, 1]);
	for &slot in slots {
		for k1 in 8170..=8200 {
			for w in 0..4 {
				g.push((slot, k1, w));
			}
		}
	}
	let slots64: &[usize] = tier.pick(&[12], &[12, 15, 3]);
	for &slot in slots64 {
		for k1 in 65526..=65540 {
			for w in tier.pick(vec![0, 3], vec![0, 1, 2, 3]) {
				g.push((slot, k1, w));
			}
		}
	}
	g
}

/// One class with a field and a method with a parameter, a second class after it; `text` fills `slot`.
pub fn text_content(slot: usize, text: &str) -> MSet {
	let t = |s: usize, default: &str| if s == slot { text.to_owned() } else { default.to_owned() };
	let ns0 = t(0, "official");
	let ns1 = t(1, "named");
	let mut m = MSet::new(&[ns0.as_str(), ns1.as_str()]);
	let ckey = t(2, "A");
	let doc = |s: usize| if s == slot { Some(text.to_owned()) } else { None };
	let mut c = MClass { names: vec![Some(ckey.clone()), Some(t(3, "X"))], doc: doc(12), ..Default::default() };
	let fname = t(4, "f");
	let fdesc = if slot == 6 { format!("L{text};") } else { "I".to_owned() };
	c.fields.insert((fname.clone(), fdesc), MField { names: vec![Some(fname), Some(t(5, "g"))], doc: doc(13) });
	let mname = t(7, "m");
	let mdesc = if slot == 9 { format!("(L{text};I)V") } else { "(I)V".to_owned() };
	let mut me = MMethod { names: vec![Some(mname.clone()), Some(t(8, "n"))], doc: doc(14), params: BTreeMap::new() };
	me.params.insert(0, MParam { names: vec![Some(t(10, "s")), Some(t(11, "q"))], doc: doc(15) });
	c.methods.insert((mname, mdesc), me);
	m.classes.insert(ckey, c);
	// something follows the entry with the long text (`~` sorts after the ASCII letters)
	let mut b = MClass { names: vec![some("~B"), some("Y")], ..Default::default() };
	b.fields.insert(("f".into(), "I".into()), MField { names: vec![some("f"), None], doc: None });
	m.classes.insert("~B".into(), b);
	m
}

pub fn text_case(ctx: &Ctx, out: &mut SweepOut, slot: usize, k1: usize, width: usize, k2: usize) {
	let text = long_text(k1, width, k2);
	let m = text_content(slot, &text);
	let seen = judge(ctx, &mut out.stats, &m, &[0, 1], &[5], &|| format!("sweep=text\nslot={slot}\nk1={k1}\nwidth={width}\nk2={k2}\n({}: {k1} ASCII characters, {:?}, {k2} ASCII characters)", TEXT_SLOTS[slot], WIDTH_CHARS[width]));
	out.add(seen);
	if (slot, k1, width, k2) == (12, 79, 3, 0) {
		out.stats.sample("text", || json!({"kind": "long text", "slot": TEXT_SLOTS[slot], "ascii_before": k1, "character": WIDTH_CHARS[width].to_string(), "ascii_after": k2}));
	}
}

/// returns (totals, contents with a multi-byte character, contents whose longest line exceeds 8 KiB)
pub fn text_sweep(ctx: &Ctx, tier: vcore::Tier) -> (SweepOut, u64, u64) {
	let grid = text_grid();
	let mut cases: Vec<(usize, usize, usize, usize)> = Vec::new();
	for slot in 0..TEXT_SLOTS.len() {
		for &(k1, k2) in &grid {
			for w in 0..4 {
				cases.push((slot, k1, w, k2));
			}
		}
	}
	let small = cases.len();
	cases.extend(big_text_grid(tier).into_iter().map(|(slot, k1, w)| (slot, k1, w, 0)));
	let multibyte = cases.iter().filter(|c| c.2 > 0).count() as u64;
	let big = (cases.len() - small) as u64;
	let out = cases.par_chunks(16).fold(SweepOut::default, |mut out, chunk| {
		vcore::watched(|| format!("sweep=text\nslot={}\nk1={}\nwidth={}\nk2={}\n(and the 15 cases after it)", chunk[0].0, chunk[0].1, chunk[0].2, chunk[0].3), || {
			for &(slot, k1, w, k2) in chunk {
				text_case(ctx, &mut out, slot, k1, w, k2);
			}
		});
		out
	}).reduce(SweepOut::default, SweepOut::merge);
	(out, multibyte, big)
}

// ---------------------------------------------------------------------------------------------
// R: refusing situations of the reader with the same texts

pub const REFUSALS: [&str; 24] = [
	"class stated twice", "field stated twice", "method stated twice", "parameter stated twice",
	"second class comment", "second field comment", "second method comment", "second parameter comment",
	"comment line with a second cell", "class row with a cell too many", "class row with a cell too few", "member row with a cell too many",
	"comment two levels below a class", "parameter directly below a class", "header of another version", "header with a namespace too few",
	"header with a namespace too many", "header not starting with tiny", "field descriptor that is none", "parameter index that is none",
	"class without source name", "field without source name", "class name with a dot", "unknown section",
];

/// the text of refusing situation `sit` around the offending text `x` (N = 2)
pub fn refusal_text(sit: usize, x: &str) -> String {
	let h = "tiny\t2\t0\ta\tb\n";
	let class = "c\tA\tX\n";
	let method = "\tm\t(I)V\tm\tn\n";
	match sit {
		0 => format!("{h}c\t{x}\tX\n\tf\tI\tf\tg\nc\t{x}\tY\n"),
		1 => format!("{h}{class}\tf\tI\t{x}\tg\n\tf\tI\t{x}\th\n"),
		2 => format!("{h}{class}\tm\t()V\t{x}\tn\n\tm\t()V\t{x}\to\n"),
		3 => format!("{h}{class}{method}\t\tp\t0\t{x}\tq\n\t\tp\t0\t{x}\tr\n"),
		4 => format!("{h}{class}\tc\t{x}\n\tc\t{x}!\n"),
		5 => format!("{h}{class}\tf\tI\tf\tg\n\t\tc\t{x}\n\t\tc\t{x}\n"),
		6 => format!("{h}{class}{method}\t\tc\t{x}\n\t\tp\t0\t\tq\n\t\tc\t{x}!\n"),
		7 => format!("{h}{class}{method}\t\tp\t0\t\tq\n\t\t\tc\t{x}\n\t\t\tc\t!{x}\n"),
		8 => format!("{h}{class}\tc\t{x}\t{x}\n"),
		9 => format!("{h}c\tA\tX\t{x}\n"),
		10 => format!("{h}c\t{x}\n"),
		11 => format!("{h}{class}\tf\tI\tf\t{x}\t{x}\n"),
		12 => format!("{h}{class}\t\tc\t{x}\n"),
		13 => format!("{h}{class}\t\tp\t0\t{x}\tq\n"),
		14 => format!("tiny\t2\t1\t{x}\tb\n{class}"),
		15 => format!("tiny\t2\t0\t{x}\n"),
		16 => format!("tiny\t2\t0\ta\tb\t{x}\n{class}"),
		17 => format!("{x}\t2\t0\ta\tb\n{class}"),
		18 => format!("{h}{class}\tf\t{x}\tf\tg\n"),
		19 => format!("{h}{class}{method}\t\tp\t{x}\t\tq\n"),
		20 => format!("{h}c\t\t{x}\n"),
		21 => format!("{h}{class}\tf\tI\t\t{x}\n"),
		22 => format!("{h}c\t{x}.\tY\n"),
		23 => format!("{h}{class}\tx\t{x}\n\t\tx\t{x}\n\tf\tI\tf\tg\n"),
		_ => fail("refusal situation"),
	}
}

pub fn refusal_sweep(ctx: &Ctx) -> Stats {
	let grid = text_grid();
	let mut cases: Vec<(usize, usize, usize, usize)> = Vec::new();
	for sit in 0..REFUSALS.len() {
		for &(k1, k2) in &grid {
			for w in 0..4 {
				cases.push((sit, k1, w, k2));
			}
		}
	}
	cases.par_chunks(64).fold(Stats::new, |mut st, chunk| {
		vcore::watched(|| format!("refusal sweep from situation {} k1={} width={} k2={}", chunk[0].0, chunk[0].1, chunk[0].2, chunk[0].3), || {
			for &(sit, k1, w, k2) in chunk {
				let text = refusal_text(sit, &long_text(k1, w, k2));
				let before = st.get("both-refuse") + st.get("real-refuses-valid") + st.get("real-refuses-unknown-section");
				lines::judge_text(ctx, &mut st, 2, &text);
				if st.get("both-refuse") + st.get("real-refuses-valid") + st.get("real-refuses-unknown-section") > before {
					st.outcome(&format!("refused: {}", REFUSALS[sit]));
					if w > 0 {
						st.outcome("refused with a multi-byte character in the offending text");
					}
				}
			}
		});
		st
	}).reduce(Stats::new, Stats::merge)
}

// ---------------------------------------------------------------------------------------------
// O: odd-but-legal values

const CLASS_ODD: [&str; 36] = [
	"c", "f", "m", "p", "tiny", "2", "A$", "$", "$$", "A$$B", "A$1", "1", "a b", " a", "a ", " ", "a\\nb", "a\\", "\\", "L", "LA", "(", "a(b)V", "<init>",
	"I", "p/c", "c/p", "A", "é", "-", "#", "p/A$", "A$B", "p/A$B", "c\\t", "Ü/É$ñ",
];
const MEMBER_ODD: [&str; 26] = [
	"c", "f", "m", "p", "tiny", "0", "a$", "$", "a b", " a", "a ", " ", "a\\nb", "a\\", "\\", "(", "a(b)V", "<init>", "<clinit>", "<", "L", "é", "-", "I", "()V", "a\\t",
];
const NS_ODD: [&str; 12] = ["a", "c", "tiny", "2", "0", "a b", " a", "a ", "é", "\\", "a\\nb", "😀"];
pub const INDEX_ODD: [usize; 26] = [
	0, 1, 9, 10, 99, 100, 254, 255, 256, 257, 32767, 32768, 65535, 65536, 65537, (1 << 31) - 1, 1 << 31, (1 << 32) - 1, 1 << 32, (1 << 32) + 1, 1 << 53, (1 << 53) + 1,
	(1 << 63) - 1, 1 << 63, usize::MAX - 1, usize::MAX,
];

fn class_with(key: &str, dst: Option<&str>, doc: Option<&str>) -> MClass {
	let mut c = MClass { names: vec![some(key), dst.map(|s| s.to_owned())], doc: doc.map(|s| s.to_owned()), ..Default::default() };
	c.fields.insert(("f".into(), "I".into()), MField { names: vec![some("f"), some("g")], doc: None });
	c
}

/// All odd-value contents with a label; built once, addressed by index.
pub fn odd_contents() -> Vec<(String, MSet)> {
	let mut out: Vec<(String, MSet)> = Vec::new();
	let classes: Vec<&str> = CLASS_ODD.iter().copied().filter(|s| mapmodel::cls(s).is_ok()).collect();
	let fields: Vec<&str> = MEMBER_ODD.iter().copied().filter(|s| mapmodel::fname(s).is_ok()).collect();
	let methods: Vec<&str> = MEMBER_ODD.iter().copied().filter(|s| mapmodel::mname(s).is_ok()).collect();
	let params: Vec<&str> = MEMBER_ODD.iter().copied().filter(|s| mapmodel::pname(s).is_ok()).collect();
	let ns2 = ["official", "named"];
	// (a) two classes with odd source names; target names ordinary, equal to the source name, absent
	for (i, a) in classes.iter().enumerate() {
		for b in &classes[i + 1..] {
			for variant in 0..3 {
				let mut m = MSet::new(&ns2);
				let (da, db) = match variant { 0 => (Some("X"), Some("Y")), 1 => (Some(*a), Some(*b)), _ => (None, None) };
				m.classes.insert(a.to_string(), class_with(a, da, Some("k")));
				m.classes.insert(b.to_string(), class_with(b, db, None));
				out.push((format!("classes {a:?} and {b:?}, target names {}", ["ordinary", "equal to the source names", "absent"][variant]), m));
			}
		}
	}
	// (b) two classes with odd (also equal) target names
	for a in &classes {
		for b in &classes {
			let mut m = MSet::new(&ns2);
			m.classes.insert("A".into(), class_with("A", Some(a), None));
			m.classes.insert("B".into(), class_with("B", Some(b), Some("k")));
			out.push((format!("classes A and B with target names {a:?} and {b:?}"), m));
		}
	}
	// (c) two fields / two methods with odd source names, (d) with odd (also equal) target names, under one and under two descriptors
	let member_pairs = |out: &mut Vec<(String, MSet)>, names: &[&str], is_field: bool| {
		let descs = if is_field { ["I", "J"] } else { ["()V", "(I)V"] };
		let put = |c: &mut MClass, name: &str, desc: &str, dst: Option<&str>, doc: Option<&str>| {
			let row = vec![some(name), dst.map(|s| s.to_owned())];
			if is_field {
				c.fields.insert((name.to_owned(), desc.to_owned()), MField { names: row, doc: doc.map(|s| s.to_owned()) });
			} else {
				let mut me = MMethod { names: row, doc: doc.map(|s| s.to_owned()), params: BTreeMap::new() };
				me.params.insert(0, MParam { names: vec![None, some("q")], doc: None });
				c.methods.insert((name.to_owned(), desc.to_owned()), me);
			}
		};
		let kind = if is_field { "fields" } else { "methods" };
		for (i, a) in names.iter().enumerate() {
			for b in &names[i + 1..] {
				for variant in 0..3 {
					let mut m = MSet::new(&ns2);
					let mut c = MClass { names: vec![some("A"), some("X")], ..Default::default() };
					let (da, db) = match variant { 0 => (Some("x"), Some("y")), 1 => (Some(*a), Some(*b)), _ => (None, None) };
					put(&mut c, a, descs[0], da, Some("k"));
					put(&mut c, b, descs[0], db, None);
					m.classes.insert("A".into(), c);
					m.classes.insert("B".into(), class_with("B", Some("Y"), None));
					out.push((format!("{kind} {a:?} and {b:?}, target names {}", ["ordinary", "equal to the source names", "absent"][variant]), m));
				}
			}
		}
		for a in names {
			for b in names {
				for same_src in [false, true] {
					let mut m = MSet::new(&ns2);
					let mut c = MClass { names: vec![some("A"), some("X")], ..Default::default() };
					put(&mut c, "a", descs[0], Some(a), None);
					put(&mut c, if same_src { "a" } else { "b" }, if same_src { descs[1] } else { descs[0] }, Some(b), Some("k"));
					m.classes.insert("A".into(), c);
					out.push((format!("{kind} with target names {a:?} and {b:?}{}", if same_src { " (one source name, two descriptors)" } else { "" }), m));
				}
			}
		}
	};
	member_pairs(&mut out, &fields, true);
	member_pairs(&mut out, &methods, false);
	// (e) two parameters with odd (also equal) names in the source or the target namespace
	for a in &params {
		for b in &params {
			for in_src in [false, true] {
				let mut m = MSet::new(&ns2);
				let mut c = MClass { names: vec![some("A"), some("X")], ..Default::default() };
				let mut me = MMethod { names: vec![some("m"), None], doc: None, params: BTreeMap::new() };
				let row = |v: &str| if in_src { vec![some(v), None] } else { vec![None, some(v)] };
				me.params.insert(0, MParam { names: row(a), doc: some("k") });
				me.params.insert(1, MParam { names: row(b), doc: None });
				c.methods.insert(("m".into(), "(II)V".into()), me);
				m.classes.insert("A".into(), c);
				out.push((format!("parameters named {a:?} and {b:?} in the {} namespace", if in_src { "source" } else { "target" }), m));
			}
		}
	}
	// (f) odd (also equal) namespace names, two and three namespaces
	for a in NS_ODD {
		for b in NS_ODD {
			let mut m = MSet::new(&[a, b]);
			m.classes.insert("A".into(), class_with("A", Some("X"), Some("k")));
			out.push((format!("namespaces {a:?} and {b:?}"), m));
			let mut m = MSet::new(&[a, "c", b]);
			let mut c = MClass { names: vec![some("A"), None, some("X")], ..Default::default() };
			c.fields.insert(("f".into(), "I".into()), MField { names: vec![some("f"), some("c"), None], doc: None });
			m.classes.insert("A".into(), c);
			out.push((format!("namespaces {a:?}, \"c\" and {b:?}"), m));
		}
	}
	// (g) parameter indices around every integer width, alone and in pairs
	for (i, a) in INDEX_ODD.iter().enumerate() {
		for b in &INDEX_ODD[i..] {
			let mut m = MSet::new(&ns2);
			let mut c = MClass { names: vec![some("A"), some("X")], ..Default::default() };
			let mut me = MMethod { names: vec![some("m"), some("n")], doc: None, params: BTreeMap::new() };
			me.params.insert(*a, MParam { names: vec![None, some("q")], doc: None });
			me.params.insert(*b, MParam { names: vec![some("s"), None], doc: some("k") });
			c.methods.insert(("m".into(), "(II)V".into()), me);
			c.methods.insert(("m".into(), "(J)V".into()), MMethod { names: vec![some("m"), None], doc: None, params: BTreeMap::new() });
			m.classes.insert("A".into(), c);
			out.push((format!("parameter indices {a} and {b}"), m));
		}
	}
	// (h) every entry carries its source name in every namespace (2, 3, 4 namespaces), members and parameters too
	for n in 2..=4usize {
		for members_too in [false, true] {
			let ns: Vec<&str> = ["a", "b", "c", "d"][..n].to_vec();
			let mut m = MSet::new(&ns);
			let same = |s: &str| -> Row { vec![some(s); n] };
			let other = |s: &str| -> Row { (0..n).map(|j| if j == 0 { some(s) } else { Some(format!("{s}{j}")) }).collect() };
			let mut c = MClass { names: same("p/A$B"), ..Default::default() };
			let row = |s: &str| if members_too { same(s) } else { other(s) };
			c.fields.insert(("f".into(), "I".into()), MField { names: row("f"), doc: None });
			let mut me = MMethod { names: row("m"), doc: None, params: BTreeMap::new() };
			me.params.insert(0, MParam { names: row("s"), doc: None });
			c.methods.insert(("m".into(), "(I)V".into()), me);
			m.classes.insert("p/A$B".into(), c);
			m.classes.insert("p/A".into(), MClass { names: same("p/A"), ..Default::default() });
			out.push((format!("source names in every one of {n} namespaces{}", if members_too { ", members and parameters too" } else { "" }), m));
		}
	}
	out
}

pub fn odd_case(ctx: &Ctx, out: &mut SweepOut, all: &[(String, MSet)], idx: usize) {
	let (label, m) = &all[idx];
	let seen = judge(ctx, &mut out.stats, m, &[0, 1], &[0, 5], &|| format!("sweep=odd\nindex={idx}\n({label}; content by the reference printer:)\n{}", sweeps::print_case(m)));
	out.add(seen);
	if idx == all.len() / 2 {
		out.stats.sample("odd", || json!({"kind": "odd values", "case": label, "content": sweeps::print_case(m)}));
	}
}

pub fn odd_sweep(ctx: &Ctx) -> SweepOut {
	let all = odd_contents();
	(0..all.len()).into_par_iter().chunks(32).fold(SweepOut::default, |mut out, chunk| {
		vcore::watched(|| format!("sweep=odd\nindex={}..", chunk[0]), || {
			for &idx in &chunk {
				odd_case(ctx, &mut out, &all, idx);
			}
		});
		out
	}).reduce(SweepOut::default, SweepOut::merge)
}

pub fn odd_alphabets() -> vcore::Value {
	json!({
		"class_names": CLASS_ODD.iter().filter(|s| mapmodel::cls(s).is_ok()).collect::<Vec<_>>(),
		"field_names": MEMBER_ODD.iter().filter(|s| mapmodel::fname(s).is_ok()).collect::<Vec<_>>(),
		"method_names": MEMBER_ODD.iter().filter(|s| mapmodel::mname(s).is_ok()).collect::<Vec<_>>(),
		"parameter_names": MEMBER_ODD.iter().filter(|s| mapmodel::pname(s).is_ok()).collect::<Vec<_>>(),
		"namespace_names": NS_ODD,
		"parameter_indices": INDEX_ODD.iter().map(|i| i.to_string()).collect::<Vec<_>>(),
	})
}

// ---------------------------------------------------------------------------------------------
// W: wide levels

/// one class with `k` fields and `k` methods, the first method with `k` parameters; every third entry with a comment
pub fn wide_content(k: usize, n: usize) -> MSet {
	let ns: Vec<&str> = ["official", "intermediär", "named", "x"][..n].to_vec();
	let mut m = MSet::new(&ns);
	let row = |src: Option<String>, i: usize, base: &str| -> Row {
		let mut r = vec![src];
		r.extend((1..n).map(|j| if (i + j) % 3 == 0 { None } else { Some(format!("{base}{i}_{j}é")) }));
		r
	};
	let mut c = MClass { names: row(some("p/Wide"), 1, "q/W"), ..Default::default() };
	for i in 0..k {
		let name = format!("f{}", (i * 7919) % k);
		c.fields.insert((name.clone(), if i % 2 == 0 { "I" } else { "J" }.to_owned()), MField { names: row(Some(name), i, "g"), doc: if i % 3 == 0 { Some(format!("field {i}\n")) } else { None } });
		let name = format!("m{}", (i * 7919) % k);
		let mut me = MMethod { names: row(Some(name.clone()), i, "n"), doc: if i % 3 == 1 { Some(format!("method {i}")) } else { None }, params: BTreeMap::new() };
		if i == 0 || i == k - 1 {
			for p in 0..k {
				me.params.insert(p, MParam { names: row(if p % 2 == 0 { None } else { Some(format!("s{p}")) }, p, "q"), doc: if p % 3 == 2 { Some(format!("p{p}\\")) } else { None } });
			}
		}
		c.methods.insert((name, if i % 2 == 0 { "(I)V" } else { "()V" }.to_owned()), me);
	}
	m.classes.insert("p/Wide".into(), c);
	m
}

pub fn wide_case(ctx: &Ctx, out: &mut SweepOut, k: usize, n: usize) {
	let m = wide_content(k, n);
	let seen = judge(ctx, &mut out.stats, &m, &[0, 1, 2, 3, 4, 5], &[1, 5], &|| format!("sweep=wide\nentries={k}\nnamespaces={n}"));
	out.add(seen);
}

pub fn wide(ctx: &Ctx, sizes: &[(usize, usize)]) -> SweepOut {
	sizes.par_iter().fold(SweepOut::default, |mut out, (k, n)| {
		vcore::watched(|| format!("sweep=wide\nentries={k}\nnamespaces={n}"), || wide_case(ctx, &mut out, *k, *n));
		out
	}).reduce(SweepOut::default, SweepOut::merge)
}

// ---------------------------------------------------------------------------------------------
// E: the environment answers differently

#[derive(Default)]
pub struct EnvTotals {
	pub short_serves: u64,
	pub interrupts: u64,
	pub short_accepts: u64,
	pub split_inside_character: u64,
}

impl EnvTotals {
	fn merge(mut self, o: EnvTotals) -> EnvTotals {
		self.short_serves += o.short_serves;
		self.interrupts += o.interrupts;
		self.short_accepts += o.short_accepts;
		self.split_inside_character += o.split_inside_character;
		self
	}
}

const SMALL_TEXT: usize = 3000;

/// the sets that travel through the I/O alphabet
pub fn env_contents(tier: vcore::Tier) -> Vec<(String, MSet)> {
	let mut v = Vec::new();
	// multi-byte characters in every kind of cell, every level with a comment
	let mut small = text_content(12, "ü\n☃\\ 😀");
	small.ns = vec!["official".into(), "näméd".into()];
	if let Some(c) = small.classes.get_mut("A") {
		c.names[1] = some("q/Ü$😀");
		c.fields.insert(("ü".into(), "LÜ;".into()), MField { names: vec![some("ü"), None], doc: some("é") });
		if let Some(me) = c.methods.get_mut(&("m".to_owned(), "(I)V".to_owned())) {
			me.doc = some("l1\nl2");
			me.params.insert(300, MParam { names: vec![None, some("☃")], doc: some("p\t") });
		}
	}
	v.push(("small set with multi-byte characters in every kind of cell".to_owned(), small));
	let mut three = sweeps::bulk_content(3, 3);
	three.ns[1] = "intermediär".into();
	v.push(("three classes, three namespaces".to_owned(), three));
	v.push(("bulk set of 300 classes (text of several buffers)".to_owned(), sweeps::bulk_content(300, 2)));
	// a comment line that is longer than the buffers, with a 4-byte character across the 8 KiB mark
	v.push(("one comment line longer than 8 KiB".to_owned(), text_content(12, &long_text(8185, 3, 9000))));
	if tier == vcore::Tier::Thorough {
		v.push(("bulk set of 1500 classes, four namespaces".to_owned(), sweeps::bulk_content(1500, 4)));
	}
	v
}

fn reader_alphabet(text: &[u8]) -> Vec<io::ReaderKind> {
	use io::ReaderKind as K;
	let len = text.len();
	let mut v = vec![K::Slice, K::CursorVec];
	v.extend([1, 2, 3, 5, 8, 13, 4096, 8191, 8192, 8193].map(K::Chunk));
	v.extend([1, 2, 3, 4, 7, 8, 16, 64, 8192, 100_000].map(K::Buf));
	v.extend([1, 4, 16].map(K::BufOverChunk3));
	v.extend([1, 4, 8192].map(K::Interrupted));
	for period in [2usize, 3, 4, 5, 7, 8, 16, 61, 4096, 8192] {
		for phase in (0..period.min(4)).chain((period > 4).then_some(period - 1)) {
			v.push(K::Periodic { period, phase });
		}
	}
	// one boundary: at every byte offset of a small text; of a larger one on a grid, around every multiple of 4 KiB
	// and inside the first multi-byte characters after each of these multiples
	if len <= SMALL_TEXT {
		v.extend((1..len).map(K::SplitAt));
	} else {
		let mut at: std::collections::BTreeSet<usize> = (1..len).step_by(len / 257 + 1).collect();
		for base in (4096..len).step_by(4096) {
			at.extend(base.saturating_sub(4)..(base + 5).min(len));
			at.extend((base..len).filter(|i| text[*i] & 0xC0 == 0x80).take(12));
		}
		v.extend(at.into_iter().map(K::SplitAt));
	}
	v
}

fn writer_alphabet(len: usize) -> Vec<io::WriterKind> {
	use io::WriterKind as K;
	let mut v = vec![K::CursorVec, K::ExactSlice];
	v.extend([1, 2, 3, 7, 4096, 8191, 8193].map(K::Chunk));
	v.extend([1, 5, 8192].map(K::Interrupted));
	v.extend([1, 3, 8, 64, 8192, 100_000].map(K::Buf));
	let step = if len <= SMALL_TEXT { 1 } else { len / 101 + 1 };
	let mut at: std::collections::BTreeSet<usize> = (1..len).step_by(step).collect();
	for base in (8192..len).step_by(8192) {
		at.extend(base - 2..(base + 3).min(len));
	}
	v.extend(at.into_iter().map(K::SplitAt));
	v
}

enum ReadOut {
	Set(MSet),
	KeyBroken(String),
	Refused(String),
}

fn read_env<const N: usize>(r: &mut dyn std::io::Read) -> Result<ReadOut, vcore::Panic> {
	vcore::guard(|| match quill::tiny_v2::read::<N, ()>(r) {
		Ok(q) => match mapmodel::from_quill(&q) {
			Ok(s) => ReadOut::Set(s),
			Err(k) => ReadOut::KeyBroken(k.0),
		},
		Err(e) => ReadOut::Refused(format!("{e:#}")),
	})
}

fn write_env<const N: usize>(q: &Mappings<N, ()>, mut w: &mut dyn std::io::Write) -> Result<Result<(), String>, vcore::Panic> {
	vcore::guard(|| quill::tiny_v2::write(q, &mut w).map_err(|e| format!("{e:#}")))
}

fn env_case_n<const N: usize>(ctx: &Ctx, idx: usize, label: &str, m: &MSet, st: &mut Stats, tot: &mut EnvTotals) {
	st.eval();
	let head = || format!("sweep=env\ncase={idx}\n({label})\n");
	let q = sweeps::build_perm::<N>(m, 1);
	let reference = match vcore::guard(|| quill::tiny_v2::write_vec(&q).map_err(|e| format!("{e:#}"))) {
		Ok(Ok(v)) => v,
		other => {
			ctx.diff("env:reference-write-failed", &format!("write_vec failed on a set of the domain: {other:?}"), head);
			return;
		},
	};
	let len = reference.len();
	let shown = |extra: String| format!("{}{extra}\n---- text written by write_vec (first 4000 bytes) ----\n{}", head(), String::from_utf8_lossy(&reference[..len.min(4000)]));
	if len > 8192 {
		st.outcome("env: texts larger than 8 KiB");
	}

	// ---- readers: the text is the same text through whichever legal reader it arrives ----
	for kind in reader_alphabet(&reference) {
		let fam = kind.family();
		let (res, trace) = vcore::watched(|| format!("{}reader={kind:?}", head()), || io::with_reader(kind, &reference, |r| read_env::<N>(r)));
		st.outcome("env: reads");
		tot.short_serves += trace.short_serves;
		tot.interrupts += trace.interrupts;
		if let io::ReaderKind::SplitAt(p) = kind {
			if reference[p] & 0xC0 == 0x80 {
				tot.split_inside_character += 1;
			}
		}
		let rp = || shown(format!("reader={kind:?}"));
		match res {
			Err(p) => ctx.diff(&format!("env:read:{fam}-reader:panic"), &format!("read panicked at {} through {kind:?}: {}", p.site, p.msg), rp),
			Ok(ReadOut::Set(s)) if &s == m => st.outcome("env: read gives the set"),
			Ok(ReadOut::Set(s)) => {
				let d = mapmodel::first_difference(m, &s).map(|(_, w)| w).unwrap_or_default();
				ctx.diff(&format!("env:read:{fam}-reader:differs"), &format!("through {kind:?} read gives another set than the one written: {d}"), rp);
			},
			Ok(ReadOut::Refused(e)) => ctx.diff(&format!("env:read:{fam}-reader:refused"), &format!("through {kind:?} read refuses the text write_vec wrote: {e}"), rp),
			Ok(ReadOut::KeyBroken(k)) => ctx.diff(&format!("env:read:{fam}-reader:key-invariant"), &k, rp),
		}
	}
	// a reader that fails (an I/O error, not the end of the file) after a prefix: never a set that lacks entries
	let limits: Vec<usize> = if len <= SMALL_TEXT { (0..=len).collect() } else { (0..len).step_by(len / 61 + 1).chain([8191, 8192, 8193, len - 1, len]).filter(|l| *l <= len).collect() };
	for limit in limits {
		let (res, _) = vcore::watched(|| format!("{}reader=I/O error after {limit} bytes", head()), || io::with_failing_reader(&reference, limit, |r| read_env::<N>(r)));
		st.outcome("env: reads from a failing reader");
		let rp = || shown(format!("reader=I/O error after {limit} bytes"));
		match res {
			Err(p) => ctx.diff("env:read:failing-reader:panic", &format!("read panicked at {} when its reader failed after {limit} bytes: {}", p.site, p.msg), rp),
			Ok(ReadOut::Refused(_)) => st.outcome("env: failing reader: error reported"),
			Ok(ReadOut::Set(s)) if &s == m => st.outcome("env: failing reader: the whole set was read before the error"),
			Ok(ReadOut::Set(s)) => {
				let d = mapmodel::first_difference(m, &s).map(|(_, w)| w).unwrap_or_default();
				ctx.diff("env:read:failing-reader:error-swallowed", &format!("read reports success although its reader failed after {limit} of {len} bytes, and the set lacks entries: {d}"), rp);
			},
			Ok(ReadOut::KeyBroken(k)) => ctx.diff("env:read:failing-reader:key-invariant", &k, rp),
		}
	}

	// ---- writers: the text depends on the content only, not on how the writer accepts it ----
	for kind in writer_alphabet(len) {
		let fam = kind.family();
		let mut res = None;
		let (outer, bytes, trace) = vcore::watched(|| format!("{}writer={kind:?}", head()), || io::with_writer(kind, len, |w| {
			res = Some(write_env::<N>(&q, w));
			Ok(())
		}));
		let res = res.unwrap_or_else(|| fail("writer closure not called"));
		st.outcome("env: writes");
		tot.short_accepts += trace.short_accepts;
		tot.interrupts += trace.interrupts;
		let rp = || shown(format!("writer={kind:?}"));
		match (res, outer) {
			(Err(p), _) => ctx.diff(&format!("env:write:{fam}-writer:panic"), &format!("write panicked at {} through {kind:?}: {}", p.site, p.msg), rp),
			(Ok(Err(e)), _) => ctx.diff(&format!("env:write:{fam}-writer:refused"), &format!("write fails through {kind:?}, a writer that accepts everything in the end: {e}"), rp),
			(Ok(Ok(())), Err(e)) => ctx.diff(&format!("env:write:{fam}-writer:refused"), &format!("flushing {kind:?} after write failed: {e}"), rp),
			(Ok(Ok(())), Ok(())) if bytes == reference => st.outcome("env: write delivers the bytes of write_vec"),
			(Ok(Ok(())), Ok(())) => {
				let at = bytes.iter().zip(reference.iter()).position(|(a, b)| a != b).unwrap_or(bytes.len().min(len));
				ctx.diff(&format!("env:write:{fam}-writer:text-depends-on-writer"), &format!("write reports success through {kind:?}, but {} of {len} bytes arrived (first difference with write_vec at byte {at})", bytes.len()), rp);
			},
		}
	}
	// a writer that fails after a prefix, a writer that accepts nothing more: outside the statement (which says nothing
	// about devices that fail), so only a panic is charged; whether the error comes back is recorded
	let limits: Vec<usize> = if len <= SMALL_TEXT { (0..len).collect() } else { (0..len).step_by(len / 61 + 1).chain([8191, 8192, 8193, len - 1]).filter(|l| *l < len).collect() };
	for limit in limits {
		for full in [false, true] {
			let mut res = None;
			let run = |w: &mut dyn std::io::Write| -> std::io::Result<()> {
				res = Some(write_env::<N>(&q, w));
				Ok(())
			};
			let (_, arrived) = vcore::watched(|| format!("{}writer=stops after {limit} bytes", head()), || if full { io::with_full_writer(limit, run) } else { io::with_failing_writer(limit, run) });
			let what = if full { "full writer" } else { "failing writer" };
			st.outcome("env: writes into a writer that fails");
			match res.unwrap_or_else(|| fail("writer closure not called")) {
				Err(p) => ctx.diff(&format!("env:write:{}:panic", what.replace(' ', "-")), &format!("write panicked at {} when its writer stopped after {limit} bytes: {}", p.site, p.msg), || shown(format!("writer={what} after {limit} bytes"))),
				Ok(Err(_)) => st.outcome(&format!("env: {what}: error reported")),
				Ok(Ok(())) => {
					let _ = arrived;
					st.outcome(&format!("env: {what}: success reported although bytes were lost (outside the statement)"));
				},
			}
		}
	}
	st.sample(&format!("env-{idx}"), || json!({"kind": "set through the I/O alphabet", "set": label, "text_bytes": len, "readers": reader_alphabet(&reference).len(), "writers": writer_alphabet(len).len()}));
}

pub fn env_case(ctx: &Ctx, idx: usize, label: &str, m: &MSet, st: &mut Stats, tot: &mut EnvTotals) {
	match m.n() {
		2 => env_case_n::<2>(ctx, idx, label, m, st, tot),
		3 => env_case_n::<3>(ctx, idx, label, m, st, tot),
		4 => env_case_n::<4>(ctx, idx, label, m, st, tot),
		n => fail(&format!("unsupported namespace count {n}")),
	}
}

pub fn env_sweep(ctx: &Ctx, tier: vcore::Tier) -> (Stats, EnvTotals) {
	if let Err(e) = io::self_test() {
		vcore::machinery_fail(&format!("scripted readers/writers: {e}"));
	}
	let all = env_contents(tier);
	all.par_iter().enumerate().fold(|| (Stats::new(), EnvTotals::default()), |(mut st, mut tot), (idx, (label, m))| {
		// (every call of the real code is watched inside the case)
		env_case(ctx, idx, label, m, &mut st, &mut tot);
		(st, tot)
	}).reduce(|| (Stats::new(), EnvTotals::default()), |a, b| (a.0.merge(b.0), a.1.merge(b.1)))
}
