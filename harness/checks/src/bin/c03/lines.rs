//! C03 — texts that no writer produced, through the real reader ("reading never merges, loses or re-parents").
//!
//! * `run_lines`     every sequence of ≤ L lines over a line alphabet (two and three namespaces), with and
//!                   without the final line break
//! * `run_cells`     every comment cell of ≤ L characters over {backslash, n, x, ü} as the comment of a class
//! * `run_probes`    a handful of inputs outside the statement's domain (TAB / CR in a comment, invalid UTF-8,
//!                   no header): explored for "no panic" only, outcomes recorded

use mapmodel::{tiny, MSet};
use quill::tree::mappings::Mappings;
use rayon::prelude::*;
use vcore::{json, Ctx, Stats};

pub struct LineAlphabet {
	pub label: &'static str,
	pub header: &'static str,
	pub namespaces: usize,
	pub lines: &'static [&'static str],
}

pub const LINES_2: LineAlphabet = LineAlphabet {
	label: "N=2",
	header: "tiny\t2\t0\ta\tb",
	namespaces: 2,
	lines: &[
		"c\tA\tX",
		"c\tB\tY",
		"\tf\tI\tf\tg",
		"\tf\tJ\tf\th",
		"\tm\t()V\tm\tn",
		"\tm\t(I)V\tm\to",
		"\t\tp\t0\t\tq",
		"\t\tp\t1\ts\t",
		"\tc\tdoc1",
		"\t\tc\tdoc2",
		"\t\t\tc\tdoc3",
		"\t\t\t\tc\tdoc4",
		// a section kind the format does not define, at every depth
		"x\tunknown",
		"\tx\tunknown",
		"\t\tx\tunknown",
		"\t\t\tx\tunknown",
		// a row with a cell too few, and a class without a source name
		"c\tA",
		"c\t\tX",
	],
};

pub const LINES_3: LineAlphabet = LineAlphabet {
	label: "N=3",
	header: "tiny\t2\t0\ta\tb\tc",
	namespaces: 3,
	lines: &[
		"c\tA\t\tZ",
		"c\tB\tY\t",
		"\tf\tI\tf\t\th",
		"\tm\t()V\tm\tn\t",
		"\tm\t(I)V\tm\t\t",
		"\t\tp\t0\t\t\tq",
		"\t\tp\t1\t\tr\t",
		"\tc\tdoc1",
		"\t\tc\tdoc2",
		"\t\t\tc\tdoc3",
	],
};

/// odd-but-legal values on the reading side: names that are the tag letters of the format, names equal in both
/// namespaces, a namespace called `tiny`, a comment that is a tag letter, an escaped tab, the empty comment
pub const LINES_ODD: LineAlphabet = LineAlphabet {
	label: "N=2 odd values",
	header: "tiny\t2\t0\tc\ttiny",
	namespaces: 2,
	lines: &[
		"c\tc\tc",
		"c\tf\tm",
		"c\ttiny\t2",
		"\tf\tI\tf\tf",
		"\tf\tI\tc\tp",
		"\tm\t()V\tm\tm",
		"\tm\t()V\tc\t",
		"\t\tp\t0\tp\tp",
		"\t\tp\t1\t\tc",
		"\tc\tc",
		"\t\tc\tc\\tc",
		"\t\t\tc\t",
	],
};

fn real_read(n: usize, bytes: &[u8]) -> Result<Result<Result<MSet, mapmodel::KeyMismatch>, String>, vcore::Panic> {
	vcore::guard(|| match n {
		2 => quill::tiny_v2::read::<2, ()>(&mut &bytes[..]).map(|q: Mappings<2, ()>| mapmodel::from_quill(&q)).map_err(|e| format!("{e:#}")),
		3 => quill::tiny_v2::read::<3, ()>(&mut &bytes[..]).map(|q: Mappings<3, ()>| mapmodel::from_quill(&q)).map_err(|e| format!("{e:#}")),
		_ => quill::tiny_v2::read::<4, ()>(&mut &bytes[..]).map(|q: Mappings<4, ()>| mapmodel::from_quill(&q)).map_err(|e| format!("{e:#}")),
	})
}

/// Why the reference reader refuses a text: only some refusals say something about the property.
#[derive(PartialEq, Eq, Clone, Copy)]
enum Refusal {
	/// a line has no parent one level up: accepting the text means an entry was attached where it does not belong
	Orphan,
	/// the same key (or a second comment) twice below one parent: accepting means two entries were merged or one lost
	Duplicate,
	/// cell counts, missing source names, bad numbers: the statement does not say whether such a text must be refused
	Silent,
}

fn classify(e: &tiny::ParseError) -> Refusal {
	let tiny::ParseError::Malformed(msg) = e;
	let has = |s: &str| msg.contains(s);
	if has("indentation jumps") || has("first line is indented") || has("outside class") || has("outside method") || has("without member") || has("without method") || has("without parameter") || has("comment too deep") {
		Refusal::Orphan
	} else if has("duplicate") || has("second comment") {
		Refusal::Duplicate
	} else {
		Refusal::Silent
	}
}

pub const NO_FINAL_NEWLINE: &str = "(the text below has no final line break)";

pub fn text_of(a: &LineAlphabet, lines: &[&str], final_newline: bool) -> String {
	let mut text = String::from(a.header);
	text.push('\n');
	for l in lines {
		text.push_str(l);
		text.push('\n');
	}
	if !final_newline {
		text.pop();
	}
	text
}

/// Judges one text; used by the sweep and by `--replay`.
pub fn judge_text(ctx: &Ctx, st: &mut Stats, n: usize, full_text: &str) {
	st.eval();
	let text = full_text;
	// replay files end with a line break of their own: a text without one is marked
	let shown = || if text.ends_with('\n') { text.to_owned() } else { format!("{NO_FINAL_NEWLINE}\n{text}") };
	let real = real_read(n, text.as_bytes());
	let reference = tiny::parse_lenient(text);
	match (real, reference) {
		(Err(p), _) => ctx.diff(&format!("lines:panic@{}", p.file()), &format!("reader panicked at {}: {}", p.site, p.msg), shown),
		(Ok(Ok(Err(k))), _) => ctx.diff("lines:key-invariant", &k.0, shown),
		(Ok(Ok(Ok(seen))), Ok((want, unknown))) => {
			st.outcome(if unknown == 0 { "both-accept" } else { "both-accept-skipping-unknown-section" });
			st.distinct.add(&seen);
			if seen != want {
				let (k, what) = mapmodel::first_difference(&want, &seen).unwrap_or(("other".into(), "differ".into()));
				ctx.diff(&format!("lines:{k}"), &format!("accepted text read with a different structure: {what}"), shown);
			}
			if want.classes.values().any(|c| c.methods.len() >= 2 && c.methods.values().last().is_some_and(|m| !m.params.is_empty() || m.doc.is_some())) {
				st.outcome("accepted-with-entry-below-second-method");
			}
			st.sample(if unknown == 0 { "lines" } else { "lines-unknown" }, || json!({"kind": "line-sequence", "text": text, "entries": seen.entries(), "unknown_sections_skipped": unknown}));
		},
		(Ok(Ok(Ok(_))), Err(e)) => match classify(&e) {
			Refusal::Orphan => ctx.diff("lines:accepted-orphan", "reader accepted a text in which a line has no parent one level up", shown),
			Refusal::Duplicate => ctx.diff("lines:accepted-duplicate", &format!("reader accepted a text that states the same entry twice (entries merged or one lost): {e:?}"), shown),
			Refusal::Silent => st.outcome("real-accepts-what-the-statement-leaves-open"),
		},
		(Ok(Err(_)), Ok((_, 0))) => st.outcome("real-refuses-valid"),
		(Ok(Err(_)), Ok(_)) => st.outcome("real-refuses-unknown-section"),
		(Ok(Err(_)), Err(e)) => {
			st.outcome("both-refuse");
			st.outcome(match classify(&e) {
				Refusal::Orphan => "both-refuse:orphan",
				Refusal::Duplicate => "both-refuse:duplicate",
				Refusal::Silent => "both-refuse:other",
			});
		},
	}
}

pub fn run_lines(ctx: &Ctx, a: &LineAlphabet, max_len: usize) -> Stats {
	let total = vcore::enumerate::strings_count(a.lines.len(), max_len);
	let chunk = 256u64;
	(0..total.div_ceil(chunk)).into_par_iter().fold(Stats::new, |mut st, c| {
		vcore::watched(|| format!("line sweep {} chunk {c}", a.label), || {
			for idx in c * chunk..((c + 1) * chunk).min(total) {
				let lines = vcore::enumerate::string_nth(a.lines, max_len, idx);
				judge_text(ctx, &mut st, a.namespaces, &text_of(a, &lines, true));
				if !lines.is_empty() {
					// the same text without the final line break: the last line must not be lost
					judge_text(ctx, &mut st, a.namespaces, &text_of(a, &lines, false));
					st.outcome("texts-without-final-newline");
				}
			}
		});
		st
	}).reduce(Stats::new, Stats::merge)
}

// ---------------------------------------------------------------------------------------------
// comment cells

pub const CELL_CHARS: &[char] = &['\\', 'n', 'x', 'ü'];

/// Is `cell` something an escaping writer can produce (every backslash starts `\\` or `\n`)?
fn well_escaped(cell: &str) -> bool {
	let mut it = cell.chars();
	while let Some(c) = it.next() {
		if c == '\\' && !matches!(it.next(), Some('\\') | Some('n')) {
			return false;
		}
	}
	true
}

pub fn judge_cell(ctx: &Ctx, st: &mut Stats, cell: &str) {
	st.eval();
	let text = format!("tiny\t2\t0\ta\tb\nc\tA\tX\n\tc\t{cell}\n\tf\tI\tf\tg\n");
	match real_read(2, text.as_bytes()) {
		Err(p) => ctx.diff(&format!("cell:panic@{}", p.file()), &format!("reader panicked at {}: {}", p.site, p.msg), || text.clone()),
		Ok(Err(_)) => st.outcome(if well_escaped(cell) { "cell:well-escaped-refused" } else { "cell:lone-backslash-refused" }),
		Ok(Ok(Err(k))) => ctx.diff("cell:key-invariant", &k.0, || text.clone()),
		Ok(Ok(Ok(seen))) => {
			// whatever the comment text, the entries around it are read as stated
			let mut bare = seen.clone();
			let comment = bare.classes.get_mut("A").and_then(|c| c.doc.take());
			let want = tiny::parse("tiny\t2\t0\ta\tb\nc\tA\tX\n\tf\tI\tf\tg\n").unwrap_or_else(|_| vcore::machinery_fail("reference reader"));
			if bare != want {
				let (k, what) = mapmodel::first_difference(&want, &bare).unwrap_or(("other".into(), "differ".into()));
				ctx.diff(&format!("cell:{k}"), &format!("entries next to a comment line read differently: {what}"), || text.clone());
			}
			if well_escaped(cell) {
				st.outcome("cell:well-escaped-read");
				let expected = tiny::unescape(cell);
				if comment.as_deref() != Some(expected.as_str()) {
					ctx.diff("cell:comment", &format!("comment cell {cell:?} read as {comment:?}, the format says {expected:?}"), || text.clone());
				}
			} else {
				// a backslash that starts no escape: the statement does not say what it means
				st.outcome("cell:lone-backslash-read");
				if comment.is_none() {
					ctx.diff("cell:comment-lost", &format!("comment cell {cell:?} accepted and the comment dropped"), || text.clone());
				}
			}
			st.distinct.add(&comment);
		},
	}
}

pub fn run_cells(ctx: &Ctx, max_len: usize) -> Stats {
	let total = vcore::enumerate::strings_count(CELL_CHARS.len(), max_len);
	(0..total).into_par_iter().fold(Stats::new, |mut st, idx| {
		let cell: String = vcore::enumerate::string_nth(CELL_CHARS, max_len, idx).into_iter().collect();
		judge_cell(ctx, &mut st, &cell);
		st
	}).reduce(Stats::new, Stats::merge)
}

// ---------------------------------------------------------------------------------------------
// outside the domain: no panic, outcomes recorded

pub fn run_probes(ctx: &Ctx) -> Stats {
	let mut st = Stats::new();
	let h = "tiny\t2\t0\ta\tb\n";
	let inputs: Vec<(&str, Vec<u8>)> = vec![
		("empty input", vec![]),
		("header only, no line break", b"tiny\t2\t0\ta\tb".to_vec()),
		("header of another version", b"tiny\t2\t1\ta\tb\nc\tA\tX\n".to_vec()),
		("one namespace too many", b"tiny\t2\t0\ta\tb\tc\nc\tA\tX\tY\n".to_vec()),
		("invalid UTF-8 in a name", [h.as_bytes(), b"c\tA\t\xff\n"].concat()),
		("invalid UTF-8 in the header", b"tiny\t2\t0\ta\t\xc3\n".to_vec()),
		("TAB in a comment", format!("{h}c\tA\tX\n\tc\ta\tb\n").into_bytes()),
		("CR at the end of a comment", format!("{h}c\tA\tX\n\tc\ta\r\n").into_bytes()),
		("CR LF line ends", format!("{h}c\tA\tX\r\n\tf\tI\tf\tg\r\n").replace("b\n", "b\r\n").into_bytes()),
		("blank line", format!("{h}c\tA\tX\n\n\tf\tI\tf\tg\n").into_bytes()),
		("properties section below the header", format!("{h}\tescaped-names\nc\tA\tX\n").into_bytes()),
		("parameter index not a number", format!("{h}c\tA\tX\n\tm\t()V\tm\tn\n\t\tp\tx\t\tq\n").into_bytes()),
		("parameter index 2^64", format!("{h}c\tA\tX\n\tm\t()V\tm\tn\n\t\tp\t18446744073709551616\t\tq\n").into_bytes()),
	];
	for (what, bytes) in &inputs {
		st.eval();
		match real_read(2, bytes) {
			Err(p) => ctx.diff(&format!("probe:panic@{}", p.file()), &format!("reader panicked on {what} at {}: {}", p.site, p.msg), || format!("probe={what}\nbytes={}", vcore::hex(bytes))),
			Ok(Err(_)) => st.outcome(&format!("probe:{what}:refused")),
			Ok(Ok(_)) => st.outcome(&format!("probe:{what}:accepted")),
		}
	}
	// writer side: comments with TAB / CR are outside the quantifier; no panic, outcome recorded
	for (what, comment) in [("TAB in a comment", "a\tb"), ("CR at the end of a comment", "a\r"), ("CR LF inside a comment", "a\r\nb")] {
		st.eval();
		let m = super::sweeps::comment_content(comment, 0);
		let r = vcore::guard(|| {
			let q = super::sweeps::build_perm::<2>(&m, 0);
			let t = quill::tiny_v2::write_vec(&q).map_err(|e| format!("{e:#}"))?;
			let back: Mappings<2, ()> = quill::tiny_v2::read(&mut &t[..]).map_err(|e| format!("{e:#}"))?;
			mapmodel::from_quill(&back).map_err(|k| k.0)
		});
		match r {
			Err(p) => ctx.diff(&format!("probe:panic@{}", p.file()), &format!("panic on {what} at {}: {}", p.site, p.msg), || format!("probe=written {what}")),
			Ok(Err(_)) => st.outcome(&format!("probe:written {what}:refused")),
			Ok(Ok(back)) => st.outcome(&format!("probe:written {what}:{}", if back == m { "round-trips" } else { "read back differently" })),
		}
	}
	st
}
