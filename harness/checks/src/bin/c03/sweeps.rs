//! C03 — exhaustive input-shape sweeps that complement the insertion-history engine of `c03.rs`.
//!
//! * `judge`            one content (reference model) × several insertion orders through the real writer,
//!                      reader and writer again; all oracles of the statement (helpers shared by all sweeps)
//! * `content_sweep`    every mapping set of a small universe (mapmodel::gen::Space) × every permutation of the
//!                      siblings of every level
//! * `comment_sweep`    every comment text of length ≤ L over a character alphabet, on every level
//! * `bulk`             a few large sets (text larger than the writer's and the reader's buffers)
//!
//! Helpers that would fit a shared crate (kept here because only this checker may be edited):
//! `perm_nth`, `build_perm`, `ref_print_perm`.

use std::collections::BTreeMap;
use mapmodel::{tiny, MClass, MField, MMethod, MParam, MSet, Row};
use mapmodel::gen::{self, ClassU, FieldU, MethodU, ParamU};
use quill::tree::mappings::{
	ClassMapping, ClassNowodeMapping, FieldMapping, FieldNowodeMapping, JavadocMapping, Mappings, MethodMapping,
	MethodNowodeMapping, ParameterKey, ParameterMapping, ParameterNowodeMapping,
};
use quill::tree::NodeInfo;
use rayon::prelude::*;
use vcore::{json, Ctx, Stats};

/// The `k`-th arrangement of `0..n`. For n ≤ 8: the k-th permutation in lexicographic order (k mod n!), so
/// `0..n!` enumerates all of them. For larger n a fixed family: identity, reversed, rotations, strides.
pub fn perm_nth(n: usize, k: usize) -> Vec<usize> {
	if n <= 1 {
		return (0..n).collect();
	}
	if n <= 8 {
		let fact: usize = (1..=n).product();
		let mut k = k % fact;
		let mut pool: Vec<usize> = (0..n).collect();
		let mut out = Vec::with_capacity(n);
		let mut f = fact;
		for i in 0..n {
			f /= n - i;
			let d = k / f;
			k %= f;
			out.push(pool.remove(d));
		}
		return out;
	}
	match k % 6 {
		0 => (0..n).collect(),
		1 => (0..n).rev().collect(),
		2 => (0..n).map(|i| (i + n / 2) % n).collect(),
		3 => (0..n).step_by(2).chain((1..n).step_by(2)).collect(),
		4 => (1..n).step_by(2).rev().chain((0..n).step_by(2)).collect(),
		_ => {
			// a stride coprime to n
			let mut s = 7usize;
			while gcd(s, n) != 1 {
				s += 2;
			}
			(0..n).map(|i| (i * s + 3) % n).collect()
		},
	}
}

fn gcd(a: usize, b: usize) -> usize {
	if b == 0 { a } else { gcd(b, a % b) }
}

fn permuted<'a, K, V>(m: &'a BTreeMap<K, V>, k: usize) -> Vec<(&'a K, &'a V)> {
	let v: Vec<(&K, &V)> = m.iter().collect();
	perm_nth(v.len(), k).into_iter().map(|i| v[i]).collect()
}

fn fail(what: &str) -> ! {
	vcore::machinery_fail(&format!("c03 generator: {what}"))
}

fn names<const N: usize, T>(row: &Row, f: impl Fn(&str) -> anyhow::Result<T>) -> quill::tree::names::Names<N, T>
where
	T: AsRef<java_string::JavaStr> + std::fmt::Debug,
{
	let v: Vec<Option<T>> = row.iter().map(|c| c.as_deref().map(|s| f(s).unwrap_or_else(|e| fail(&format!("invalid name {s:?}: {e}"))))).collect();
	let arr: [Option<T>; N] = v.try_into().unwrap_or_else(|_| fail("row length"));
	quill::tree::names::Names::try_from(arr).unwrap_or_else(|e| fail(&format!("names: {e}")))
}

/// Builds the real object for the content `m`, inserting the siblings of every level in the `k`-th arrangement
/// of their key order (public IndexMaps only).
pub fn build_perm<const N: usize>(m: &MSet, k: usize) -> Mappings<N, ()> {
	let ns: Vec<&str> = m.ns.iter().map(|s| s.as_str()).collect();
	let ns: [&str; N] = ns.try_into().unwrap_or_else(|_| fail("ns length"));
	let mut q: Mappings<N, ()> = Mappings::from_namespaces(ns).unwrap_or_else(|e| fail(&format!("{e}")));
	for (key, c) in permuted(&m.classes, k) {
		let mut qc: ClassNowodeMapping<N> = ClassNowodeMapping::new(ClassMapping { names: names(&c.names, mapmodel::cls) });
		qc.javadoc = c.doc.clone().map(JavadocMapping);
		for ((name, desc), f) in permuted(&c.fields, k) {
			let mut qf: FieldNowodeMapping<N> = FieldNowodeMapping::new(FieldMapping { desc: mapmodel::fdesc(desc).unwrap_or_else(|_| fail("fdesc")), names: names(&f.names, mapmodel::fname) });
			qf.javadoc = f.doc.clone().map(JavadocMapping);
			let fk = duke::tree::field::FieldNameAndDesc { name: mapmodel::fname(name).unwrap_or_else(|_| fail("fname")), desc: mapmodel::fdesc(desc).unwrap_or_else(|_| fail("fdesc")) };
			if qc.fields.insert(fk, qf).is_some() {
				fail("duplicate field");
			}
		}
		for ((name, desc), me) in permuted(&c.methods, k) {
			let mut qm: MethodNowodeMapping<N> = MethodNowodeMapping::new(MethodMapping { desc: mapmodel::mdesc(desc).unwrap_or_else(|_| fail("mdesc")), names: names(&me.names, mapmodel::mname) });
			qm.javadoc = me.doc.clone().map(JavadocMapping);
			for (idx, p) in permuted(&me.params, k) {
				let mut qp: ParameterNowodeMapping<N> = ParameterNowodeMapping::new(ParameterMapping { index: *idx, names: names(&p.names, mapmodel::pname) });
				qp.javadoc = p.doc.clone().map(JavadocMapping);
				qm.parameters.insert(ParameterKey { index: *idx }, qp);
			}
			let mk = duke::tree::method::MethodNameAndDesc { name: mapmodel::mname(name).unwrap_or_else(|_| fail("mname")), desc: mapmodel::mdesc(desc).unwrap_or_else(|_| fail("mdesc")) };
			if qc.methods.insert(mk, qm).is_some() {
				fail("duplicate method");
			}
		}
		if q.classes.insert(mapmodel::cls(key).unwrap_or_else(|_| fail("cls")), qc).is_some() {
			fail("duplicate class");
		}
	}
	q
}

fn push_row(out: &mut String, row: &Row) {
	for c in row {
		out.push('\t');
		if let Some(c) = c {
			out.push_str(c);
		}
	}
	out.push('\n');
}

/// Reference printer (from the format description) that lists the siblings of every level in the `k`-th
/// arrangement of their key order, methods before fields when `k` is odd: a valid Tiny v2 file for `m` whose
/// line order is not the real writer's.
pub fn ref_print_perm(m: &MSet, k: usize) -> String {
	let mut o = String::from("tiny\t2\t0");
	for n in &m.ns {
		o.push('\t');
		o.push_str(n);
	}
	o.push('\n');
	for (_, c) in permuted(&m.classes, k) {
		o.push('c');
		push_row(&mut o, &c.names);
		let fields = |o: &mut String| {
			for ((_, desc), f) in permuted(&c.fields, k) {
				o.push_str(&format!("\tf\t{desc}"));
				push_row(o, &f.names);
				if let Some(d) = &f.doc {
					o.push_str(&format!("\t\tc\t{}\n", tiny::escape(d)));
				}
			}
		};
		let methods = |o: &mut String| {
			for ((_, desc), me) in permuted(&c.methods, k) {
				o.push_str(&format!("\tm\t{desc}"));
				push_row(o, &me.names);
				// the comment of a method may follow its parameters
				if k % 2 == 0 {
					if let Some(d) = &me.doc {
						o.push_str(&format!("\t\tc\t{}\n", tiny::escape(d)));
					}
				}
				for (i, p) in permuted(&me.params, k) {
					o.push_str(&format!("\t\tp\t{i}"));
					push_row(o, &p.names);
					if let Some(d) = &p.doc {
						o.push_str(&format!("\t\t\tc\t{}\n", tiny::escape(d)));
					}
				}
				if k % 2 == 1 {
					if let Some(d) = &me.doc {
						o.push_str(&format!("\t\tc\t{}\n", tiny::escape(d)));
					}
				}
			}
		};
		if k % 2 == 1 {
			methods(&mut o);
			fields(&mut o);
		} else {
			fields(&mut o);
			methods(&mut o);
		}
		// the comment of a class may follow its members
		if let Some(d) = &c.doc {
			o.push_str(&format!("\tc\t{}\n", tiny::escape(d)));
		}
	}
	o
}

pub fn comments_of(m: &MSet) -> Vec<&str> {
	let mut v = Vec::new();
	for c in m.classes.values() {
		v.extend(c.doc.as_deref());
		for f in c.fields.values() {
			v.extend(f.doc.as_deref());
		}
		for me in c.methods.values() {
			v.extend(me.doc.as_deref());
			for p in me.params.values() {
				v.extend(p.doc.as_deref());
			}
		}
	}
	v
}

/// What one judged content looked like (for floors).
#[derive(Default, Clone, Copy)]
pub struct Seen {
	/// some insertion order differed from key order (a level had ≥ 2 siblings)
	pub reordered_builds: u64,
	/// the canonical text lists the members of some class in an order that is not the order of their source names
	pub text_not_in_key_order: bool,
	pub text_len: usize,
}

struct RealRun {
	texts: Vec<Result<Vec<u8>, String>>,
	string0: Result<String, String>,
	reread: Option<Result<Result<MSet, String>, String>>,
	rewritten: Option<Result<Vec<u8>, String>>,
	/// per reference text: (read result projected, rewritten)
	ref_reads: Vec<(Result<Result<MSet, String>, String>, Option<Result<Vec<u8>, String>>)>,
}

fn real_run<const N: usize>(m: &MSet, orders: &[usize], ref_texts: &[String]) -> RealRun {
	let e = |e: anyhow::Error| format!("{e:#}");
	let q0 = build_perm::<N>(m, orders[0]);
	let mut texts = vec![quill::tiny_v2::write_vec(&q0).map_err(e)];
	let string0 = quill::tiny_v2::write_string(&q0).map_err(e);
	for &k in &orders[1..] {
		texts.push(quill::tiny_v2::write_vec(&build_perm::<N>(m, k)).map_err(e));
	}
	let project = |r: anyhow::Result<Mappings<N, ()>>| -> (Result<Result<MSet, String>, String>, Option<Result<Vec<u8>, String>>) {
		match r {
			Ok(back) => (Ok(mapmodel::from_quill(&back).map_err(|k| k.0)), Some(quill::tiny_v2::write_vec(&back).map_err(e))),
			Err(err) => (Err(e(err)), None),
		}
	};
	let (mut reread, mut rewritten) = (None, None);
	if let Ok(t) = &texts[0] {
		let (a, b) = project(quill::tiny_v2::read(&mut &t[..]));
		reread = Some(a);
		rewritten = b;
	}
	let ref_reads = ref_texts.iter().map(|t| project(quill::tiny_v2::read(&mut t.as_bytes()))).collect();
	RealRun { texts, string0, reread, rewritten, ref_reads }
}

/// Are the member lines (kind `f` or `m`) of every class listed in ascending order of (source name, descriptor)?
fn members_in_key_order(text: &str) -> bool {
	let mut last: [Option<(String, String)>; 2] = [None, None];
	for l in text.lines() {
		if l.starts_with("c\t") {
			last = [None, None];
		}
		let slot = if l.starts_with("\tf\t") { 0 } else if l.starts_with("\tm\t") { 1 } else { continue };
		let cells: Vec<&str> = l[1..].split('\t').collect();
		if cells.len() < 3 {
			continue;
		}
		let key = (cells[2].to_owned(), cells[1].to_owned());
		if let Some(prev) = &last[slot] {
			if *prev > key {
				return false;
			}
		}
		last[slot] = Some(key);
	}
	true
}

/// Judges one content: `orders` are arrangement numbers for `build_perm` (the first is the one whose text is read
/// back), `ref_orders` arrangement numbers for reference-printed files fed to the real reader.
/// `case` renders the replayable description. Keys are shared with the history engine.
pub fn judge(ctx: &Ctx, st: &mut Stats, m: &MSet, orders: &[usize], ref_orders: &[usize], case: &dyn Fn() -> String) -> Seen {
	st.eval();
	let mut seen = Seen::default();
	if let Err(e) = m.check() {
		fail(&format!("content not well-formed: {e}"));
	}
	let ref_texts: Vec<String> = ref_orders.iter().map(|k| ref_print_perm(m, *k)).collect();
	// oracle self-check: the reference reader reads every reference text as the content
	for t in &ref_texts {
		if tiny::parse(t).ok().as_ref() != Some(m) {
			fail(&format!("reference printer and reference reader disagree on\n{t}"));
		}
	}
	let run = match m.n() {
		2 => vcore::guard(|| real_run::<2>(m, orders, &ref_texts)),
		3 => vcore::guard(|| real_run::<3>(m, orders, &ref_texts)),
		4 => vcore::guard(|| real_run::<4>(m, orders, &ref_texts)),
		n => fail(&format!("unsupported namespace count {n}")),
	};
	let run = match run {
		Ok(r) => r,
		Err(p) => {
			ctx.diff(&format!("panic@{}", p.file()), &format!("panic at {}: {}", p.site, p.msg), case);
			st.outcome("panic");
			return seen;
		},
	};
	let has_backslash = comments_of(m).iter().any(|c| c.contains('\\'));
	let text = match &run.texts[0] {
		Ok(t) => t,
		Err(e) => {
			ctx.diff("write:refused", &format!("writing a valid mapping set failed: {e}"), case);
			st.outcome("write-refused");
			return seen;
		},
	};
	seen.text_len = text.len();
	let shown = || format!("{}\nwritten text:\n{}", case(), String::from_utf8_lossy(text));
	// write_string is write_vec as a String
	match &run.string0 {
		Ok(s) if s.as_bytes() == &text[..] => {},
		Ok(s) => ctx.diff("write_string:differs-from-write_vec", "write_string and write_vec give different texts for the same object", || format!("{}\nwrite_string:\n{s}", shown())),
		Err(e) => ctx.diff("write_string:refused", &format!("write_string failed where write_vec succeeded: {e}"), shown),
	}
	// order independence
	for (i, t) in run.texts.iter().enumerate().skip(1) {
		if perm_differs(m, orders[0], orders[i]) {
			seen.reordered_builds += 1;
		}
		match t {
			Ok(t) if t == text => {},
			Ok(t) => ctx.diff("order:text-depends-on-insertion-order", "two insertion orders of the same content are written differently", || format!("{}\ninsertion arrangement {} gives:\n{}", shown(), orders[i], String::from_utf8_lossy(t))),
			Err(e) => ctx.diff("write:refused", &format!("writing a valid mapping set failed for insertion arrangement {}: {e}", orders[i]), case),
		}
	}
	// the text is Tiny v2 for exactly this content
	match std::str::from_utf8(text).map_err(|e| e.to_string()).and_then(|t| tiny::parse(t).map_err(|e| format!("{e:?}"))) {
		Ok(stated) => {
			if &stated != m {
				let (k, what) = mapmodel::first_difference(m, &stated).unwrap_or(("other".into(), "differ".into()));
				let key = if has_backslash && k.ends_with("comment") { "text:comment-backslash".to_owned() } else { format!("text:{k}") };
				ctx.diff(&key, &format!("written text does not state the content: {what}"), shown);
			}
		},
		Err(e) => ctx.diff("text:not-tiny-v2", &format!("reference reader cannot read the written text: {e}"), shown),
	}
	if let Ok(t) = std::str::from_utf8(text) {
		seen.text_not_in_key_order = !members_in_key_order(t);
	}
	// read(write(M)) == M
	match &run.reread {
		Some(Ok(Ok(back))) => {
			if back != m {
				let (k, what) = mapmodel::first_difference(m, back).unwrap_or(("other".into(), "differ".into()));
				let key = if has_backslash && k.ends_with("comment") { "roundtrip:comment-backslash".to_owned() } else { format!("roundtrip:{k}") };
				ctx.diff(&key, &format!("read(write(M)) != M: {what}"), shown);
				st.outcome("roundtrip-differs");
			} else {
				st.outcome("roundtrip-ok");
			}
		},
		Some(Ok(Err(k))) => ctx.diff("roundtrip:key-invariant", &format!("key invariant broken after read: {k}"), shown),
		Some(Err(e)) => {
			ctx.diff("roundtrip:read-refused", &format!("reading back the written text failed: {e}"), shown);
			st.outcome("read-refused");
		},
		None => {},
	}
	// fixed point
	match &run.rewritten {
		Some(Ok(t2)) => {
			if t2 != text {
				let key = if has_backslash { "fixpoint:comment-backslash" } else { "fixpoint:write-read-write-differs" };
				ctx.diff(key, "write(read(write(M))) is not byte-identical to write(M)", || format!("{}\nsecond text:\n{}", shown(), String::from_utf8_lossy(t2)));
			}
		},
		Some(Err(e)) => ctx.diff("fixpoint:rewrite-refused", &format!("writing the re-read set failed: {e}"), shown),
		None => {},
	}
	// a valid file for the same content with another line order: read as the content, written as the same bytes
	for (i, (read, rewritten)) in run.ref_reads.iter().enumerate() {
		let file = || format!("{}\nfile given to the reader (reference printer, arrangement {}):\n{}", shown(), ref_orders[i], ref_texts[i]);
		match read {
			Ok(Ok(back)) => {
				st.outcome("reference-file-read");
				if back != m {
					let (k, what) = mapmodel::first_difference(m, back).unwrap_or(("other".into(), "differ".into()));
					ctx.diff(&format!("file-order:read:{k}"), &format!("a valid file listing the same entries in another order is read as a different set: {what}"), file);
				}
			},
			Ok(Err(k)) => ctx.diff("file-order:key-invariant", &format!("key invariant broken after read: {k}"), file),
			Err(e) => {
				// the statement does not say which files must be accepted; a refusal is counted, not charged
				st.outcome("reference-file-refused");
				let _ = e;
			},
		}
		if let (Ok(Ok(back)), Some(rw)) = (read, rewritten) {
			if back == m {
				match rw {
					Ok(t2) if t2 == text => {},
					Ok(t2) => ctx.diff("order:text-depends-on-file-order", "the same content read from a file with another line order is written differently", || format!("{}\nits text:\n{}", file(), String::from_utf8_lossy(t2))),
					Err(e) => ctx.diff("write:refused", &format!("writing a set read from a valid file failed: {e}"), file),
				}
			}
		}
	}
	st.distinct.add(&text[..]);
	seen
}

/// does arrangement `b` insert some level of `m` in another order than arrangement `a`?
fn perm_differs(m: &MSet, a: usize, b: usize) -> bool {
	let d = |n: usize| perm_nth(n, a) != perm_nth(n, b);
	d(m.classes.len()) || m.classes.values().any(|c| d(c.fields.len()) || d(c.methods.len()) || c.methods.values().any(|me| d(me.params.len())))
}

pub fn print_case(m: &MSet) -> String {
	tiny::print(m)
}

// ---------------------------------------------------------------------------------------------
// content sweep

fn rows(n: usize, names: &[&str]) -> Vec<Row> {
	// every subset of the non-source namespaces carries the name
	let opts: Vec<Vec<Option<&str>>> = (1..n).map(|j| vec![None, Some(names[(j - 1) % names.len()])]).collect();
	let refs: Vec<&[Option<&str>]> = opts.iter().map(|v| v.as_slice()).collect();
	gen::tails(&refs)
}

fn pick<T: Clone>(v: Vec<T>, keep: &[usize]) -> Vec<T> {
	keep.iter().filter_map(|i| v.get(*i).cloned()).collect()
}

pub struct ContentSpace {
	pub label: String,
	pub universe: gen::Universe,
}

/// The universes of the content sweep: one per namespace count. Every entry is absent or present with each of
/// its row variants (which non-source names are missing) and comment variants, children only below present
/// parents. Quick: N=2 rich and complete, N=3 and N=4 lean; thorough: N=3 and N=4 rich as well.
pub fn content_spaces(tier: vcore::Tier) -> Vec<ContentSpace> {
	let mut out = Vec::new();
	let thorough = tier == vcore::Tier::Thorough;
	for n in [2usize, 3, 4] {
		let ns: Vec<String> = ["official", "intermediär", "named", "x"][..n].iter().map(|s| s.to_string()).collect();
		let rich = n == 2 || thorough;
		// row variants used where a member is varied: N=2 and N=3 every subset of the non-source namespaces;
		// N=4: none, (last only,) hole in the middle (first and last), all
		let few: Vec<usize> = match n { 2 => vec![0, 1], 3 => vec![0, 1, 2, 3], _ if rich => vec![0, 1, 5, 7], _ => vec![0, 5, 7] };
		// the single row of members that are not varied: a hole at the end for N=3, in the middle for N=4
		let one_idx = match n { 2 => 1, 3 => 2, _ => 5 };
		let sel = |v: Vec<Row>| pick(v, &few);
		let one = |v: Vec<Row>| pick(v, &[one_idx]);
		// parameter rows include the source cell
		let prow = |src: Option<&str>, tails: Vec<Row>| -> Vec<Row> {
			tails.into_iter().map(|t| {
				let mut r = vec![src.map(|s| s.to_owned())];
				r.extend(t);
				r
			}).collect()
		};
		let mut p0 = prow(None, sel(rows(n, &["q", "r", "s"])));
		p0.extend(prow(Some("s0"), pick(rows(n, &["q", "r", "s"]), &[0])));
		let p300_rows: Vec<usize> = if rich { vec![0, few[1]] } else { vec![0] };
		let p300 = prow(None, pick(rows(n, &["q", "r", "s"]), &p300_rows));
		// members: field names and descriptors order in opposite directions (a/J before b/I by name, after it by
		// descriptor); b and c share a descriptor and their non-source names; the methods likewise, plus an
		// overload of a with the same non-source names; the two parameters can both be nameless
		let class_main = ClassU {
			key: "p/A$B".into(),
			rows: sel(rows(n, &["q/X$Y", "É", "𝒳/z"])),
			docs: gen::docs(&[None, Some("ü\nx\\")]),
			fields: vec![
				FieldU { name: "a".into(), desc: "J".into(), rows: sel(rows(n, &["fa", "ü", "x"])), docs: if rich { gen::docs(&[None, Some("d")]) } else { gen::docs(&[None]) } },
				FieldU { name: "b".into(), desc: "I".into(), rows: one(rows(n, &["fb", "fb", "fb"])), docs: gen::docs(&[None]) },
				FieldU { name: "c".into(), desc: "I".into(), rows: pick(rows(n, &["fb", "fb", "fb"]), &[0, one_idx]), docs: gen::docs(&[None]) },
			],
			methods: vec![
				MethodU {
					name: "a".into(), desc: "(J)V".into(), rows: sel(rows(n, &["ma", "λ", "y"])), docs: gen::docs(&[None, Some("l1\nl2")]),
					params: vec![
						ParamU { index: 0, rows: p0, docs: gen::docs(&[None, Some("pd é\\n")]) },
						ParamU { index: 300, rows: p300, docs: gen::docs(&[None]) },
					],
				},
				MethodU { name: "b".into(), desc: "(I)V".into(), rows: one(rows(n, &["mb", "mb", "mb"])), docs: gen::docs(&[None]), params: vec![] },
				// the method that is written first of its class (smallest descriptor) may have a parameter too, so that
				// every placement of methods with and without parameters occurs: with - without, without - with, …
				MethodU {
					name: "a".into(), desc: "(I)V".into(), rows: one(rows(n, &["ma", "λ", "y"])), docs: gen::docs(&[None]),
					params: vec![ParamU { index: 1, rows: prow(Some("s1"), pick(rows(n, &["q", "r", "s"]), &[one_idx])), docs: if rich { gen::docs(&[None, Some("first")]) } else { gen::docs(&[None]) } }],
				},
			],
			optional: true,
		};
		let class_other = ClassU { key: "p/A".into(), rows: pick(rows(n, &["q/X", "É", "z"]), &[0, few[few.len() - 1]]), docs: gen::docs(&[None]), fields: vec![], methods: vec![], optional: true };
		let mut classes = vec![class_main, class_other];
		if rich {
			classes.push(ClassU { key: "É".into(), rows: one(rows(n, &["e", "e", "e"])), docs: gen::docs(&[None, Some("")]), fields: vec![], methods: vec![], optional: true });
		}
		out.push(ContentSpace { label: format!("content/N={n}/{}", if rich { "rich" } else { "lean" }), universe: gen::Universe { ns, classes } });
	}
	out
}

#[derive(Default)]
pub struct SweepOut {
	pub stats: Stats,
	pub reordered_builds: u64,
	pub texts_not_in_key_order: u64,
	pub max_text_len: usize,
	pub cases: u64,
}

impl SweepOut {
	pub fn merge(mut self, o: SweepOut) -> SweepOut {
		self.stats = self.stats.merge(o.stats);
		self.reordered_builds += o.reordered_builds;
		self.texts_not_in_key_order += o.texts_not_in_key_order;
		self.max_text_len = self.max_text_len.max(o.max_text_len);
		self.cases += o.cases;
		self
	}
	pub fn add(&mut self, s: Seen) {
		self.reordered_builds += s.reordered_builds;
		self.texts_not_in_key_order += s.text_not_in_key_order as u64;
		self.max_text_len = self.max_text_len.max(s.text_len);
		self.cases += 1;
	}
}

pub const CONTENT_ORDERS: [usize; 6] = [0, 1, 2, 3, 4, 5];
/// reference-printed files per content: key order with fields and comments first; reversed with methods first and comments last
pub const CONTENT_REF_ORDERS: [usize; 2] = [0, 5];

pub fn content_case(ctx: &Ctx, out: &mut SweepOut, label: &str, space: &gen::Space, idx: u64) {
	let m = space.nth(idx);
	// the largest level of these universes has 3 siblings: 6 arrangements are all permutations of every level
	let seen = judge(ctx, &mut out.stats, &m, &CONTENT_ORDERS, &CONTENT_REF_ORDERS, &|| format!("sweep=content\nspace={label}\nindex={idx}\ncontent (reference printer):\n{}", print_case(&m)));
	out.add(seen);
	if idx == space.len() / 2 {
		// a fixed index, so that the evidence does not depend on which worker came first
		out.stats.sample(label, || json!({"kind": "content", "space": label, "index": idx, "entries": m.entries(), "content": print_case(&m)}));
	}
}

pub fn content_sweep(ctx: &Ctx, spaces: &[ContentSpace]) -> (SweepOut, Vec<(String, u64)>) {
	let mut total = SweepOut::default();
	let mut sizes = Vec::new();
	for s in spaces {
		let space = gen::Space::new(&s.universe);
		let len = space.len();
		sizes.push((s.label.clone(), len));
		let chunk = 64u64;
		let chunks = len.div_ceil(chunk);
		let part = (0..chunks).into_par_iter().fold(SweepOut::default, |mut out, c| {
			vcore::watched(|| format!("sweep=content\nspace={}\nindex={}..", s.label, c * chunk), || {
				for idx in c * chunk..((c + 1) * chunk).min(len) {
					content_case(ctx, &mut out, &s.label, &space, idx);
				}
			});
			out
		}).reduce(SweepOut::default, SweepOut::merge);
		total = total.merge(part);
	}
	(total, sizes)
}

// ---------------------------------------------------------------------------------------------
// comment sweep

pub const COMMENT_CHARS: &[char] = &['\\', '\n', 'n', 'ü', '😀', ' ', '\t', '\r', 't'];
pub const COMMENT_LEVELS: usize = 5;

fn r(cells: &[Option<&str>]) -> Row {
	mapmodel::row(cells)
}

/// One class with one field and one method with one parameter; `level` 0..=3 puts `text` on the class, field,
/// method, parameter; 4 puts it on all of them.
pub fn comment_content(text: &str, level: usize) -> MSet {
	let doc = |l: usize| if level == l || level == 4 { Some(text.to_owned()) } else { None };
	let mut m = MSet::new(&["o", "n"]);
	let mut c = MClass { names: r(&[Some("A"), Some("X")]), doc: doc(0), ..Default::default() };
	c.fields.insert(("f".into(), "I".into()), MField { names: r(&[Some("f"), Some("g")]), doc: doc(1) });
	let mut me = MMethod { names: r(&[Some("m"), None]), doc: doc(2), params: BTreeMap::new() };
	me.params.insert(0, MParam { names: r(&[None, Some("q")]), doc: doc(3) });
	c.methods.insert(("m".into(), "(I)V".into()), me);
	m.classes.insert("A".into(), c);
	m
}

pub fn comment_case(ctx: &Ctx, out: &mut SweepOut, max_len: usize, idx: u64, level: usize) -> String {
	let text: String = vcore::enumerate::string_nth(COMMENT_CHARS, max_len, idx).into_iter().collect();
	let m = comment_content(&text, level);
	let seen = judge(ctx, &mut out.stats, &m, &[0], &[0], &|| format!("sweep=comment\nmax_len={max_len}\nindex={idx}\nlevel={level}\ncomment={text:?}"));
	out.add(seen);
	text
}

/// returns (totals, comments with a non-ASCII character and an escape, comments ending in a backslash or space)
pub fn comment_sweep(ctx: &Ctx, max_len: usize) -> (SweepOut, u64, u64) {
	let total = vcore::enumerate::strings_count(COMMENT_CHARS.len(), max_len);
	let chunk = 32u64;
	let (out, mixed, edge) = (0..total.div_ceil(chunk)).into_par_iter().fold(|| (SweepOut::default(), 0u64, 0u64), |(mut out, mut mixed, mut edge), c| {
		vcore::watched(|| format!("sweep=comment\nmax_len={max_len}\nindex={}..", c * chunk), || {
			for idx in c * chunk..((c + 1) * chunk).min(total) {
				for level in 0..COMMENT_LEVELS {
					let text = comment_case(ctx, &mut out, max_len, idx, level);
					if level == 0 {
						if !text.is_ascii() && (text.contains('\n') || text.contains('\\')) {
							mixed += 1;
						}
						if text.ends_with('\\') || text.ends_with(' ') || text.starts_with(' ') {
							edge += 1;
						}
						if idx == total / 2 {
							out.stats.sample("comment", || json!({"kind": "comment", "text": text, "placements": COMMENT_LEVELS}));
						}
					}
				}
			}
		});
		(out, mixed, edge)
	}).reduce(|| (SweepOut::default(), 0, 0), |a, b| (a.0.merge(b.0), a.1 + b.1, a.2 + b.2));
	(out, mixed, edge)
}

// ---------------------------------------------------------------------------------------------
// bulk

/// A set with `k` classes, each with three fields, two methods, parameters and comments; names mix ASCII and
/// multi-byte characters so that buffer boundaries fall inside characters somewhere.
pub fn bulk_content(k: usize, n: usize) -> MSet {
	let ns: Vec<&str> = ["official", "intermediär", "named", "x"][..n].to_vec();
	let mut m = MSet::new(&ns);
	let cell = |i: usize, j: usize, s: String| if (i + j) % 3 == 0 { None } else { Some(s) };
	for i in 0..k {
		let key = if i % 4 == 0 { format!("p/Ü{i}$ñ") } else { format!("c{i:03}") };
		let mut names = vec![Some(key.clone())];
		names.extend((1..n).map(|j| cell(i, j, format!("q{j}/𝒳{i}"))));
		let mut c = MClass { names, doc: if i % 5 == 0 { Some(format!("class {i}\nü\\n 😀")) } else { None }, ..Default::default() };
		for (fi, (fname, fdesc)) in [("a", "J"), ("b", "I"), ("ü", "I")].iter().enumerate() {
			let mut names = vec![Some(fname.to_string())];
			names.extend((1..n).map(|j| cell(i + fi, j, format!("f{fi}_{j}é"))));
			c.fields.insert((fname.to_string(), fdesc.to_string()), MField { names, doc: if (i + fi) % 7 == 0 { Some("f\\".into()) } else { None } });
		}
		for (mi, (mname, mdesc)) in [("a", "(J)V"), ("b", "(I)V")].iter().enumerate() {
			let mut names = vec![Some(mname.to_string())];
			names.extend((1..n).map(|j| cell(i + mi + 1, j, format!("m{mi}_{j}"))));
			let mut me = MMethod { names, doc: None, params: BTreeMap::new() };
			for pi in [0usize, 1, 12] {
				if (i + pi) % 2 == 0 {
					let mut names: Row = vec![None];
					names.extend((1..n).map(|j| cell(i + pi, j + 1, format!("p{pi}_{j}"))));
					me.params.insert(pi, MParam { names, doc: if pi == 12 { Some("p\n".into()) } else { None } });
				}
			}
			c.methods.insert((mname.to_string(), mdesc.to_string()), me);
		}
		m.classes.insert(key, c);
	}
	m
}

pub fn bulk_case(ctx: &Ctx, out: &mut SweepOut, k: usize, n: usize) {
	let m = bulk_content(k, n);
	let seen = judge(ctx, &mut out.stats, &m, &[0, 1, 2, 3, 4, 5], &[1, 5], &|| format!("sweep=bulk\nclasses={k}\nnamespaces={n}"));
	out.add(seen);
}

pub fn bulk(ctx: &Ctx, sizes: &[(usize, usize)]) -> SweepOut {
	sizes.par_iter().fold(SweepOut::default, |mut out, (k, n)| {
		vcore::watched(|| format!("sweep=bulk\nclasses={k}\nnamespaces={n}"), || bulk_case(ctx, &mut out, *k, *n));
		out
	}).reduce(SweepOut::default, SweepOut::merge)
}
