//! C04 — applying a mapping diff is exact; diff and apply are inverse.
//!
//! Engine 1 (stateright BFS): a state is a two-namespace mapping set over a small universe (two
//! classes, each with one field and one method with one parameter, a comment slot at every level and
//! on the set itself); an action is one diff from an explicit alphabet (one slot × every action form,
//! and pairs of slots inside one diff). The transition function is the REAL
//! `MappingsDiff::apply_to`: real objects are built from the model state, the real function runs, the
//! result is projected back and compared in lock-step with the reference `mapmodel::diff::apply`
//! (written from the property statement). Successful applications produce the next states, so diffs
//! are applied from non-initial states as well.
//!
//! Engine 2 (exhaustive pair sweep): on the reached state set S, for ordered pairs (A,B) the REAL
//! `MappingsDiff::diff` followed by the real `apply_to` must give B, also when the diff travels
//! through `.tinydiff` text (reference printer → file → real `tiny_v2_diff::read_file`).
//!
//! Engine 3: the full truth table of `quill::apply_diff_option`.
//!
//! Every diff of engine 1 (consistent with the target or not) and the sparse reference diff of every
//! pair of engine 2 also travel through `.tinydiff` text and are then judged like the object form.
//!
//! Engine 4 (`c04/extra.rs`): the pair law of engine 2 over exhaustive universes in which one map has
//! several entries — three fields of one class (two of the same name), three parameters of one
//! method, three classes, two methods and a field of the same name.
//! Engine 5 (`c04/extra.rs`): the diffs of engine 1 applied to targets with a THIRD namespace, either
//! non-first namespace being the target namespace (the other one must stay as it is).
//! Engine 6 (`c04/extra.rs`): the namespace argument of `apply_to` (a name the target does not have).
//! Engine 7 (`c04/text.rs`): every comment string over {a, n, backslash, line break, é, blank} up to a
//! length, and over {backslash, t, r, 0, TAB, carriage return, NUL, 😀} up to a shorter length, as the
//! value of every comment action at every level, through text (all five escapes of Tiny v2).
//! Engine 8 (`c04/text.rs`): damaged texts (line-wise mutations of printed diffs): panics and hangs only.
//! Engine 9 (`c04/odd.rs` `value_space`): one slot of a probed entry (key columns, target name, comment
//! of class / field / method / parameter) takes every value of an alphabet of odd but legal texts (wide
//! characters at the first / a middle / the last position, line-kind letters, blanks, tag letters, `$`,
//! backslashes, the entry's own source name, a sibling's name, case variants, prefixes, extensions,
//! multi-digit parameter indices); per value the family {absent, nameless, base, value, third value}:
//! every ordered pair through the pair law, the diff of every pair on every other set of the family.
//! Engine 10 (`cross_namespace`): the stated old value is what another namespace of the entry holds.
//! Engine 11 (`long_values`): every text is k ASCII characters and a last character of 1-4 bytes, k up to
//! 140, under every one-slot action form on four targets (the refusals quote the values).
//! Engine 12 (`big_texts`): a region with every kind of line moved byte by byte across the offsets
//! 512 … 65536 of the file; a 200 KB comment; pairs of sets with hundreds / thousands of entries.
//! Engine 13 (`damaged_bytes`): files cut after every byte, bytes that are not UTF-8, long damaged
//! lines, odd file names, a missing file, a directory: panics and hangs only.
//! Engine 14 (`namespace_names`): namespace arguments that resemble the target namespace; three-namespace
//! targets whose other namespace is a prefix / an extension / a case variant of the target namespace;
//! namespace actions that state another namespace's name.
//!
//! Clause table (statement and quantifier of C04 → where it is decided):
//!
//! | clause | decided in | space |
//! |---|---|---|
//! | additions appear | `judge_apply` → `classify` against `mapmodel::diff::apply`: cells `L\|add\|absent`, `L\|add\|vacant` | engine 1 (all levels L), 5 (third namespace), 2/4 (diffs of pairs); through text: `judge_text_apply`, engine 7 |
//! | removals disappear with their subtree | same oracle: cells `L\|remove\|matching`; outcome `removal-with-actions-below-applied`; pairs whose B lacks an entry of A that has children | engines 1, 2, 4, 5 |
//! | edits replace the old value | cells `L\|edit\|matching`, `L\|edit-same\|matching` | engines 1, 5, 7 (both sides of comment edits) |
//! | untouched entries stay identical | the result must EQUAL the reference result as a whole set: the other class, sibling entries of the same map (engine 4), names in the other namespaces (engine 5), parameter source names, comments | all engines |
//! | ... in the target namespace | engine 5 (target namespace = second or third of three), engine 6 (a name the set does not have must be refused) | 160 (Q) widened sets × alphabet |
//! | a stated old value that does not match → refused | cells `L\|{remove,edit,edit-same}\|{absent,vacant,mismatching}`: `Ok` is `accepted-inconsistent` | engines 1, 5; through text: engines 1 (text leg), 7 (`remove-other`, `edit-other`) |
//! | an addition that collides → refused | cells `L\|add\|{matching,mismatching}` (and `absent` for comments of a missing entry) | engines 1, 5 |
//! | the WHOLE application is refused, nothing silently wrong | the real result is `Err` or a complete set compared as a whole; two-slot diffs combine a consistent with an inconsistent part | engine 1 (parent+child pairs at every depth, every pair of slots below depth 1 (Q) / 2 (T)) |
//! | apply(diff(A,B), A) = B for sets over the same namespaces | `judge_pair` → `judge_inverse`, A and B also built in other insertion orders; `diff` must succeed when all target names are there | engine 2 (reached sets, capped), engine 4 (exhaustive) |
//! | ... also through the .tinydiff form | text legs of `judge_pair` (reference printer → `read_file` → `apply_to`), in two line orders for engine 4; `judge_text_apply` for single diffs; printer self-check `read_file(print(d)) == d` | engines 1, 2, 4, 7 |
//! | pairs sharing some, all or no keys at every level | engine 4: every subset of three keys at class, field and parameter level, of two at method level, on both sides; engine 2: the sets reached from empty / fully named / half named | |
//! | each of the 4 actions × present/absent target × matching/mismatching old value at class, field, method, parameter and comment level | vacuity floors over `required_cells()`: 109 cells that must refuse, 50 that must succeed, for two and for three namespaces | engines 1, 5 |
//! | (anchor) `apply_diff_option` | engine 3, 9 action forms × 4 targets × 2 types against a table written from the statement | exhaustive |
//! | (anchor) two-column decoding: empty = absent, equal = none | text legs: entry lines without action (sparse diffs), `a a` lines (real diffs), comment columns holding blanks, backslashes, line breaks, non-ASCII (engine 7) | |
//! | ... for every value a name, key or comment can legally have (PATTERNS 1, 5, 7, 9) | the same oracles (`judge_pair`, `judge_apply`, `judge_text_apply`) over engine 9: the value as old and as new value, as key column, stated against a target that holds the base / a third value / nothing; values equal to the source name, to a sibling's name, differing from the base only in case, by a prefix, by a blank | 491 families (Q and T) |
//! | a stated old value that does not match → refused, where ANOTHER namespace holds that value | engine 10 (source name; third namespace before / behind the target namespace), engine 14 (namespace actions stating another namespace's name) | |
//! | ... in the target namespace, chosen by NAME | engine 14: 14 names that resemble `named` must be refused on all one-slot diffs; lock-step with the reference on three-namespace targets whose other namespace is `name` / `named2` / `Named` / `official2`, either order | |
//! | refused with an error (not a panic) whatever the length and the characters of the quoted values (PATTERN 1) | engine 11: `Panicked` is a difference in `classify`; 564 value shapes × 84 one-slot diffs × 4 targets, object and text | |
//! | ... through the .tinydiff form, whatever the size of the file (PATTERNS 2, 3) | engine 12 through `judge_text_apply` / `judge_pair` | buffer boundaries 1024, 4096, 8192 (Q), 512 … 65536 (T) |
//! | the second insertion order really differs | `judge_pair`: where no map has more than two entries (reversed = rotated by one) a third run with A sorted, B reversed | engines 2, 4 (methods), 9 |

use std::collections::{BTreeMap, BTreeSet};
use std::path::{Path, PathBuf};
use std::sync::atomic::{AtomicU64, Ordering};
use std::sync::Mutex;
use mapmodel::diff as mdiff;
use mapmodel::{Act, DClass, DField, DMethod, DParam, MClass, MDiff, MField, MMethod, MParam, MSet, Order, Row};
use quill::tree::mappings::{JavadocMapping, Mappings};
use quill::tree::mappings_diff::{Action, MappingsDiff};
use rayon::prelude::*;
use stateright::{Checker, Model, Property};
use vcore::{json, Ctx, Stats, Value};

#[path = "c04/text.rs"]
mod text;
#[path = "c04/extra.rs"]
mod extra;
#[path = "c04/odd.rs"]
mod odd;

// ---------------------------------------------------------------------------------------------
// the universe

struct NodeSpec {
	/// the two target names this entry can have
	names: [&'static str; 2],
	/// the two comments this entry can have
	docs: [&'static str; 2],
}

struct ClassSpec {
	key: &'static str,
	class: NodeSpec,
	field_key: (&'static str, &'static str),
	field: NodeSpec,
	method_key: (&'static str, &'static str),
	method: NodeSpec,
	param_index: usize,
	/// source-namespace name of the parameter in the "fully named" and "half named" initial sets
	param_src: Option<&'static str>,
	param: NodeSpec,
}

const NAMESPACES: [&str; 2] = ["official", "named"];
const NAMESPACE_VALUES: [&str; 2] = ["named", "mapped"];
const TOP_DOCS: [&str; 2] = ["top", "top two"];

const CLASSES: [ClassSpec; 2] = [
	ClassSpec {
		key: "p/A",
		class: NodeSpec { names: ["q/X", "q/Y"], docs: ["class a", "b c"] },
		field_key: ("f", "I"),
		field: NodeSpec { names: ["g", "h"], docs: ["l1\nl2", "x"] },
		method_key: ("m", "(I)V"),
		method: NodeSpec { names: ["n", "o"], docs: ["", "m doc"] },
		param_index: 0,
		param_src: None,
		param: NodeSpec { names: ["p0", "p1"], docs: ["back\\slash", "p doc"] },
	},
	ClassSpec {
		key: "B",
		// comments that need escaping in the text form together with characters outside ASCII, a
		// backslash that is followed by an `n`, a backslash at the end, blanks at either end
		class: NodeSpec { names: ["U", "V"], docs: ["ü☃ É", "é\nd\\"] },
		field_key: ("f", "Lp/A;"),
		field: NodeSpec { names: ["g", "k"], docs: ["fd", "t \\n µ"] },
		method_key: ("m", "(ILp/A;)V"),
		method: NodeSpec { names: ["n", "r"], docs: ["md ", " \\\\md"] },
		param_index: 1,
		param_src: Some("s1"),
		param: NodeSpec { names: ["a", "b"], docs: ["pd", "l1\n\nl3"] },
	},
];

#[derive(Clone, Copy, Debug, PartialEq, Eq, PartialOrd, Ord, Hash)]
enum Level {
	Namespace,
	MappingsComment,
	Class,
	ClassComment,
	Field,
	FieldComment,
	Method,
	MethodComment,
	Parameter,
	ParameterComment,
}

const CLASS_LEVELS: [Level; 8] = [Level::Class, Level::ClassComment, Level::Field, Level::FieldComment, Level::Method, Level::MethodComment, Level::Parameter, Level::ParameterComment];
const NODE_LEVELS: [Level; 4] = [Level::Class, Level::Field, Level::Method, Level::Parameter];
const HELD_COMMENT_LEVELS: [Level; 4] = [Level::ClassComment, Level::FieldComment, Level::MethodComment, Level::ParameterComment];

impl Level {
	fn name(self) -> &'static str {
		match self {
			Level::Namespace => "namespace",
			Level::MappingsComment => "mappings-comment",
			Level::Class => "class",
			Level::ClassComment => "class-comment",
			Level::Field => "field",
			Level::FieldComment => "field-comment",
			Level::Method => "method",
			Level::MethodComment => "method-comment",
			Level::Parameter => "parameter",
			Level::ParameterComment => "parameter-comment",
		}
	}
	/// the slot one level up whose entry holds this slot (for the "parent and child in one diff" pairs)
	fn parent(self) -> Option<Level> {
		match self {
			Level::ClassComment | Level::Field | Level::Method => Some(Level::Class),
			Level::FieldComment => Some(Level::Field),
			Level::MethodComment | Level::Parameter => Some(Level::Method),
			Level::ParameterComment => Some(Level::Parameter),
			_ => None,
		}
	}
}

/// One slot of the universe: the target name of an entry, or a comment.
#[derive(Clone, Copy, Debug, PartialEq, Eq, PartialOrd, Ord, Hash)]
struct Site {
	level: Level,
	class: usize,
}

fn sites() -> Vec<Site> {
	let mut v = vec![Site { level: Level::Namespace, class: 0 }, Site { level: Level::MappingsComment, class: 0 }];
	for class in 0..CLASSES.len() {
		for level in CLASS_LEVELS {
			v.push(Site { level, class });
		}
	}
	v
}

fn fkey(s: &ClassSpec) -> (String, String) {
	(s.field_key.0.to_owned(), s.field_key.1.to_owned())
}
fn mkey(s: &ClassSpec) -> (String, String) {
	(s.method_key.0.to_owned(), s.method_key.1.to_owned())
}

fn site_values(site: Site) -> [&'static str; 2] {
	let s = &CLASSES[site.class];
	match site.level {
		Level::Namespace => NAMESPACE_VALUES,
		Level::MappingsComment => TOP_DOCS,
		Level::Class => s.class.names,
		Level::ClassComment => s.class.docs,
		Level::Field => s.field.names,
		Level::FieldComment => s.field.docs,
		Level::Method => s.method.names,
		Level::MethodComment => s.method.docs,
		Level::Parameter => s.param.names,
		Level::ParameterComment => s.param.docs,
	}
}

/// (does the entry holding the slot exist, the slot's current value)
fn site_current(m: &MSet, site: Site, t: usize) -> (bool, Option<String>) {
	let s = &CLASSES[site.class];
	let c = m.classes.get(s.key);
	let f = c.and_then(|c| c.fields.get(&fkey(s)));
	let me = c.and_then(|c| c.methods.get(&mkey(s)));
	let p = me.and_then(|me| me.params.get(&s.param_index));
	match site.level {
		Level::Namespace => (true, Some(m.ns[t].clone())),
		Level::MappingsComment => (true, m.doc.clone()),
		Level::Class => (c.is_some(), c.and_then(|c| c.names[t].clone())),
		Level::ClassComment => (c.is_some(), c.and_then(|c| c.doc.clone())),
		Level::Field => (f.is_some(), f.and_then(|c| c.names[t].clone())),
		Level::FieldComment => (f.is_some(), f.and_then(|c| c.doc.clone())),
		Level::Method => (me.is_some(), me.and_then(|c| c.names[t].clone())),
		Level::MethodComment => (me.is_some(), me.and_then(|c| c.doc.clone())),
		Level::Parameter => (p.is_some(), p.and_then(|c| c.names[t].clone())),
		Level::ParameterComment => (p.is_some(), p.and_then(|c| c.doc.clone())),
	}
}

/// The diff that carries `act` in exactly one slot; the entries on the way down carry no action.
fn single(site: Site, act: Act) -> MDiff {
	let s = &CLASSES[site.class];
	let mut d = MDiff::default();
	match site.level {
		Level::Namespace => d.info = act,
		Level::MappingsComment => d.doc = act,
		level => {
			let mut dc = DClass::default();
			match level {
				Level::Class => dc.info = act,
				Level::ClassComment => dc.doc = act,
				Level::Field | Level::FieldComment => {
					let mut df = DField::default();
					if level == Level::Field { df.info = act } else { df.doc = act }
					dc.fields.insert(fkey(s), df);
				},
				_ => {
					let mut dm = DMethod::default();
					match level {
						Level::Method => dm.info = act,
						Level::MethodComment => dm.doc = act,
						_ => {
							let mut dp = DParam::default();
							if level == Level::Parameter { dp.info = act } else { dp.doc = act }
							dm.params.insert(s.param_index, dp);
						},
					}
					dc.methods.insert(mkey(s), dm);
				},
			}
			d.classes.insert(s.key.to_owned(), dc);
		},
	}
	d
}

fn pick(a: &Act, b: &Act) -> Act {
	if a.is_none() { b.clone() } else { a.clone() }
}

/// Union of two diffs that carry their actions in different slots.
fn merge(a: &MDiff, b: &MDiff) -> MDiff {
	let mut d = a.clone();
	d.info = pick(&a.info, &b.info);
	d.doc = pick(&a.doc, &b.doc);
	for (k, bc) in &b.classes {
		let dc = d.classes.entry(k.clone()).or_default();
		dc.info = pick(&dc.info, &bc.info);
		dc.doc = pick(&dc.doc, &bc.doc);
		for (fk, bf) in &bc.fields {
			let df = dc.fields.entry(fk.clone()).or_default();
			df.info = pick(&df.info, &bf.info);
			df.doc = pick(&df.doc, &bf.doc);
		}
		for (mk, bm) in &bc.methods {
			let dm = dc.methods.entry(mk.clone()).or_default();
			dm.info = pick(&dm.info, &bm.info);
			dm.doc = pick(&dm.doc, &bm.doc);
			for (pk, bp) in &bm.params {
				let dp = dm.params.entry(*pk).or_default();
				dp.info = pick(&dp.info, &bp.info);
				dp.doc = pick(&dp.doc, &bp.doc);
			}
		}
	}
	d
}

/// the nine action forms over a two-value alphabet
fn act_forms(v: [&str; 2]) -> Vec<Act> {
	let (a, b) = (v[0].to_owned(), v[1].to_owned());
	vec![
		Act::None,
		Act::Add(a.clone()),
		Act::Add(b.clone()),
		Act::Remove(a.clone()),
		Act::Remove(b.clone()),
		Act::Edit(a.clone(), b.clone()),
		Act::Edit(b.clone(), a.clone()),
		Act::Edit(a.clone(), a.clone()),
		Act::Edit(b.clone(), b),
	]
}

/// How the target looks from the point of view of one action: the value the action refers to (the
/// stated old value of a removal/edit, the new value of an addition) against the slot.
fn condition(act: &Act, exists: bool, cur: &Option<String>) -> &'static str {
	if !exists {
		return "absent";
	}
	let Some(cur) = cur else { return "vacant" };
	let refv = match act {
		Act::None => return "occupied",
		Act::Add(b) => b,
		Act::Remove(a) | Act::Edit(a, _) => a,
	};
	if refv == cur { "matching" } else { "mismatching" }
}

#[derive(Clone, Debug, PartialEq)]
struct Part {
	site: Site,
	act: Act,
	cond: &'static str,
}

impl Part {
	fn cell(&self) -> String {
		format!("{}|{}|{}", self.site.level.name(), self.act.kind(), self.cond)
	}
	fn short(&self) -> String {
		format!("{}.{}.{}", self.site.level.name(), self.act.kind(), self.cond)
	}
}

/// One action of the state graph: a diff and the description of the slots it touches.
#[derive(Clone, Debug, PartialEq)]
struct Step {
	parts: Vec<Part>,
	diff: MDiff,
}

fn label(parts: &[Part]) -> String {
	if parts.is_empty() {
		return "whole-diff".to_owned();
	}
	parts.iter().map(|p| p.short()).collect::<Vec<_>>().join("+")
}

#[derive(Clone, Copy, Debug, PartialEq, Eq)]
enum Pairs {
	/// a parent entry's action together with an action directly below it
	ParentChild,
	/// every two slots
	All,
}

fn steps_for(m: &MSet, pairs: Pairs, t: usize) -> Vec<Step> {
	let all = sites();
	let mut per_site: Vec<Vec<Part>> = Vec::new();
	for &site in &all {
		let (exists, cur) = site_current(m, site, t);
		per_site.push(act_forms(site_values(site)).into_iter().map(|act| Part { site, cond: condition(&act, exists, &cur), act }).collect());
	}
	let mut out: Vec<Step> = Vec::new();
	// the empty diff once, the change-free entry line once per entry
	out.push(Step { parts: vec![per_site[0][0].clone()], diff: MDiff::default() });
	for (i, &site) in all.iter().enumerate() {
		for p in &per_site[i] {
			if p.act.is_none() && !NODE_LEVELS.contains(&site.level) {
				continue;
			}
			out.push(Step { parts: vec![p.clone()], diff: single(site, p.act.clone()) });
		}
	}
	for i in 0..all.len() {
		for j in (i + 1)..all.len() {
			let (si, sj) = (all[i], all[j]);
			let related = si.class == sj.class && (sj.level.parent() == Some(si.level) || si.level.parent() == Some(sj.level));
			if pairs == Pairs::ParentChild && !related {
				continue;
			}
			for pi in &per_site[i] {
				for pj in &per_site[j] {
					if pi.act.is_none() || pj.act.is_none() {
						continue;
					}
					if pairs == Pairs::ParentChild {
						// the parent's action is one that creates, removes or renames the entry
						let (parent, _) = if sj.level.parent() == Some(si.level) { (pi, pj) } else { (pj, pi) };
						if parent.act.kind() == "edit-same" {
							continue;
						}
					}
					out.push(Step { parts: vec![pi.clone(), pj.clone()], diff: merge(&single(si, pi.act.clone()), &single(sj, pj.act.clone())) });
				}
			}
		}
	}
	out
}

fn row2(first: Option<&str>, second: Option<&str>) -> Row {
	vec![first.map(|s| s.to_owned()), second.map(|s| s.to_owned())]
}

fn initial_sets() -> Vec<(&'static str, MSet)> {
	let empty = MSet::new(&NAMESPACES);
	let mut full = MSet::new(&NAMESPACES);
	full.doc = Some(TOP_DOCS[0].to_owned());
	let mut half = MSet::new(&NAMESPACES);
	for (ci, s) in CLASSES.iter().enumerate() {
		let mut c = MClass { names: row2(Some(s.key), Some(s.class.names[0])), doc: Some(s.class.docs[0].to_owned()), ..Default::default() };
		c.fields.insert(fkey(s), MField { names: row2(Some(s.field_key.0), Some(s.field.names[0])), doc: Some(s.field.docs[0].to_owned()) });
		let mut me = MMethod { names: row2(Some(s.method_key.0), Some(s.method.names[0])), doc: Some(s.method.docs[0].to_owned()), params: BTreeMap::new() };
		me.params.insert(s.param_index, MParam { names: row2(s.param_src, Some(s.param.names[0])), doc: Some(s.param.docs[0].to_owned()) });
		c.methods.insert(mkey(s), me);
		full.classes.insert(s.key.to_owned(), c);

		// half named: names and comments alternate between present and missing, differently per class
		let on = |k: usize| (k + ci) % 2 == 0;
		let nm = |k: usize, n: &NodeSpec| if on(k) { Some(n.names[1]) } else { None };
		let dc = |k: usize, n: &NodeSpec| if on(k + 1) { Some(n.docs[1].to_owned()) } else { None };
		let mut c = MClass { names: row2(Some(s.key), nm(0, &s.class)), doc: dc(0, &s.class), ..Default::default() };
		c.fields.insert(fkey(s), MField { names: row2(Some(s.field_key.0), nm(1, &s.field)), doc: dc(1, &s.field) });
		let mut me = MMethod { names: row2(Some(s.method_key.0), nm(2, &s.method)), doc: dc(2, &s.method), params: BTreeMap::new() };
		me.params.insert(s.param_index, MParam { names: row2(s.param_src, nm(3, &s.param)), doc: dc(3, &s.param) });
		c.methods.insert(mkey(s), me);
		half.classes.insert(s.key.to_owned(), c);
	}
	vec![("empty", empty), ("fully-named", full), ("half-named", half)]
}

// ---------------------------------------------------------------------------------------------
// JSON form of sets and diffs (replay files, samples)

fn j_opt(v: &Option<String>) -> Value {
	match v {
		Some(s) => json!(s),
		None => Value::Null,
	}
}
fn j_row(r: &Row) -> Value {
	Value::Array(r.iter().map(j_opt).collect())
}
fn j_act(a: &Act) -> Value {
	match a {
		Act::None => Value::Null,
		Act::Add(b) => json!({"add": b}),
		Act::Remove(a) => json!({"remove": a}),
		Act::Edit(a, b) => json!({"edit": [a, b]}),
	}
}

fn set_json(m: &MSet) -> Value {
	json!({
		"ns": m.ns,
		"doc": j_opt(&m.doc),
		"classes": m.classes.iter().map(|(k, c)| json!({
			"key": k, "names": j_row(&c.names), "doc": j_opt(&c.doc),
			"fields": c.fields.iter().map(|((n, d), f)| json!({"name": n, "desc": d, "names": j_row(&f.names), "doc": j_opt(&f.doc)})).collect::<Vec<_>>(),
			"methods": c.methods.iter().map(|((n, d), me)| json!({
				"name": n, "desc": d, "names": j_row(&me.names), "doc": j_opt(&me.doc),
				"params": me.params.iter().map(|(i, p)| json!({"index": i, "names": j_row(&p.names), "doc": j_opt(&p.doc)})).collect::<Vec<_>>(),
			})).collect::<Vec<_>>(),
		})).collect::<Vec<_>>(),
	})
}

fn diff_json(d: &MDiff) -> Value {
	json!({
		"info": j_act(&d.info),
		"doc": j_act(&d.doc),
		"classes": d.classes.iter().map(|(k, c)| json!({
			"key": k, "info": j_act(&c.info), "doc": j_act(&c.doc),
			"fields": c.fields.iter().map(|((n, de), f)| json!({"name": n, "desc": de, "info": j_act(&f.info), "doc": j_act(&f.doc)})).collect::<Vec<_>>(),
			"methods": c.methods.iter().map(|((n, de), me)| json!({
				"name": n, "desc": de, "info": j_act(&me.info), "doc": j_act(&me.doc),
				"params": me.params.iter().map(|(i, p)| json!({"index": i, "info": j_act(&p.info), "doc": j_act(&p.doc)})).collect::<Vec<_>>(),
			})).collect::<Vec<_>>(),
		})).collect::<Vec<_>>(),
	})
}

fn bad_replay(what: &str) -> ! {
	vcore::machinery_fail(&format!("malformed replay file: {what}"))
}
fn p_opt(v: &Value) -> Option<String> {
	v.as_str().map(|s| s.to_owned())
}
fn p_str(v: &Value, k: &str) -> String {
	v.get(k).and_then(|x| x.as_str()).unwrap_or_else(|| bad_replay(k)).to_owned()
}
fn p_arr<'a>(v: &'a Value, k: &str) -> &'a Vec<Value> {
	v.get(k).and_then(|x| x.as_array()).unwrap_or_else(|| bad_replay(k))
}
fn p_row(v: &Value) -> Row {
	p_arr(v, "names").iter().map(p_opt).collect()
}
fn p_doc(v: &Value) -> Option<String> {
	v.get("doc").and_then(p_opt)
}
fn p_act(v: &Value, k: &str) -> Act {
	let Some(a) = v.get(k) else { return Act::None };
	if a.is_null() {
		return Act::None;
	}
	if let Some(b) = a.get("add").and_then(|x| x.as_str()) {
		return Act::Add(b.to_owned());
	}
	if let Some(x) = a.get("remove").and_then(|x| x.as_str()) {
		return Act::Remove(x.to_owned());
	}
	if let Some(e) = a.get("edit").and_then(|x| x.as_array()) {
		if let (Some(x), Some(y)) = (e.first().and_then(|x| x.as_str()), e.get(1).and_then(|x| x.as_str())) {
			return Act::Edit(x.to_owned(), y.to_owned());
		}
	}
	bad_replay("action")
}

fn set_from_json(v: &Value) -> MSet {
	let mut m = MSet { ns: p_arr(v, "ns").iter().map(|x| x.as_str().unwrap_or_else(|| bad_replay("ns")).to_owned()).collect(), doc: p_doc(v), classes: BTreeMap::new() };
	for c in p_arr(v, "classes") {
		let mut mc = MClass { names: p_row(c), doc: p_doc(c), ..Default::default() };
		for f in p_arr(c, "fields") {
			mc.fields.insert((p_str(f, "name"), p_str(f, "desc")), MField { names: p_row(f), doc: p_doc(f) });
		}
		for me in p_arr(c, "methods") {
			let mut mm = MMethod { names: p_row(me), doc: p_doc(me), params: BTreeMap::new() };
			for p in p_arr(me, "params") {
				let idx = p.get("index").and_then(|x| x.as_u64()).unwrap_or_else(|| bad_replay("index")) as usize;
				mm.params.insert(idx, MParam { names: p_row(p), doc: p_doc(p) });
			}
			mc.methods.insert((p_str(me, "name"), p_str(me, "desc")), mm);
		}
		m.classes.insert(p_str(c, "key"), mc);
	}
	m
}

fn diff_from_json(v: &Value) -> MDiff {
	let mut d = MDiff { info: p_act(v, "info"), doc: p_act(v, "doc"), classes: BTreeMap::new() };
	for c in p_arr(v, "classes") {
		let mut dc = DClass { info: p_act(c, "info"), doc: p_act(c, "doc"), ..Default::default() };
		for f in p_arr(c, "fields") {
			dc.fields.insert((p_str(f, "name"), p_str(f, "desc")), DField { info: p_act(f, "info"), doc: p_act(f, "doc") });
		}
		for me in p_arr(c, "methods") {
			let mut dm = DMethod { info: p_act(me, "info"), doc: p_act(me, "doc"), params: BTreeMap::new() };
			for p in p_arr(me, "params") {
				let idx = p.get("index").and_then(|x| x.as_u64()).unwrap_or_else(|| bad_replay("index")) as usize;
				dm.params.insert(idx, DParam { info: p_act(p, "info"), doc: p_act(p, "doc") });
			}
			dc.methods.insert((p_str(me, "name"), p_str(me, "desc")), dm);
		}
		d.classes.insert(p_str(c, "key"), dc);
	}
	d
}

// ---------------------------------------------------------------------------------------------
// running the real code

#[derive(Clone, Debug, PartialEq)]
enum Real {
	Ok(MSet),
	/// the result stores an entry under a key that is not its first name
	KeyBroken(String),
	Refused(String),
	Panicked(vcore::Panic),
}

impl Real {
	fn class(&self) -> &'static str {
		match self {
			Real::Ok(_) => "ok",
			Real::KeyBroken(_) => "key-broken",
			Real::Refused(_) => "refused",
			Real::Panicked(_) => "panicked",
		}
	}
	fn render(&self) -> String {
		match self {
			Real::Ok(m) => format!("Ok {}", set_json(m)),
			Real::KeyBroken(e) => format!("Ok, but key invariant broken: {e}"),
			Real::Refused(e) => format!("Err: {e}"),
			Real::Panicked(p) => format!("panic at {}: {}", p.site, p.msg),
		}
	}
}

fn quill_set<const N: usize>(m: &MSet, o: Order) -> Mappings<N, ()> {
	mapmodel::to_quill_ordered::<N, ()>(m, o).unwrap_or_else(|e| vcore::machinery_fail(&format!("generator produced a set quill's constructors reject: {e:#}\n{}", set_json(m))))
}

fn quill_diff(d: &MDiff, o: Order) -> MappingsDiff {
	mapmodel::diff_to_quill(d, o).unwrap_or_else(|e| vcore::machinery_fail(&format!("generator produced a diff quill's constructors reject: {e:#}\n{}", diff_json(d))))
}

/// the REAL `MappingsDiff::apply_to`, called with the namespace NAME `ns`
fn real_apply_named<const N: usize>(qd: &MappingsDiff, target: &MSet, ot: Order, ns: &str) -> Real {
	let qt = quill_set::<N>(target, ot);
	match vcore::guard(|| {
		let r: anyhow::Result<Mappings<N, ()>> = qd.apply_to(qt, ns);
		r.map(|q| mapmodel::from_quill(&q)).map_err(|e| format!("{e:#}"))
	}) {
		Err(p) => Real::Panicked(p),
		Ok(Err(e)) => Real::Refused(e),
		Ok(Ok(Err(k))) => Real::KeyBroken(k.0),
		Ok(Ok(Ok(m))) => Real::Ok(m),
	}
}

/// the REAL `MappingsDiff::apply_to` with the `t`-th namespace of the target as target namespace
fn real_apply_obj(qd: &MappingsDiff, target: &MSet, ot: Order, t: usize) -> Real {
	match target.n() {
		2 => real_apply_named::<2>(qd, target, ot, &target.ns[t]),
		3 => real_apply_named::<3>(qd, target, ot, &target.ns[t]),
		n => vcore::machinery_fail(&format!("no real call for sets with {n} namespaces")),
	}
}

fn real_apply(d: &MDiff, target: &MSet, ot: Order, od: Order, t: usize) -> Real {
	real_apply_obj(&quill_diff(d, od), target, ot, t)
}

/// the REAL `MappingsDiff::diff`
fn real_diff(a: &MSet, b: &MSet, oa: Order, ob: Order) -> Result<Result<MappingsDiff, String>, vcore::Panic> {
	let (qa, qb) = (quill_set::<2>(a, oa), quill_set::<2>(b, ob));
	vcore::guard(|| MappingsDiff::diff(&qa, &qb).map_err(|e| format!("{e:#}")))
}

fn complete(m: &MSet) -> bool {
	m.classes.values().all(|c| c.names[1].is_some()
		&& c.fields.values().all(|f| f.names[1].is_some())
		&& c.methods.values().all(|me| me.names[1].is_some() && me.params.values().all(|p| p.names[1].is_some())))
}

/// the largest number of entries in one map of the set
fn max_map_len(m: &MSet) -> usize {
	m.classes.values().fold(m.classes.len(), |n, c| {
		c.methods.values().fold(n.max(c.fields.len()).max(c.methods.len()), |n, me| n.max(me.params.len()))
	})
}

fn strip_param_src(m: &MSet) -> MSet {
	let mut m = m.clone();
	for c in m.classes.values_mut() {
		for me in c.methods.values_mut() {
			for p in me.params.values_mut() {
				p.names[0] = None;
			}
		}
	}
	m
}

/// `Edit(a, a)` says the same as no action once the old value is known to match; the text form
/// cannot tell the two apart
fn normalize(d: &MDiff) -> MDiff {
	fn n(a: &mut Act) {
		if let Act::Edit(x, y) = a {
			if x == y {
				*a = Act::None;
			}
		}
	}
	let mut d = d.clone();
	n(&mut d.info);
	n(&mut d.doc);
	for c in d.classes.values_mut() {
		n(&mut c.info);
		n(&mut c.doc);
		for f in c.fields.values_mut() {
			n(&mut f.info);
			n(&mut f.doc);
		}
		for m in c.methods.values_mut() {
			n(&mut m.info);
			n(&mut m.doc);
			for p in m.params.values_mut() {
				n(&mut p.info);
				n(&mut p.doc);
			}
		}
	}
	d
}

// ---------------------------------------------------------------------------------------------
// counters shared by stateright's worker threads

static NEXT_SHARD: AtomicU64 = AtomicU64::new(0);
thread_local! {
	static MY_SHARD: usize = NEXT_SHARD.fetch_add(1, Ordering::Relaxed) as usize;
}

struct Tally {
	shards: Vec<Mutex<Stats>>,
}

impl Tally {
	fn new() -> Tally {
		Tally { shards: (0..64).map(|_| Mutex::new(Stats::new())).collect() }
	}
	fn with<T>(&self, f: impl FnOnce(&mut Stats) -> T) -> T {
		let i = MY_SHARD.with(|s| *s) % self.shards.len();
		f(&mut self.shards[i].lock().unwrap())
	}
	fn total(&self) -> Stats {
		self.shards.iter().fold(Stats::new(), |acc, s| acc.merge(s.lock().unwrap().clone()))
	}
}

struct Engine {
	ctx: &'static Ctx,
	tally: Tally,
	scratch: PathBuf,
	/// counts of the printer self-check (reference printer → real reader gives the same diff)
	selfcheck_run: AtomicU64,
	selfcheck_ok: AtomicU64,
	selfcheck_first_failure: Mutex<Option<String>>,
	/// counts of the oracle self-check (reference diff → reference apply gives B)
	oracle_run: AtomicU64,
	oracle_ok: AtomicU64,
	oracle_first_failure: Mutex<Option<String>>,
}

fn apply_case(target: &MSet, d: &MDiff, leg: &str, lab: &str, t: usize) -> Value {
	json!({"kind": "apply", "leg": leg, "slots": lab, "target_namespace": t, "target": set_json(target), "diff": diff_json(d)})
}
fn text_case(target: &MSet, d: &MDiff, leg: &str, lab: &str, t: usize) -> Value {
	json!({"kind": "text-apply", "leg": leg, "slots": lab, "target_namespace": t, "target": set_json(target), "diff": diff_json(d)})
}
fn pair_case(a: &MSet, b: &MSet) -> Value {
	json!({"kind": "pair", "a": set_json(a), "b": set_json(b)})
}

impl Engine {
	/// What one real outcome means against the reference: the outcome class and, if the statement is
	/// broken, the key and description of the difference.
	fn classify(pre: &str, real: &Real, expect: &mdiff::Expect, target: &MSet, outside: bool, lab: &str) -> (&'static str, Option<(String, String)>) {
		match (real, &expect.result) {
			(Real::Panicked(p), _) => ("panicked", Some((format!("{pre}:panic@{}", p.file()), format!("apply_to panicked at {}: {}", p.site, p.msg)))),
			_ if outside => ("outside-statement", None),
			(Real::KeyBroken(e), _) => ("key-broken", Some((format!("{pre}:key-invariant"), format!("result of apply_to stores an entry under a key that is not its first name: {e}")))),
			(Real::Ok(r), Some(e)) => {
				if r == e {
					(if r == target { "applied-no-change" } else if expect.may_refuse { "applied-where-refusal-allowed" } else { "applied" }, None)
				} else {
					let (k, what) = mapmodel::first_difference(e, r).unwrap_or(("other".into(), "differ".into()));
					("wrong-result", Some((format!("{pre}:wrong-result:{k}"), format!("apply_to returned Ok with a set that is not what the diff says ({lab}): {what}"))))
				}
			},
			(Real::Ok(_), None) => ("accepted-inconsistent", Some((format!("{pre}:accepted-inconsistent:{lab}"), format!("apply_to returned Ok for a diff that is inconsistent with the target and must be refused: {}", expect.reason)))),
			(Real::Refused(_), None) => ("refused-inconsistent", None),
			(Real::Refused(e), Some(_)) => {
				if expect.may_refuse {
					("refused-where-statement-is-silent", None)
				} else {
					("refused-consistent", Some((format!("{pre}:refused-consistent:{lab}"), format!("apply_to refused a diff that is consistent with the target: {e}"))))
				}
			},
		}
	}

	/// One application of `d` to `target`: real code in lock-step with the reference, in two or three
	/// insertion orders of target and diff (each run is judged against the reference, not against
	/// the other runs). Returns the real outcome of the canonical (sorted insertion order) run.
	fn judge_apply(&self, leg: &str, lab: &str, parts: &[Part], d: &MDiff, target: &MSet, qd_real: Option<&MappingsDiff>, t: usize) -> Real {
		let expect = mdiff::apply(d, target, t);
		// Removing the namespace itself with the right old name: the statement's "removals disappear"
		// has no meaning for a namespace of a two-namespace set; only panics are judged there.
		let outside = matches!(&d.info, Act::Remove(x) if x == &target.ns[t]);
		let mut runs: Vec<(Order, Order)> = vec![(Order::Sorted, Order::Sorted), (Order::Reversed, Order::Reversed)];
		if parts.len() != 1 {
			runs.push((Order::Sorted, Order::Reversed));
		}
		let mut primary: Option<(Real, &'static str, Option<String>)> = None;
		let mut executions = 0u64;
		for (i, (ot, od)) in runs.into_iter().enumerate() {
			let real = match (i, qd_real) {
				(0, Some(q)) => real_apply_obj(q, target, ot, t),
				_ => real_apply(d, target, ot, od, t),
			};
			executions += 1;
			let (outcome, problem) = Self::classify("apply", &real, &expect, target, outside, lab);
			let replay = || {
				format!("{}\n\ninsertion order: target {ot:?}, diff {od:?}\nexpected: {}\nreal: {}\n", apply_case(target, d, leg, lab, t),
					match &expect.result { Some(e) => format!("Ok {}{}", set_json(e), if expect.may_refuse { " (or a refusal: the statement is silent)" } else { "" }), None => format!("refusal ({})", expect.reason) },
					real.render())
			};
			match &primary {
				None => {
					if let Some((key, what)) = &problem {
						self.ctx.diff(key, what, replay);
					}
					primary = Some((real, outcome, problem.map(|p| p.0)));
				},
				Some((_, _, pkey)) => {
					// the same difference in another insertion order is the same difference; a
					// difference that shows only in another order is reported as order-dependent
					if let Some((key, what)) = &problem {
						if pkey.as_ref() != Some(key) {
							self.ctx.diff(&format!("order:{key}"), &format!("only with insertion order target={ot:?} diff={od:?}: {what}"), replay);
						}
					}
				},
			}
		}
		let (real, outcome, _) = primary.unwrap_or_else(|| vcore::machinery_fail("no run"));
		self.tally.with(|st| {
			st.evaluations += executions;
			st.outcome(&format!("{leg}:{outcome}"));
			if matches!(&real, Real::Ok(r) if r != target) || matches!(real, Real::Refused(_)) {
				st.distinct.add(&(target, d));
			}
			if parts.len() == 1 {
				st.outcome(&format!("cov|{}|{}", parts[0].cell(), real.class()));
			} else if parts.len() == 2 {
				st.outcome(&format!("pair-diff:{}", real.class()));
			}
			if expect.may_refuse && expect.result.is_some() && matches!(real, Real::Ok(_)) && d.classes.values().any(|c| matches!(c.info, Act::Remove(_)) || c.fields.values().any(|f| matches!(f.info, Act::Remove(_))) || c.methods.values().any(|m| matches!(m.info, Act::Remove(_)) || m.params.values().any(|p| matches!(p.info, Act::Remove(_))))) {
				st.outcome("removal-with-actions-below-applied");
			}
		});
		real
	}

	/// writes `text` to this thread's scratch file and runs the REAL `tiny_v2_diff::read_file` on it
	fn read_text(&self, text: &str) -> Result<Result<MappingsDiff, String>, vcore::Panic> {
		let path = self.scratch.join(format!("{}.tinydiff", MY_SHARD.with(|s| *s)));
		if let Err(e) = std::fs::write(&path, text) {
			vcore::machinery_fail(&format!("cannot write {path:?}: {e}"));
		}
		vcore::guard(|| quill::tiny_v2_diff::read_file(&path).map_err(|e| format!("{e:#}")))
	}

	/// printer self-check: the real reader gives back the diff the reference printer was given
	fn selfcheck(&self, printed: &MDiff, text: &str, rd: &MappingsDiff) {
		self.selfcheck_run.fetch_add(1, Ordering::Relaxed);
		let back = mapmodel::diff_from_quill(rd);
		if &back == printed {
			self.selfcheck_ok.fetch_add(1, Ordering::Relaxed);
		} else {
			let mut f = self.selfcheck_first_failure.lock().unwrap();
			if f.is_none() {
				*f = Some(format!("printed {}\ntext:\n{text}\nread back {}", diff_json(printed), diff_json(&back)));
			}
		}
	}

	/// One diff taken through `.tinydiff` text (reference printer → file → REAL `read_file`) and then
	/// applied by the REAL `apply_to`, in lock-step with the reference apply: in the printer's own
	/// line order (must be readable) and with the same lines in another order (may be refused).
	fn judge_text_apply(&self, leg: &str, lab: &str, d: &MDiff, target: &MSet, t: usize, styles: &[text::Style]) {
		let nd = normalize(d);
		if !text::printable(&nd) {
			self.tally.with(|st| st.outcome(&format!("{leg}:not-expressible")));
			return;
		}
		let expect = text::expect(d, &nd, target, t);
		for &style in styles {
			let canonical = style == text::Style::Canonical;
			let sname = if canonical { "" } else { "shuffled-" };
			let text = text::print(d, style);
			let replay = |real: &str| {
				format!("{}\n\n.tinydiff text ({}):\n{text}\nexpected: {}\nreal: {real}\n", text_case(target, d, leg, lab, t), style.name(),
					match &expect.result { Some(e) => format!("Ok {}{}", set_json(e), if expect.may_refuse { " (or a refusal: the statement is silent)" } else { "" }), None => format!("refusal ({})", expect.reason) })
			};
			let rd = match self.read_text(&text) {
				Err(p) => {
					self.ctx.diff(&format!("text:panic@{}", p.file()), &format!("tiny_v2_diff::read_file panicked at {}: {}", p.site, p.msg), || replay("panic"));
					self.tally.with(|st| { st.eval(); st.outcome(&format!("{leg}:{sname}read-panicked")); });
					continue;
				},
				Ok(Err(e)) => {
					if canonical {
						self.ctx.diff("text:read-refused", &format!("tiny_v2_diff::read_file refuses the text form of a diff ({lab}): {e}"), || replay(&format!("read_file: Err {e}")));
					}
					self.tally.with(|st| { st.eval(); st.outcome(&format!("{leg}:{sname}read-refused")); });
					continue;
				},
				Ok(Ok(rd)) => rd,
			};
			if canonical {
				self.selfcheck(&nd, &text, &rd);
			}
			let real = real_apply_obj(&rd, target, Order::Sorted, t);
			let (outcome, problem) = Self::classify("text-apply", &real, &expect, target, false, lab);
			if let Some((key, what)) = &problem {
				self.ctx.diff(key, &format!("through .tinydiff text ({}): {what}", style.name()), || replay(&real.render()));
			}
			self.tally.with(|st| {
				st.evaluations += 2;
				st.outcome(&format!("{leg}:{sname}{outcome}"));
				if canonical && (matches!(&real, Real::Ok(r) if r != target) || matches!(real, Real::Refused(_))) {
					st.distinct.add(&(target, d, "text"));
				}
			});
		}
	}

	/// compares the result of applying a diff of (A,B) to A with B
	fn judge_inverse(&self, prefix: &str, a: &MSet, b: &MSet, got: &Real, extra: &dyn Fn() -> String) -> &'static str {
		let replay = || format!("{}\n\nexpected: apply(diff(A,B), A) == B\nreal: {}\n{}", pair_case(a, b), got.render(), extra());
		match got {
			Real::Ok(r) if r == b => "inverse-holds",
			Real::Ok(r) => {
				let (sb, sr) = (strip_param_src(b), strip_param_src(r));
				if sb != sr {
					let (k, what) = mapmodel::first_difference(&sb, &sr).unwrap_or(("other".into(), "differ".into()));
					self.ctx.diff(&format!("{prefix}:not-b:{k}"), &format!("applying diff(A,B) to A gives a set that is not B: {what}"), replay);
				}
				// A diff speaks about the target namespace only ("changes exactly what the diff says in the
				// target namespace"; the tinydiff format has no source column for parameters), and a parameter
				// is keyed by its index: a source-namespace parameter name is outside what a diff can state, so
				// a result that equals B up to such names is not charged to diff/apply (counted separately).
				if sb == sr { "inverse-holds-up-to-parameter-source-names" } else { "inverse-broken" }
			},
			Real::KeyBroken(e) => {
				self.ctx.diff(&format!("{prefix}:key-invariant"), &format!("result stores an entry under a key that is not its first name: {e}"), replay);
				"inverse-broken"
			},
			Real::Refused(e) => {
				self.ctx.diff(&format!("{prefix}:apply-refuses-diff-of-pair"), &format!("apply_to refuses diff(A,B) on A: {e}"), replay);
				"inverse-refused"
			},
			Real::Panicked(p) => {
				self.ctx.diff(&format!("{prefix}:panic@{}", p.file()), &format!("panic at {}: {}", p.site, p.msg), replay);
				"panicked"
			},
		}
	}

	/// `styles`: the line orders in which the text forms are written
	fn judge_pair(&self, a: &MSet, b: &MSet, st: &mut Stats, styles: &[text::Style]) {
		st.eval();
		st.outcome("pair:checked");
		if a.ns != b.ns {
			// outside the statement ("over the same namespaces"): only panics are judged
			match real_diff(a, b, Order::Sorted, Order::Sorted) {
				Err(p) => self.ctx.diff(&format!("diff:panic@{}", p.file()), &format!("diff panicked at {}: {}", p.site, p.msg), || pair_case(a, b).to_string()),
				Ok(Err(_)) => st.outcome("pair:different-namespaces-refused"),
				Ok(Ok(_)) => st.outcome("pair:different-namespaces-accepted"),
			}
			return;
		}
		// diff must succeed where every target name is present and the diff language can say the change
		let reference = mdiff::diff(a, b);
		let must_succeed = complete(a) && complete(b) && reference.is_some();
		let qd = match real_diff(a, b, Order::Sorted, Order::Sorted) {
			Err(p) => {
				self.ctx.diff(&format!("diff:panic@{}", p.file()), &format!("diff panicked at {}: {}", p.site, p.msg), || pair_case(a, b).to_string());
				return;
			},
			Ok(r) => r,
		};
		// the same law with A and B built in other insertion orders
		st.eval();
		match real_diff(a, b, Order::Reversed, Order::Rotated(1)) {
			Err(p) => self.ctx.diff(&format!("diff:panic@{}", p.file()), &format!("diff panicked at {}: {}", p.site, p.msg), || pair_case(a, b).to_string()),
			Ok(Err(e)) => {
				if must_succeed {
					self.ctx.diff("diff:refused-with-all-target-names", &format!("diff(A,B) refused although every entry of A and B has a target name (A, B built in another insertion order): {e}"), || pair_case(a, b).to_string());
				}
			},
			Ok(Ok(q2)) => {
				st.eval();
				let got = real_apply_obj(&q2, a, Order::Reversed, 1);
				let extra = || format!("A built in reversed, B in rotated insertion order\ndiff(A,B) = {}", diff_json(&mapmodel::diff_from_quill(&q2)));
				let o = self.judge_inverse("inverse", a, b, &got, &extra);
				st.outcome(&format!("pair:reordered-{o}"));
			},
		}
		// Where no map has more than two entries, "reversed" and "rotated by one" are the same order: A
		// and B were built alike above. Then once more with the entries of B the other way round than
		// those of A (a diff that walks both sides position by position shows only then).
		if max_map_len(a).max(max_map_len(b)) == 2 {
			st.eval();
			match real_diff(a, b, Order::Sorted, Order::Reversed) {
				Err(p) => self.ctx.diff(&format!("diff:panic@{}", p.file()), &format!("diff panicked at {}: {}", p.site, p.msg), || pair_case(a, b).to_string()),
				Ok(Err(e)) => {
					if must_succeed {
						self.ctx.diff("diff:refused-with-all-target-names", &format!("diff(A,B) refused although every entry of A and B has a target name (A sorted, B built in reversed insertion order): {e}"), || pair_case(a, b).to_string());
					}
				},
				Ok(Ok(q3)) => {
					st.eval();
					let got = real_apply_obj(&q3, a, Order::Sorted, 1);
					let extra = || format!("A built in sorted, B in reversed insertion order\ndiff(A,B) = {}", diff_json(&mapmodel::diff_from_quill(&q3)));
					let o = self.judge_inverse("inverse", a, b, &got, &extra);
					st.outcome(&format!("pair:opposite-order-{o}"));
				},
			}
		}
		match qd {
			Err(e) => {
				if must_succeed {
					self.ctx.diff("diff:refused-with-all-target-names", &format!("diff(A,B) refused although every entry of A and B has a target name: {e}"), || pair_case(a, b).to_string());
					st.outcome("pair:diff-refused-all-named");
				} else {
					st.outcome("pair:diff-refused-missing-target-name");
				}
			},
			Ok(qd) => {
				let md = mapmodel::diff_from_quill(&qd);
				// object leg: the real diff object applied by the real apply_to, in lock-step with the reference apply
				let got = self.judge_apply("pair-apply", "diff-of-pair", &[], &md, a, Some(&qd), 1);
				let extra = || format!("diff(A,B) = {}", diff_json(&md));
				let o = self.judge_inverse("inverse", a, b, &got, &extra);
				st.outcome(&format!("pair:{o}"));
				if o == "inverse-holds" && a != b {
					st.outcome("pair:inverse-holds-nontrivial");
				}
				st.distinct.add(&(a, b));
				// text leg: the reference printer's form and the same lines in another order
				let nd = normalize(&md);
				if text::printable(&nd) {
					for &style in styles {
						let canonical = style == text::Style::Canonical;
						let text = text::print(&md, style);
						st.eval();
						let extra = || format!("diff(A,B) = {}\n.tinydiff text ({}):\n{text}", diff_json(&md), style.name());
						match self.read_text(&text) {
							Err(p) => self.ctx.diff(&format!("text:panic@{}", p.file()), &format!("tiny_v2_diff::read_file panicked at {}: {}", p.site, p.msg), || format!("{}\n\n{}", pair_case(a, b), extra())),
							Ok(Err(e)) => {
								if canonical {
									self.ctx.diff("text:read-refused", &format!("tiny_v2_diff::read_file refuses the text form of diff(A,B): {e}"), || format!("{}\n\n{}", pair_case(a, b), extra()));
									st.outcome("pair:text-read-refused");
								} else {
									// the statement does not say in which order the lines of a diff may come
									st.outcome("pair:text-shuffled-read-refused");
								}
							},
							Ok(Ok(rd)) => {
								st.eval();
								let got = real_apply_obj(&rd, a, Order::Sorted, 1);
								if canonical {
									let o = self.judge_inverse("text", a, b, &got, &extra);
									st.outcome(&format!("pair:text-{o}"));
									// printer self-check: what was read is what was printed
									self.selfcheck(&nd, &text, &rd);
								} else {
									let o = self.judge_inverse("text-shuffled", a, b, &got, &extra);
									st.outcome(&format!("pair:text-shuffled-{o}"));
								}
							},
						}
					}
				} else {
					st.outcome("pair:text-not-expressible");
				}
			},
		}
		// the smallest diff (entries without change left out), by the reference diff; also the oracle's self-check
		if let Some(rd) = reference {
			self.oracle_run.fetch_add(1, Ordering::Relaxed);
			let e = mdiff::apply(&rd, a, 1);
			if e.result.as_ref() == Some(b) && !e.may_refuse {
				self.oracle_ok.fetch_add(1, Ordering::Relaxed);
				let got = self.judge_apply("sparse-apply", "sparse-diff-of-pair", &[], &rd, a, None, 1);
				if matches!(got, Real::Ok(_)) {
					st.outcome("pair:sparse-diff-applied");
				}
				// the sparse diff as text: entry lines without an action, entries left out
				self.judge_text_apply("sparse-text", "sparse-diff-of-pair", &rd, a, 1, styles);
			} else {
				let mut f = self.oracle_first_failure.lock().unwrap();
				if f.is_none() {
					*f = Some(format!("{}\nreference diff {}\nreference apply {:?}", pair_case(a, b), diff_json(&rd), e));
				}
			}
		} else {
			st.outcome("pair:reference-diff-cannot-say-it");
		}
	}

	/// full truth table of `quill::apply_diff_option`
	fn option_table(&self) -> (u64, Vec<Value>) {
		fn spec(a: &Act, t: &Option<String>) -> Option<Option<String>> {
			// written from the statement: additions appear (collision refused), removals disappear and
			// edits replace, both only if the stated old value matches
			match a {
				Act::None => Some(t.clone()),
				Act::Add(b) => if t.is_some() { None } else { Some(Some(b.clone())) },
				Act::Remove(x) => if t.as_ref() == Some(x) { Some(None) } else { None },
				Act::Edit(x, y) => if t.as_ref() == Some(x) { Some(Some(y.clone())) } else { None },
			}
		}
		fn to_action<T>(a: &Act, f: impl Fn(&str) -> T) -> Action<T> {
			match a {
				Act::None => Action::None,
				Act::Add(b) => Action::Add(f(b)),
				Act::Remove(x) => Action::Remove(f(x)),
				Act::Edit(x, y) => Action::Edit(f(x), f(y)),
			}
		}
		let targets: Vec<Option<String>> = vec![None, Some("a".into()), Some("b".into()), Some("x".into())];
		let mut cells = 0u64;
		let mut rows = Vec::new();
		for act in act_forms(["a", "b"]) {
			for t in &targets {
				let want = spec(&act, t);
				let cond = condition(&act, true, t);
				for ty in ["String", "JavadocMapping"] {
					let got: Result<Result<Option<String>, String>, vcore::Panic> = vcore::guard(|| if ty == "String" {
						quill::apply_diff_option(&to_action(&act, |s| s.to_owned()), t.clone()).map_err(|e| format!("{e:#}"))
					} else {
						quill::apply_diff_option(&to_action(&act, |s| JavadocMapping(s.to_owned())), t.clone().map(JavadocMapping)).map(|o| o.map(|j| j.0)).map_err(|e| format!("{e:#}"))
					});
					cells += 1;
					let replay = || json!({"kind": "option", "action": j_act(&act), "target": j_opt(t), "type": ty, "expected": match &want { Some(w) => json!({"ok": j_opt(w)}), None => json!("refusal") }, "real": format!("{got:?}")}).to_string();
					let cls = match (&got, &want) {
						(Err(p), _) => {
							self.ctx.diff(&format!("option:panic@{}", p.file()), &format!("apply_diff_option panicked at {}: {}", p.site, p.msg), replay);
							"panicked"
						},
						(Ok(Ok(g)), Some(w)) if g == w => "ok",
						(Ok(Ok(_)), Some(_)) => {
							self.ctx.diff(&format!("option:wrong-result:{}.{cond}", act.kind()), "apply_diff_option returned a value that is not what the action says", replay);
							"wrong"
						},
						(Ok(Ok(_)), None) => {
							self.ctx.diff(&format!("option:accepted-inconsistent:{}.{cond}", act.kind()), "apply_diff_option returned Ok for an action that is inconsistent with the target", replay);
							"accepted-inconsistent"
						},
						(Ok(Err(_)), None) => "refused",
						(Ok(Err(e)), Some(_)) => {
							self.ctx.diff(&format!("option:refused-consistent:{}.{cond}", act.kind()), &format!("apply_diff_option refused a consistent action: {e}"), replay);
							"refused-consistent"
						},
					};
					self.tally.with(|st| {
						st.eval();
						st.outcome(&format!("option:{cls}"));
					});
					if ty == "String" {
						rows.push(json!({"action": j_act(&act), "target": j_opt(t), "result": cls}));
					}
				}
			}
		}
		(cells, rows)
	}
}

fn params_src_differ(b: &MSet, r: &MSet) -> bool {
	let src = |m: &MSet| -> Vec<(String, (String, String), usize, Option<String>)> {
		m.classes.iter().flat_map(|(k, c)| c.methods.iter().flat_map(move |(mk, me)| me.params.iter().map(move |(i, p)| (k.clone(), mk.clone(), *i, p.names[0].clone())))).collect()
	};
	let (sb, sr) = (src(b), src(r));
	// same parameters, different source names
	sb.len() == sr.len() && sb.iter().zip(&sr).any(|(x, y)| (&x.0, &x.1, x.2) == (&y.0, &y.1, y.2) && x.3 != y.3)
}

// ---------------------------------------------------------------------------------------------
// the state graph

#[derive(Clone, Debug, PartialEq, Eq, Hash)]
struct St {
	/// number of diffs applied so far; part of the state so that the explored graph does not depend
	/// on which worker reaches a set first
	depth: u8,
	set: MSet,
}

struct ApplyModel {
	eng: &'static Engine,
	max_depth: u8,
	/// up to which depth every pair of slots is explored (below: parent+child pairs only)
	all_pairs_below: u8,
	transitions: &'static AtomicU64,
	reached: &'static Vec<Mutex<BTreeMap<MSet, u8>>>,
}

impl ApplyModel {
	fn steps(&self, st: &St) -> Vec<Step> {
		steps_for(&st.set, if st.depth < self.all_pairs_below { Pairs::All } else { Pairs::ParentChild }, 1)
	}
}

impl Model for ApplyModel {
	type State = St;
	type Action = Step;

	fn init_states(&self) -> Vec<St> {
		initial_sets().into_iter().map(|(_, set)| St { depth: 0, set }).collect()
	}

	fn actions(&self, st: &St, actions: &mut Vec<Step>) {
		if st.depth < self.max_depth {
			actions.extend(self.steps(st));
		}
	}

	fn next_state(&self, st: &St, step: Step) -> Option<St> {
		self.transitions.fetch_add(1, Ordering::Relaxed);
		let real = vcore::watched(|| format!("apply at depth {} of {}", st.depth, label(&step.parts)), || {
			let lab = label(&step.parts);
			let real = self.eng.judge_apply("step", &lab, &step.parts, &step.diff, &st.set, None, 1);
			// the same diff as .tinydiff text
			self.eng.judge_text_apply("step-text", &lab, &step.diff, &st.set, 1, &text::STYLES);
			real
		});
		match real {
			Real::Ok(next) if next != st.set => {
				// the successors of two-slot diffs are checked but not expanded further
				let depth = if step.parts.len() > 1 { self.max_depth } else { st.depth + 1 };
				Some(St { depth, set: next })
			},
			_ => None,
		}
	}

	fn properties(&self) -> Vec<Property<Self>> {
		// Differences are reported through the Ctx while the transitions run (every one of them, not
		// only the first); the invariant records the reached set and never stops the exploration.
		vec![Property::always("reached sets recorded", |m: &ApplyModel, s: &St| {
			let shard = (vcore::hash64(&s.set) % m.reached.len() as u64) as usize;
			let mut g = m.reached[shard].lock().unwrap();
			let e = g.entry(s.set.clone()).or_insert(s.depth);
			if s.depth < *e {
				*e = s.depth;
			}
			true
		})]
	}
}

// ---------------------------------------------------------------------------------------------

fn scratch_dir() -> PathBuf {
	let name = format!("verif-c04-{}", std::process::id());
	for base in [PathBuf::from("/dev/shm"), vcore::verif_root().join("harness/target/tmp")] {
		let d = base.join(&name);
		if std::fs::create_dir_all(&d).is_ok() {
			return d;
		}
	}
	vcore::machinery_fail("no scratch directory for .tinydiff files")
}

/// the (level, action form, target condition) cells in which the statement demands a refusal, and
/// those in which it demands success
fn required_cells() -> (BTreeSet<String>, BTreeSet<String>) {
	let mut refuse = BTreeSet::new();
	let mut succeed = BTreeSet::new();
	let forms = ["remove", "edit", "edit-same"];
	for l in NODE_LEVELS {
		let n = l.name();
		for c in ["matching", "mismatching"] {
			refuse.insert(format!("{n}|add|{c}"));
		}
		for c in ["absent", "vacant"] {
			succeed.insert(format!("{n}|add|{c}"));
		}
		for f in forms {
			for c in ["absent", "vacant", "mismatching"] {
				refuse.insert(format!("{n}|{f}|{c}"));
			}
			succeed.insert(format!("{n}|{f}|matching"));
		}
		refuse.insert(format!("{n}|none|absent"));
		succeed.insert(format!("{n}|none|vacant"));
		succeed.insert(format!("{n}|none|occupied"));
	}
	for l in HELD_COMMENT_LEVELS {
		let n = l.name();
		for c in ["absent", "matching", "mismatching"] {
			refuse.insert(format!("{n}|add|{c}"));
		}
		succeed.insert(format!("{n}|add|vacant"));
		for f in forms {
			for c in ["absent", "vacant", "mismatching"] {
				refuse.insert(format!("{n}|{f}|{c}"));
			}
			succeed.insert(format!("{n}|{f}|matching"));
		}
	}
	let n = Level::MappingsComment.name();
	for c in ["matching", "mismatching"] {
		refuse.insert(format!("{n}|add|{c}"));
	}
	succeed.insert(format!("{n}|add|vacant"));
	for f in forms {
		for c in ["vacant", "mismatching"] {
			refuse.insert(format!("{n}|{f}|{c}"));
		}
		succeed.insert(format!("{n}|{f}|matching"));
	}
	let n = Level::Namespace.name();
	for c in ["matching", "mismatching"] {
		refuse.insert(format!("{n}|add|{c}"));
	}
	for f in forms {
		refuse.insert(format!("{n}|{f}|mismatching"));
	}
	succeed.insert(format!("{n}|edit|matching"));
	succeed.insert(format!("{n}|edit-same|matching"));
	(refuse, succeed)
}

fn main() {
	// Most executions here end in an `anyhow` error by design (refusals). With RUST_BACKTRACE set in
	// the environment every one of them would capture a stack trace under a process-wide lock; the
	// traces are never looked at. Done before any other thread exists.
	std::env::set_var("RUST_LIB_BACKTRACE", "0");
	let ctx: &'static Ctx = Box::leak(Box::new(Ctx::new("C04", "model_checking")));
	let scratch = scratch_dir();
	let eng: &'static Engine = Box::leak(Box::new(Engine {
		ctx,
		tally: Tally::new(),
		scratch: scratch.clone(),
		selfcheck_run: AtomicU64::new(0),
		selfcheck_ok: AtomicU64::new(0),
		selfcheck_first_failure: Mutex::new(None),
		oracle_run: AtomicU64::new(0),
		oracle_ok: AtomicU64::new(0),
		oracle_first_failure: Mutex::new(None),
	}));
	if let Some(path) = ctx.replay.clone() {
		replay(ctx, eng, &path);
	}
	for (name, m) in initial_sets() {
		if let Err(e) = m.check() {
			vcore::machinery_fail(&format!("initial set {name}: {e}"));
		}
	}

	// ---- engine 3: truth table
	let (option_cells, option_rows) = eng.option_table();

	// ---- engine 1: state graph
	let max_depth: u8 = ctx.tier.pick(2, 3);
	let all_pairs_below: u8 = ctx.tier.pick(1, 2);
	let transitions: &'static AtomicU64 = Box::leak(Box::new(AtomicU64::new(0)));
	let reached: &'static Vec<Mutex<BTreeMap<MSet, u8>>> = Box::leak(Box::new((0..64).map(|_| Mutex::new(BTreeMap::new())).collect()));
	let model = ApplyModel { eng, max_depth, all_pairs_below, transitions, reached };
	let alphabet_sizes: Vec<Value> = initial_sets().iter().map(|(n, m)| json!({"initial": n, "single_slot_diffs": steps_for(m, Pairs::ParentChild, 1).iter().filter(|s| s.parts.len() == 1).count(), "with_parent_child_pairs": steps_for(m, Pairs::ParentChild, 1).len(), "with_all_pairs": steps_for(m, Pairs::All, 1).len()})).collect();
	let checker = model.checker().threads(rayon::current_num_threads().max(1)).spawn_bfs().join();
	if !checker.is_done() {
		vcore::machinery_fail("stateright did not finish the state space");
	}
	let graph_states = checker.unique_state_count() as u64;
	let graph_max_depth = checker.max_depth();
	let n_transitions = transitions.load(Ordering::Relaxed);
	let graph_wall = ctx.elapsed_s();

	// the reached sets, simplest first: by depth, then canonical order
	let mut s_all: Vec<(u8, MSet)> = Vec::new();
	for shard in reached.iter() {
		for (m, d) in shard.lock().unwrap().iter() {
			s_all.push((*d, m.clone()));
		}
	}
	s_all.sort();
	let states_by_depth: BTreeMap<String, u64> = s_all.iter().fold(BTreeMap::new(), |mut acc, (d, _)| {
		*acc.entry(d.to_string()).or_insert(0) += 1;
		acc
	});
	let sources_beyond_initial = s_all.iter().filter(|(d, _)| *d >= 1 && *d < max_depth).count() as u64;

	// ---- engine 2: pairs over the reached sets
	let cap: usize = ctx.tier.pick(400, 2600);
	let mut caps_hit: Vec<String> = Vec::new();
	// diff() can only speak about sets in which every entry has a target name: three quarters of the
	// budget go to those (the pairs on which the inverse law says something), the rest to the others
	let (s_complete, s_partial): (Vec<&(u8, MSet)>, Vec<&(u8, MSet)>) = s_all.iter().partition(|(_, m)| complete(m));
	fn pick_spread<'a>(list: &[&'a (u8, MSet)], want: usize, what: &str, caps_hit: &mut Vec<String>) -> Vec<&'a MSet> {
		if list.len() <= want {
			return list.iter().map(|(_, m)| m).collect();
		}
		// every set up to depth 1 (as far as half the budget allows), then an even stride through the rest
		let shallow = list.iter().take_while(|(d, _)| *d <= 1).count().min(want / 2);
		let rest = &list[shallow..];
		let more = want - shallow;
		let mut v: Vec<&MSet> = list[..shallow].iter().map(|(_, m)| m).collect();
		for i in 0..more {
			v.push(&rest[i * rest.len() / more].1);
		}
		caps_hit.push(format!("pair sweep uses {} of {} reached sets {what} (the {} simplest, then every {:.1}-th in canonical order)", want, list.len(), shallow, rest.len() as f64 / more as f64));
		v
	}
	let want_partial = (cap / 4).min(s_partial.len());
	let want_complete = (cap - want_partial).min(s_complete.len());
	let want_partial = (cap - want_complete).min(s_partial.len());
	let mut chosen: Vec<&MSet> = pick_spread(&s_complete, want_complete, "with all target names", &mut caps_hit);
	let chosen_complete = chosen.len() as u64;
	chosen.extend(pick_spread(&s_partial, want_partial, "with a missing target name", &mut caps_hit));
	let n = chosen.len() as u64;
	let pair_stats = (0..n * n).into_par_iter().fold(Stats::new, |mut st, idx| {
		let (a, b) = (chosen[(idx / n) as usize], chosen[(idx % n) as usize]);
		vcore::watched(|| format!("pair {idx} of the chosen sets"), || eng.judge_pair(a, b, &mut st, &text::STYLES[..1]));
		st.sample(if a == b { "pair-equal" } else if a.classes.is_empty() || b.classes.is_empty() { "pair-with-empty" } else { "pair" }, || {
			let d = real_diff(a, b, Order::Sorted, Order::Sorted).ok().and_then(|r| r.ok()).map(|q| mapmodel::diff_from_quill(&q));
			json!({"kind": "pair", "a": set_json(a), "b": set_json(b), "real_diff": d.as_ref().map(diff_json), "tinydiff_text": d.as_ref().filter(|d| mdiff::printable(&normalize(d))).map(mdiff::print)})
		});
		st
	}).reduce(Stats::new, Stats::merge);
	let pairs_wall = ctx.elapsed_s();

	// ---- engine 4: pairs over universes with several entries in one map
	let mut sibling_stats = Stats::new();
	let mut sibling_json: BTreeMap<String, Value> = BTreeMap::new();
	let mut sibling_min_nontrivial = u64::MAX;
	let mut sibling_min_text = u64::MAX;
	let mut third_cases = 0u64;
	for (name, sets) in extra::sibling_universes(!ctx.quick()) {
		let n = sets.len() as u64;
		// the sets one action away from each set: the "wrong base versions" the diff of a pair is also applied to
		let near = extra::neighbours(&sets);
		third_cases += near.iter().map(|v| v.len() as u64).sum::<u64>() * (n - 1);
		let stt = (0..n * n).into_par_iter().fold(Stats::new, |mut st, idx| {
			let (a, b) = (&sets[(idx / n) as usize], &sets[(idx % n) as usize]);
			vcore::watched(|| format!("pair {idx} of the universe {name}"), || eng.judge_pair(a, b, &mut st, &text::STYLES));
			if a != b {
				if let Ok(Ok(qd)) = real_diff(a, b, Order::Sorted, Order::Sorted) {
					st.eval();
					let md = mapmodel::diff_from_quill(&qd);
					for &ci in &near[(idx / n) as usize] {
						vcore::watched(|| format!("diff of pair {idx} of the universe {name} on set {ci}"), || {
							eng.judge_apply("third", "diff-of-pair-on-a-third-set", &[], &md, &sets[ci], None, 1);
						});
					}
				}
			}
			st.sample(name, || json!({"kind": "pair", "universe": name, "a": set_json(a), "b": set_json(b)}));
			st
		}).reduce(Stats::new, Stats::merge);
		sibling_min_nontrivial = sibling_min_nontrivial.min(stt.get("pair:inverse-holds-nontrivial") + stt.get("pair:inverse-holds-up-to-parameter-source-names"));
		sibling_min_text = sibling_min_text.min(stt.get("pair:text-inverse-holds") + stt.get("pair:text-inverse-holds-up-to-parameter-source-names"));
		sibling_json.insert(name.to_owned(), json!({"sets": n, "ordered_pairs": n * n, "outcomes": stt.outcomes}));
		let mut renamed = Stats::new();
		renamed.evaluations = stt.evaluations;
		for (k, v) in &stt.outcomes {
			renamed.outcome_n(&format!("sibling-{k}"), *v);
		}
		renamed.distinct = stt.distinct;
		renamed.samples = stt.samples;
		sibling_stats = sibling_stats.merge(renamed);
	}
	let siblings_wall = ctx.elapsed_s();

	// ---- engine 5: three namespaces
	let wide_sources: Vec<MSet> = s_all.iter().filter(|(d, _)| *d <= 1).map(|(_, m)| m.clone()).collect();
	let wide_pairs = ctx.tier.pick(Pairs::ParentChild, Pairs::All);
	let (wide_targets, wide_cases) = extra::wide_sweep(eng, &wide_sources, wide_pairs);

	// ---- engine 6: the namespace argument; engine 7: comments that need escaping; engine 8: damaged texts
	let nsarg_stats = extra::namespace_argument(eng);
	let escape_len: usize = ctx.tier.pick(4, 5);
	let escape_pair_len: usize = ctx.tier.pick(2, 3);
	let escape_counts_1 = text::escape_space(eng, &text::ESCAPE_ALPHABET, escape_len, escape_pair_len);
	let escape2_len: usize = ctx.tier.pick(3, 4);
	let escape_counts_2 = text::escape_space(eng, &text::ESCAPE_ALPHABET_2, escape2_len, 2);
	let escape_counts = text::EscapeCounts {
		strings: escape_counts_1.strings + escape_counts_2.strings,
		strings_with_escape_and_non_ascii: escape_counts_1.strings_with_escape_and_non_ascii + escape_counts_2.strings_with_escape_and_non_ascii,
		string_pairs: escape_counts_1.string_pairs + escape_counts_2.string_pairs,
	};
	let damaged_stats = text::damaged_texts(eng);
	let escapes_wall = ctx.elapsed_s();

	// ---- engines 9-14: odd values, other namespaces, long values, big texts, damaged bytes, namespace names
	let values = odd::value_space(eng);
	let values_wall = ctx.elapsed_s();
	let cross_cases = odd::cross_namespace(eng);
	let long_max_k: usize = 140;
	let long_widths: &[char] = &odd::WIDTHS;
	let long_counts = odd::long_values(eng, long_max_k, long_widths);
	let long_wall = ctx.elapsed_s();
	let big_boundaries: &[usize] = ctx.tier.pick(&[1024usize, 4096, 8192][..], &[512usize, 1024, 2048, 4096, 8192, 16384, 32768, 65536][..]);
	let big_counts = odd::big_texts(eng, big_boundaries);
	let bytes_stats = odd::damaged_bytes(eng, long_max_k);
	let nsname = odd::namespace_names(eng);
	let _ = std::fs::remove_dir_all(&scratch);

	let tally = eng.tally.total();
	let selfcheck_run = eng.selfcheck_run.load(Ordering::Relaxed);
	let selfcheck_ok = eng.selfcheck_ok.load(Ordering::Relaxed);
	let oracle_run = eng.oracle_run.load(Ordering::Relaxed);
	let oracle_ok = eng.oracle_ok.load(Ordering::Relaxed);
	if let Some(f) = eng.selfcheck_first_failure.lock().unwrap().as_ref() {
		ctx.note(format!("printer self-check failed first on: {f}"));
		eprintln!("MACHINERY: printer self-check (reference printer → real reader) failed, first case:\n{f}");
	}
	if let Some(f) = eng.oracle_first_failure.lock().unwrap().as_ref() {
		ctx.note(format!("oracle self-check failed first on: {f}"));
		eprintln!("MACHINERY: oracle self-check (reference apply of reference diff) failed, first case:\n{f}");
	}

	// coverage table of the single-slot diffs
	let mut cells: BTreeMap<String, (u64, u64)> = BTreeMap::new();
	for (k, v) in &tally.outcomes {
		if let Some(rest) = k.strip_prefix("cov|") {
			if let Some((cell, class)) = rest.rsplit_once('|') {
				let e = cells.entry(cell.to_owned()).or_insert((0, 0));
				if class == "ok" { e.0 += v } else if class == "refused" { e.1 += v }
			}
		}
	}
	let mut wide_cells: BTreeMap<String, (u64, u64)> = BTreeMap::new();
	for (k, v) in &tally.outcomes {
		if let Some(rest) = k.strip_prefix("wide-cov|") {
			if let Some((cell, class)) = rest.rsplit_once('|') {
				let e = wide_cells.entry(cell.to_owned()).or_insert((0, 0));
				if class == "ok" { e.0 += v } else if class == "refused" { e.1 += v }
			}
		}
	}
	let (need_refuse, need_succeed) = required_cells();
	let wide_refused_cells = need_refuse.iter().filter(|c| wide_cells.get(*c).is_some_and(|e| e.1 > 0)).count() as u64;
	let wide_succeeded_cells = need_succeed.iter().filter(|c| wide_cells.get(*c).is_some_and(|e| e.0 > 0)).count() as u64;
	let refused_cells = need_refuse.iter().filter(|c| cells.get(*c).is_some_and(|e| e.1 > 0)).count() as u64;
	let succeeded_cells = need_succeed.iter().filter(|c| cells.get(*c).is_some_and(|e| e.0 > 0)).count() as u64;
	let missing: Vec<String> = need_refuse.iter().filter(|c| !cells.get(*c).is_some_and(|e| e.1 > 0)).map(|c| format!("no refusal in {c}")).chain(need_succeed.iter().filter(|c| !cells.get(*c).is_some_and(|e| e.0 > 0)).map(|c| format!("no success in {c}"))).collect();
	if !missing.is_empty() {
		ctx.note(format!("cells not exercised: {missing:?}"));
	}
	let outcomes: BTreeMap<String, u64> = tally.outcomes.iter().filter(|(k, _)| !k.starts_with("cov|") && !k.starts_with("wide-cov|")).map(|(k, v)| (k.clone(), *v))
		.chain(pair_stats.outcomes.iter().map(|(k, v)| (k.clone(), *v)))
		.chain(sibling_stats.outcomes.iter().map(|(k, v)| (k.clone(), *v)))
		.chain(nsarg_stats.outcomes.iter().map(|(k, v)| (k.clone(), *v)))
		.chain(damaged_stats.outcomes.iter().map(|(k, v)| (k.clone(), *v)))
		.chain(values.stats.outcomes.iter().map(|(k, v)| (format!("value-{k}"), *v)))
		.chain(bytes_stats.outcomes.iter().map(|(k, v)| (k.clone(), *v)))
		.chain(nsname.stats.outcomes.iter().map(|(k, v)| (k.clone(), *v)))
		.collect();
	let get = |k: &str| outcomes.get(k).copied().unwrap_or(0);

	ctx.floor("(level, action form, target condition) cells with a refusal, of those where the statement demands one", need_refuse.len() as u64, refused_cells);
	ctx.floor("(level, action form, target condition) cells with a success, of those where the statement demands one", need_succeed.len() as u64, succeeded_cells);
	ctx.floor("successful applications that changed the set (state graph)", ctx.tier.pick(2000, 20000), get("step:applied") + get("step:applied-where-refusal-allowed"));
	ctx.floor("refusals of inconsistent diffs (state graph)", ctx.tier.pick(2000, 20000), get("step:refused-inconsistent"));
	ctx.floor("removals of an entry whose children carry actions, applied", 10, get("removal-with-actions-below-applied"));
	ctx.floor("two-slot diffs applied", 100, get("pair-diff:ok"));
	ctx.floor("two-slot diffs refused", 100, get("pair-diff:refused"));
	ctx.floor("non-initial sets that diffs were applied to", 50, sources_beyond_initial);
	ctx.floor("ordered pairs (A,B) checked", 10000, get("pair:checked"));
	ctx.floor("pairs with A != B where apply(diff(A,B),A) == B", 1000, get("pair:inverse-holds-nontrivial"));
	ctx.floor("pairs where diff refuses because a target name is missing", 100, get("pair:diff-refused-missing-target-name"));
	ctx.floor("pairs taken through .tinydiff text and the real reader", 1000, selfcheck_run);
	ctx.floor("printer self-check passes (must equal the number of text legs)", selfcheck_run, selfcheck_ok);
	ctx.floor("oracle self-check passes (reference apply of reference diff gives B)", oracle_run, oracle_ok);
	ctx.floor("sparse diffs (unchanged entries left out) applied", 1000, get("pair:sparse-diff-applied"));
	// the text form of the diffs of the state graph
	let sum_prefix = |p: &str| outcomes.iter().filter(|(k, _)| k.starts_with(p)).map(|(_, v)| *v).sum::<u64>();
	ctx.floor("diffs of the state graph applied after travelling through .tinydiff text", ctx.tier.pick(2000, 20000), get("step-text:applied") + get("step-text:applied-where-refusal-allowed"));
	ctx.floor("inconsistent diffs of the state graph refused after travelling through .tinydiff text", ctx.tier.pick(2000, 20000), get("step-text:refused-inconsistent"));
	ctx.floor("texts with the lines in another order read and applied", 1000, sum_prefix("step-text:shuffled-applied") + get("sibling-pair:text-shuffled-inverse-holds"));
	ctx.floor("sparse diffs (entry lines without an action) taken through text", 1000, get("sparse-text:applied") + get("sparse-text:applied-no-change"));
	ctx.floor("comment strings with an escape and a character outside ASCII taken through text", 100, escape_counts.strings_with_escape_and_non_ascii);
	ctx.floor("comment actions over the escape space applied through text", 4 * 4 * escape_counts.strings, get("escape-text:applied"));
	ctx.floor("inconsistent comment actions over the escape space refused through text", 4 * escape_counts.strings + 2 * escape_counts.string_pairs, get("escape-text:refused-inconsistent"));
	// siblings
	ctx.floor("pairs with A != B where apply(diff(A,B),A) == B, in the smallest of the sibling universes", 1000, sibling_min_nontrivial);
	ctx.floor("pairs through .tinydiff text, in the smallest of the sibling universes", 1000, sibling_min_text);
	ctx.floor("diffs of a pair (A,B) applied to a set one action away from A: refused", 1000, get("third:refused-inconsistent"));
	ctx.floor("diffs of a pair (A,B) applied to a set one action away from A: applied", 1000, get("third:applied") + get("third:applied-where-refusal-allowed"));
	// three namespaces
	ctx.floor("three-namespace targets", 6, wide_targets);
	ctx.floor("three namespaces: (level, action form, target condition) cells with a refusal, of those where the statement demands one", need_refuse.len() as u64, wide_refused_cells);
	ctx.floor("three namespaces: (level, action form, target condition) cells with a success, of those where the statement demands one", need_succeed.len() as u64, wide_succeeded_cells);
	ctx.floor("three namespaces: applications that changed the set", 1000, get("wide:applied") + get("wide:applied-where-refusal-allowed"));
	// namespace argument, damaged texts
	ctx.floor("applications with a namespace name the target does not have, refused", 100, get("namespace-argument:unknown:refused"));
	ctx.floor("damaged texts refused by the reader", 50, get("damaged-text:read-refused"));
	ctx.floor("damaged texts accepted by the reader (and applied without a panic)", 10, get("damaged-text:read-accepted"));
	// odd values
	ctx.floor("value families (one odd value in one slot)", 400, values.families);
	ctx.floor("value space: slots probed (name, comment, key columns of class, field, method, parameter)", 14, values.by_slot.len() as u64);
	ctx.floor("value space: pairs with A != B where apply(diff(A,B),A) == B", 2000, get("value-pair:inverse-holds-nontrivial"));
	ctx.floor("value space: pairs through .tinydiff text", 2000, get("value-pair:text-inverse-holds"));
	ctx.floor("value space: pairs through .tinydiff text with the lines in another order", 2000, get("value-pair:text-shuffled-inverse-holds"));
	ctx.floor("value space: diffs of a pair on another set of the family refused", 2000, get("value-third:refused-inconsistent"));
	ctx.floor("value space: diffs of a pair on another set of the family applied", 500, get("value-third:applied") + get("value-third:applied-where-refusal-allowed"));
	ctx.floor("value space: sparse diffs on another set through text refused", 1000, get("value-third-text:refused-inconsistent"));
	ctx.floor("value space: sparse diffs on another set through text applied", 200, get("value-third-text:applied") + get("value-third-text:applied-where-refusal-allowed"));
	ctx.floor("stated old value held by another namespace: refused", 30, get("cross-namespace:refused-inconsistent"));
	ctx.floor("stated old value held by the target namespace beside another namespace: applied", 20, get("cross-namespace:applied"));
	// long values
	ctx.floor("long values (k ASCII characters and a last character of 1-4 bytes)", (long_max_k as u64 + 1) * long_widths.len() as u64, long_counts.values);
	ctx.floor("long values: applications that changed the set", 20 * long_counts.values, get("long:applied") + get("long:applied-where-refusal-allowed"));
	ctx.floor("long values: refusals (the messages quote the values)", 100 * long_counts.values, get("long:refused-inconsistent"));
	ctx.floor("long values through text: applied", 20 * long_counts.values, get("long-text:applied") + get("long-text:applied-where-refusal-allowed"));
	ctx.floor("long values through text: refused", 50 * long_counts.values, get("long-text:refused-inconsistent"));
	// big texts, damaged bytes
	ctx.floor("texts with a region moved across a buffer boundary, read and applied", big_counts.boundary_texts, get("big-text:applied") + get("big-text:shuffled-applied"));
	ctx.floor("largest text in bytes", 200_000, big_counts.largest_text_bytes);
	ctx.floor("pairs of sets with hundreds and thousands of entries through text", 4, big_counts.many_entries);
	ctx.floor("files cut short or holding bytes that are not UTF-8: refused", 500, get("damaged-bytes:read-refused"));
	ctx.floor("files cut short: accepted (and applied without a panic)", 20, get("damaged-bytes:read-accepted"));
	ctx.floor("missing file and directory refused", 2, get("damaged-bytes:path-refused"));
	ctx.floor("files with long names holding wide characters and blanks: read", 100, get("damaged-bytes:odd-path-accepted-content:read"));
	ctx.floor("files with long names holding wide characters and blanks: refused for their content", 100, get("damaged-bytes:odd-path-refused-content:refused"));
	// namespace names
	ctx.floor("applications with a namespace name that resembles the target namespace, refused", 5000, get("namespace-argument:resembling:refused"));
	ctx.floor("three-namespace targets whose other namespace resembles the target namespace", 24, nsname.resembling_targets);
	ctx.floor("resembling namespaces: applications that changed the set", 1000, get("resembling:applied") + get("resembling:applied-where-refusal-allowed"));
	ctx.floor("resembling namespaces: refusals", 1000, get("resembling:refused-inconsistent"));
	ctx.floor("apply_diff_option cells", 72, option_cells);
	ctx.floor("apply_diff_option refusals", 20, get("option:refused"));

	// deterministic samples of transitions
	let mut samples: Vec<Value> = Vec::new();
	for (name, m) in initial_sets() {
		let steps = steps_for(&m, Pairs::ParentChild, 1);
		for pickidx in [steps.len() / 3, steps.len() - 1] {
			let s = &steps[pickidx];
			let r = real_apply(&s.diff, &m, Order::Sorted, Order::Sorted, 1);
			samples.push(json!({"kind": "transition", "from": name, "slots": label(&s.parts), "diff": diff_json(&s.diff), "real": r.class(), "result": if let Real::Ok(x) = &r { set_json(x) } else { Value::Null }}));
		}
	}
	samples.extend(pair_stats.samples.iter().cloned());
	samples.extend(sibling_stats.samples.iter().cloned());
	samples.extend(values.stats.samples.iter().take(3).cloned());

	let evaluations = tally.evaluations + pair_stats.evaluations + sibling_stats.evaluations + nsarg_stats.evaluations + damaged_stats.evaluations
		+ values.stats.evaluations + bytes_stats.evaluations + nsname.stats.evaluations;
	let cells_json: BTreeMap<String, Value> = cells.iter().map(|(k, (ok, refused))| (k.clone(), json!({"ok": ok, "refused": refused}))).collect();
	let value_json = json!({"probe": "class p/A (field f:I, method m(I)V, parameter 0) beside a twin field, method, parameter and a second class", "family": "entry absent / without target name (or comment) / base value / the value / a third value", "families": values.families, "families_by_slot": values.by_slot, "sets": values.sets,
		"per_family": "every ordered pair through the pair law (object, text in two line orders, sparse diff); the real and the sparse diff of every pair on every other set of the family (sparse also through text)"});
	let long_targets = ["full", "every entry without name and comment", "the other values", "empty", "the class without members (diffs of field and method level)", "the method without parameters (diffs of parameter level)"];
	let long_json = json!({"max_ascii_run": long_max_k, "last_characters": long_widths.iter().map(|c| c.to_string()).collect::<Vec<_>>(), "values": long_counts.values, "targets": long_targets, "cases": long_counts.cases});
	let big_json = json!({"buffer_boundaries": big_boundaries, "boundary_texts": big_counts.boundary_texts, "largest_text_bytes": big_counts.largest_text_bytes, "pairs_with_many_entries": big_counts.many_entries});
	let nsname_json = json!({"resembling_arguments": nsname.stats.evaluations, "three_namespace_targets": nsname.resembling_targets, "cases": nsname.resembling_cases});
	let coverage = json!({
		"states": graph_states,
		"distinct_sets_reached": s_all.len(),
		"sets_by_min_depth": states_by_depth,
		"transitions": n_transitions,
		"traces_validated_against_impl": n_transitions,
		"max_depth": graph_max_depth,
		"evaluations": evaluations,
		"distinct_nontrivial": tally.distinct.len() + pair_stats.distinct.len() + sibling_stats.distinct.len() + values.stats.distinct.len(),
		"rule": "a state is (number of diffs applied, two-namespace mapping set); a transition builds the real Mappings and MappingsDiff, runs the real apply_to (in 2-3 insertion orders) and compares the projected result with the reference apply; distinct_nontrivial = distinct (target, diff) cases whose application changed the set or was refused, plus distinct ordered pairs (A,B) taken through the real diff → apply_to (→ .tinydiff text → read_file → apply_to). evaluations counts executions of real apply_to / diff / read_file / apply_diff_option",
		"exhaustive": caps_hit.is_empty(),
		"caps_hit": caps_hit,
		"samples": samples,
		"bounds": {
			"universe": "classes p/A and B, each with one field and one method with one parameter (B's parameter has a source name), comment slots on the set and on every entry; two values per slot",
			"initial_sets": ["empty", "fully-named", "half-named"],
			"action_forms_per_slot": ["none", "add v1", "add v2", "remove v1", "remove v2", "edit v1→v2", "edit v2→v1", "edit v1→v1", "edit v2→v2"],
			"slots": sites().len(),
			"alphabet_sizes_at_initial_sets": alphabet_sizes,
			"depth": max_depth,
			"every_two_slot_diff_below_depth": all_pairs_below,
			"parent_child_two_slot_diffs_at_every_depth": true,
			"pair_sweep_sets": n,
			"pair_sweep_sets_with_all_target_names": chosen_complete,
			"reached_sets_with_all_target_names": s_complete.len(),
			"pair_sweep_cap": cap,
			"text_line_orders": text::STYLES.iter().map(|s| s.name()).collect::<Vec<_>>(),
			"sibling_universes": sibling_json,
			"diff_of_pair_on_third_set": {"third_sets": "for (A,B): every set of the universe whose reference diff from A has exactly one action", "cases": third_cases},
			"three_namespaces": {"sources": "the reached sets of depth <= 1, each with an extra namespace before and behind the target namespace", "targets": wide_targets, "diffs_per_target": if wide_pairs == Pairs::All { "every one- and two-slot diff" } else { "every one-slot diff and the parent+child two-slot diffs" }, "cases": wide_cases},
			"escape_space": {"alphabet": text::ESCAPE_ALPHABET.iter().map(|c| c.to_string()).collect::<Vec<_>>(), "max_length": escape_len, "strings": escape_counts_1.strings,
				"second_alphabet": text::ESCAPE_ALPHABET_2.iter().map(|c| c.to_string()).collect::<Vec<_>>(), "second_max_length": escape2_len, "second_strings": escape_counts_2.strings, "second_pair_max_length": 2, "forms_per_string_and_level": ["add", "remove", "edit to", "edit from", "remove with another value in the target"], "pair_max_length": escape_pair_len, "ordered_pairs_of_strings": escape_counts.string_pairs},
			"damaged_texts": damaged_stats.evaluations,
			"value_space": value_json,
			"cross_namespace_cases": cross_cases,
			"long_values": long_json,
			"big_texts": big_json,
			"damaged_bytes": bytes_stats.evaluations,
			"namespace_names": nsname_json,
		},
		"outcomes": outcomes,
		"single_slot_cells": cells_json,
		"three_namespace_single_slot_cells": wide_cells.iter().map(|(k, (ok, refused))| (k.clone(), json!({"ok": ok, "refused": refused}))).collect::<BTreeMap<String, Value>>(),
		"wall_s_after_pair_sweep": (pairs_wall * 1000.0).round() / 1000.0,
		"wall_s_after_sibling_universes": (siblings_wall * 1000.0).round() / 1000.0,
		"apply_diff_option_table": option_rows,
		"pairs": {"sets": n, "ordered_pairs": n * n, "text_legs": selfcheck_run},
		"wall_s_state_graph": (graph_wall * 1000.0).round() / 1000.0,
		"wall_s_after_escape_spaces": (escapes_wall * 1000.0).round() / 1000.0,
		"wall_s_after_value_space": (values_wall * 1000.0).round() / 1000.0,
		"wall_s_after_long_values": (long_wall * 1000.0).round() / 1000.0,
	});
	ctx.finish(coverage, &[
		"names and comments come from a two-value alphabet per slot; names containing TAB/newline are outside the formats",
		"comments that are empty are applied and diffed as objects but not taken through .tinydiff text (empty cell = absent in the text form); TAB, carriage return and NUL travel with the escapes of Tiny v2",
		"names (JVMS 4.2.2) may hold blanks, backslashes and any character but . ; [ / (methods: < >); names holding a TAB, a line break or a carriage return cannot be written in the text form and are not explored",
		"a file that is cut short, is not UTF-8 or has an odd name, and a namespace renamed to the name of another namespace, are outside the statement: only panics and hangs are judged",
		"the text form is the one of the reference printer (the repository has no writer for .tinydiff); the same lines in another sibling order may be refused by the reader, but if read they must mean the same",
		"two equal columns in the text say 'no action': where the object form Edit(a, a) must be refused (a is not the target's value) the text form may be refused or applied as a no-op",
		"targets with a third namespace are applied to (either non-first namespace as target); diff() exists for two namespaces only",
		"the first namespace as target namespace, and texts that are not what the reference printer writes (damaged lines, other headers) are outside the statement: only panics and hangs are judged",
		"a parameter's source-namespace name cannot be said by a diff; pairs that differ in it are judged (diff must refuse or apply must give B)",
		"removing the namespace itself, and pairs over different namespaces, are outside the statement: only panics are judged there",
		"where the statement is silent (actions below a removed entry, a change-free line for a missing entry, diff of sets with missing target names) a refusal and the reference result are both accepted",
		"stateright's BFS visits every reachable state (its exhaustiveness is trusted)",
	]);
}

fn replay(ctx: &'static Ctx, eng: &'static Engine, path: &Path) -> ! {
	let body = vcore::replay_body(path);
	let first = body.lines().next().unwrap_or("");
	let v: Value = serde_json::from_str(first).unwrap_or_else(|e| bad_replay(&format!("first line is not JSON: {e}")));
	let kind = p_str(&v, "kind");
	match kind.as_str() {
		"apply" => {
			let target = set_from_json(v.get("target").unwrap_or_else(|| bad_replay("target")));
			let d = diff_from_json(v.get("diff").unwrap_or_else(|| bad_replay("diff")));
			let t = v.get("target_namespace").and_then(|x| x.as_u64()).unwrap_or(1) as usize;
			let r1 = eng.judge_apply(&p_str(&v, "leg"), &p_str(&v, "slots"), &[], &d, &target, None, t);
			let r2 = real_apply(&d, &target, Order::Sorted, Order::Sorted, t);
			println!("expected: {:?}\nreal: {}", mdiff::apply(&d, &target, t), r1.render());
			if r1 != r2 {
				vcore::machinery_fail("replay is not deterministic");
			}
		},
		"pair" => {
			let a = set_from_json(v.get("a").unwrap_or_else(|| bad_replay("a")));
			let b = set_from_json(v.get("b").unwrap_or_else(|| bad_replay("b")));
			let mut st = Stats::new();
			eng.judge_pair(&a, &b, &mut st, &text::STYLES);
			let mut st2 = Stats::new();
			eng.judge_pair(&a, &b, &mut st2, &text::STYLES);
			println!("outcomes: {:?}", st.outcomes);
			if st.outcomes != st2.outcomes {
				vcore::machinery_fail("replay is not deterministic");
			}
		},
		"option" => {
			eng.option_table();
		},
		"text-apply" => {
			let target = set_from_json(v.get("target").unwrap_or_else(|| bad_replay("target")));
			let d = diff_from_json(v.get("diff").unwrap_or_else(|| bad_replay("diff")));
			let t = v.get("target_namespace").and_then(|x| x.as_u64()).unwrap_or(1) as usize;
			for _ in 0..2 {
				eng.judge_text_apply(&p_str(&v, "leg"), &p_str(&v, "slots"), &d, &target, t, &text::STYLES);
			}
			println!("expected: {:?}", text::expect(&d, &normalize(&d), &target, t));
			for style in text::STYLES {
				let text = text::print(&d, style);
				let rd = eng.read_text(&text);
				println!("text ({}):\n{text}read_file: {}", style.name(), match &rd { Ok(Ok(q)) => format!("Ok {}", diff_json(&mapmodel::diff_from_quill(q))), Ok(Err(e)) => format!("Err {e}"), Err(p) => format!("panic at {}: {}", p.site, p.msg) });
				if let Ok(Ok(q)) = &rd {
					println!("apply_to: {}", real_apply_obj(q, &target, Order::Sorted, t).render());
				}
			}
		},
		"damaged-text" => {
			let text = p_str(&v, "text");
			let (r1, r2) = (eng.read_text(&text), eng.read_text(&text));
			let show = |r: &Result<Result<MappingsDiff, String>, vcore::Panic>| match r { Ok(Ok(q)) => format!("Ok {}", diff_json(&mapmodel::diff_from_quill(q))), Ok(Err(e)) => format!("Err {e}"), Err(p) => format!("panic at {}: {}", p.site, p.msg) };
			println!("read_file: {}", show(&r1));
			if show(&r1) != show(&r2) {
				vcore::machinery_fail("replay is not deterministic");
			}
			if let Err(p) = &r1 {
				ctx.diff(&format!("text:panic@{}", p.file()), &format!("tiny_v2_diff::read_file panicked at {}: {}", p.site, p.msg), || body.clone());
			}
		},
		"damaged-bytes" => {
			let bytes = vcore::unhex(&p_str(&v, "hex")).unwrap_or_else(|| bad_replay("hex"));
			let (mut s1, mut s2) = (Stats::new(), Stats::new());
			odd::judge_bytes(eng, &p_str(&v, "name"), &bytes, &mut s1);
			odd::judge_bytes(eng, &p_str(&v, "name"), &bytes, &mut s2);
			println!("outcomes: {:?}", s1.outcomes);
			if s1.outcomes != s2.outcomes {
				vcore::machinery_fail("replay is not deterministic");
			}
		},
		"namespace-argument" => {
			let target = set_from_json(v.get("target").unwrap_or_else(|| bad_replay("target")));
			let d = diff_from_json(v.get("diff").unwrap_or_else(|| bad_replay("diff")));
			let name = p_str(&v, "name");
			let qd = quill_diff(&d, Order::Sorted);
			let (r1, r2) = (real_apply_named::<2>(&qd, &target, Order::Sorted, &name), real_apply_named::<2>(&qd, &target, Order::Sorted, &name));
			println!("apply_to(target, {name:?}): {}", r1.render());
			if r1 != r2 {
				vcore::machinery_fail("replay is not deterministic");
			}
			match &r1 {
				Real::Panicked(p) => ctx.diff(&format!("apply:panic@{}", p.file()), &format!("apply_to panicked at {}: {}", p.site, p.msg), || body.clone()),
				Real::Refused(_) => {},
				_ if name == NAMESPACES[0] => {},
				_ => ctx.diff("apply:unknown-namespace-accepted", "apply_to returned Ok for a target namespace the target does not have", || body.clone()),
			}
		},
		other => bad_replay(&format!("unknown kind {other:?}")),
	}
	let _ = std::fs::remove_dir_all(&eng.scratch);
	ctx.finish(json!({"states": 1, "transitions": 1, "traces_validated_against_impl": 1, "samples": ["replay"]}), &[]);
}
