//! C04 — the spaces beside the state graph: sets with several entries in one map (siblings that
//! share a name, several parameters, three classes), targets with a third namespace, and the
//! namespace argument of `apply_to` itself.

use super::*;
use mapmodel::gen::{docs, tails, ClassU, FieldU, MethodU, ParamU, Space, Universe};

fn ns2() -> Vec<String> {
	NAMESPACES.iter().map(|s| s.to_string()).collect()
}

fn names(a: &str, b: &str) -> Vec<Row> {
	tails(&[&[Some(a), Some(b)]])
}

/// Exhaustive universes of complete two-namespace sets in which one map has several entries. Every
/// ordered pair of sets of one universe is a pair (A,B) "sharing some, all or no keys" at that level.
pub fn sibling_universes(thorough: bool) -> Vec<(&'static str, Vec<MSet>)> {
	// the comment variants of an entry: none, one that needs escaping and has a character outside
	// ASCII, and (thorough) a second one, so that comment edits between two present values occur
	let dv = |d1: &str, d2: &str| if thorough { docs(&[None, Some(d1), Some(d2)]) } else { docs(&[None, Some(d1)]) };
	let mut out = Vec::new();

	// fields: two of the same name (different descriptor) and one of the same descriptor
	let fields = Universe { ns: ns2(), classes: vec![ClassU {
		key: "p/A".into(), rows: tails(&[&[Some("q/X")]]), docs: docs(&[None]), optional: true, methods: vec![],
		fields: vec![
			FieldU { name: "f".into(), desc: "I".into(), rows: names("g", "h"), docs: dv("é\nx", "y") },
			FieldU { name: "f".into(), desc: "J".into(), rows: names("g", "k"), docs: dv("fd\\", "y") },
			FieldU { name: "g".into(), desc: "I".into(), rows: names("f", "h"), docs: dv("fd", "fd two") },
		],
	}] };
	out.push(("fields-of-one-class", Space::new(&fields).all()));

	// parameters: three of one method, one of them with a source name
	let pr = |src: Option<&str>, a: &str, b: &str| -> Vec<Row> { vec![vec![src.map(|s| s.to_owned()), Some(a.to_owned())], vec![src.map(|s| s.to_owned()), Some(b.to_owned())]] };
	let params = Universe { ns: ns2(), classes: vec![ClassU {
		key: "p/A".into(), rows: tails(&[&[Some("q/X")]]), docs: docs(&[None]), optional: false, fields: vec![],
		methods: vec![MethodU {
			name: "m".into(), desc: "(IJI)V".into(), rows: tails(&[&[Some("n")]]), docs: docs(&[None]),
			params: vec![
				ParamU { index: 0, rows: pr(None, "a", "b"), docs: dv("pd", "l1\nl2") },
				ParamU { index: 1, rows: pr(Some("s1"), "a", "c"), docs: dv("µ\\n", "y") },
				ParamU { index: 3, rows: pr(None, "b", "c"), docs: dv("pd", "pd two") },
			],
		}],
	}] };
	out.push(("parameters-of-one-method", Space::new(&params).all()));

	// classes: three, one in a package, two sharing their target names
	let cu = |key: &str, a: &str, b: &str, d1: &str| ClassU { key: key.into(), rows: names(a, b), docs: dv(d1, "y"), optional: true, fields: vec![], methods: vec![] };
	let classes = Universe { ns: ns2(), classes: vec![cu("A", "X", "Y", "c d"), cu("B", "X", "Z", "ü\n\\"), cu("p/C", "q/X", "Y", "cd")] };
	out.push(("classes", Space::new(&classes).all()));

	// methods: two of the same name, a field of that name as well, a parameter below one of them
	let methods = Universe { ns: ns2(), classes: vec![ClassU {
		key: "p/A".into(), rows: tails(&[&[Some("q/X")]]), docs: docs(&[None]), optional: false,
		fields: vec![FieldU { name: "m".into(), desc: "I".into(), rows: names("n", "o"), docs: docs(&[None]) }],
		methods: vec![
			MethodU { name: "m".into(), desc: "()V".into(), rows: names("n", "o"), docs: dv("md", "y"), params: vec![] },
			MethodU { name: "m".into(), desc: "(I)V".into(), rows: names("n", "r"), docs: dv("m\né", "y"), params: vec![ParamU { index: 0, rows: pr(None, "a", "b"), docs: docs(&[None]) }] },
		],
	}] };
	out.push(("methods-of-one-class", Space::new(&methods).all()));
	for (name, sets) in &out {
		for m in sets {
			if let Err(e) = m.check() {
				vcore::machinery_fail(&format!("sibling universe {name}: {e}"));
			}
		}
	}
	out
}

fn action_count(d: &MDiff) -> usize {
	let one = |a: &Act| usize::from(!a.is_none());
	one(&d.info) + one(&d.doc) + d.classes.values().map(|c| {
		one(&c.info) + one(&c.doc)
			+ c.fields.values().map(|f| one(&f.info) + one(&f.doc)).sum::<usize>()
			+ c.methods.values().map(|m| one(&m.info) + one(&m.doc) + m.params.values().map(|p| one(&p.info) + one(&p.doc)).sum::<usize>()).sum::<usize>()
	}).sum::<usize>()
}

/// for every set of the list the indices of the sets that are one action of the (reference) diff away
pub fn neighbours(sets: &[MSet]) -> Vec<Vec<usize>> {
	(0..sets.len()).into_par_iter().map(|i| {
		(0..sets.len()).filter(|&j| j != i && mdiff::diff(&sets[i], &sets[j]).is_some_and(|d| action_count(&d) == 1)).collect()
	}).collect()
}

// ---------------------------------------------------------------------------------------------
// a third namespace

/// The set with one more namespace at column `at` (1 or 2): every other entry gets a name there,
/// the others none. The diff's target namespace is the other one of the two; this one must stay.
pub fn widen(m: &MSet, at: usize) -> MSet {
	let mut w = m.clone();
	w.ns.insert(at, "extra".to_owned());
	let mut k = 0usize;
	let mut cell = |v: &str| {
		k += 1;
		if k % 3 != 0 { Some(v.to_owned()) } else { None }
	};
	for c in w.classes.values_mut() {
		c.names.insert(at, cell("e/K"));
		for f in c.fields.values_mut() {
			f.names.insert(at, cell("ef"));
		}
		for me in c.methods.values_mut() {
			me.names.insert(at, cell("em"));
			for p in me.params.values_mut() {
				p.names.insert(at, cell("ep"));
			}
		}
	}
	// the classes get different names there
	for (i, c) in w.classes.values_mut().enumerate() {
		if let Some(n) = &mut c.names[at] {
			n.push_str(&i.to_string());
		}
	}
	w
}

/// Every diff of the alphabet applied to three-namespace targets, with either non-first namespace
/// as the target namespace, in lock-step with the reference apply.
pub fn wide_sweep(eng: &'static Engine, sources: &[MSet], pairs: Pairs) -> (u64, u64) {
	let mut targets: Vec<(MSet, usize)> = Vec::new();
	for m in sources {
		// the old target column stays the target: extra column behind it (t = 1) or before it (t = 2)
		targets.push((widen(m, 2), 1));
		targets.push((widen(m, 1), 2));
	}
	for (w, _) in &targets {
		if let Err(e) = w.check() {
			vcore::machinery_fail(&format!("widened set: {e}"));
		}
	}
	let cases: u64 = targets.par_iter().map(|(w, t)| {
		let steps = steps_for(w, pairs, *t);
		steps.par_iter().map(|s| {
			let lab = label(&s.parts);
			vcore::watched(|| format!("three namespaces, target {t}: {lab}"), || {
				let real = eng.judge_apply("wide", &lab, &[], &s.diff, w, None, *t);
				if s.parts.len() == 1 {
					eng.tally.with(|st| st.outcome(&format!("wide-cov|{}|{}", s.parts[0].cell(), real.class())));
				}
			});
			1u64
		}).sum::<u64>()
	}).sum();
	(targets.len() as u64, cases)
}

// ---------------------------------------------------------------------------------------------
// the namespace argument

/// `apply_to` takes the target namespace by NAME. A name the target does not have cannot be a
/// target namespace at all: the application must be refused. The first namespace holds the keys;
/// the statement does not speak about it (explored for panics, the outcomes are only counted).
pub fn namespace_argument(eng: &'static Engine) -> Stats {
	let mut cases: Vec<(MSet, Step)> = Vec::new();
	for (_, m) in initial_sets() {
		for s in steps_for(&m, Pairs::ParentChild, 1) {
			if s.parts.len() == 1 || s.parts.iter().any(|p| matches!(p.act, Act::Add(_))) {
				cases.push((m.clone(), s));
			}
		}
	}
	cases.into_par_iter().fold(Stats::new, |mut st, (m, s)| {
		let lab = label(&s.parts);
		let qd = quill_diff(&s.diff, Order::Sorted);
		for (what, name) in [("unknown", "nowhere"), ("empty", ""), ("first", NAMESPACES[0])] {
			st.eval();
			let real = vcore::watched(|| format!("namespace argument {name:?}: {lab}"), || real_apply_named::<2>(&qd, &m, Order::Sorted, name));
			let replay = || format!("{}\n\napply_to(target, {name:?})\nreal: {}\n", json!({"kind": "namespace-argument", "name": name, "slots": lab, "target": set_json(&m), "diff": diff_json(&s.diff)}), real.render());
			match (&real, what) {
				(Real::Panicked(p), _) => {
					eng.ctx.diff(&format!("apply:panic@{}", p.file()), &format!("apply_to panicked at {}: {} (namespace argument {name:?})", p.site, p.msg), replay);
					st.outcome(&format!("namespace-argument:{what}:panicked"));
				},
				(Real::Refused(_), _) => st.outcome(&format!("namespace-argument:{what}:refused")),
				(_, "first") => st.outcome(&format!("namespace-argument:first:{}", real.class())),
				(other, _) => {
					eng.ctx.diff("apply:unknown-namespace-accepted", &format!("apply_to returned Ok for the target namespace {name:?}, which the target does not have"), replay);
					st.outcome(&format!("namespace-argument:{what}:{}", other.class()));
				},
			}
		}
		st
	}).reduce(Stats::new, Stats::merge)
}
