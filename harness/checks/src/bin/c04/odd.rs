//! C04 — the values and the environments beside the two-value alphabets of the state graph.
//!
//! Engine 9 (`value_space`): one probed entry at a time (class, field, method, parameter; its key
//! columns, its target name, its comment) takes every value of an alphabet of odd but legal texts —
//! characters of 2, 3 and 4 UTF-8 bytes at the first / a middle / the last position, the letters that
//! name line kinds, blanks (legal in JVMS 4.2.2 names) at either end, descriptor tag letters, `$`,
//! backslashes (names are not escaped), the entry's own source name (`m → m`), the name of a sibling,
//! case variants, prefixes and extensions of the other values, two- and three-digit parameter
//! indices. For every value a family of sets (entry absent / without name / with the base value /
//! with the value / with a third value) is built; every ordered pair of the family goes through the
//! pair law (`judge_pair`: real diff → apply, → text → read → apply, sparse diff) and the diff of
//! every pair is applied to every other set of the family (object and text form) in lock-step with
//! the reference: the "stated old value" and the "colliding addition" then range over values that
//! are neither of the two a diff mentions.
//! Engine 10 (`cross_namespace`): the stated old value is what ANOTHER namespace of the entry holds
//! (the source name; the third namespace), the target namespace holds something else.
//! Engine 11 (`long_values`): every text of the probe (keys, names, comments, namespace names) is `k`
//! ASCII characters followed by one character of 1/2/3/4 bytes, for every k up to 140, under every
//! one-slot action form on a full, a nameless and an empty target: accepting and refusing (the
//! messages of the refusals quote the values).
//! Engine 12 (`big_texts`): texts larger than the buffer of a reader: a comment of growing length
//! moves a region holding every kind of line, multi-byte characters and escapes byte by byte across
//! offset 8192 (and 16384); one pair of sets with thousands of entries.
//! Engine 13 (`damaged_bytes`): the file as the environment serves it — cut after every byte, with
//! bytes that are not UTF-8, missing, a directory: panics and hangs only.
//! Engine 14 (`namespace_names`): the namespace argument against names that only resemble a
//! namespace of the target (case, prefix, extension, blanks) and three-namespace targets whose
//! other namespace is a prefix / an extension / a case variant of the target namespace; namespace
//! actions whose stated old name is the name of another namespace.

use super::*;

// ---------------------------------------------------------------------------------------------
// the probe

#[derive(Clone, Debug)]
pub struct Probe {
	pub class_key: String,
	pub field_key: (String, String),
	pub method_key: (String, String),
	pub param_index: usize,
	/// base values: target name and comment of class, field, method, parameter
	pub names: [String; 4],
	pub docs: [String; 4],
}

const NODES: [Level; 4] = [Level::Class, Level::Field, Level::Method, Level::Parameter];

fn node_index(l: Level) -> usize {
	match l {
		Level::Class | Level::ClassComment => 0,
		Level::Field | Level::FieldComment => 1,
		Level::Method | Level::MethodComment => 2,
		Level::Parameter | Level::ParameterComment => 3,
		_ => vcore::machinery_fail("node_index: not a level of an entry"),
	}
}

impl Probe {
	pub fn base() -> Probe {
		Probe {
			class_key: "p/A".into(),
			field_key: ("f".into(), "I".into()),
			method_key: ("m".into(), "(I)V".into()),
			param_index: 0,
			names: ["q/Xy".into(), "gh".into(), "no".into(), "ab".into()],
			docs: ["class doc".into(), "field doc".into(), "method doc".into(), "param doc".into()],
		}
	}
	fn third_name(l: Level) -> &'static str {
		if l == Level::Class { "q/W" } else { "w" }
	}
}

/// the state of the probed entry: absent, or present with (target name, comment)
type Entry = Option<(Option<String>, Option<String>)>;

fn r2(first: Option<&str>, second: Option<String>) -> Row {
	vec![first.map(|s| s.to_owned()), second]
}

/// The set around the probe: a second class and a second field and method beside the probed ones
/// (the untouched entries), the probe's chain down to `level` with the base values, the entry at
/// `level` in state `e`, and below it (if it is there) its children with the base values.
pub fn build(p: &Probe, level: Level, e: &Entry) -> MSet {
	let mut m = MSet::new(&NAMESPACES);
	let mut sib = MClass { names: r2(Some("B"), Some("U".into())), doc: Some("sd".into()), ..Default::default() };
	sib.fields.insert(("f".into(), "I".into()), MField { names: r2(Some("f"), Some("k".into())), doc: None });
	m.classes.insert("B".into(), sib);
	let at = |l: Level| -> Entry {
		if l == level { e.clone() } else { Some((Some(p.names[node_index(l)].clone()), Some(p.docs[node_index(l)].clone()))) }
	};
	let Some((cn, cd)) = at(Level::Class) else { return m };
	let mut c = MClass { names: r2(Some(&p.class_key), cn), doc: cd, ..Default::default() };
	if p.field_key != ("tf".to_owned(), "I".to_owned()) {
		c.fields.insert(("tf".into(), "I".into()), MField { names: r2(Some("tf"), Some("tg".into())), doc: Some("twin".into()) });
	}
	if p.method_key != ("tm".to_owned(), "()V".to_owned()) {
		c.methods.insert(("tm".into(), "()V".into()), MMethod { names: r2(Some("tm"), Some("tn".into())), doc: None, params: BTreeMap::new() });
	}
	if let Some((n, d)) = at(Level::Field) {
		c.fields.insert(p.field_key.clone(), MField { names: r2(Some(&p.field_key.0), n), doc: d });
	}
	if let Some((n, d)) = at(Level::Method) {
		let mut me = MMethod { names: r2(Some(&p.method_key.0), n), doc: d, params: BTreeMap::new() };
		if p.param_index != 7 {
			me.params.insert(7, MParam { names: r2(None, Some("t7".into())), doc: None });
		}
		if let Some((n, d)) = at(Level::Parameter) {
			me.params.insert(p.param_index, MParam { names: r2(None, n), doc: d });
		}
		c.methods.insert(p.method_key.clone(), me);
	}
	m.classes.insert(p.class_key.clone(), c);
	m
}

/// the diff that carries `info` and `doc` at the probed entry of `level` and nothing above it
pub fn probe_diff(p: &Probe, level: Level, info: Act, doc: Act) -> MDiff {
	let mut d = MDiff::default();
	let mut dc = DClass::default();
	match level {
		Level::Class => { dc.info = info; dc.doc = doc; },
		Level::Field => { dc.fields.insert(p.field_key.clone(), DField { info, doc }); },
		Level::Method => { dc.methods.insert(p.method_key.clone(), DMethod { info, doc, params: BTreeMap::new() }); },
		Level::Parameter => {
			let mut dm = DMethod::default();
			dm.params.insert(p.param_index, DParam { info, doc });
			dc.methods.insert(p.method_key.clone(), dm);
		},
		_ => vcore::machinery_fail("probe_diff: not a level of an entry"),
	}
	d.classes.insert(p.class_key.clone(), dc);
	d
}

// ---------------------------------------------------------------------------------------------
// engine 9: the value space

/// unqualified names (JVMS 4.2.2: at least one character, none of `. ; [ /`; methods also not `< >`)
const ODD_NAMES: &[&str] = &[
	// characters of 2, 3, 4 bytes at the first, a middle, the last position, alone
	"é", "éa", "aé", "aéb", "☃a", "a☃", "a☃b", "😀a", "a😀", "a😀b", "😀",
	// the letters of the line kinds, the header word
	"c", "f", "m", "p", "tiny",
	// blanks are legal in names: inside, at either end, other white space
	"a b", " a", "a ", "a\u{a0}", "\u{2003}a",
	// descriptor tag letters, pieces of descriptors
	"L", "LLong", "I", "V", "(", "()V", "a)",
	// inner class markers
	"$", "a$", "A$B",
	// backslashes: names are not escaped in the text form
	"a\\nb", "\\", "a\\", "\\\\n", "\\t",
	// other spellings of numbers and of nothing
	"0", "null", "-",
];

const ODD_CLASSES: &[&str] = &[
	"é", "p/é", "é/A", "😀/😀", "a/b/c/D", "A$B", "A$", "$", "p/A$1", "c", "tiny", "L", "LA", "p/a b", "p/ A", "A ", "a\\nb", "p/\\", "I", "p/A/A",
];

const ODD_FIELD_DESCS: &[&str] = &["J", "[[I", "[Lp/A;", "LL;", "Lc;", "Lé;", "Lp/a b;", "L😀;", "LI;"];
const ODD_METHOD_DESCS: &[&str] = &["()V", "(Lé;)V", "()Lé;", "([[J)V", "(LL;)LL;", "(IJLc;)Lf;", "(L😀;)V", "(I)I"];
const ODD_INDICES: &[usize] = &[1, 2, 9, 10, 11, 99, 100, 127, 128, 254, 255];

/// comments: what the text form has to escape, what looks like structure, white space, wide characters
const ODD_DOCS: &[&str] = &[
	"c", "tiny\t2\t0", "c\tx\ty", "f", "p",
	" ", "  ", "\u{a0}", "a ", " a", "\u{2003}", "a\u{2028}b", "a\u{85}b",
	"\t", "\ta", "a\t", "a\tb", "\r", "a\r", "\r\n", "a\r\nb", "\n", "\n\n", "a\n", "\na", "\0", "a\0b",
	"\\", "\\\\", "\\n", "\\t", "\\r", "\\0", "\\\t", "a\\",
	"😀", "a😀", "😀a", "☃é", "\u{feff}a",
];

pub struct ValueCounts {
	pub families: u64,
	pub sets: u64,
	pub stats: Stats,
	pub by_slot: BTreeMap<String, u64>,
}

fn dedup_sets(v: Vec<MSet>) -> Vec<MSet> {
	let mut out: Vec<MSet> = Vec::new();
	for m in v {
		if !out.contains(&m) {
			out.push(m);
		}
	}
	out
}

/// every ordered pair of the family through the pair law; the diff of every pair on every other set
fn run_family(eng: &'static Engine, tag: &str, sets: &[MSet], st: &mut Stats) {
	for m in sets {
		if let Err(e) = m.check() {
			vcore::machinery_fail(&format!("value space {tag}: {e}"));
		}
	}
	for a in sets {
		for b in sets {
			eng.judge_pair(a, b, st, &text::STYLES);
			if a == b {
				continue;
			}
			// the diff the real code makes (unchanged names are stated), on every other set
			if let Ok(Ok(qd)) = real_diff(a, b, Order::Sorted, Order::Sorted) {
				st.eval();
				let md = mapmodel::diff_from_quill(&qd);
				for c in sets.iter().filter(|c| *c != a) {
					eng.judge_apply("value-third", &format!("{tag}.diff-of-pair-on-a-third-set"), &[], &md, c, None, 1);
				}
			}
			// the smallest diff, as object and as text, on every other set
			if let Some(rd) = mdiff::diff(a, b) {
				for c in sets.iter().filter(|c| *c != a) {
					eng.judge_apply("value-third", &format!("{tag}.sparse-diff-on-a-third-set"), &[], &rd, c, None, 1);
					eng.judge_text_apply("value-third-text", &format!("{tag}.sparse-diff-on-a-third-set"), &rd, c, 1, &text::STYLES);
				}
			}
		}
	}
}

fn name_family(p: &Probe, level: Level, v: &str) -> Vec<MSet> {
	let i = node_index(level);
	let doc = Some(p.docs[i].clone());
	dedup_sets(vec![
		build(p, level, &None),
		build(p, level, &Some((None, doc.clone()))),
		build(p, level, &Some((Some(p.names[i].clone()), doc.clone()))),
		build(p, level, &Some((Some(v.to_owned()), doc.clone()))),
		build(p, level, &Some((Some(Probe::third_name(level).to_owned()), None))),
	])
}

fn doc_family(p: &Probe, level: Level, v: &str) -> Vec<MSet> {
	let i = node_index(level);
	let name = Some(p.names[i].clone());
	dedup_sets(vec![
		build(p, level, &None),
		build(p, level, &Some((name.clone(), None))),
		build(p, level, &Some((name.clone(), Some(p.docs[i].clone())))),
		build(p, level, &Some((name.clone(), Some(v.to_owned())))),
		build(p, level, &Some((name.clone(), Some("third".to_owned())))),
	])
}

fn key_family(p: &Probe, level: Level) -> Vec<MSet> {
	let i = node_index(level);
	dedup_sets(vec![
		build(p, level, &None),
		build(p, level, &Some((Some(p.names[i].clone()), Some(p.docs[i].clone())))),
		build(p, level, &Some((Some(Probe::third_name(level).to_owned()), None))),
	])
}

/// the values of the target name of the entry at `level`: the odd names, and the names that are
/// something else in the same set (the source name, a sibling's name, the descriptor), and the
/// values a careless comparison takes for the base value
fn name_values(p: &Probe, level: Level) -> Vec<String> {
	let i = node_index(level);
	let base = p.names[i].clone();
	let mut v: Vec<String> = Vec::new();
	match level {
		Level::Class => {
			v.extend(ODD_CLASSES.iter().map(|s| s.to_string()));
			// `A → A`, the other class's key and name, the key in another package
			v.extend([p.class_key.clone(), "B".into(), "U".into(), format!("q/{}", p.class_key)]);
		},
		Level::Method => {
			v.extend(ODD_NAMES.iter().filter(|s| !s.contains('<') && !s.contains('>')).map(|s| s.to_string()));
			v.extend(["<init>".into(), "<clinit>".into(), p.method_key.0.clone(), "tm".into(), "tn".into(), p.field_key.0.clone(), p.names[1].clone()]);
		},
		Level::Field => {
			v.extend(ODD_NAMES.iter().map(|s| s.to_string()));
			v.extend([p.field_key.0.clone(), p.field_key.1.clone(), "tf".into(), "tg".into(), p.method_key.0.clone(), p.names[2].clone()]);
		},
		_ => {
			v.extend(ODD_NAMES.iter().map(|s| s.to_string()));
			v.extend(["t7".into(), p.param_index.to_string(), "7".into(), p.names[1].clone()]);
		},
	}
	// case variants, a prefix, an extension, the last character twice, a blank at either end
	v.extend([base.to_uppercase(), base.to_lowercase(), base[..base.len() - 1].to_owned(), format!("{base}z"), format!("{base}{}", &base[base.len() - 1..]), format!("{base} "), if level == Level::Class { base.replace('/', "/ ") } else { format!(" {base}") }]);
	v.retain(|x| *x != base);
	let mut seen = BTreeSet::new();
	v.retain(|x| seen.insert(x.clone()));
	v
}

pub fn value_space(eng: &'static Engine) -> ValueCounts {
	let base = Probe::base();
	// (slot name, family)
	let mut families: Vec<(String, Vec<MSet>)> = Vec::new();
	for level in NODES {
		for v in name_values(&base, level) {
			families.push((format!("value.{}.name", level.name()), name_family(&base, level, &v)));
		}
		for v in ODD_DOCS {
			families.push((format!("value.{}.comment", level.name()), doc_family(&base, level, v)));
		}
	}
	// keys
	for k in ODD_CLASSES {
		let p = Probe { class_key: k.to_string(), ..base.clone() };
		families.push(("value.class.key".into(), key_family(&p, Level::Class)));
	}
	for n in ODD_NAMES.iter().copied().chain(["gh", "tg", "I"]) {
		let p = Probe { field_key: (n.to_owned(), "I".into()), ..base.clone() };
		families.push(("value.field.key-name".into(), key_family(&p, Level::Field)));
	}
	for d in ODD_FIELD_DESCS {
		// the same name as the field beside it
		for n in ["f", "tf"] {
			let p = Probe { field_key: (n.into(), d.to_string()), ..base.clone() };
			families.push(("value.field.key-descriptor".into(), key_family(&p, Level::Field)));
		}
	}
	for n in ODD_NAMES.iter().copied().filter(|s| !s.contains('<') && !s.contains('>')).chain(["<init>", "<clinit>", "no", "tn", "f"]) {
		let p = Probe { method_key: (n.to_owned(), "(I)V".into()), ..base.clone() };
		families.push(("value.method.key-name".into(), key_family(&p, Level::Method)));
	}
	for d in ODD_METHOD_DESCS {
		for n in ["m", "tm"] {
			let p = Probe { method_key: (n.into(), d.to_string()), ..base.clone() };
			families.push(("value.method.key-descriptor".into(), key_family(&p, Level::Method)));
		}
	}
	for &i in ODD_INDICES {
		let p = Probe { param_index: i, ..base.clone() };
		// with the index as the parameter's name as well
		families.push(("value.parameter.key-index".into(), key_family(&p, Level::Parameter)));
		families.push(("value.parameter.key-index".into(), name_family(&p, Level::Parameter, &i.to_string())));
	}
	let mut by_slot: BTreeMap<String, u64> = BTreeMap::new();
	for (slot, _) in &families {
		*by_slot.entry(slot.clone()).or_insert(0) += 1;
	}
	let sets = families.iter().map(|(_, f)| f.len() as u64).sum();
	let stats = families.par_iter().fold(Stats::new, |mut st, (slot, fam)| {
		vcore::watched(|| format!("value space, {slot}"), || run_family(eng, slot, fam, &mut st));
		st.sample(slot, || json!({"kind": "value-family", "slot": slot, "sets": fam.iter().map(set_json).collect::<Vec<_>>()}));
		st
	}).reduce(Stats::new, Stats::merge);
	ValueCounts { families: families.len() as u64, sets, stats, by_slot }
}

// ---------------------------------------------------------------------------------------------
// engine 10: the stated value is what another namespace holds

/// The probed entry has the name `third` in the target namespace and `v` in the extra namespace
/// (`v = None`: `v` is the source name, two namespaces only). Removals and edits that state `v`
/// as the old value must be refused, those that state `third` apply; an addition collides.
pub fn cross_namespace(eng: &'static Engine) -> u64 {
	let p = Probe::base();
	let mut cases: Vec<(String, MSet, usize, MDiff)> = Vec::new();
	for level in NODES {
		let i = node_index(level);
		let third = Probe::third_name(level).to_owned();
		let two = build(&p, level, &Some((Some(third.clone()), Some(p.docs[i].clone()))));
		let source: Option<String> = match level {
			Level::Class => Some(p.class_key.clone()),
			Level::Field => Some(p.field_key.0.clone()),
			Level::Method => Some(p.method_key.0.clone()),
			_ => None,
		};
		let other = p.names[i].clone();
		let mut targets: Vec<(MSet, usize, String)> = Vec::new();
		if let Some(s) = source {
			targets.push((two.clone(), 1, s));
		}
		for at in [1usize, 2] {
			let mut w = extra::widen(&two, at);
			let t = if at == 1 { 2 } else { 1 };
			// the probed entry's name in the extra namespace
			let c = w.classes.get_mut(&p.class_key).unwrap_or_else(|| vcore::machinery_fail("cross_namespace: no probe class"));
			let row: &mut Row = match level {
				Level::Class => &mut c.names,
				Level::Field => &mut c.fields.get_mut(&p.field_key).unwrap_or_else(|| vcore::machinery_fail("cross_namespace: no field")).names,
				Level::Method => &mut c.methods.get_mut(&p.method_key).unwrap_or_else(|| vcore::machinery_fail("cross_namespace: no method")).names,
				_ => &mut c.methods.get_mut(&p.method_key).and_then(|m| m.params.get_mut(&p.param_index)).unwrap_or_else(|| vcore::machinery_fail("cross_namespace: no parameter")).names,
			};
			row[at] = Some(other.clone());
			if let Err(e) = w.check() {
				vcore::machinery_fail(&format!("cross_namespace: {e}"));
			}
			targets.push((w, t, other.clone()));
		}
		for (target, t, v) in targets {
			for (kind, act) in [
				("remove-states-other-namespace", Act::Remove(v.clone())),
				("edit-states-other-namespace", Act::Edit(v.clone(), "zz".into())),
				("edit-same-states-other-namespace", Act::Edit(v.clone(), v.clone())),
				("add-of-other-namespace-name", Act::Add(v.clone())),
				("remove-states-target-namespace", Act::Remove(third.clone())),
				("edit-to-other-namespace-name", Act::Edit(third.clone(), v.clone())),
			] {
				cases.push((format!("cross-namespace.{}.{kind}", level.name()), target.clone(), t, probe_diff(&p, level, act, Act::None)));
			}
		}
	}
	let n = cases.len() as u64;
	cases.par_iter().for_each(|(lab, target, t, d)| {
		vcore::watched(|| lab.clone(), || {
			eng.judge_apply("cross-namespace", lab, &[], d, target, None, *t);
			if target.n() == 2 {
				eng.judge_text_apply("cross-namespace-text", lab, d, target, *t, &text::STYLES);
			}
		});
	});
	n
}

// ---------------------------------------------------------------------------------------------
// engine 11: long values

/// the characters that end a long value: 1, 2, 3 and 4 bytes in UTF-8
pub const WIDTHS: [char; 4] = ['x', 'é', '☃', '😀'];

fn long_probe(k: usize, ch: char, variant: char) -> Probe {
	let v = |lead: &str| format!("{lead}{variant}{}{ch}", "a".repeat(k));
	Probe {
		class_key: v("p/"),
		field_key: (v("f"), "I".into()),
		method_key: (v("m"), "(I)V".into()),
		param_index: 0,
		names: [v("q/"), v("g"), v("n"), v("p")],
		docs: [v("class "), v("field "), v("method "), v("param ")],
	}
}

/// the one-slot diffs over the probe: at every name and comment slot of the probe, of the set's
/// comment and of the namespace the eight action forms over (the value the full target holds, another
/// value of the same shape), and the change-free line of every entry
fn long_steps(p: &Probe, q: &Probe, ns: [&str; 2], top: [&str; 2]) -> Vec<(String, MDiff)> {
	let forms = |a: &str, b: &str| -> Vec<Act> { act_forms([a, b]) };
	let mut out: Vec<(String, MDiff)> = Vec::new();
	for act in forms(ns[0], ns[1]).into_iter().skip(1) {
		out.push((format!("long.namespace.{}", act.kind()), MDiff { info: act, ..Default::default() }));
	}
	for act in forms(top[0], top[1]).into_iter().skip(1) {
		out.push((format!("long.mappings-comment.{}", act.kind()), MDiff { doc: act, ..Default::default() }));
	}
	for level in NODES {
		let i = node_index(level);
		for act in forms(&p.names[i], &q.names[i]) {
			out.push((format!("long.{}.{}", level.name(), act.kind()), probe_diff(p, level, act, Act::None)));
		}
		for act in forms(&p.docs[i], &q.docs[i]).into_iter().skip(1) {
			out.push((format!("long.{}-comment.{}", level.name(), act.kind()), probe_diff(p, level, Act::None, act)));
		}
	}
	out
}

pub struct LongCounts {
	pub values: u64,
	pub cases: u64,
}

/// `max_k`: the longest run of ASCII characters before the last character
pub fn long_values(eng: &'static Engine, max_k: usize, widths: &[char]) -> LongCounts {
	let mut shapes: Vec<(usize, char)> = Vec::new();
	for k in 0..=max_k {
		for &ch in widths {
			shapes.push((k, ch));
		}
	}
	let cases: u64 = shapes.par_iter().map(|&(k, ch)| {
		let (p, q) = (long_probe(k, ch, '1'), long_probe(k, ch, '2'));
		let long = |lead: &str| format!("{lead}{}{ch}", "a".repeat(k));
		let (ns1, ns2, top1, top2) = (long("named"), long("mapped"), long("top "), long("top two "));
		let steps = long_steps(&p, &q, [&ns1, &ns2], [&top1, &top2]);
		let mut full = build(&p, Level::Class, &Some((Some(p.names[0].clone()), Some(p.docs[0].clone()))));
		full.ns[1] = ns1.clone();
		full.doc = Some(top1.clone());
		// every entry there, no name and no comment anywhere
		let mut bare = full.clone();
		bare.doc = None;
		for c in bare.classes.values_mut() {
			c.names[1] = None;
			c.doc = None;
			for f in c.fields.values_mut() {
				f.names[1] = None;
				f.doc = None;
			}
			for m in c.methods.values_mut() {
				m.names[1] = None;
				m.doc = None;
				for pa in m.params.values_mut() {
					pa.names[1] = None;
					pa.doc = None;
				}
			}
		}
		// the other values everywhere
		let mut other = build(&Probe { names: q.names.clone(), docs: q.docs.clone(), ..p.clone() }, Level::Class, &Some((Some(q.names[0].clone()), Some(q.docs[0].clone()))));
		other.ns[1] = ns2.clone();
		other.doc = Some(top2.clone());
		let mut empty = MSet::new(&NAMESPACES);
		empty.ns[1] = ns1.clone();
		// the class without members; the class with the method without parameters: the entries the
		// one-slot diffs of the levels below speak about are missing
		let mut shell = build(&p, Level::Field, &None);
		shell.ns[1] = ns1.clone();
		if let Some(c) = shell.classes.get_mut(&p.class_key) {
			c.fields.clear();
			c.methods.clear();
		}
		let mut shell2 = build(&p, Level::Parameter, &None);
		shell2.ns[1] = ns1.clone();
		if let Some(me) = shell2.classes.get_mut(&p.class_key).and_then(|c| c.methods.get_mut(&p.method_key)) {
			me.params.clear();
		}
		let targets = [full, bare, other, empty, shell, shell2];
		let mut n = 0u64;
		for (ti, target) in targets.iter().enumerate() {
			if let Err(e) = target.check() {
				vcore::machinery_fail(&format!("long values: {e}"));
			}
			for (lab, d) in &steps {
				if (ti == 4 && !(lab.starts_with("long.field") || lab.starts_with("long.method"))) || (ti == 5 && !lab.starts_with("long.parameter")) {
					continue;
				}
				vcore::watched(|| format!("long values k={k} last={ch:?}: {lab}"), || {
					eng.judge_apply("long", lab, &[], d, target, None, 1);
					eng.judge_text_apply("long-text", lab, d, target, 1, &text::STYLES[..1]);
				});
				n += 1;
			}
		}
		// pairs over different namespaces (outside the statement: the refusal quotes the names; no panic)
		let mut st = Stats::new();
		eng.judge_pair(&targets[0], &targets[2], &mut st, &text::STYLES[..1]);
		n + 1
	}).sum();
	LongCounts { values: shapes.len() as u64, cases }
}

// ---------------------------------------------------------------------------------------------
// engine 12: big texts

pub struct BigCounts {
	pub boundary_texts: u64,
	pub largest_text_bytes: u64,
	pub many_entries: u64,
}

/// a comment that holds every kind of character the text form treats specially
const PAD_TAIL: &str = "é☃😀\\\n\t é☃😀\\n😀";

pub fn big_texts(eng: &'static Engine, boundaries: &[usize]) -> BigCounts {
	let full = initial_sets().into_iter().find(|(n, _)| *n == "fully-named").map(|(_, m)| m).unwrap_or_else(|| vcore::machinery_fail("no fully-named set"));
	// every slot of both classes edited from its first to its second value
	let mut region = MDiff::default();
	for class in 0..CLASSES.len() {
		for level in CLASS_LEVELS {
			let site = Site { level, class };
			let v = site_values(site);
			if v[0].is_empty() || v[1].is_empty() {
				continue;
			}
			region = merge(&region, &single(site, Act::Edit(v[0].to_owned(), v[1].to_owned())));
		}
	}
	// the padding class comes first in the line order of the style: its comment grows byte by byte
	let mut jobs: Vec<(text::Style, &'static str, usize)> = Vec::new();
	let mut largest = 0usize;
	for (style, pad_key) in [(text::Style::Canonical, "A0"), (text::Style::Shuffled, "z/Pad")] {
		let with_pad = |len: usize| -> MDiff {
			let mut d = region.clone();
			d.classes.insert(pad_key.to_owned(), DClass { info: Act::Add("q/Pad".into()), doc: Act::Add(format!("{}{PAD_TAIL}", "x".repeat(len))), ..Default::default() });
			d
		};
		let t0 = text::print(&with_pad(0), style);
		let total0 = t0.len();
		for &boundary in boundaries {
			if boundary < total0 + 8 {
				vcore::machinery_fail("big_texts: boundary inside the unpadded text");
			}
			// from "the whole region lies behind the boundary" to "the whole text lies before it"
			for len in (boundary - total0 - 4)..=(boundary + 4) {
				jobs.push((style, pad_key, len));
				largest = largest.max(total0 + len);
			}
		}
		jobs.push((style, pad_key, 200_000));
		largest = largest.max(total0 + 200_000);
	}
	let n = jobs.len() as u64;
	jobs.par_iter().for_each(|&(style, pad_key, len)| {
		let mut d = region.clone();
		d.classes.insert(pad_key.to_owned(), DClass { info: Act::Add("q/Pad".into()), doc: Act::Add(format!("{}{PAD_TAIL}", "x".repeat(len))), ..Default::default() });
		vcore::watched(|| format!("big text, padding {len}"), || eng.judge_text_apply("big-text", "big-text.every-slot-edited", &d, &full, 1, &[style]));
	});

	// one pair of sets with thousands of entries: every fourth field / parameter unchanged, removed,
	// renamed, with another comment; new ones added
	let mut many = 0u64;
	let mut st = Stats::new();
	for fields in [300usize, 3000] {
		let mut a = MSet::new(&NAMESPACES);
		let mut b = MSet::new(&NAMESPACES);
		let (mut ca, mut cb) = (MClass { names: r2(Some("p/A"), Some("q/X".into())), ..Default::default() }, MClass { names: r2(Some("p/A"), Some("q/X".into())), doc: Some("é".into()), ..Default::default() });
		for i in 0..fields {
			let key = (format!("f{i}"), if i % 2 == 0 { "I".to_owned() } else { "Lp/A;".to_owned() });
			let f = MField { names: r2(Some(&key.0), Some(format!("g{i}"))), doc: if i % 3 == 0 { Some(format!("doc é {i}\n\\")) } else { None } };
			match i % 4 {
				0 => { cb.fields.insert(key.clone(), f.clone()); },
				1 => {},
				2 => { cb.fields.insert(key.clone(), MField { names: r2(Some(&key.0), Some(format!("h{i}"))), doc: f.doc.clone() }); },
				_ => { cb.fields.insert(key.clone(), MField { names: f.names.clone(), doc: Some(format!("other ☃ {i}")) }); },
			}
			ca.fields.insert(key, f);
			if i % 5 == 0 {
				cb.fields.insert((format!("n{i}"), "J".into()), MField { names: r2(Some(&format!("n{i}")), Some(format!("nn{i}"))), doc: None });
			}
		}
		let (mut ma, mut mb) = (MMethod { names: r2(Some("m"), Some("n".into())), doc: None, params: BTreeMap::new() }, MMethod { names: r2(Some("m"), Some("n".into())), doc: Some("md".into()), params: BTreeMap::new() });
		for i in 0..=255usize {
			let pa = MParam { names: r2(None, Some(format!("p{i}"))), doc: if i % 2 == 0 { Some(format!("pd {i}")) } else { None } };
			match i % 4 {
				0 => { mb.params.insert(i, pa.clone()); },
				1 => {},
				2 => { mb.params.insert(i, MParam { names: r2(None, Some(format!("r{i}"))), doc: None }); },
				_ => { mb.params.insert(i, MParam { names: pa.names.clone(), doc: Some("😀".into()) }); },
			}
			if i % 3 != 0 {
				ma.params.insert(i, pa);
			}
		}
		let mdesc = format!("({})V", "I".repeat(255));
		ca.methods.insert(("m".into(), mdesc.clone()), ma);
		cb.methods.insert(("m".into(), mdesc), mb);
		a.classes.insert("p/A".into(), ca);
		b.classes.insert("p/A".into(), cb);
		for (x, y) in [(&a, &b), (&b, &a)] {
			vcore::watched(|| format!("pair of sets with {fields} fields"), || eng.judge_pair(x, y, &mut st, &text::STYLES));
			many += 1;
			if let Some(d) = mdiff::diff(x, y) {
				largest = largest.max(text::print(&d, text::Style::Canonical).len());
			}
		}
	}
	if st.get("pair:text-inverse-holds") != many || st.get("pair:inverse-holds") != many {
		// reported as differences by judge_pair already (or a machinery problem of the generator)
		eng.ctx.note(format!("big pairs: outcomes {:?}", st.outcomes));
	}
	BigCounts { boundary_texts: n, largest_text_bytes: largest as u64, many_entries: st.get("pair:text-inverse-holds") }
}

// ---------------------------------------------------------------------------------------------
// engine 13: the file as the environment serves it (outside the statement: panics and hangs only)

fn read_bytes(eng: &Engine, bytes: &[u8]) -> Result<Result<MappingsDiff, String>, vcore::Panic> {
	let path = eng.scratch.join(format!("{}.bytes.tinydiff", MY_SHARD.with(|s| *s)));
	if let Err(e) = std::fs::write(&path, bytes) {
		vcore::machinery_fail(&format!("cannot write {path:?}: {e}"));
	}
	vcore::guard(|| quill::tiny_v2_diff::read_file(&path).map_err(|e| format!("{e:#}")))
}

pub fn judge_bytes(eng: &Engine, name: &str, bytes: &[u8], st: &mut Stats) {
	let full = initial_sets().into_iter().find(|(n, _)| *n == "fully-named").map(|(_, m)| m).unwrap_or_else(|| vcore::machinery_fail("no fully-named set"));
	st.eval();
	let replay = || json!({"kind": "damaged-bytes", "name": name, "hex": vcore::hex(bytes)}).to_string();
	match read_bytes(eng, bytes) {
		Err(p) => {
			eng.ctx.diff(&format!("text:panic@{}", p.file()), &format!("tiny_v2_diff::read_file panicked at {}: {} ({name})", p.site, p.msg), replay);
			st.outcome("damaged-bytes:read-panicked");
		},
		Ok(Err(_)) => st.outcome("damaged-bytes:read-refused"),
		Ok(Ok(rd)) => {
			st.outcome("damaged-bytes:read-accepted");
			st.eval();
			if let Real::Panicked(p) = real_apply_obj(&rd, &full, Order::Sorted, 1) {
				eng.ctx.diff(&format!("apply:panic@{}", p.file()), &format!("apply_to panicked at {}: {} on the diff read from damaged bytes ({name})", p.site, p.msg), replay);
			}
		},
	}
}

pub fn damaged_bytes(eng: &'static Engine, max_k: usize) -> Stats {
	let mut cases: Vec<(String, Vec<u8>)> = Vec::new();
	let everything = |f: &dyn Fn(Site) -> Act| -> MDiff {
		let mut d = MDiff::default();
		for class in 0..CLASSES.len() {
			for level in CLASS_LEVELS {
				let site = Site { level, class };
				d = merge(&d, &single(site, f(site)));
			}
		}
		d
	};
	let texts = [
		text::print(&everything(&|s| { let v = site_values(s); if v[0].is_empty() { Act::Add(v[1].to_owned()) } else { Act::Edit(v[0].to_owned(), v[1].to_owned()) } }), text::Style::Canonical),
		text::print(&everything(&|s| Act::Add(site_values(s)[1].to_owned())), text::Style::Shuffled),
	];
	for (ti, t) in texts.iter().enumerate() {
		let b = t.as_bytes();
		// the file ends after every byte (also inside a character, inside an escape, inside a line)
		for cut in 0..b.len() {
			cases.push((format!("text {ti} cut after {cut} bytes"), b[..cut].to_vec()));
		}
		// one byte that is not UTF-8 in front of every byte of the first lines, and in place of it
		for at in 0..b.len().min(160) {
			let mut v = b.to_vec();
			v.insert(at, 0xff);
			cases.push((format!("text {ti}: byte ff before byte {at}"), v));
			let mut v = b.to_vec();
			v[at] = 0xc3;
			cases.push((format!("text {ti}: byte c3 in place of byte {at}"), v));
		}
		let mut v = vec![0xef, 0xbb, 0xbf];
		v.extend_from_slice(b);
		cases.push((format!("text {ti}: byte order mark"), v));
		cases.push((format!("text {ti}: UTF-16"), t.encode_utf16().flat_map(|u| u.to_le_bytes()).collect()));
	}
	// long lines with a wide last character and one column too many / too few (the refusal quotes the line)
	for k in 0..=max_k {
		for ch in WIDTHS {
			let v = format!("{}{ch}", "a".repeat(k));
			for (name, text) in [
				("comment line with a column too many", format!("tiny\t2\t0\nc\tp/A\t\tq/X\n\tc\t{v}\t{v}2\t{v}\n")),
				("class line with a column too many", format!("tiny\t2\t0\nc\tp/{v}\tq/{v}\tq/{v}2\t{v}\n")),
				("field line with a column too few", format!("tiny\t2\t0\nc\tp/A\n\tf\t{v}\n")),
				("line indented too far", format!("tiny\t2\t0\nc\tp/A\n\t\t\tc\t{v}\t{v}2\n")),
				("parameter with a bad index", format!("tiny\t2\t0\nc\tp/A\n\tm\t()V\tm\n\t\tp\t{v}\t\t{v}\n")),
				("parameter with a source name", format!("tiny\t2\t0\nc\tp/A\n\tm\t()V\tm\n\t\tp\t1\t{v}\t{v}\n")),
				("two comments", format!("tiny\t2\t0\nc\tp/A\n\tc\t{v}\n\tc\t\t{v}\n")),
				("the same class twice", format!("tiny\t2\t0\nc\tp/{v}\t\tq/{v}\nc\tp/{v}\t\tq/{v}\n")),
				("the same field twice", format!("tiny\t2\t0\nc\tp/A\n\tf\tI\t{v}\t{v}\n\tf\tI\t{v}\t{v}2\n")),
				("bad descriptor", format!("tiny\t2\t0\nc\tp/A\n\tf\t{v}\t{v}\n")),
				("bad class name", format!("tiny\t2\t0\nc\tp/{v};\n")),
				("bad header", format!("tiny\t2\t0\t{v}\n")),
				("line after the end", format!("tiny\t2\t0\nc\tp/A\n\t\tx\t{v}\n")),
			] {
				cases.push((format!("{name}, {k} characters and {ch:?}"), text.into_bytes()));
			}
		}
	}
	let mut st = cases.par_iter().fold(Stats::new, |mut st, (name, bytes)| {
		vcore::watched(|| format!("damaged bytes: {name}"), || judge_bytes(eng, name, bytes, &mut st));
		st
	}).reduce(Stats::new, Stats::merge);
	// the name of the file (the refusal quotes the path): long, with wide characters, blanks
	for k in (0..=max_k).step_by(4) {
		for ch in WIDTHS {
			let dir = eng.scratch.join(format!("d {}{ch}", "a".repeat(k)));
			if std::fs::create_dir_all(&dir).is_err() {
				continue;
			}
			let path = dir.join(format!("{}{ch} .tinydiff", "a".repeat(k)));
			for (what, content) in [("refused", "tiny\t2\t0\nc\n"), ("accepted", "tiny\t2\t0\nc\tp/A\t\tq/X\n")] {
				if std::fs::write(&path, content).is_err() {
					continue;
				}
				st.eval();
				match vcore::guard(|| quill::tiny_v2_diff::read_file(&path).map_err(|e| format!("{e:#}"))) {
					Err(p) => eng.ctx.diff(&format!("text:panic@{}", p.file()), &format!("tiny_v2_diff::read_file panicked at {}: {} (file name of {k} characters and {ch:?})", p.site, p.msg), || format!("read_file({path:?}) with the content {content:?}")),
					Ok(Err(_)) => st.outcome(&format!("damaged-bytes:odd-path-{what}-content:refused")),
					Ok(Ok(_)) => st.outcome(&format!("damaged-bytes:odd-path-{what}-content:read")),
				}
			}
		}
	}
	// a path that does not exist; a directory
	for (name, path) in [("missing file", eng.scratch.join("no-such-file.tinydiff")), ("directory", eng.scratch.clone())] {
		st.eval();
		match vcore::guard(|| quill::tiny_v2_diff::read_file(&path).map_err(|e| format!("{e:#}"))) {
			Err(p) => eng.ctx.diff(&format!("text:panic@{}", p.file()), &format!("tiny_v2_diff::read_file panicked at {}: {} ({name})", p.site, p.msg), || format!("read_file of a {name}")),
			Ok(Err(_)) => st.outcome("damaged-bytes:path-refused"),
			Ok(Ok(_)) => eng.ctx.diff("text:read-of-nothing-accepted", &format!("tiny_v2_diff::read_file returned Ok for a {name}"), || format!("read_file of a {name}")),
		}
	}
	st
}

// ---------------------------------------------------------------------------------------------
// engine 14: names of namespaces

pub struct NamespaceCounts {
	pub stats: Stats,
	pub resembling_targets: u64,
	pub resembling_cases: u64,
}

/// names that only resemble the target namespace `named`
const RESEMBLING: &[&str] = &["Named", "NAMED", "name", "nam", "n", "named2", "namedd", "named ", " named", "named\t", "named\0", "official named", "named,official", "1"];

pub fn namespace_names(eng: &'static Engine) -> NamespaceCounts {
	// (a) the argument resembles a namespace of the target: must be refused
	let mut cases: Vec<(MSet, Step)> = Vec::new();
	for (_, m) in initial_sets() {
		for s in steps_for(&m, Pairs::ParentChild, 1) {
			if s.parts.len() == 1 {
				cases.push((m.clone(), s));
			}
		}
	}
	let stats = cases.into_par_iter().fold(Stats::new, |mut st, (m, s)| {
		let lab = label(&s.parts);
		let qd = quill_diff(&s.diff, Order::Sorted);
		for name in RESEMBLING {
			st.eval();
			let real = vcore::watched(|| format!("namespace argument {name:?}: {lab}"), || real_apply_named::<2>(&qd, &m, Order::Sorted, name));
			let replay = || format!("{}\n\napply_to(target, {name:?})\nreal: {}\n", json!({"kind": "namespace-argument", "name": name, "slots": lab, "target": set_json(&m), "diff": diff_json(&s.diff)}), real.render());
			match &real {
				Real::Panicked(p) => {
					eng.ctx.diff(&format!("apply:panic@{}", p.file()), &format!("apply_to panicked at {}: {} (namespace argument {name:?})", p.site, p.msg), replay);
					st.outcome("namespace-argument:resembling:panicked");
				},
				Real::Refused(_) => st.outcome("namespace-argument:resembling:refused"),
				other => {
					eng.ctx.diff("apply:unknown-namespace-accepted", &format!("apply_to returned Ok for the target namespace {name:?}, which the target does not have (it has {:?})", m.ns), replay);
					st.outcome(&format!("namespace-argument:resembling:{}", other.class()));
				},
			}
		}
		st
	}).reduce(Stats::new, Stats::merge);

	// (b) three namespaces, the other one resembles the target namespace; either order
	let mut targets: Vec<(MSet, usize)> = Vec::new();
	for (_, m) in initial_sets() {
		// (not a value a namespace action of the alphabet renames to: the statement does not say what two namespaces of one name are)
		for other in ["name", "named2", "Named", "official2"] {
			for at in [1usize, 2] {
				let mut w = extra::widen(&m, at);
				w.ns[at] = other.to_owned();
				targets.push((w, if at == 1 { 2 } else { 1 }));
			}
		}
	}
	let resembling_cases: u64 = targets.par_iter().map(|(w, t)| {
		let mut steps = steps_for(w, Pairs::ParentChild, *t);
		// namespace actions that state the name of another namespace as the old name
		for (k, other) in w.ns.iter().enumerate() {
			if k != *t {
				for act in [Act::Edit(other.clone(), "zz".into()), Act::Edit(other.clone(), other.clone()), Act::Remove(other.clone()), Act::Add(other.clone())] {
					steps.push(Step { parts: vec![], diff: MDiff { info: act, ..Default::default() } });
				}
			}
		}
		steps.par_iter().map(|s| {
			let lab = if s.parts.is_empty() { format!("namespace.{}.other-namespace-stated", s.diff.info.kind()) } else { label(&s.parts) };
			vcore::watched(|| format!("resembling namespaces {:?}, target {t}: {lab}", w.ns), || {
				eng.judge_apply("resembling", &lab, &[], &s.diff, w, None, *t);
			});
			1u64
		}).sum::<u64>()
	}).sum();
	// the same namespace actions on the two-namespace sets
	for (_, m) in initial_sets() {
		for act in [Act::Edit(m.ns[0].clone(), "zz".into()), Act::Edit(m.ns[0].clone(), m.ns[0].clone()), Act::Remove(m.ns[0].clone()), Act::Add(m.ns[0].clone())] {
			let d = MDiff { info: act, ..Default::default() };
			eng.judge_apply("resembling", &format!("namespace.{}.other-namespace-stated", d.info.kind()), &[], &d, &m, None, 1);
		}
	}
	NamespaceCounts { stats, resembling_targets: targets.len() as u64, resembling_cases }
}
