//! C04 — the textual `.tinydiff` leg: what a diff can say in text, two line orders of the reference
//! printer, the exhaustive space of comment strings that need escaping, and the sweep of damaged
//! texts (judged for panics and hangs only).
//!
//! The format (from the format description of Tiny v2 and the diff fixtures of the repository):
//! the lines of Tiny v2, where an entry line carries the key (in the first namespace) followed by
//! the two columns `old <TAB> new` of the target namespace, a parameter line has an empty source
//! column, and a comment line is `c <TAB> old <TAB> new`. An empty column is "absent"; a backslash
//! is written `\\`, a line break `\n`, a carriage return `\r`, a TAB `\t` and a NUL character `\0`.

use super::*;

#[derive(Clone, Copy, Debug, PartialEq, Eq)]
pub enum Style {
	/// the reference printer of `mapmodel`: keys ascending, comment first, fields before methods
	Canonical,
	/// the same lines with every sibling order turned around: keys descending, methods before
	/// fields, parameters before the method's comment, comments last
	Shuffled,
}

pub const STYLES: [Style; 2] = [Style::Canonical, Style::Shuffled];

impl Style {
	pub fn name(self) -> &'static str {
		match self {
			Style::Canonical => "canonical line order",
			Style::Shuffled => "reversed sibling order, comments last",
		}
	}
}

fn ok_name(a: &Act) -> bool {
	match a {
		Act::None => true,
		Act::Add(b) => !b.is_empty(),
		Act::Remove(a) => !a.is_empty(),
		Act::Edit(a, b) => !a.is_empty() && !b.is_empty() && a != b,
	}
}

/// A comment can be written if it is not empty (an empty column is "absent"). Backslashes, line
/// breaks, carriage returns, TABs and NUL characters are written with the escapes of Tiny v2
/// (backslash followed by backslash, `n`, `r`, `t`, `0`).
fn ok_doc(a: &Act) -> bool {
	let f = |s: &String| !s.is_empty();
	match a {
		Act::None => true,
		Act::Add(b) => f(b),
		Act::Remove(a) => f(a),
		Act::Edit(a, b) => f(a) && f(b) && a != b,
	}
}

/// Can this (normalized) diff be written as `.tinydiff` text and mean the same when read?
pub fn printable(d: &MDiff) -> bool {
	d.info.is_none() && d.doc.is_none()
		&& d.classes.values().all(|c| ok_name(&c.info) && ok_doc(&c.doc)
			&& c.fields.values().all(|f| ok_name(&f.info) && ok_doc(&f.doc))
			&& c.methods.values().all(|m| ok_name(&m.info) && ok_doc(&m.doc) && m.params.values().all(|p| ok_name(&p.info) && ok_doc(&p.doc))))
}

fn cells(a: &Act, escape: bool) -> String {
	let (x, y) = a.to_tuple();
	let f = |s: Option<String>| match s {
		Some(s) if escape => mapmodel::tiny::escape(&s),
		Some(s) => s,
		None => String::new(),
	};
	format!("\t{}\t{}", f(x), f(y))
}

pub fn print(d: &MDiff, style: Style) -> String {
	if style == Style::Canonical {
		return mdiff::print(d);
	}
	let mut o = String::from("tiny\t2\t0\n");
	for (k, c) in d.classes.iter().rev() {
		o.push_str(&format!("c\t{k}{}\n", cells(&c.info, false)));
		for ((name, desc), m) in c.methods.iter().rev() {
			o.push_str(&format!("\tm\t{desc}\t{name}{}\n", cells(&m.info, false)));
			for (idx, p) in m.params.iter().rev() {
				o.push_str(&format!("\t\tp\t{idx}\t{}\n", cells(&p.info, false)));
				if !p.doc.is_none() {
					o.push_str(&format!("\t\t\tc{}\n", cells(&p.doc, true)));
				}
			}
			if !m.doc.is_none() {
				o.push_str(&format!("\t\tc{}\n", cells(&m.doc, true)));
			}
		}
		for ((name, desc), f) in c.fields.iter().rev() {
			o.push_str(&format!("\tf\t{desc}\t{name}{}\n", cells(&f.info, false)));
			if !f.doc.is_none() {
				o.push_str(&format!("\t\tc{}\n", cells(&f.doc, true)));
			}
		}
		if !c.doc.is_none() {
			o.push_str(&format!("\tc{}\n", cells(&c.doc, true)));
		}
	}
	o
}

/// What the statement demands of applying the text form of `d` (`nd` = `normalize(d)`): two equal
/// columns say "no action" in the text, so the text form of `Edit(a, a)` says what `nd` says. Where
/// the object form would have to be refused because that `a` is not the target's value, the text
/// still states an old value that does not match: a refusal is accepted as well.
pub fn expect(d: &MDiff, nd: &MDiff, target: &MSet, t: usize) -> mdiff::Expect {
	let mut e = mdiff::apply(nd, target, t);
	if nd != d && mdiff::apply(d, target, t).result.is_none() {
		e.may_refuse = true;
	}
	e
}

// ---------------------------------------------------------------------------------------------
// the escape space

/// letters, the letter that follows a backslash in the line-break escape, the backslash, a line
/// break, a character outside ASCII (two bytes in UTF-8), a blank (trimmed by careless line handling)
pub const ESCAPE_ALPHABET: [char; 6] = ['a', 'n', '\\', '\n', 'é', ' '];
/// the other escapes of Tiny v2 (carriage return, TAB, NUL) with the letters that follow the backslash
/// in their escapes, the backslash and a character of four bytes
pub const ESCAPE_ALPHABET_2: [char; 8] = ['\\', 't', 'r', '0', '\t', '\r', '\0', '😀'];
/// a value that no string over the alphabet equals
const OTHER: &str = "z";

pub fn set_slot(m: &mut MSet, site: Site, v: Option<String>) {
	let s = &CLASSES[site.class];
	let c = m.classes.get_mut(s.key).unwrap_or_else(|| vcore::machinery_fail("set_slot: class missing"));
	let slot: &mut Option<String> = match site.level {
		Level::ClassComment => &mut c.doc,
		Level::FieldComment => &mut c.fields.get_mut(&fkey(s)).unwrap_or_else(|| vcore::machinery_fail("set_slot: field missing")).doc,
		Level::MethodComment => &mut c.methods.get_mut(&mkey(s)).unwrap_or_else(|| vcore::machinery_fail("set_slot: method missing")).doc,
		Level::ParameterComment => &mut c.methods.get_mut(&mkey(s)).and_then(|m| m.params.get_mut(&s.param_index)).unwrap_or_else(|| vcore::machinery_fail("set_slot: parameter missing")).doc,
		_ => vcore::machinery_fail("set_slot: not a comment slot of an entry"),
	};
	*slot = v;
}

fn needs_escape(s: &str) -> bool {
	s.contains(['\\', '\n', '\r', '\t', '\0'])
}

pub struct EscapeCounts {
	pub strings: u64,
	pub strings_with_escape_and_non_ascii: u64,
	pub string_pairs: u64,
}

/// Every string over `alphabet` of length 1..=`max_len` as the comment of an addition, a
/// removal, the new and the old side of an edit, at all four comment levels; every ordered pair of
/// different strings of length 1..=`pair_len` as the two sides of one edit and as (stated old value,
/// actual value) of a removal that must be refused. All through text.
pub fn escape_space(eng: &'static Engine, alphabet: &'static [char], max_len: usize, pair_len: usize) -> EscapeCounts {
	let full = initial_sets().into_iter().find(|(n, _)| *n == "fully-named").map(|(_, m)| m).unwrap_or_else(|| vcore::machinery_fail("no fully-named set"));
	let k = alphabet.len();
	let total = vcore::enumerate::strings_count(k, max_len);
	let string = |max: usize, i: u64| -> String { vcore::enumerate::string_nth(alphabet, max, i).into_iter().collect() };
	let both = (1..total).into_par_iter().map(|i| {
		let s = string(max_len, i);
		vcore::watched(|| format!("escape space, string {s:?}"), || {
			for (li, level) in HELD_COMMENT_LEVELS.into_iter().enumerate() {
				let site = Site { level, class: (i as usize + li) % CLASSES.len() };
				let with = |v: Option<&str>| {
					let mut m = full.clone();
					set_slot(&mut m, site, v.map(|x| x.to_owned()));
					m
				};
				let lab = format!("{}.escape", level.name());
				eng.judge_text_apply("escape-text", &format!("{lab}.add"), &single(site, Act::Add(s.clone())), &with(None), 1, &STYLES);
				eng.judge_text_apply("escape-text", &format!("{lab}.remove"), &single(site, Act::Remove(s.clone())), &with(Some(&s)), 1, &STYLES);
				eng.judge_text_apply("escape-text", &format!("{lab}.edit-to"), &single(site, Act::Edit(OTHER.to_owned(), s.clone())), &with(Some(OTHER)), 1, &STYLES);
				eng.judge_text_apply("escape-text", &format!("{lab}.edit-from"), &single(site, Act::Edit(s.clone(), OTHER.to_owned())), &with(Some(&s)), 1, &STYLES);
				// inconsistent: the stated old value is not the target's
				eng.judge_text_apply("escape-text", &format!("{lab}.remove-other"), &single(site, Act::Remove(s.clone())), &with(Some(OTHER)), 1, &STYLES);
			}
		});
		u64::from(needs_escape(&s) && !s.is_ascii())
	}).sum();
	let short = vcore::enumerate::strings_count(k, pair_len);
	let pairs: u64 = (1..short).into_par_iter().map(|i| {
		let a = string(pair_len, i);
		let mut n = 0;
		for j in 1..short {
			if i == j {
				continue;
			}
			let b = string(pair_len, j);
			let site = Site { level: HELD_COMMENT_LEVELS[((i + j) % 4) as usize], class: (i % 2) as usize };
			let mut m = full.clone();
			set_slot(&mut m, site, Some(a.clone()));
			let lab = format!("{}.escape-pair", site.level.name());
			vcore::watched(|| format!("escape space, strings {a:?} {b:?}"), || {
				eng.judge_text_apply("escape-text", &format!("{lab}.edit"), &single(site, Act::Edit(a.clone(), b.clone())), &m, 1, &STYLES);
				// the target has `a`, the diff states `b`: must be refused, whatever the two look like in text
				eng.judge_text_apply("escape-text", &format!("{lab}.remove-other"), &single(site, Act::Remove(b.clone())), &m, 1, &STYLES);
				eng.judge_text_apply("escape-text", &format!("{lab}.edit-other"), &single(site, Act::Edit(b.clone(), a.clone())), &m, 1, &STYLES);
			});
			n += 1;
		}
		n
	}).sum();
	EscapeCounts { strings: total - 1, strings_with_escape_and_non_ascii: both, string_pairs: pairs }
}

// ---------------------------------------------------------------------------------------------
// damaged texts: outside the statement, judged for panics and hangs only

/// a diff that has every kind of line, and the actions given by `f` in every slot
fn everything(f: impl Fn(Site) -> Act) -> MDiff {
	let mut d = MDiff::default();
	for class in 0..CLASSES.len() {
		for level in CLASS_LEVELS {
			let site = Site { level, class };
			d = merge(&d, &single(site, f(site)));
		}
	}
	d
}

pub fn damaged_texts(eng: &'static Engine) -> Stats {
	let full = initial_sets().into_iter().find(|(n, _)| *n == "fully-named").map(|(_, m)| m).unwrap_or_else(|| vcore::machinery_fail("no fully-named set"));
	let texts: Vec<String> = vec![
		print(&everything(|s| { let v = site_values(s); Act::Edit(v[0].to_owned(), v[1].to_owned()) }), Style::Canonical),
		print(&everything(|s| Act::Add(site_values(s)[1].to_owned())), Style::Shuffled),
		print(&everything(|s| if NODE_LEVELS.contains(&s.level) { Act::None } else { Act::Remove(site_values(s)[1].to_owned()) }), Style::Canonical),
	];
	let mut cases: Vec<(String, String)> = Vec::new();
	for (ti, text) in texts.iter().enumerate() {
		let lines: Vec<&str> = text.lines().collect();
		let join = |v: Vec<String>| v.join("\n") + "\n";
		for i in 0..lines.len() {
			let owned = || lines.iter().map(|l| l.to_string()).collect::<Vec<String>>();
			let mut add = |name: &str, f: &dyn Fn(&mut Vec<String>)| {
				let mut v = owned();
				f(&mut v);
				cases.push((format!("text {ti}, line {i}: {name}"), join(v)));
			};
			add("deleted", &|v| { v.remove(i); });
			add("duplicated", &|v| { let l = v[i].clone(); v.insert(i, l); });
			add("indented", &|v| v[i] = format!("\t{}", v[i]));
			add("indented twice", &|v| v[i] = format!("\t\t{}", v[i]));
			add("unindented", &|v| v[i] = v[i].strip_prefix('\t').unwrap_or("").to_owned());
			add("extra column", &|v| v[i] = format!("{}\tx", v[i]));
			add("last column dropped", &|v| v[i] = v[i].rsplit_once('\t').map(|(a, _)| a.to_owned()).unwrap_or_default());
			add("two last columns dropped", &|v| v[i] = v[i].rsplit_once('\t').and_then(|(a, _)| a.rsplit_once('\t')).map(|(a, _)| a.to_owned()).unwrap_or_default());
			add("unknown kind", &|v| { let t = v[i].trim_start_matches('\t').len(); let ind = v[i].len() - t; v[i] = format!("{}x{}", "\t".repeat(ind), v[i][ind..].split_once('\t').map(|(_, r)| format!("\t{r}")).unwrap_or_default()); });
			add("swapped with next", &|v| if i + 1 < v.len() { v.swap(i, i + 1) });
			add("empty line before", &|v| v.insert(i, String::new()));
			add("columns emptied", &|v| v[i] = v[i].chars().filter(|c| *c == '\t').collect());
			add("second comment", &|v| { let ind = v[i].len() - v[i].trim_start_matches('\t').len(); v.insert(i + 1, format!("{}c\t\tsecond", "\t".repeat(ind + 1))); });
			add("parameter with source name below", &|v| { let ind = v[i].len() - v[i].trim_start_matches('\t').len(); v.insert(i + 1, format!("{}p\t3\tsrc\t\tnew", "\t".repeat(ind + 1))); });
			add("parameter with bad index below", &|v| { let ind = v[i].len() - v[i].trim_start_matches('\t').len(); v.insert(i + 1, format!("{}p\t-1\t\t\tnew", "\t".repeat(ind + 1))); });
		}
		cases.push((format!("text {ti}: no final line end"), text.trim_end_matches('\n').to_owned()));
		cases.push((format!("text {ti}: CR LF"), text.replace('\n', "\r\n")));
		cases.push((format!("text {ti}: blank line at the end"), format!("{text}\n")));
		cases.push((format!("text {ti}: header of a mapping file"), text.replacen("tiny\t2\t0", "tiny\t2\t0\tofficial\tnamed", 1)));
		cases.push((format!("text {ti}: other version"), text.replacen("tiny\t2\t0", "tiny\t2\t1", 1)));
		cases.push((format!("text {ti}: header twice"), format!("tiny\t2\t0\n{text}")));
	}
	cases.push(("empty file".into(), String::new()));
	cases.push(("only a line end".into(), "\n".into()));
	cases.push(("header only".into(), "tiny\t2\t0\n".into()));
	cases.push(("header cut".into(), "tiny\t2".into()));
	cases.push(("not UTF-8 free text".into(), "tiny\t2\t0\nc\t\u{0}\t\u{feff}\t\u{0}\n".into()));
	cases.into_par_iter().fold(Stats::new, |mut st, (name, text)| {
		vcore::watched(|| format!("damaged text: {name}"), || {
			st.eval();
			match eng.read_text(&text) {
				Err(p) => {
					eng.ctx.diff(&format!("text:panic@{}", p.file()), &format!("tiny_v2_diff::read_file panicked at {}: {} ({name})", p.site, p.msg), || json!({"kind": "damaged-text", "name": name, "text": text}).to_string());
					st.outcome("damaged-text:read-panicked");
				},
				Ok(Err(_)) => st.outcome("damaged-text:read-refused"),
				Ok(Ok(rd)) => {
					st.outcome("damaged-text:read-accepted");
					st.eval();
					// whatever was read must not make apply_to panic either
					if let Real::Panicked(p) = real_apply_obj(&rd, &full, Order::Sorted, 1) {
						eng.ctx.diff(&format!("apply:panic@{}", p.file()), &format!("apply_to panicked at {}: {} on the diff read from a damaged text ({name})", p.site, p.msg), || json!({"kind": "damaged-text", "name": name, "text": text}).to_string());
					}
				},
			}
		});
		st
	}).reduce(Stats::new, Stats::merge)
}
